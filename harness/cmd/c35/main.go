// C35 harness: pkg/auth — Authenticator.GenerateKey / RefreshKey / Enforce and
// PermissionCheckHandler, against the Coq model Aurora.C35.
//
// The authenticator under test is the real one (auth.New). The model abstracts
// AES-GCM and encoding/json; for every case the harness records what the real
// primitives return (the authenticator's own gcm through the verif hook
// pkg/auth/export_verif.go; encoding/json on a mirror of authRecord), so the
// correspondence compares the logic around them: base64, slicing at the nonce
// size, expiry arithmetic and test, the casbin policy, header parsing.
package main

import (
	"encoding/base64"
	"encoding/json"
	"errors"
	"fmt"
	"io"
	"math"
	"math/big"
	"net/http"
	"net/http/httptest"
	"net/url"
	"regexp"
	"strings"
	"time"

	"github.com/gauss-project/aurorafs/pkg/auth"
	"github.com/gauss-project/aurorafs/pkg/logging"
	"verifharness/hx"
)

// mirror of auth.authRecord (same field types and tags)
type rec struct {
	Role   string    `json:"r"`
	Expiry time.Time `json:"e"`
}

type jcase struct {
	Kind   string      `json:"kind"` // b64dec b64enc enforce generate refresh handler
	Tok    string      `json:"tok,omitempty"`
	Data   string      `json:"data,omitempty"` // hex
	Role   string      `json:"role,omitempty"`
	D      int64       `json:"d,omitempty"`
	Qs     [][2]string `json:"qs,omitempty"`
	Header string      `json:"header,omitempty"`
	Path   string      `json:"path,omitempty"`
	Method string      `json:"method,omitempty"`
	Note   string      `json:"note,omitempty"`
}

var (
	run   *hx.Run
	a     *auth.Authenticator // node under test
	other *auth.Authenticator // a different node (different key)
	nsz   int
)

func S(s string) string { return CB([]byte(s)) }

// CB renders a byte string as the compact literal of Corr.v: (X 0x1<hex>%N)
func CB(b []byte) string {
	if len(b) == 0 {
		return "(@nil N)"
	}
	return "(X 0x1" + hx.Hex(b) + "%N)"
}

func zlit(v *big.Int) string {
	if v.Sign() < 0 {
		return "(" + v.String() + ")%Z"
	}
	return v.String() + "%Z"
}
func znano(t time.Time) *big.Int {
	v := new(big.Int).Mul(big.NewInt(t.Unix()), big.NewInt(1000000000))
	return v.Add(v, big.NewInt(int64(t.Nanosecond())))
}
func z64(v int64) string { return zlit(big.NewInt(v)) }

// ---- the real primitives, as tables -------------------------------------------------

type tables struct {
	decoded   bool
	data      []byte
	nonce, ct []byte
	opened    bool
	pt        []byte
	parsed    bool
	role      string
	exp       time.Time
}

func mkTables(tok string) tables {
	var t tables
	data, err := base64.StdEncoding.DecodeString(tok)
	if err != nil {
		return t
	}
	t.decoded, t.data = true, data
	if len(data) < nsz {
		t.nonce = data
		return t
	}
	t.nonce, t.ct = data[:nsz], data[nsz:]
	pt, err := a.VerifOpen(t.nonce, t.ct)
	if err != nil {
		return t
	}
	t.opened, t.pt = true, pt
	var r rec
	if err := json.Unmarshal(pt, &r); err != nil {
		return t
	}
	t.parsed, t.role, t.exp = true, r.Role, r.Expiry
	return t
}

func (t tables) coq() string {
	op := "None"
	if t.opened {
		op = hx.CoqSome(CB(t.pt))
	}
	rc := "None"
	if t.parsed {
		rc = hx.CoqSome(hx.CoqPair(S(t.role), zlit(znano(t.exp))))
	}
	return hx.CoqApp("Build_tables", CB(t.nonce), CB(t.ct), op, rc)
}

// sealed: what an issued token is made of
func sealedCoq(tok string, ok bool) (string, tables) {
	if !ok {
		return hx.CoqApp("Build_sealed", "(@nil N)", "(@nil N)", "(@nil N)", "(@nil N)", "0%Z"), tables{}
	}
	t := mkTables(tok)
	return hx.CoqApp("Build_sealed", CB(t.nonce), CB(t.ct), CB(t.pt), S(t.role), zlit(znano(t.exp))), t
}

// ---- observation of errors ----------------------------------------------------------

func classify(err error) string {
	var ce base64.CorruptInputError
	var se *json.SyntaxError
	var ue *json.UnmarshalTypeError
	var pe *time.ParseError
	switch {
	case errors.As(err, &ce):
		return "EDecode"
	case errors.Is(err, auth.ErrTokenExpired):
		return "EExpired"
	case errors.Is(err, auth.ErrExpiry):
		return "EZeroExpiry"
	case errors.As(err, &se), errors.As(err, &ue), errors.As(err, &pe),
		strings.HasPrefix(err.Error(), "Time."), strings.HasPrefix(err.Error(), "parsing time"),
		strings.HasPrefix(err.Error(), "json:"):
		return "EJson"
	case strings.HasPrefix(err.Error(), "cipher:"), err.Error() == "malformed ciphertext":
		return "EDecrypt"
	}
	return "EOther"
}

func resBool(panicked bool, v bool, err error) string {
	switch {
	case panicked:
		return "Panic"
	case err != nil:
		return "(Err " + classify(err) + ")"
	}
	return "(Ok " + hx.CoqBool(v) + ")"
}
func resTok(panicked bool, v string, err error) string {
	switch {
	case panicked:
		return "Panic"
	case err != nil:
		return "(Err " + classify(err) + ")"
	}
	return "(Ok " + S(v) + ")"
}

// ---- independent reference policy (regexp based; not the casbin code, not the model) --

type prule struct {
	sub string
	obj *regexp.Regexp
	act *regexp.Regexp
}

var refPolicy []prule

func initRefPolicy() {
	rows := [][3]string{
		{"consumer", "/apiPort", "GET"}, {"consumer", "/bytes/*", "GET"}, {"creator", "/bytes", "POST"},
		{"consumer", "/chunks/*", "GET"}, {"creator", "/chunks", "POST"}, {"creator", "/soc/*/*", "POST"},
		{"consumer", "/aurora", "GET"}, {"creator", "/aurora", "POST"}, {"consumer", "/aurora/*", "GET"},
		{"creator", "/aurora/*", "DELETE"}, {"consumer", "/aurora/*/*", "GET"}, {"consumer", "/manifest/*", "GET"},
		{"consumer", "/manifest/*/*", "GET"}, {"creator", "/pins/*", "(GET)|(DELETE)|(POST)"},
		{"consumer", "/group/peers/*", "GET"}, {"consumer", "/group/multicast/*", "POST"},
		{"consumer", "/group/send/*/*", "POST"}, {"consumer", "/group/notify/*/*", "POST"},
		{"consumer", "/group/join/*", "(DELETE)|(POST)"}, {"consumer", "/group/observe/*", "(DELETE)|(POST)"},
		{"maintainer", "/pins", "GET"}, {"maintainer", "/addresses", "GET"}, {"maintainer", "/pingpong/*", "POST"},
		{"maintainer", "/connect/*", "POST"}, {"maintainer", "/peers", "GET"}, {"maintainer", "/peers/*", "DELETE"},
		{"maintainer", "/blocklist", "GET"}, {"maintainer", "/blocklist/*", "(DELETE)|(POST)"},
		{"maintainer", "/chunks/*", "(GET)|(DELETE)"}, {"maintainer", "/topology", "GET"},
		{"maintainer", "/route/*", "(GET)|(DELETE)|(POST)"}, {"maintainer", "/route/findunderlay/*", "GET"},
		{"maintainer", "/welcome-message", "(GET)|(POST)"}, {"maintainer", "/chunk/discover/*", "GET"},
		{"maintainer", "/chunk/server/*", "GET"}, {"maintainer", "/chunk/init/*", "GET"},
		{"maintainer", "/chunk/source/*", "GET"}, {"maintainer", "/aco/*", "GET"},
		{"maintainer", "/keystore", "(GET)|(POST)"}, {"maintainer", "/privatekey", "GET"},
		{"maintainer", "/transaction", "POST"}, {"maintainer", "/topology/group", "GET"},
	}
	for _, r := range rows {
		var re string
		if i := strings.IndexByte(r[1], '*'); i >= 0 {
			re = `^(/v1)?` + regexp.QuoteMeta(r[1][:i]) // everything from the first '*' on is free
		} else {
			re = `^(/v1)?` + regexp.QuoteMeta(r[1]) + `$`
		}
		refPolicy = append(refPolicy, prule{r[0], regexp.MustCompile("(?s)" + re), regexp.MustCompile(r[2])})
	}
}

var policyObjs []string

func refAllows(role, obj, act string) bool {
	for _, p := range refPolicy {
		if (p.sub == role || role == "master") && p.obj.MatchString(obj) && p.act.MatchString(act) {
			return true
		}
	}
	return false
}

// ---- cases ---------------------------------------------------------------------------

func doB64Dec(s string) {
	d, err := base64.StdEncoding.DecodeString(s)
	obs := "None"
	if err == nil {
		obs = hx.CoqSome(CB(d))
	}
	run.AddCase(hx.CoqApp("CB64Dec", S(s), obs), jcase{Kind: "b64dec", Tok: s}, "b64dec|"+s, len(s) > 0)
	run.Hist(fmt.Sprintf("b64dec.ok=%v", err == nil))
}

func doB64Enc(d []byte) {
	s := base64.StdEncoding.EncodeToString(d)
	run.AddCase(hx.CoqApp("CB64Enc", CB(d), S(s)), jcase{Kind: "b64enc", Data: hx.Hex(d)}, "b64enc|"+hx.Hex(d), len(d) > 0)
	// oracle: DecodeString inverts EncodeToString
	back, err := base64.StdEncoding.DecodeString(s)
	run.OracleChecked(1)
	if err != nil || string(back) != string(d) {
		run.Violate(hx.Violation{Sig: "base64:roundtrip", Detail: "DecodeString(EncodeToString(d)) != d", Case: jcase{Kind: "b64enc", Data: hx.Hex(d)}})
	}
}

// what the harness knows about a token independently of Enforce
type truth struct {
	authentic bool // opens under the node's key
	parsed    bool
	role      string
	exp       time.Time
}

func truthOf(t tables) truth { return truth{t.opened, t.parsed, t.role, t.exp} }

func panicSig(entry string, t tables) string {
	switch {
	case t.decoded && len(t.data) < nsz:
		return "total:" + entry + "-panics:decoded-token-shorter-than-nonce"
	case !t.decoded:
		return "total:" + entry + "-panics:undecodable-token"
	}
	return "total:" + entry + "-panics:other"
}

// doEnforce runs Enforce(tok, obj, act) for every query and checks the oracle.
func doEnforce(tok string, qs [][2]string, note string) {
	t := mkTables(tok)
	tr := truthOf(t)
	jc := jcase{Kind: "enforce", Tok: tok, Qs: qs, Note: note}
	tlo := time.Now()
	var items []string
	nontrivial := false
	for _, q := range qs {
		var ok bool
		var err error
		panicked, pmsg := hx.Guard(func() { ok, err = a.Enforce(tok, q[0], q[1]) })
		items = append(items, hx.CoqTuple(S(q[0]), S(q[1]), resBool(panicked, ok, err)))
		one := jcase{Kind: "enforce", Tok: tok, Qs: [][2]string{q}, Note: note}
		run.OracleChecked(1)
		if panicked {
			run.Violate(hx.Violation{Sig: panicSig("enforce", t), Detail: "Enforce panicked: " + pmsg, Case: one, Impl: "panic", Want: "error"})
			continue
		}
		now := time.Now()
		if err == nil && ok {
			nontrivial = true
			run.Hist("enforce.allowed")
			switch {
			case !tr.authentic:
				run.Violate(hx.Violation{Sig: "sound:honoured-token-does-not-open-under-node-key", Detail: "Enforce allowed a token that gcm.Open rejects", Case: one})
			case !tr.parsed:
				run.Violate(hx.Violation{Sig: "sound:honoured-token-without-record", Detail: "Enforce allowed a token whose plaintext is not a record", Case: one})
			case tr.exp.Before(tlo):
				run.Violate(hx.Violation{Sig: "sound:honoured-expired-token", Detail: fmt.Sprintf("expiry %v before call start %v", tr.exp, tlo), Case: one})
			case !refAllows(tr.role, q[0], q[1]):
				run.Violate(hx.Violation{Sig: "sound:honoured-but-reference-policy-denies", Detail: fmt.Sprintf("role %q %s %s", tr.role, q[1], q[0]), Case: one, Impl: true, Want: false})
			}
		} else if err == nil {
			run.Hist("enforce.denied")
			if tr.authentic && tr.parsed && refAllows(tr.role, q[0], q[1]) {
				run.Violate(hx.Violation{Sig: "policy:denied-but-reference-policy-allows", Detail: fmt.Sprintf("role %q %s %s", tr.role, q[1], q[0]), Case: one, Impl: false, Want: true})
			}
		} else {
			run.Hist("enforce.err." + classify(err))
			if ok {
				run.Violate(hx.Violation{Sig: "sound:allowed-with-error", Detail: "Enforce returned true together with an error", Case: one})
			}
			if tr.authentic && tr.parsed && tr.exp.After(now) {
				run.Violate(hx.Violation{Sig: "live-token-rejected", Detail: "authentic unexpired token rejected: " + err.Error(), Case: one})
			}
			if errors.Is(err, auth.ErrTokenExpired) && !(tr.authentic && tr.parsed) {
				run.Violate(hx.Violation{Sig: "expired-reported-for-unauthentic-token", Detail: "ErrTokenExpired for a token that does not open", Case: one})
			}
		}
	}
	thi := time.Now()
	run.AddCase(hx.CoqApp("CEnforce", S(tok), t.coq(), zlit(znano(tlo)), zlit(znano(thi)),
		hx.CoqList(items, "bytes * bytes * res bool")), jc, "enforce|"+tok+"|"+fmt.Sprint(qs), nontrivial || note != "")
}

func doGenerate(role string, d int64) (string, bool) {
	jc := jcase{Kind: "generate", Role: role, D: d}
	var tok string
	var err error
	tlo := time.Now()
	panicked, pmsg := hx.Guard(func() { tok, err = a.GenerateKey(role, int(d)) })
	thi := time.Now()
	ok := !panicked && err == nil
	sc, t := sealedCoq(tok, ok)
	run.AddCase(hx.CoqApp("CGenerate", S(role), z64(d), zlit(znano(tlo)), zlit(znano(thi)), sc, resTok(panicked, tok, err)),
		jc, fmt.Sprintf("generate|%s|%d", role, d), ok)
	run.Hist(fmt.Sprintf("generate.ok=%v", ok))
	run.OracleChecked(1)
	if panicked {
		run.Violate(hx.Violation{Sig: "total:generate-panics", Detail: pmsg, Case: jc})
		return "", false
	}
	if ok && !(t.opened && t.parsed && t.role == role) {
		run.Violate(hx.Violation{Sig: "issue:token-does-not-carry-the-role", Detail: fmt.Sprintf("issued for %q, carries %q (opens=%v)", role, t.role, t.opened), Case: jc})
	}
	return tok, ok
}

func doRefresh(tok string, d int64, note string) (string, bool) {
	jc := jcase{Kind: "refresh", Tok: tok, D: d, Note: note}
	t := mkTables(tok)
	tr := truthOf(t)
	var ntok string
	var err error
	tlo := time.Now()
	panicked, pmsg := hx.Guard(func() { ntok, err = a.RefreshKey(tok, int(d)) })
	thi := time.Now()
	ok := !panicked && err == nil
	sc, nt := sealedCoq(ntok, ok)
	run.AddCase(hx.CoqApp("CRefresh", S(tok), t.coq(), z64(d), zlit(znano(tlo)), zlit(znano(thi)), sc, resTok(panicked, ntok, err)),
		jc, fmt.Sprintf("refresh|%s|%d", tok, d), tr.authentic)
	run.Hist(fmt.Sprintf("refresh.ok=%v", ok))
	run.OracleChecked(1)
	switch {
	case panicked:
		run.Violate(hx.Violation{Sig: panicSig("refresh", t), Detail: "RefreshKey panicked: " + pmsg, Case: jc, Impl: "panic", Want: "error"})
		return "", false
	case ok && !(tr.authentic && tr.parsed):
		run.Violate(hx.Violation{Sig: "refresh:unauthentic-token-refreshed", Detail: "RefreshKey re-issued a token that does not open", Case: jc})
	case ok && tr.exp.Before(tlo):
		run.Violate(hx.Violation{Sig: "refresh:revived-expired-token", Detail: fmt.Sprintf("expiry %v before call start %v", tr.exp, tlo), Case: jc})
	case ok && !(nt.opened && nt.parsed && nt.role == tr.role):
		run.Violate(hx.Violation{Sig: "refresh:role-changed", Detail: fmt.Sprintf("role %q became %q", tr.role, nt.role), Case: jc})
	case !ok && d != 0 && tr.authentic && tr.parsed && tr.exp.After(thi):
		run.Violate(hx.Violation{Sig: "refresh:live-token-refused", Detail: err.Error(), Case: jc})
	}
	return ntok, ok
}

func doHandler(header, path, method, note string) {
	jc := jcase{Kind: "handler", Header: header, Path: path, Method: method, Note: note}
	key := ""
	if strings.HasPrefix(header, "Bearer ") {
		key = header[len("Bearer "):]
	}
	t := mkTables(key)
	tr := truthOf(t)
	passed := false
	h := auth.PermissionCheckHandler(a)(http.HandlerFunc(func(w http.ResponseWriter, r *http.Request) { passed = true }))
	req := &http.Request{Method: method, URL: &url.URL{Path: path}, Header: http.Header{}}
	if header != "\x00none" {
		req.Header.Set("Authorization", header)
	}
	w := httptest.NewRecorder()
	tlo := time.Now()
	panicked, pmsg := hx.Guard(func() { h.ServeHTTP(w, req) })
	thi := time.Now()
	body := w.Body.String()
	obs := "HPanic"
	switch {
	case panicked:
	case passed:
		obs = "HPass"
	case w.Code == 403 && strings.Contains(body, "Missing bearer token"):
		obs = "HNoBearer"
	case w.Code == 401 && strings.Contains(body, "Missing security token"):
		obs = "HNoToken"
	case w.Code == 401 && strings.Contains(body, "Token expired"):
		obs = "HExpired"
	case w.Code == 500:
		obs = "HError"
	case w.Code == 403:
		obs = "HDenied"
	default:
		obs = "HError"
		run.Violate(hx.Violation{Sig: "handler:unexpected-status", Detail: fmt.Sprintf("%d %s", w.Code, body), Case: jc})
	}
	hdr := header
	if header == "\x00none" {
		hdr = ""
	}
	run.AddCase(hx.CoqApp("CHandler", S(hdr), t.coq(), zlit(znano(tlo)), zlit(znano(thi)), S(path), S(method), obs),
		jc, "handler|"+header+"|"+path+"|"+method, tr.authentic)
	run.Hist("handler." + obs)
	run.OracleChecked(1)
	if panicked {
		run.Violate(hx.Violation{Sig: panicSig("handler", t), Detail: "handler panicked: " + pmsg, Case: jc, Impl: "panic", Want: "error status"})
		return
	}
	if passed && !(tr.authentic && tr.parsed && !tr.exp.Before(tlo) && refAllows(tr.role, path, method)) {
		run.Violate(hx.Violation{Sig: "handler:request-passed-without-valid-token", Detail: fmt.Sprintf("authentic=%v parsed=%v role=%q exp=%v", tr.authentic, tr.parsed, tr.role, tr.exp), Case: jc})
	}
}

// ---- generators ----------------------------------------------------------------------

var methods = []string{"GET", "POST", "DELETE", "PUT", "PATCH", "HEAD", "", "get", "TARGET", "XPOSTX", "DELETED"}

func variants(p string) []string {
	inst := strings.ReplaceAll(p, "*", "x7")
	out := []string{inst, "/v1" + inst, inst + "/", "/v1" + inst + "/more", p, inst[:len(inst)-1], "/v2" + inst, "/v1/v1" + inst, inst + "x"}
	if i := strings.IndexByte(p, '*'); i >= 0 {
		out = append(out, p[:i], p[:i-1], "/v1"+p[:i], p[:i]+"a/b/c")
	}
	return out
}

func craft(nonce []byte, plaintext string) string {
	ct := a.VerifSeal(nonce, []byte(plaintext))
	return base64.StdEncoding.EncodeToString(append(append([]byte{}, nonce...), ct...))
}

func main() {
	run = hx.Start("C35", "Aurora.C35.Corr",
		"tokens issued by the real Authenticator for every role and expiry class (positive, negative, int64-wrapping, zero), enforced against every policy row in 9-13 path variants x 11 methods (sampled in the quick tier); authentic tokens crafted with odd JSON records; tampered / truncated / extended / foreign-key / random tokens; base64 texts with padding and CR/LF noise; refresh chains; Authorization headers. non-trivial = a case in which a token opens under the node's key or Enforce allows; distinct by full input")
	r := run.R
	var err error
	log := logging.New(io.Discard, 0)
	a, err = auth.New("verif-node-key", "$2a$04$unusedunusedunusedunuseduO7R9t2v0yq9n3mQ0VwQ2c0Q8b8b8b8b", log)
	if err != nil {
		panic(err)
	}
	other, err = auth.New("another-node-key", "x", log)
	if err != nil {
		panic(err)
	}
	nsz = a.VerifNonceSize()
	initRefPolicy()
	seen := map[string]bool{}
	for _, p := range refPolicy {
		_ = p
	}
	for _, row := range []string{"/apiPort", "/bytes/*", "/bytes", "/chunks/*", "/chunks", "/soc/*/*", "/aurora", "/aurora/*", "/aurora/*/*",
		"/manifest/*", "/manifest/*/*", "/pins/*", "/group/peers/*", "/group/multicast/*", "/group/send/*/*", "/group/notify/*/*",
		"/group/join/*", "/group/observe/*", "/pins", "/addresses", "/pingpong/*", "/connect/*", "/peers", "/peers/*", "/blocklist",
		"/blocklist/*", "/topology", "/route/*", "/route/findunderlay/*", "/welcome-message", "/chunk/discover/*", "/chunk/server/*",
		"/chunk/init/*", "/chunk/source/*", "/aco/*", "/keystore", "/privatekey", "/transaction", "/topology/group"} {
		if !seen[row] {
			seen[row] = true
			policyObjs = append(policyObjs, row)
		}
	}

	if run.Replay != "" {
		var jc jcase
		if err := run.ReadReplay(&jc); err != nil {
			panic(err)
		}
		switch jc.Kind {
		case "b64dec":
			doB64Dec(jc.Tok)
		case "b64enc":
			doB64Enc(unhex(jc.Data))
		case "enforce":
			doEnforce(jc.Tok, jc.Qs, "replay")
		case "generate":
			doGenerate(jc.Role, jc.D)
		case "refresh":
			doRefresh(jc.Tok, jc.D, "replay")
		case "handler":
			doHandler(jc.Header, jc.Path, jc.Method, "replay")
		case "conc":
			doConcurrent(8, 2500*time.Millisecond)
		}
		run.Finish()
		return
	}

	someQs := [][2]string{{"/bytes/abc", "GET"}, {"/v1/pins/abc", "DELETE"}, {"/topology", "GET"}, {"/nowhere", "GET"}}

	// 0. corpus: F-auth-short-token witnesses and other boundary tokens (every seed)
	corpus := []string{"AAAA", "", "AA==", "AAA=", "AAAAAAAAAAAAAAA=", "AAAAAAAAAAAAAAAA", "AAAAAAAAAAAAAAAAAAAA", "AAAAAAAAAAAAAAAAAAAAAAAAAAAAAAAAAAAAAAA=",
		"A", "AAA", "====", "AA=A", "AAAA\n", "\r\nAAAA", "AA\n==", "AAAA=", "AAAA AAAA", "!!!!", "AAAAAAAAAAAAAAAA\n"}
	for _, tok := range corpus {
		doB64Dec(tok)
		doEnforce(tok, someQs[:2], "corpus")
		doRefresh(tok, 60, "corpus")
		doRefresh(tok, 0, "corpus")
		doHandler("Bearer "+tok, "/bytes/abc", "GET", "corpus")
	}

	// 1. base64 texts (malformed stream) and encoder
	alpha := "AZaz09+/=\r\n -_Qg"
	for i := 0; i < run.N(110, 1500); i++ {
		n := r.Intn(25)
		b := make([]byte, n)
		for k := range b {
			if r.Chance(3, 4) {
				b[k] = "ABCDEFGHIJKLMNOPQRSTUVWXYZabcdefghijklmnopqrstuvwxyz0123456789+/"[r.Intn(64)]
			} else {
				b[k] = alpha[r.Intn(len(alpha))]
			}
		}
		s := string(b)
		if r.Chance(1, 3) { // valid text with noise
			s = base64.StdEncoding.EncodeToString(r.Bytes(r.Intn(20)))
			if r.Bool() && len(s) > 0 {
				k := r.Intn(len(s) + 1)
				s = s[:k] + []string{"\n", "\r\n", "=", " ", "A"}[r.Intn(5)] + s[k:]
			}
		}
		doB64Dec(s)
		if i%3 == 0 {
			doEnforce(s, someQs[:1], "")
			doRefresh(s, 5, "")
		}
	}
	for i := 0; i < run.N(40, 400); i++ {
		doB64Enc(r.Bytes(r.Intn(41)))
	}
	for n := 0; n <= 4; n++ {
		doB64Enc(make([]byte, n))
		d := make([]byte, n)
		for k := range d {
			d[k] = 0xff
		}
		doB64Enc(d)
	}

	// 2. every role x policy rows x path variants x methods
	roles := []string{"consumer", "creator", "maintainer", "master", "", "admin", "Consumer", "maintainer\n"}
	tokens := map[string]string{}
	for _, role := range roles {
		tok, ok := doGenerate(role, 3600)
		if !ok {
			continue
		}
		tokens[role] = tok
		var qs [][2]string
		for pi, p := range policyObjs {
			vs := variants(p)
			if run.Thorough() {
				for _, v := range vs {
					for _, m := range methods {
						qs = append(qs, [2]string{v, m})
					}
				}
			} else {
				for k := 0; k < 6; k++ {
					qs = append(qs, [2]string{vs[r.Intn(len(vs))], methods[r.Intn(len(methods))]})
				}
				qs = append(qs, [2]string{vs[0], "GET"}, [2]string{vs[1], "POST"}, [2]string{vs[r.Intn(len(vs))], "DELETE"})
			}
			// one correspondence case per 8 policy rows (the token text is the bulk of a case)
			if pi%8 == 7 || pi == len(policyObjs)-1 || run.Thorough() {
				doEnforce(tok, qs, "")
				qs = nil
			}
		}
		doEnforce(tok, [][2]string{{"", ""}, {"/", "GET"}, {"*", "GET"}, {"/bytes/*", "GET"}, {"/v1", "GET"}, {"/v1/v1/bytes/x", "GET"}}, "")
	}

	// 3. authentic tokens with crafted records
	future := time.Now().Add(time.Hour).UTC().Format(time.RFC3339Nano)
	past := time.Now().Add(-time.Hour).UTC().Format(time.RFC3339Nano)
	pts := []string{
		`{"r":"consumer","e":"` + future + `"}`, `{"r":"consumer","e":"` + past + `"}`,
		`{"r":"master","e":"9999-12-31T23:59:59Z"}`, `{"r":"creator","e":"0001-01-01T00:00:00Z"}`,
		`{"r":"creator"}`, `{}`, `{"e":"` + future + `"}`, `{"R":"maintainer","E":"` + future + `"}`,
		`{"r":"consumer","r":"creator","e":"` + future + `"}`, `{"r":null,"e":"` + future + `"}`,
		`{"r":5,"e":"` + future + `"}`, `{"r":"consumer","e":5}`, `{"r":"consumer","e":"tomorrow"}`,
		`{"r":"consumer","e":"` + future + `","x":[1,2]}`, `not json`, ``, `[]`, `null`, `"x"`,
		`{"r":"consumer","e":"` + future + `"} trailing`, `{"r":"consumer","e":"` + future + `"}`,
		`{"r":"consumer","e":"2262-04-11T23:47:16.854775807Z"}`, `{"r":"creator","e":"2262-04-11T23:47:16.854775808Z"}`,
		`{"r":"creator","e":"` + time.Now().Add(time.Hour).In(time.FixedZone("x", 5*3600)).Format(time.RFC3339Nano) + `"}`,
	}
	for _, pt := range pts {
		nonce := r.Bytes(nsz)
		tok := craft(nonce, pt)
		doEnforce(tok, someQs, "crafted:"+pt)
		doRefresh(tok, 30, "crafted")
		doHandler("Bearer "+tok, "/v1/bytes/abc", "GET", "crafted")
	}
	// a valid record sealed under a nonce of the wrong place / extra byte before the nonce
	{
		nonce := r.Bytes(nsz)
		ct := a.VerifSeal(nonce, []byte(pts[0]))
		doEnforce(base64.StdEncoding.EncodeToString(append(append([]byte{0}, nonce...), ct...)), someQs[:1], "shifted")
		doEnforce(base64.StdEncoding.EncodeToString(append(append([]byte{}, ct...), nonce...)), someQs[:1], "swapped")
		doEnforce(base64.RawStdEncoding.EncodeToString(append(append([]byte{}, nonce...), ct...)), someQs[:1], "raw-encoding")
		doEnforce(base64.URLEncoding.EncodeToString(append(append([]byte{}, nonce...), ct...)), someQs[:1], "url-encoding")
	}

	// 4. tampered, truncated, extended, foreign tokens
	for _, role := range []string{"consumer", "master"} {
		tok := tokens[role]
		data, _ := base64.StdEncoding.DecodeString(tok)
		for i := 0; i < run.N(28, 400); i++ {
			d := append([]byte{}, data...)
			switch r.Intn(4) {
			case 0:
				d[r.Intn(len(d))] ^= 1 << uint(r.Intn(8))
			case 1:
				d = d[:r.Intn(len(d))]
			case 2:
				d = append(d, r.Bytes(1+r.Intn(3))...)
			case 3:
				k := r.Intn(len(d))
				d = append(d[:k], d[k+1:]...)
			}
			t := base64.StdEncoding.EncodeToString(d)
			doEnforce(t, someQs[:1], "tampered")
			if i%4 == 0 {
				doRefresh(t, 10, "tampered")
			}
		}
		for n := 0; n <= nsz+17; n++ { // every truncation length around the nonce and tag sizes
			if !run.Thorough() && role == "master" && n%3 != 0 {
				continue
			}
			doEnforce(base64.StdEncoding.EncodeToString(data[:n]), someQs[:1], "truncated")
			doRefresh(base64.StdEncoding.EncodeToString(data[:n]), 7, "truncated")
		}
		// text-level tampering of the base64 string
		for i := 0; i < run.N(12, 200); i++ {
			b := []byte(tok)
			b[r.Intn(len(b))] = "ABCDEFGHIJKLMNOPQRSTUVWXYZabcdefghijklmnopqrstuvwxyz0123456789+/=\n"[r.Intn(66)]
			doEnforce(string(b), someQs[:2], "text-tampered")
		}
	}
	for _, role := range []string{"master", "consumer"} {
		ft, err := other.GenerateKey(role, 3600)
		if err != nil {
			panic(err)
		}
		doEnforce(ft, someQs, "foreign-key")
		doRefresh(ft, 60, "foreign-key")
		doHandler("Bearer "+ft, "/bytes/abc", "GET", "foreign-key")
	}

	// 5. expiry classes
	type pending struct {
		tok  string
		role string
	}
	var shortLived []pending
	durs := []int64{-1, -3600, 1, 2, 3600, 0, 9223372036, 9223372037, 20211507185753197, math.MaxInt64, math.MinInt64, math.MinInt64 + 1,
		-9223372037, 86400 * 365 * 200, 86400 * 365 * 300, 4294967296, -4294967296}
	for _, d := range durs {
		role := roles[r.Intn(4)]
		tok, ok := doGenerate(role, d)
		if !ok {
			continue
		}
		doEnforce(tok, someQs, fmt.Sprintf("expiry d=%d", d))
		if d == 1 || d == 2 {
			shortLived = append(shortLived, pending{tok, role})
		}
		doRefresh(tok, 60, "expiry")
		doHandler("Bearer "+tok, "/bytes/abc", "GET", "expiry")
	}
	for i := 0; i < run.N(20, 200); i++ {
		d := int64(r.U64())
		switch r.Intn(3) {
		case 0:
			d %= 100000
		case 1:
			d = 9223372036 + d%3
		}
		if tok, ok := doGenerate(roles[r.Intn(len(roles))], d); ok {
			doEnforce(tok, someQs[:2], "expiry-random")
		}
	}

	// 6. refresh chains: every new token is refreshed again; a negative or wrapping
	//    duration yields an expired token that must not be revived
	for c := 0; c < run.N(8, 120); c++ {
		role := roles[r.Intn(4)]
		tok, ok := doGenerate(role, int64(1+r.Intn(5000)))
		for step := 0; ok && step < 6; step++ {
			d := []int64{30, 3600, 1, -1, -30, 0, 9223372037, 86400}[r.Intn(8)]
			nt, nok := doRefresh(tok, d, "chain")
			if nok {
				doEnforce(nt, someQs[:2], "chain")
				tok = nt
			} else if d != 0 {
				// the chain is dead: the old token stays what it was
				doRefresh(tok, 60, "chain-after-failure")
				break
			}
		}
	}

	// 7. Authorization headers
	ctok := tokens["consumer"]
	headers := []string{"\x00none", "", "Bearer", "Bearer ", "Bearer    ", "bearer " + ctok, "Basic " + ctok, "Bearer " + ctok, "Bearer  " + ctok,
		"Bearer " + ctok + " ", "Bearer Bearer " + ctok, "Bearer " + ctok + "Bearer ", "Bearer " + ctok + "Bearer x", " Bearer " + ctok,
		"Bearer " + tokens["master"], "Bearer " + tokens["creator"], "Bearer AAAA", "Bearer ====", "BearerBearer " + ctok, "Bearer \t" + ctok}
	for _, h := range headers {
		for _, q := range [][2]string{{"/v1/bytes/abc", "GET"}, {"/bytes", "POST"}, {"/peers", "GET"}} {
			doHandler(h, q[0], q[1], "")
		}
	}
	for i := 0; i < run.N(40, 600); i++ {
		role := roles[r.Intn(4)]
		p := policyObjs[r.Intn(len(policyObjs))]
		vs := variants(p)
		doHandler("Bearer "+tokens[role], vs[r.Intn(len(vs))], methods[r.Intn(len(methods))], "")
	}

	// 8. tokens issued with 1-2 s of life, used after they ran out
	if len(shortLived) > 0 {
		time.Sleep(2200 * time.Millisecond)
		for _, p := range shortLived {
			doEnforce(p.tok, someQs, "after-expiry")
			doRefresh(p.tok, 3600, "after-expiry")
			doHandler("Bearer "+p.tok, "/bytes/abc", "GET", "after-expiry")
		}
	}
	// 9. concurrent stage: 8 goroutines on the one Authenticator; every answer must be the sequential one
	doConcurrent(8, time.Duration(run.N(2500, 6000))*time.Millisecond)
	run.Finish()
}

func unhex(s string) []byte {
	b := make([]byte, len(s)/2)
	fmt.Sscanf(s, "%x", &b)
	return b
}
