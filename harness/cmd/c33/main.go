// C33 harness: traffic totals survive restarts.
//
// One peer, real traffic.Service + real cheque store over a real (in-memory leveldb) state store
// wrapped in a GATE: every Put issued while the concurrent phase runs waits for the controller's
// grant. The controller (all choices from the seed) starts the operation goroutines, grants the
// waiting store writes in a random order and "crashes" after k granted writes: the store
// contents at that moment are copied to a fresh store on which a new Service is built and
// Init()ed; its restored totals are the observable.
//
// Oracle (independent of the Coq model): the restored totals cover every operation whose call had
// RETURNED before the crash: retrieveTraffic >= initial + sum of completed PutRetrieveTraffic
// amounts, same for transferTraffic, last sent / received cheque amount >= largest completed.
//
// Correspondence: from the observed grant order the harness derives the micro-schedule of the
// Coq model (each granted write = the owning thread runs its lock region up to and including the
// persisting instruction ... and the rest of the region for all but the last) and Coq recomputes
// the store contents and the restored totals.
package main

import (
	"bytes"
	"context"
	"encoding/json"
	"errors"
	"fmt"
	"io"
	"math/big"
	"runtime"
	"strconv"
	"strings"
	"sync"
	"sync/atomic"
	"time"

	"github.com/ethereum/go-ethereum/common"
	"github.com/ethereum/go-ethereum/core/types"
	"github.com/gauss-project/aurorafs/pkg/boson"
	"github.com/gauss-project/aurorafs/pkg/logging"
	"github.com/gauss-project/aurorafs/pkg/settlement/traffic"
	chequePkg "github.com/gauss-project/aurorafs/pkg/settlement/traffic/cheque"
	"github.com/gauss-project/aurorafs/pkg/statestore/leveldb"
	"github.com/gauss-project/aurorafs/pkg/storage"
	"github.com/gauss-project/aurorafs/pkg/subscribe"
	"verifharness/hx"
)

// ---------------------------------------------------------------- stubs

type chainStub struct {
	self, peer common.Address
	cR, cT     int64
}

func (c *chainStub) TransferredAddress(common.Address) ([]common.Address, error) {
	if c.cT > 0 {
		return []common.Address{c.peer}, nil
	}
	return nil, nil
}
func (c *chainStub) RetrievedAddress(common.Address) ([]common.Address, error) {
	if c.cR > 0 {
		return []common.Address{c.peer}, nil
	}
	return nil, nil
}
func (c *chainStub) BalanceOf(common.Address) (*big.Int, error) { return big.NewInt(1 << 60), nil }
func (c *chainStub) RetrievedTotal(common.Address) (*big.Int, error) {
	return big.NewInt(0), nil
}
func (c *chainStub) TransferredTotal(common.Address) (*big.Int, error) {
	return big.NewInt(0), nil
}
// chainCashed: amounts the chain reports as transferred by a peer after a successful cash-out
// (peer chain address -> amount); shared by every service instance of one sequential history.
var chainCashed sync.Map

func (c *chainStub) TransAmount(beneficiary, recipient common.Address) (*big.Int, error) {
	if recipient == c.self {
		if v, ok := chainCashed.Load(beneficiary); ok {
			return big.NewInt(v.(int64)), nil
		}
	}
	// trafficPeerChainUpdate: TransAmount(peer, self) = transferred total, TransAmount(self, peer) = retrieved total
	if beneficiary == c.peer && recipient == c.self {
		return big.NewInt(c.cT), nil
	}
	if beneficiary == c.self && recipient == c.peer {
		return big.NewInt(c.cR), nil
	}
	return big.NewInt(0), nil
}
func (c *chainStub) CashChequeBeneficiary(context.Context, boson.Address, common.Address, common.Address, *big.Int, []byte) (*types.Transaction, error) {
	return nil, errors.New("not in this harness")
}

type cashoutStub struct{}

func (cashoutStub) CashCheque(context.Context, boson.Address, common.Address, common.Address) (common.Hash, error) {
	return common.Hash{}, errors.New("not in this harness")
}
func (cashoutStub) WaitForReceipt(context.Context, common.Hash) (uint64, error) {
	return 0, errors.New("not in this harness")
}

// cashStub: a cash-out service whose transactions are mined at once. receipt[beneficiary] is
// what WaitForReceipt answers for that peer's transaction (1 success, 0 reverted, -1 error);
// on success the chain reports amount[beneficiary] as transferred from then on. The transaction
// of the sentinel address only signals that the (sequential) receipt loop has finished every
// earlier transaction.
type cashStub struct {
	mu       sync.Mutex
	receipt  map[common.Address]int
	amount   map[common.Address]int64
	sentinel common.Address
	done     chan struct{}
}

func hashOf(a common.Address) common.Hash { return common.BytesToHash(a.Bytes()) }

func (c *cashStub) CashCheque(_ context.Context, _ boson.Address, beneficiary, _ common.Address) (common.Hash, error) {
	return hashOf(beneficiary), nil
}
func (c *cashStub) WaitForReceipt(_ context.Context, h common.Hash) (uint64, error) {
	a := common.BytesToAddress(h.Bytes())
	if a == c.sentinel {
		c.done <- struct{}{}
		return 0, errors.New("sentinel")
	}
	c.mu.Lock()
	defer c.mu.Unlock()
	switch c.receipt[a] {
	case 1:
		chainCashed.Store(a, c.amount[a])
		return 1, nil
	case 0:
		return 0, nil
	}
	return 0, errors.New("receipt unavailable")
}

type signerStub struct{}

func (signerStub) Sign(*chequePkg.Cheque) ([]byte, error) { return []byte{1}, nil }

type protoStub struct{}

func (protoStub) EmitCheque(context.Context, boson.Address, *chequePkg.SignedCheque) error {
	return nil
}

// ---------------------------------------------------------------- gated store

type write struct {
	Key string
	Raw json.RawMessage // serialised at the moment the code called Put (a delayed grant must not see later in-place mutations of a *big.Int)
	Val int64           // the amount inside the value, read at the same moment
	Gid int64
}
type req struct {
	w     write
	grant chan struct{}
	done  chan struct{}
}
type gate struct {
	storage.StateStorer
	mu      sync.Mutex
	enabled bool
	log     []write
	reqs    chan *req
}

func goid() int64 {
	var buf [64]byte
	n := runtime.Stack(buf[:], false)
	f := strings.Fields(string(buf[:n]))
	id, _ := strconv.ParseInt(f[1], 10, 64)
	return id
}

func (g *gate) Put(key string, v interface{}) error {
	g.mu.Lock()
	en := g.enabled
	g.mu.Unlock()
	raw, merr := json.Marshal(v)
	if merr != nil {
		return merr
	}
	w := write{Key: key, Raw: raw, Val: bigOf(v), Gid: goid()}
	if !en {
		err := g.StateStorer.Put(key, w.Raw)
		g.mu.Lock()
		g.log = append(g.log, w)
		g.mu.Unlock()
		return err
	}
	r := &req{w: w, grant: make(chan struct{}), done: make(chan struct{})}
	g.reqs <- r
	<-r.grant
	err := g.StateStorer.Put(key, w.Raw)
	g.mu.Lock()
	g.log = append(g.log, w)
	g.mu.Unlock()
	close(r.done)
	return err
}

// Get of a stored traffic total (what a refresh reads back) is held AFTER the read until the
// controller lets it return: at HEAD the read happens under the peer lock, so concurrent updates
// wait; a variant that reads before locking lets them overtake the held value.
func (g *gate) Get(key string, i interface{}) error {
	err := g.StateStorer.Get(key, i)
	g.mu.Lock()
	en := g.enabled
	g.mu.Unlock()
	if !en || !(strings.HasPrefix(key, "retrieved_traffic_") || strings.HasPrefix(key, "transferred_traffic_")) {
		return err
	}
	r := &req{w: write{Key: "get:" + key, Gid: goid()}, grant: make(chan struct{}), done: make(chan struct{})}
	g.reqs <- r
	<-r.grant
	close(r.done)
	return err
}

// ---------------------------------------------------------------- case

type opJ struct {
	K string `json:"k"` // putR putT pay recv
	V int64  `json:"v"`
}
type caseJ struct {
	D0     [6]int64 `json:"d0"` // s_rT s_tT lastSend lastRecv cR cT
	Progs  [][]opJ  `json:"progs"`
	CrashK int      `json:"crash_after_writes"`
	NoKeys bool     `json:"no_traffic_keys,omitempty"` // the peer has no stored traffic totals at boot (cheque-only peer)
	Seed   uint64   `json:"sched_seed"`
}

var (
	selfAddr = common.HexToAddress("0x1111111111111111111111111111111111111111")
	peerAddr = common.HexToAddress("0x2222222222222222222222222222222222222222")
	overlay  = boson.NewAddress(bytes.Repeat([]byte{7}, 32))
)

func newService(st storage.StateStorer, cR, cT int64) *traffic.Service {
	return newServiceCash(st, cR, cT, cashoutStub{})
}

func newServiceCash(st storage.StateStorer, cR, cT int64, co chequePkg.CashoutService) *traffic.Service {
	logger := logging.New(io.Discard, 0)
	cs := chequePkg.NewChequeStore(st, selfAddr, func(c *chequePkg.SignedCheque, _ int64) (common.Address, error) {
		return c.Beneficiary, nil
	}, 1)
	ab := traffic.NewAddressBook(st)
	svc := traffic.New(logger, selfAddr, st, &chainStub{self: selfAddr, peer: peerAddr, cR: cR, cT: cT}, cs, co, nil, ab, signerStub{}, protoStub{}, 1, subscribe.NewSubPub())
	svc.SetNotifyPaymentFunc(func(boson.Address, *big.Int) error { return nil })
	return svc
}

func totals(svc *traffic.Service) [4]int64 {
	a, b, c, d, known := svc.VerifTotals(peerAddr)
	if !known {
		return [4]int64{}
	}
	return [4]int64{a.Int64(), b.Int64(), c.Int64(), d.Int64()}
}

func bigOf(v interface{}) int64 {
	switch x := v.(type) {
	case *big.Int:
		return x.Int64()
	case *chequePkg.Cheque:
		return x.CumulativePayout.Int64()
	case *chequePkg.SignedCheque:
		return x.CumulativePayout.Int64()
	case chequePkg.SignedCheque:
		return x.CumulativePayout.Int64()
	}
	return -1
}

func kindOf(key string) string {
	switch {
	case strings.HasPrefix(key, "retrieved_traffic_"):
		return "rT"
	case strings.HasPrefix(key, "transferred_traffic_"):
		return "tT"
	case strings.HasPrefix(key, "traffic_last_send_cheque_"):
		return "send"
	case strings.HasPrefix(key, "traffic_last_received_cheque_"):
		return "recv"
	}
	return "other"
}

type outcome struct {
	Grants     []string `json:"grants"` // "thread:kind:value"
	Disk       [4]int64 `json:"disk"`
	Restored   [4]int64 `json:"restored"`
	DoneR      int64    `json:"done_putR"`
	DoneT      int64    `json:"done_putT"`
	DoneSend   int64    `json:"done_send"`
	DoneRecv   int64    `json:"done_recv"`
	MaxWait    int      `json:"max_simultaneous_waiters"`
	TimedOut   bool     `json:"timed_out"`
	Sched      []int    `json:"sched"`
	Unplaced   string   `json:"unplaced,omitempty"`
	modelProgs [][]opJ
	init       [4]int64
}

func runCase(c caseJ) (out outcome, err error) {
	logger := logging.New(io.Discard, 0)
	inner, e := leveldb.NewInMemoryStateStore(logger)
	if e != nil {
		return out, e
	}
	g := &gate{StateStorer: inner, reqs: make(chan *req, 1024)}
	// ---- initial disk (before the epoch under test)
	cs := chequePkg.NewChequeStore(g, selfAddr, nil, 1)
	if !c.NoKeys {
		_ = cs.PutRetrieveTraffic(peerAddr, big.NewInt(c.D0[0])) // keys exist: the peer is a traffic peer
		_ = cs.PutTransferTraffic(peerAddr, big.NewInt(c.D0[1]))
	}
	if c.D0[2] > 0 {
		_ = cs.PutSendCheque(context.Background(), &chequePkg.Cheque{Recipient: peerAddr, Beneficiary: selfAddr, CumulativePayout: big.NewInt(c.D0[2])}, peerAddr)
	}
	if c.D0[3] > 0 {
		_ = cs.PutReceivedCheques(peerAddr, chequePkg.SignedCheque{Cheque: chequePkg.Cheque{Recipient: selfAddr, Beneficiary: peerAddr, CumulativePayout: big.NewInt(c.D0[3])}, Signature: []byte{1}})
	}
	ab := traffic.NewAddressBook(g)
	if e := ab.PutBeneficiary(overlay, peerAddr); e != nil {
		return out, e
	}
	svc := newService(g, c.D0[4], c.D0[5])
	if e := svc.Init(); e != nil {
		return out, e
	}
	base := len(g.log)
	init := totals(svc)

	// ---- concurrent phase
	g.mu.Lock()
	g.enabled = true
	g.mu.Unlock()
	var seq int64
	type opDone struct {
		thread, idx int
		at          int64
	}
	var dmu sync.Mutex
	var dones []opDone
	gidThread := sync.Map{}
	curOp := make([]int32, len(c.Progs))
	var wg sync.WaitGroup
	for t, prog := range c.Progs {
		wg.Add(1)
		go func(t int, prog []opJ) {
			defer wg.Done()
			gidThread.Store(goid(), t)
			for i, o := range prog {
				atomic.StoreInt32(&curOp[t], int32(i))
				switch o.K {
				case "putR":
					_ = svc.PutRetrieveTraffic(overlay, big.NewInt(o.V))
				case "putT":
					_ = svc.PutTransferTraffic(overlay, big.NewInt(o.V))
				case "pay":
					_ = svc.Pay(context.Background(), overlay, big.NewInt(o.V))
				case "refresh":
					_ = svc.TrafficInit()
				case "recv":
					_ = svc.ReceiveCheque(context.Background(), overlay, &chequePkg.SignedCheque{Cheque: chequePkg.Cheque{Recipient: selfAddr, Beneficiary: peerAddr, CumulativePayout: big.NewInt(o.V)}, Signature: []byte{1}})
				}
				dmu.Lock()
				dones = append(dones, opDone{t, i, atomic.AddInt64(&seq, 1)})
				dmu.Unlock()
			}
		}(t, prog)
	}
	allDone := make(chan struct{})
	go func() { wg.Wait(); close(allDone) }()

	r := hx.NewRand(c.Seed)
	var grants []granted
	var pending []*req
	putsSinceGet, getAfter := 0, 1+r.Intn(2)
	var crashSeq int64 = -1
	var crashLog []write
	deadline := time.Now().Add(20 * time.Second)
	finished := false
	for !finished {
		// gather waiters; give the other goroutines a moment to reach the gate too
		for spins := 0; spins < 3; spins++ {
		drain:
			for {
				select {
				case q := <-g.reqs:
					pending = append(pending, q)
				default:
					break drain
				}
			}
			time.Sleep(300 * time.Microsecond)
		}
		if len(pending) == 0 {
			select {
			case <-allDone:
				finished = true
			default:
				if time.Now().After(deadline) {
					out.TimedOut = true
					finished = true
				}
				time.Sleep(200 * time.Microsecond)
			}
			continue
		}
		if len(pending) > out.MaxWait {
			out.MaxWait = len(pending)
		}
		// held reads are released only when no store write is waiting (give writers a chance to overtake)
		var puts []int
		for i, p := range pending {
			if !strings.HasPrefix(p.w.Key, "get:") {
				puts = append(puts, i)
			}
		}
		var k int
		if len(puts) > 0 && len(puts) < len(pending) && putsSinceGet >= getAfter {
			// a read is held and enough writes overtook it: release the read now, so that
			// later writes run after whatever the reader does with its (possibly stale) value
			for i, p := range pending {
				if strings.HasPrefix(p.w.Key, "get:") {
					k = i
					break
				}
			}
		} else if len(puts) > 0 {
			k = puts[r.Intn(len(puts))]
			putsSinceGet++
		} else {
			time.Sleep(3 * time.Millisecond)
			more := false
		drain2:
			for {
				select {
				case q := <-g.reqs:
					pending = append(pending, q)
					more = true
				default:
					break drain2
				}
			}
			if more {
				continue
			}
			k = r.Intn(len(pending))
		}
		q := pending[k]
		if strings.HasPrefix(q.w.Key, "get:") {
			putsSinceGet = 0
			getAfter = 1 + r.Intn(2)
			pending = append(pending[:k], pending[k+1:]...)
			close(q.grant)
			<-q.done
			continue
		}
		pending = append(pending[:k], pending[k+1:]...)
		if len(grants) == c.CrashK && crashSeq < 0 {
			// crash point: before this write reaches the store
			crashSeq = atomic.AddInt64(&seq, 1)
			g.mu.Lock()
			crashLog = append([]write{}, g.log...)
			g.mu.Unlock()
		}
		tv, _ := gidThread.Load(q.w.Gid)
		t, _ := tv.(int)
		gr := granted{thread: t, opIdx: int(atomic.LoadInt32(&curOp[t])), kind: kindOf(q.w.Key), val: q.w.Val, at: atomic.AddInt64(&seq, 1)}
		grants = append(grants, gr)
		close(q.grant)
		select {
		case <-q.done:
		case <-time.After(5 * time.Second):
			out.TimedOut = true
			finished = true
		}
	}
	if crashSeq < 0 { // crash after everything
		crashSeq = atomic.AddInt64(&seq, 1)
		g.mu.Lock()
		crashLog = append([]write{}, g.log...)
		g.mu.Unlock()
	}
	_ = base
	// ---- restart on the surviving contents
	st2, e := leveldb.NewInMemoryStateStore(logger)
	if e != nil {
		return out, e
	}
	for _, w := range crashLog {
		if e := st2.Put(w.Key, w.Raw); e != nil {
			return out, e
		}
	}
	cs2 := chequePkg.NewChequeStore(st2, selfAddr, nil, 1)
	v1, _ := cs2.GetRetrieveTraffic(peerAddr)
	v2, _ := cs2.GetTransferTraffic(peerAddr)
	out.Disk[0], out.Disk[1] = v1.Int64(), v2.Int64()
	if lc, e := cs2.LastSendCheque(peerAddr); e == nil {
		out.Disk[2] = lc.CumulativePayout.Int64()
	}
	if lc, e := cs2.LastReceivedCheque(peerAddr); e == nil {
		out.Disk[3] = lc.CumulativePayout.Int64()
	}
	svc2 := newService(st2, c.D0[4], c.D0[5])
	if e := svc2.Init(); e != nil {
		return out, e
	}
	out.Restored = totals(svc2)

	// ---- completed-before-crash bookkeeping (oracle side)
	out.DoneSend, out.DoneRecv = init[1], init[3]
	for _, d := range dones {
		if d.at >= crashSeq {
			continue
		}
		o := c.Progs[d.thread][d.idx]
		switch o.K {
		case "putR":
			out.DoneR += o.V
		case "putT":
			out.DoneT += o.V
		}
	}
	ng := len(grants)
	if c.CrashK < ng {
		ng = c.CrashK
	}
	for i, gr := range grants {
		out.Grants = append(out.Grants, fmt.Sprintf("%d:%s:%d", gr.thread, gr.kind, gr.val))
		if i >= ng {
			continue
		}
		// a cheque write that reached the store before the crash AND whose call returned before it
		for _, d := range dones {
			if d.thread == gr.thread && d.idx == gr.opIdx && d.at < crashSeq {
				if gr.kind == "send" && gr.val > out.DoneSend {
					out.DoneSend = gr.val
				}
				if gr.kind == "recv" && gr.val > out.DoneRecv {
					out.DoneRecv = gr.val
				}
			}
		}
	}
	// ---- micro-schedule for the Coq model: grant order, first CrashK writes
	out.modelProgs, out.Sched, out.Unplaced = deriveSchedule(c, init, grants, ng)
	out.init = init
	// let stragglers finish (they were all granted above unless timed out)
	return out, nil
}

type granted struct {
	thread, opIdx int
	kind          string
	val           int64
	at            int64
}

type block struct {
	thread, steps int
	rTbefore      int64
}

// deriveSchedule turns the observed order of persisting regions (first ng grants) into the
// programs and scheduler steps of the Coq model. Operations that never reached the store
// before the crash point (a Pay that does not issue, a rejected cheque, anything after the
// crash) have no effect on memory or disk and are left out of the model programs. The balance
// read of an issuing Pay does not reach the gate either: it is placed at the latest point since
// the settler's previous cheque where retrieveTraffic equals the observed payout (payout =
// lastSent + (retrieveTraffic - lastSent) at the time of the read).
func deriveSchedule(c caseJ, init [4]int64, grants []granted, ng int) (progs [][]opJ, sched []int, unplaced string) {
	progs = make([][]opJ, len(c.Progs))
	var blocks []block
	rT := init[0]
	windowStart := 0
	for i := 0; i < ng; i++ {
		gr := grants[i]
		op := c.Progs[gr.thread][gr.opIdx]
		if gr.kind == "other" || op.K == "refresh" {
			continue // chain totals written by a refresh: not part of the model's disk; a refresh is the identity on the modelled memory when no cheque was received in the epoch
		}
		progs[gr.thread] = append(progs[gr.thread], op)
		switch gr.kind {
		case "rT":
			blocks = append(blocks, block{gr.thread, 4, rT})
			rT = gr.val
		case "tT", "recv":
			blocks = append(blocks, block{gr.thread, 4, rT})
		case "send":
			p := gr.val
			pos := -1
			for j := len(blocks); j >= windowStart; j-- {
				v := rT
				if j < len(blocks) {
					v = blocks[j].rTbefore
				}
				if v == p {
					pos = j
					break
				}
			}
			if pos < 0 {
				unplaced = fmt.Sprintf("payout %d of thread %d op %d equals no retrieveTraffic value since the previous cheque", p, gr.thread, gr.opIdx)
				pos = len(blocks)
			}
			v := rT
			if pos < len(blocks) {
				v = blocks[pos].rTbefore
			}
			nb := append([]block{}, blocks[:pos]...)
			nb = append(nb, block{gr.thread, 2, v})
			nb = append(nb, blocks[pos:]...)
			blocks = append(nb, block{gr.thread, 4, rT})
			if p > rT {
				rT = p
			}
			windowStart = len(blocks)
		}
	}
	for _, b := range blocks {
		for k := 0; k < b.steps; k++ {
			sched = append(sched, b.thread)
		}
	}
	return
}

// runMulti: K peers with stored totals and cheques, sequential operations (no gate), restart on
// the same store; every peer's totals must be restored to at least what its completed
// operations produced (the restore loop over peers is glue around the per-peer model).
type multiJ struct {
	Kind  string  `json:"kind"`
	Peers int     `json:"peers"`
	PutR  []int64 `json:"putR"`
	PutT  []int64 `json:"putT"`
	Recv  []int64 `json:"recv"`
	Cash  []int   `json:"cash,omitempty"`  // per peer: 0 no cash-out; 1 receipt status 1; 2 receipt status 0; 3 receipt unavailable
	PutT2 []int64 `json:"putT2,omitempty"` // traffic served after the cash-out receipt
}

func runMulti(m multiJ) (restored [][4]int64, want [][4]int64, err error) {
	logger := logging.New(io.Discard, 0)
	st, e := leveldb.NewInMemoryStateStore(logger)
	if e != nil {
		return nil, nil, e
	}
	chainCashed.Range(func(k, _ interface{}) bool { chainCashed.Delete(k); return true })
	sentinelAddr := common.BytesToAddress(bytes.Repeat([]byte{0x99}, 20))
	sentinelOv := boson.NewAddress(bytes.Repeat([]byte{0x98}, 32))
	co := &cashStub{receipt: map[common.Address]int{}, amount: map[common.Address]int64{}, sentinel: sentinelAddr, done: make(chan struct{}, 1)}
	mk := func() *traffic.Service { return newServiceCash(st, 0, 0, co) }
	svc := mk()
	if e := svc.Init(); e != nil {
		return nil, nil, e
	}
	ab := traffic.NewAddressBook(st)
	addrs := make([]common.Address, m.Peers)
	ovs := make([]boson.Address, m.Peers)
	for i := 0; i < m.Peers; i++ {
		addrs[i] = common.BytesToAddress(bytes.Repeat([]byte{byte(0x30 + i)}, 20))
		ovs[i] = boson.NewAddress(bytes.Repeat([]byte{byte(0x40 + i)}, 32))
		if e := ab.PutBeneficiary(ovs[i], addrs[i]); e != nil {
			return nil, nil, e
		}
	}
	if e := ab.PutBeneficiary(sentinelOv, sentinelAddr); e != nil {
		return nil, nil, e
	}
	// the running service has its own address book instance: register there too
	svc = mk()
	if e := svc.Init(); e != nil {
		return nil, nil, e
	}
	want = make([][4]int64, m.Peers)
	cashed := false
	for i := 0; i < m.Peers; i++ {
		if v := m.PutR[i]; v > 0 {
			if e := svc.PutRetrieveTraffic(ovs[i], big.NewInt(v)); e != nil {
				return nil, nil, e
			}
			want[i][0] = v
		}
		if v := m.PutT[i]; v > 0 {
			if e := svc.PutTransferTraffic(ovs[i], big.NewInt(v)); e != nil {
				return nil, nil, e
			}
			want[i][2] = v
		}
		if v := m.Recv[i]; v > 0 {
			e := svc.ReceiveCheque(context.Background(), ovs[i], &chequePkg.SignedCheque{Cheque: chequePkg.Cheque{Recipient: selfAddr, Beneficiary: addrs[i], CumulativePayout: big.NewInt(v)}, Signature: []byte{1}})
			if e != nil {
				return nil, nil, e
			}
			want[i][3] = v
		}
		if i < len(m.Cash) && m.Cash[i] != 0 && m.Recv[i] > 0 {
			co.mu.Lock()
			co.receipt[addrs[i]] = map[int]int{1: 1, 2: 0, 3: -1}[m.Cash[i]]
			co.amount[addrs[i]] = m.Recv[i]
			co.mu.Unlock()
			if _, e := svc.CashCheque(context.Background(), ovs[i]); e != nil {
				return nil, nil, e
			}
			cashed = true
		}
	}
	if cashed {
		// the receipt loop handles transactions one after the other: once it asks for the
		// sentinel's receipt, every earlier receipt has been handled completely
		if _, e := svc.CashCheque(context.Background(), sentinelOv); e != nil {
			return nil, nil, e
		}
		select {
		case <-co.done:
		case <-time.After(20 * time.Second):
			return nil, nil, errors.New("cash-out receipt loop did not finish")
		}
	}
	for i := 0; i < m.Peers; i++ {
		if i < len(m.PutT2) && m.PutT2[i] > 0 {
			if e := svc.PutTransferTraffic(ovs[i], big.NewInt(m.PutT2[i])); e != nil {
				return nil, nil, e
			}
			want[i][2] = want[i][2] + m.PutT2[i]
		}
	}
	svc2 := mk()
	if e := svc2.Init(); e != nil {
		return nil, nil, e
	}
	restored = make([][4]int64, m.Peers)
	for i := 0; i < m.Peers; i++ {
		a, b, c, d, known := svc2.VerifTotals(addrs[i])
		if known {
			restored[i] = [4]int64{a.Int64(), b.Int64(), c.Int64(), d.Int64()}
		}
	}
	return restored, want, nil
}

func coqOp(o opJ) string {
	switch o.K {
	case "putR":
		return hx.CoqApp("PutR", hx.CoqZ(o.V))
	case "putT":
		return hx.CoqApp("PutT", hx.CoqZ(o.V))
	case "pay":
		return hx.CoqApp("Pay", hx.CoqZ(o.V))
	case "refresh":
		return "Refresh"
	case "cash":
		return "Cash"
	}
	return hx.CoqApp("Recv", hx.CoqZ(o.V))
}

func z4(v [4]int64) string {
	return hx.CoqTuple(hx.CoqZ(v[0]), hx.CoqZ(v[1]), hx.CoqZ(v[2]), hx.CoqZ(v[3]))
}

func main() {
	run := hx.Start("C33", "Aurora.C33.Corr",
		"one peer; 1-3 writer threads (PutRetrieveTraffic/PutTransferTraffic), one settler thread (Pay) and one cheque-receiving thread run concurrently against the real traffic.Service over a gated state store; the controller grants store writes in seeded random order, crashes after k writes and restarts a fresh Service on the surviving contents; non-trivial = at least two threads had a lock region before the crash point; distinct by (initial disk, programs, crash point, observed grant order)")
	r := run.R
	do := func(c caseJ, tag string) {
		var out outcome
		var err error
		ok := hx.WithTimeout(40*time.Second, func() { out, err = runCase(c) })
		if !ok || err != nil || out.TimedOut {
			run.Violate(hx.Violation{Sig: "run:hang-or-error", Detail: fmt.Sprintf("case did not complete: ok=%v err=%v timedout=%v", ok, err, out.TimedOut), Case: c})
			run.AddCase("", c, fmt.Sprintf("%v", c), false)
			return
		}
		run.Hist(tag)
		run.Hist(fmt.Sprintf("max_waiters=%d", out.MaxWait))
		threads := map[string]bool{}
		ng := len(out.Grants)
		if c.CrashK < ng {
			ng = c.CrashK
		}
		for _, gs := range out.Grants[:ng] {
			threads[strings.SplitN(gs, ":", 2)[0]] = true
			run.Hist("write." + strings.Split(gs, ":")[1])
		}
		progs := out.modelProgs
		pl := make([]string, len(progs))
		for i, p := range progs {
			el := make([]string, len(p))
			for j, o := range p {
				el[j] = coqOp(o)
			}
			pl[i] = hx.CoqList(el, "op")
		}
		sl := make([]string, len(out.Sched))
		for i, t := range out.Sched {
			sl[i] = hx.CoqNat(t)
		}
		d0 := hx.CoqTuple(hx.CoqZ(c.D0[0]), hx.CoqZ(c.D0[1]), hx.CoqZ(c.D0[2]), hx.CoqZ(c.D0[3]), hx.CoqZ(c.D0[4]), hx.CoqZ(c.D0[5]))
		coq := hx.CoqApp("CRun", d0, hx.CoqList(pl, "list op"), hx.CoqList(sl, "nat"), z4(out.Disk), z4(out.Restored))
		js := map[string]interface{}{"case": c, "observed": out}
		run.AddCase(coq, js, fmt.Sprintf("%v|%v", c, out.Grants), len(threads) >= 2)
		// ---- oracle on the implementation
		run.OracleChecked(4)
		base := out.init
		if out.Restored[0] < base[0]+out.DoneR {
			run.Violate(hx.Violation{Sig: "restart:retrieveTraffic<completed-updates", Detail: fmt.Sprintf("restored retrieveTraffic %d < initial %d + completed PutRetrieveTraffic %d", out.Restored[0], base[0], out.DoneR), Case: c, Impl: out, Want: base[0] + out.DoneR})
		}
		if out.Restored[2] < base[2]+out.DoneT {
			run.Violate(hx.Violation{Sig: "restart:transferTraffic<completed-updates", Detail: fmt.Sprintf("restored transferTraffic %d < initial %d + completed PutTransferTraffic %d", out.Restored[2], base[2], out.DoneT), Case: c, Impl: out, Want: base[2] + out.DoneT})
		}
		if out.Restored[1] < out.DoneSend {
			run.Violate(hx.Violation{Sig: "restart:lastSentCheque<completed", Detail: fmt.Sprintf("restored last sent cheque amount %d < completed %d", out.Restored[1], out.DoneSend), Case: c, Impl: out, Want: out.DoneSend})
		}
		if out.Restored[3] < out.DoneRecv {
			run.Violate(hx.Violation{Sig: "restart:lastReceivedCheque<completed", Detail: fmt.Sprintf("restored last received cheque amount %d < completed %d", out.Restored[3], out.DoneRecv), Case: c, Impl: out, Want: out.DoneRecv})
		}
		if out.Unplaced != "" {
			run.Violate(hx.Violation{Sig: "pay:payout-unexplained", Detail: out.Unplaced, Case: c, Impl: out})
		}
	}

	// corpus: the F-persist-order witness shape (two concurrent PutRetrieveTraffic), many grant orders
	// several peers restored by one Init (the per-peer loop of trafficInit)
	doMulti := func(m multiJ, tag string) {
		k := m.Peers
		var restored, want [][4]int64
		var err error
		ok := hx.WithTimeout(40*time.Second, func() { restored, want, err = runMulti(m) })
		run.Hist(tag)
		if !ok || err != nil {
			run.AddCase("", m, fmt.Sprintf("%v", m), true)
			run.Violate(hx.Violation{Sig: "run:hang-or-error", Detail: fmt.Sprintf("multi-peer case did not complete: ok=%v err=%v", ok, err), Case: m})
			return
		}
		// correspondence: every peer is an independent sequential history of the one-peer model
		for j := 0; j < k; j++ {
			var ops []string
			if m.PutR[j] > 0 {
				ops = append(ops, coqOp(opJ{"putR", m.PutR[j]}))
			}
			if m.PutT[j] > 0 {
				ops = append(ops, coqOp(opJ{"putT", m.PutT[j]}))
			}
			if m.Recv[j] > 0 {
				ops = append(ops, coqOp(opJ{"recv", m.Recv[j]}))
				if j < len(m.Cash) && m.Cash[j] == 1 {
					ops = append(ops, coqOp(opJ{"cash", 0}))
				}
				if j < len(m.Cash) {
					run.Hist(fmt.Sprintf("cash.mode=%d", m.Cash[j]))
				}
			}
			if j < len(m.PutT2) && m.PutT2[j] > 0 {
				ops = append(ops, coqOp(opJ{"putT", m.PutT2[j]}))
			}
			run.AddCase(hx.CoqApp("CSeq", hx.CoqList(ops, "op"), z4(restored[j])), map[string]interface{}{"multi": m, "peer": j, "restored": restored[j]}, fmt.Sprintf("%v|%d", m, j), len(ops) >= 2)
		}
		run.OracleChecked(4 * k)
		for j := 0; j < k; j++ {
			names := []string{"retrieveTraffic", "lastSentCheque", "transferTraffic", "lastReceivedCheque"}
			for f := 0; f < 4; f++ {
				if restored[j][f] < want[j][f] {
					sig := "restart:multi-peer:" + names[f] + "<completed"
					if j < len(m.Cash) && m.Cash[j] != 0 && m.Recv[j] > 0 {
						sig = "restart:after-cash-out:" + names[f] + "<completed"
					}
					run.Violate(hx.Violation{Sig: sig, Detail: fmt.Sprintf("peer %d of %d: restored %s %d < completed %d", j, k, names[f], restored[j][f], want[j][f]), Case: m, Impl: restored, Want: want})
				}
			}
		}
	}
	if run.Replay != "" {
		var probe struct {
			Kind  string          `json:"kind"`
			Multi json.RawMessage `json:"multi"`
			Case  json.RawMessage `json:"case"`
		}
		if err := run.ReadReplay(&probe); err != nil {
			panic(err)
		}
		switch {
		case probe.Kind != "":
			var m multiJ
			if err := run.ReadReplay(&m); err != nil {
				panic(err)
			}
			doMulti(m, "replay")
		case probe.Multi != nil:
			var m multiJ
			if err := json.Unmarshal(probe.Multi, &m); err != nil {
				panic(err)
			}
			doMulti(m, "replay")
		case probe.Case != nil:
			var c caseJ
			if err := json.Unmarshal(probe.Case, &c); err != nil {
				panic(err)
			}
			do(c, "replay")
		default:
			var c caseJ
			if err := run.ReadReplay(&c); err != nil {
				panic(err)
			}
			do(c, "replay")
		}
		run.Finish()
		return
	}
	// cash-out receipts between served traffic and the restart (fixed cases on every seed)
	doMulti(multiJ{Kind: "cash-out-restart", Peers: 1, PutR: []int64{0}, PutT: []int64{12}, Recv: []int64{5}, Cash: []int{1}, PutT2: []int64{0}}, "corpus.cash-then-restart")
	doMulti(multiJ{Kind: "cash-out-restart", Peers: 3, PutR: []int64{4, 0, 9}, PutT: []int64{12, 30, 7}, Recv: []int64{5, 30, 2}, Cash: []int{1, 1, 2}, PutT2: []int64{0, 0, 0}}, "corpus.cash-then-restart")
	doMulti(multiJ{Kind: "cash-out-restart", Peers: 3, PutR: []int64{1, 2, 3}, PutT: []int64{20, 8, 15}, Recv: []int64{10, 8, 1}, Cash: []int{1, 3, 1}, PutT2: []int64{3, 0, 0}}, "corpus.cash-then-restart")
	for i := 0; i < run.N(6, 40); i++ {
		k := 2 + r.Intn(10)
		m := multiJ{Kind: "multi-peer-restart", Peers: k}
		for j := 0; j < k; j++ {
			m.PutR = append(m.PutR, int64(r.Intn(20)))
			m.PutT = append(m.PutT, int64(r.Intn(20)))
			m.Recv = append(m.Recv, int64(r.Intn(3)*(1+r.Intn(9))))
			m.Cash = append(m.Cash, r.Pick([]int{0, 0, 1, 1, 1, 2, 3}))
			m.PutT2 = append(m.PutT2, int64(r.Pick([]int{0, 0, 0, 2, 11})))
		}
		doMulti(m, "multi-peer-restart")
	}
	// a 24 h refresh concurrent with traffic updates
	for i := 0; i < run.N(6, 30); i++ {
		w1 := []opJ{{"putR", 10}, {"putR", 5}, {"putR", 1}, {"putT", 2}, {"putR", 3}, {"putR", 4}, {"putR", 6}, {"putR", 2}}
		w2 := []opJ{{"putT", 3}, {"putR", 2}, {"putT", 1}, {"putR", 7}, {"putR", 1}, {"putT", 5}, {"putR", 2}, {"putR", 9}}
		do(caseJ{D0: [6]int64{4, 2, 0, 0, 0, 0}, Progs: [][]opJ{{{"refresh", 0}, {"refresh", 0}, {"refresh", 0}}, w1, w2}, CrashK: 99, Seed: r.U64()}, "corpus.refresh-vs-updates")
	}
	// a peer known only through cheques (no traffic totals stored yet)
	do(caseJ{NoKeys: true, Progs: [][]opJ{{}, {}, {{"recv", 9}}}, CrashK: 99, Seed: 1}, "corpus.cheque-only-peer")
	do(caseJ{NoKeys: true, Progs: [][]opJ{{{"putR", 4}}, {{"pay", 1}}, {{"recv", 9}}}, CrashK: 99, Seed: 2}, "corpus.cheque-only-peer")
	for i := 0; i < run.N(12, 60); i++ {
		do(caseJ{D0: [6]int64{}, Progs: [][]opJ{{{"putR", 10}}, {{"putR", 10}}}, CrashK: 99, Seed: r.U64()}, "corpus.two-putR")
		do(caseJ{D0: [6]int64{0, 5, 0, 0, 0, 0}, Progs: [][]opJ{{{"putT", 3}, {"putT", 4}}, {{"putT", 10}}, {{"putR", 2}}}, CrashK: 99, Seed: r.U64()}, "corpus.three-threads")
	}
	small := func() int64 { return int64(r.Pick([]int{0, 0, 1, 3, 7, 12, 25})) }
	for i := 0; i < run.N(90, 900); i++ {
		var c caseJ
		c.D0 = [6]int64{small(), small(), small(), small(), small(), small()}
		nw := 1 + r.Intn(3)
		total := 0
		for t := 0; t < nw; t++ {
			var p []opJ
			for k := 0; k < 1+r.Intn(3); k++ {
				kind := "putR"
				if r.Chance(1, 3) {
					kind = "putT"
				}
				p = append(p, opJ{kind, int64(1 + r.Intn(9))})
				total++
			}
			c.Progs = append(c.Progs, p)
		}
		var sp []opJ
		for k := 0; k < r.Intn(4); k++ {
			sp = append(sp, opJ{"pay", int64(r.Pick([]int{0, 1, 5, 20}))})
			total++
		}
		c.Progs = append(c.Progs, sp)
		var cp []opJ
		lr := c.D0[3]
		for k := 0; k < r.Intn(4); k++ {
			p := lr + int64(r.Intn(8)) - 2
			cp = append(cp, opJ{"recv", p})
			if p > lr {
				lr = p
			}
			total++
		}
		if r.Chance(1, 3) {
			// refresh epoch: no cheque receipts (a refresh is then the identity on the modelled memory), a refresh thread instead
			c.Progs[len(c.Progs)-1] = nil
			var rp []opJ
			for k := 0; k < 1+r.Intn(2); k++ {
				rp = append(rp, opJ{"refresh", 0})
			}
			c.Progs = append(c.Progs, rp)
			c.CrashK = 99
		} else {
			c.CrashK = r.Intn(total + 2)
		}
		c.Seed = r.U64()
		do(c, "random")
	}
	run.Finish()
}
