// Stubs of the collaborators of retrieval.Service / traversal / chunkinfo: they record the
// calls made on them (the observable trace) and fail on demand.
package main

import (
	"context"
	"errors"
	"sync"
	"time"

	"github.com/gauss-project/aurorafs/pkg/aurora"
	"github.com/gauss-project/aurorafs/pkg/boson"
	"github.com/gauss-project/aurorafs/pkg/chunkinfo"
	"github.com/gauss-project/aurorafs/pkg/p2p"
	"github.com/gauss-project/aurorafs/pkg/retrieval/aco"
	"github.com/gauss-project/aurorafs/pkg/routetab"
	"github.com/gauss-project/aurorafs/pkg/storage"
)

var (
	errStub    = errors.New("stub: injected failure")
	errPutStub = errors.New("stub: injected put failure")
)

// ---------------------------------------------------------------- event log

type event struct {
	Kind string // connect reserve stream credit report put
	Addr []byte
	Data []byte
	Root []byte
}

type evlog struct {
	mu sync.Mutex
	ev []event
}

func (l *evlog) add(e event) {
	l.mu.Lock()
	l.ev = append(l.ev, e)
	l.mu.Unlock()
}
func (l *evlog) take() []event {
	l.mu.Lock()
	defer l.mu.Unlock()
	out := l.ev
	l.ev = nil
	return out
}

// ---------------------------------------------------------------- per-attempt script

// script: what the n-th retrieveChunk call meets. The stubs pop the head when Connect is called.
type attemptEnv struct {
	ConnectOK bool `json:"connect"`
	ReserveOK bool `json:"reserve"`
	StreamOK  bool `json:"stream"`
	CreditOK  bool `json:"credit"`
	ReportOK  bool `json:"report"`
	PutOK     bool `json:"put"`
	Reply     reply `json:"reply"`
}

// reply kinds: "close" (no bytes), "delivery" (Delivery{Data}), "garbage" (a frame that is not a
// Delivery), "oversize" (a frame announcing Extra bytes more than the 1 MiB limit), "padded"
// (a Delivery with an unknown extra field so that the frame is Extra bytes longer).
type reply struct {
	Kind  string `json:"kind"`
	Data  Blob   `json:"data,omitempty"`
	Extra int    `json:"extra,omitempty"`
}

type scriptState struct {
	mu   sync.Mutex
	envs []attemptEnv
	cur  *attemptEnv
}

func (s *scriptState) next() *attemptEnv {
	s.mu.Lock()
	defer s.mu.Unlock()
	if len(s.envs) == 0 {
		s.cur = &attemptEnv{}
		return s.cur
	}
	s.cur = &s.envs[0]
	s.envs = s.envs[1:]
	return s.cur
}
func (s *scriptState) current() *attemptEnv {
	s.mu.Lock()
	defer s.mu.Unlock()
	if s.cur == nil {
		return &attemptEnv{}
	}
	return s.cur
}

// ---------------------------------------------------------------- route table

type routeStub struct {
	log *evlog
	sc  *scriptState
}

func (r *routeStub) GetRoute(context.Context, boson.Address) ([]*routetab.Path, error) {
	return nil, errStub
}
func (r *routeStub) FindRoute(context.Context, boson.Address, ...time.Duration) ([]*routetab.Path, error) {
	return nil, errStub
}
func (r *routeStub) DelRoute(context.Context, boson.Address) error { return nil }
func (r *routeStub) Connect(_ context.Context, _ boson.Address) error {
	if r.sc == nil {
		return nil
	}
	e := r.sc.next()
	r.log.add(event{Kind: "connect"})
	if !e.ConnectOK {
		return errStub
	}
	return nil
}
func (r *routeStub) GetTargetNeighbor(context.Context, boson.Address, int) ([]boson.Address, error) {
	return nil, errStub
}
func (r *routeStub) IsNeighbor(boson.Address) bool { return true }
func (r *routeStub) FindUnderlay(context.Context, boson.Address, ...time.Duration) (*aurora.Address, error) {
	return nil, errStub
}

// ---------------------------------------------------------------- accounting

type acctStub struct {
	log *evlog
	sc  *scriptState
}

func (a *acctStub) Reserve(boson.Address, uint64) error {
	a.log.add(event{Kind: "reserve"})
	if !a.sc.current().ReserveOK {
		return errStub
	}
	return nil
}
func (a *acctStub) Credit(context.Context, boson.Address, uint64) error {
	a.log.add(event{Kind: "credit"})
	if !a.sc.current().CreditOK {
		return errStub
	}
	return nil
}
func (a *acctStub) Debit(boson.Address, uint64) error { return nil }

// ---------------------------------------------------------------- streamer wrapper

type streamerStub struct {
	log   *evlog
	sc    *scriptState
	inner p2p.Streamer
}

func (s *streamerStub) NewStream(ctx context.Context, a boson.Address, h p2p.Headers, p, v, n string) (p2p.Stream, error) {
	s.log.add(event{Kind: "stream"})
	if !s.sc.current().StreamOK {
		return nil, errStub
	}
	return s.inner.NewStream(ctx, a, h, p, v, n)
}
func (s *streamerStub) NewRelayStream(context.Context, boson.Address, p2p.Headers, string, string, string, bool) (p2p.Stream, error) {
	return nil, errStub
}
func (s *streamerStub) NewConnChainRelayStream(context.Context, boson.Address, p2p.Headers, string, string, string) (p2p.Stream, error) {
	return nil, errStub
}

// ---------------------------------------------------------------- chunkinfo (as seen by retrieval)

type ciStub struct {
	log *evlog
	sc  *scriptState
}

func (c *ciStub) FindChunkInfo(context.Context, []byte, boson.Address, []boson.Address) bool {
	return false
}
func (c *ciStub) GetChunkInfo(boson.Address, boson.Address) []aco.Route { return nil }
func (c *ciStub) GetChunkInfoDiscoverOverlays(boson.Address) []aurora.ChunkInfoOverlay {
	return nil
}
func (c *ciStub) GetChunkInfoServerOverlays(boson.Address) []aurora.ChunkInfoOverlay { return nil }
func (c *ciStub) CancelFindChunkInfo(boson.Address)                                   {}
func (c *ciStub) OnChunkTransferred(boson.Address, boson.Address, boson.Address, boson.Address) error {
	return nil
}
func (c *ciStub) Init(context.Context, []byte, boson.Address) bool           { return false }
func (c *ciStub) GetChunkPyramid(boson.Address) []*chunkinfo.PyramidCidNum   { return nil }
func (c *ciStub) IsDiscover(boson.Address) bool                              { return false }
func (c *ciStub) GetFileList(boson.Address) ([]map[string]interface{}, []boson.Address) {
	return nil, nil
}
func (c *ciStub) DelFile(boson.Address, func() error) error { return nil }
func (c *ciStub) DelDiscover(boson.Address)                 {}
func (c *ciStub) OnChunkRetrieved(_, _, _ boson.Address) error {
	c.log.add(event{Kind: "report"})
	if !c.sc.current().ReportOK {
		return errStub
	}
	return nil
}
func (c *ciStub) GetChunkInfoSource(boson.Address) aurora.ChunkInfoSourceApi {
	return aurora.ChunkInfoSourceApi{}
}
func (c *ciStub) ManifestView(context.Context, string, string, int) (*chunkinfo.ManifestNode, error) {
	return nil, errStub
}
func (c *ciStub) GetManifest(string, string, int) *chunkinfo.ManifestNode { return nil }

// ---------------------------------------------------------------- store

// storeStub: a map-backed store that records every Put (address, payload copy, root hash of the
// context) and fails the k-th Put on demand (failAt, counted from 0 after reset) or whenever the
// current script entry says so.
type storeStub struct {
	mu     sync.Mutex
	m      map[string][]byte
	log    *evlog
	sc     *scriptState
	failAt int
	nput   int
}

func newStore(log *evlog) *storeStub { return &storeStub{m: map[string][]byte{}, log: log, failAt: -1} }

func (s *storeStub) reset(failAt int) {
	s.mu.Lock()
	s.failAt, s.nput = failAt, 0
	s.mu.Unlock()
}

func (s *storeStub) Get(_ context.Context, _ storage.ModeGet, addr boson.Address) (boson.Chunk, error) {
	s.mu.Lock()
	defer s.mu.Unlock()
	v, ok := s.m[addr.String()]
	if !ok {
		return nil, storage.ErrNotFound
	}
	return boson.NewChunk(addr, v), nil
}

func (s *storeStub) Put(ctx context.Context, _ storage.ModePut, chs ...boson.Chunk) ([]bool, error) {
	s.mu.Lock()
	defer s.mu.Unlock()
	exist := make([]bool, len(chs))
	for i, ch := range chs {
		d := append([]byte{}, ch.Data()...)
		s.log.add(event{Kind: "put", Addr: append([]byte{}, ch.Address().Bytes()...), Data: d})
		k := s.nput
		s.nput++
		if k == s.failAt || (s.sc != nil && !s.sc.current().PutOK) {
			return exist, errPutStub
		}
		_, exist[i] = s.m[ch.Address().String()]
		s.m[ch.Address().String()] = d
	}
	return exist, nil
}

func (s *storeStub) GetMulti(context.Context, storage.ModeGet, ...boson.Address) ([]boson.Chunk, error) {
	return nil, errStub
}
func (s *storeStub) Has(_ context.Context, _ storage.ModeHas, addr boson.Address) (bool, error) {
	s.mu.Lock()
	defer s.mu.Unlock()
	_, ok := s.m[addr.String()]
	return ok, nil
}
func (s *storeStub) HasMulti(context.Context, storage.ModeHas, ...boson.Address) ([]bool, error) {
	return nil, errStub
}
func (s *storeStub) Set(context.Context, storage.ModeSet, ...boson.Address) error { return nil }
func (s *storeStub) Close() error                                                 { return nil }

// ---------------------------------------------------------------- state store that can fail Put

type failState struct {
	storage.StateStorer
	mu      sync.Mutex
	failPut bool
}

func (f *failState) Put(key string, i interface{}) error {
	f.mu.Lock()
	fail := f.failPut
	f.mu.Unlock()
	if fail {
		return errStub
	}
	return f.StateStorer.Put(key, i)
}
func (f *failState) setFail(b bool) {
	f.mu.Lock()
	f.failPut = b
	f.mu.Unlock()
}
