// Generators of the C06 harness (all randomness from the run's splitmix64).
package main

import (
	"encoding/hex"
	"encoding/json"
	"fmt"

	"github.com/gauss-project/aurorafs/pkg/boson"
	"github.com/gauss-project/aurorafs/pkg/cac"
	"github.com/gauss-project/aurorafs/pkg/crypto"
	"github.com/gauss-project/aurorafs/pkg/soc"
	"verifharness/hx"
)

func jsonMarshal(v interface{}) ([]byte, error) { return json.Marshal(v) }

// ---------------------------------------------------------------- subjects of retrieval

type subject struct {
	addr    []byte
	payload []byte
	kind    string // cac | soc
}

func mkCacSubject(r *hx.Rand, n int) subject {
	a, p := cacOf(uint64(n), fileData(r, n))
	return subject{addr: a, payload: p, kind: "cac"}
}

func mkSocSubject(r *hx.Rand, n int) subject {
	key := r.Bytes(32)
	key[0] &= 0x7f
	key[31] |= 1
	pk, err := crypto.DecodeSecp256k1PrivateKey(key)
	if err != nil {
		panic(err)
	}
	inner, err := cac.New(fileData(r, n))
	if err != nil {
		panic(err)
	}
	ch, err := soc.New(r.Bytes(32), inner).Sign(crypto.NewDefaultSigner(pk))
	if err != nil {
		panic(err)
	}
	return subject{addr: ch.Address().Bytes(), payload: ch.Data(), kind: "soc"}
}

func subjects(r *hx.Rand, thorough bool) []subject {
	var out []subject
	for _, n := range []int{1, 31, 32, 33, 100, 4096, chunkSize - 1, chunkSize, chunkSize} {
		out = append(out, mkCacSubject(r, n))
	}
	// span-only chunk (8 bytes, no data)
	a, p := cacOf(0, nil)
	out = append(out, subject{addr: a, payload: p, kind: "cac"})
	for _, n := range []int{1, 64, 2000} {
		out = append(out, mkSocSubject(r, n))
	}
	for _, sp := range emptySpans[1:] {
		a, p := cacOf(sp, nil)
		out = append(out, subject{addr: a, payload: p, kind: "cac"})
	}
	if thorough {
		for i := 0; i < 12; i++ {
			out = append(out, mkCacSubject(r, 1+r.Intn(20000)))
			out = append(out, mkSocSubject(r, 1+r.Intn(4000)))
		}
	}
	return out
}

// ---------------------------------------------------------------- boundary: empty and one-byte payloads

var emptySpans = []uint64{0, 1, 4096, 1 << 32, 1 << 63}

// emptyReply: span s followed by no data, one zero byte (same BMT root as no data: zero padding)
// or one non-zero byte.
func emptyReply(r *hx.Rand, s uint64) reply {
	p := le64(s)
	switch r.Intn(4) {
	case 0:
		p = append(p, 0)
	case 1:
		p = append(p, byte(1+r.Intn(255)))
	}
	return reply{Kind: "delivery", Data: FromBytes(p)}
}

// genEmpty: a request for the address of the empty chunk with span s, answered with empty /
// one-byte payloads under assorted spans (the genuine one among them). A validator that does not
// bind the span for an empty payload accepts a reply that is not the requested chunk.
func genEmpty(r *hx.Rand) jcase {
	s := emptySpans[r.Intn(len(emptySpans))]
	addr, _ := cacOf(s, nil)
	n := 1 + r.Intn(3)
	jc := jcase{Kind: "retr", Addr: hx.Hex(addr), Root: hx.Hex(r.Bytes(32)), NRoutes: n, Note: fmt.Sprintf("empty-chunk span=%d", s)}
	if r.Chance(1, 5) {
		e := okEnv()
		e.Reply = emptyReply(r, emptySpans[r.Intn(len(emptySpans))])
		return jcase{Kind: "relay", Addr: jc.Addr, Root: jc.Root, Note: jc.Note, Pass1: []attemptEnv{e}}
	}
	for i := 0; i < 2*n; i++ {
		e := okEnv()
		sp := emptySpans[r.Intn(len(emptySpans))]
		if r.Chance(1, 4) {
			sp = s
		}
		e.Reply = emptyReply(r, sp)
		if i < n {
			jc.Pass1 = append(jc.Pass1, e)
		} else {
			jc.Pass2 = append(jc.Pass2, e)
		}
	}
	return jc
}

func okEnv() attemptEnv {
	return attemptEnv{ConnectOK: true, ReserveOK: true, StreamOK: true, CreditOK: true, ReportOK: true, PutOK: true}
}

// a reply for subject s, from the honest one to the adversarial ones
func genReply(r *hx.Rand, s subject, all []subject) (reply, string) {
	p := append([]byte{}, s.payload...)
	deliver := func(b []byte) reply { return reply{Kind: "delivery", Data: FromBytes(b)} }
	switch r.Intn(16) {
	case 0, 1, 2, 3:
		return deliver(p), "honest"
	case 4: // truncated
		k := 1 + r.Intn(min(len(p), 40))
		return deliver(p[:len(p)-k]), "truncated"
	case 5: // zero-extended (still valid while within the bound: the BMT pads with zeros)
		k := r.Pick([]int{1, 7, 32, 100})
		return deliver(append(p, make([]byte, k)...)), "zero-extended"
	case 6: // extended with junk
		k := r.Pick([]int{1, 4, 32, 1000})
		return deliver(append(p, r.Bytes(k)...)), "extended"
	case 7: // bit flip
		i := r.Intn(len(p))
		if r.Chance(1, 3) {
			i = r.Intn(min(len(p), 8))
		}
		p[i] ^= 1 << uint(r.Intn(8))
		return deliver(p), "bit-flipped"
	case 8: // a valid chunk, but of another address
		o := all[r.Intn(len(all))]
		return deliver(o.payload), "other-address"
	case 9:
		return deliver(r.Bytes(r.Intn(8))), "short"
	case 10: // a full chunk extended beyond the chunk size bound
		base := all[7].payload // ChunkSize data
		k := r.Pick([]int{1, 4, 100, 50000, 700000})
		return deliver(append(append([]byte{}, base...), make([]byte, k)...)), "oversize"
	case 11: // frames at the 1 MiB limit: Delivery{Data} of n bytes is a frame of 1+3+n bytes
		n := r.Pick([]int{maxFrame - 5, maxFrame - 4, maxFrame - 3})
		b := make([]byte, n)
		copy(b, p)
		return deliver(b), "frame-limit"
	case 12:
		return reply{Kind: "oversize", Extra: 1 + r.Intn(1000)}, "oversize-frame"
	case 13:
		return reply{Kind: "garbage"}, "garbage"
	case 14:
		return reply{Kind: "close"}, "close"
	default: // soc-shaped junk: id, signature, then a chunk that is too large or altered
		q := append(r.Bytes(97), all[3].payload...)
		return deliver(q), "soc-junk"
	}
}

func genEnv(r *hx.Rand, s subject, all []subject) attemptEnv {
	e := okEnv()
	e.Reply, _ = genReply(r, s, all)
	switch r.Intn(24) {
	case 0:
		e.ConnectOK = false
	case 1:
		e.ReserveOK = false
	case 2:
		e.StreamOK = false
	case 3:
		e.CreditOK = false
	case 4:
		e.ReportOK = false
	case 5:
		e.PutOK = false
	}
	return e
}

func genRetr(r *hx.Rand, all []subject) jcase {
	s := all[r.Intn(len(all))]
	n := r.Pick([]int{0, 1, 1, 2, 2, 3})
	jc := jcase{Kind: "retr", Addr: hx.Hex(s.addr), Root: hx.Hex(r.Bytes(32)), NRoutes: n, Note: s.kind}
	for i := 0; i < n; i++ {
		jc.Pass1 = append(jc.Pass1, genEnv(r, s, all))
		jc.Pass2 = append(jc.Pass2, genEnv(r, s, all))
	}
	return jc
}

func genRelay(r *hx.Rand, all []subject) jcase {
	s := all[r.Intn(len(all))]
	jc := jcase{Kind: "relay", Addr: hx.Hex(s.addr), Root: hx.Hex(r.Bytes(32)), Note: s.kind, Pass1: []attemptEnv{genEnv(r, s, all)}}
	switch r.Intn(8) {
	case 0:
		b := FromBytes(s.payload)
		jc.Local = &b
	case 1:
		jc.Self = true
	}
	return jc
}

// ---------------------------------------------------------------- pyramids

func honestPool(r *hx.Rand, thorough bool) []*honest {
	pool := []*honest{
		mkHonest(r, []int{100}, false),
		mkHonest(r, []int{chunkSize}, false), // a single full chunk as the root: base of F-pyramid-oversize
		mkHonest(r, []int{50, 5000}, true),
		mkHonest(r, []int{chunkSize + 1, 300}, true),
		mkHonest(r, []int{chunkSize + 5}, false), // raw two-chunk file: the walk needs data chunks a pyramid never carries
		mkHonest(r, []int{chunkSize, 10}, true),
	}
	if thorough {
		for i := 0; i < 6; i++ {
			var sizes []int
			for k := 0; k < 1+r.Intn(3); k++ {
				sizes = append(sizes, r.Pick([]int{1, 31, 4096, chunkSize - 1, chunkSize, chunkSize + 1, 2 * chunkSize, 2*chunkSize + 7}))
			}
			pool = append(pool, mkHonest(r, sizes, true))
		}
	}
	return pool
}

// walkExpect for the unmodified pyramid h
func (h *honest) walkExpect() string {
	if len(h.entries) == 1 && !h.leaf[hex.EncodeToString(h.root)] {
		return "err"
	}
	return "ok"
}

type pyrMut struct {
	entries []pyrEntry
	walk    string
	seen    []string
	failAt  int
	note    string
	root    []byte
}

// mutate applies one adversarial edit to the honest pyramid. `safe` restricts to edits that
// cannot make the traversal code panic in a goroutine other than the caller's.
func mutate(r *hx.Rand, h *honest, all []subject) pyrMut {
	es, seen := h.spec()
	m := pyrMut{entries: es, walk: h.walkExpect(), seen: seen, failAt: -1, root: h.root}
	pick := func() int { return r.Intn(len(m.entries)) }
	full := -1
	for i, e := range m.entries {
		if len(e.Data.Bytes()) == chunkSize+8 {
			full = i
		}
	}
	switch c := r.Intn(16); c {
	case 0, 1:
		m.note = "honest"
	case 2: // an extra valid but unused entry
		s := all[r.Intn(5)]
		m.entries = append(m.entries, pyrEntry{Key: hx.Hex(s.addr), Data: FromBytes(s.payload)})
		m.note = "extra-valid"
	case 3: // an extra entry whose payload does not hash to its key
		m.entries = append(m.entries, pyrEntry{Key: hx.Hex(r.Bytes(32)), Data: FromBytes(all[r.Intn(5)].payload)})
		m.note = "extra-invalid"
	case 4: // altered entry
		i := pick()
		b := m.entries[i].Data.Bytes()
		b[r.Intn(len(b))] ^= 1 << uint(r.Intn(8))
		m.entries[i].Data = FromBytes(b)
		m.walk, m.note = "observe", "altered"
	case 5, 6: // an entry extended beyond ChunkSize+SpanSize, its first ChunkSize+SpanSize bytes untouched
		if full < 0 {
			m.note = "honest"
			break
		}
		k := r.Pick([]int{1, 4, 100, 4096, 300000, 700000})
		ext := make([]byte, k)
		if r.Bool() { // junk, but compressible: one repeated non-zero byte with a few random bytes
			fill := byte(1 + r.Intn(255))
			for i := range ext {
				ext[i] = fill
			}
			copy(ext, r.Bytes(min(k, 6)))
		}
		m.entries[full].Data = FromBytes(append(m.entries[full].Data.Bytes(), ext...))
		m.walk, m.note = "observe", "oversize"
	case 7: // zero-extended within the bound: still a valid chunk
		i := pick()
		b := m.entries[i].Data.Bytes()
		k := r.Pick([]int{1, 5, 32, 64})
		if !h.leaf[m.entries[i].Key] {
			k = 32 * (1 + r.Intn(2))
		}
		if len(b)+k > chunkSize+8 {
			m.note = "honest"
			break
		}
		m.entries[i].Data = FromBytes(append(b, make([]byte, k)...))
		if !h.leaf[m.entries[i].Key] {
			m.walk = "observe"
		}
		m.note = "zero-extended"
	case 8: // junk-extended within the bound
		i := pick()
		b := m.entries[i].Data.Bytes()
		if len(b)+32 > chunkSize+8 {
			m.note = "honest"
			break
		}
		m.entries[i].Data = FromBytes(append(b, r.Bytes(32)...))
		m.walk, m.note = "observe", "extended"
	case 9: // truncated entry
		i := pick()
		b := m.entries[i].Data.Bytes()
		k := 1 + r.Intn(min(len(b)-8, 33)+1)
		if k > len(b) {
			k = len(b)
		}
		m.entries[i].Data = FromBytes(b[:len(b)-k])
		m.walk, m.note = "observe", "truncated"
	case 10: // root missing
		var out []pyrEntry
		for _, e := range m.entries {
			if e.Key != hx.Hex(h.root) {
				out = append(out, e)
			}
		}
		m.entries, m.walk, m.note = out, "observe", "no-root"
	case 11: // a needed non-root entry missing
		if len(m.entries) < 2 {
			m.note = "honest"
			break
		}
		i := pick()
		for m.entries[i].Key == hx.Hex(h.root) {
			i = pick()
		}
		m.entries = append(m.entries[:i:i], m.entries[i+1:]...)
		m.walk, m.seen, m.note = "err", nil, "missing-entry"
	case 12: // an entry shorter than a span / an empty payload whose span is not the key's
		if r.Bool() {
			sk, sd := emptySpans[r.Intn(len(emptySpans))], emptySpans[r.Intn(len(emptySpans))]
			ka, _ := cacOf(sk, nil)
			m.entries = append(m.entries, pyrEntry{Key: hx.Hex(ka), Data: FromBytes(le64(sd))})
			m.note = "empty-payload-entry"
			break
		}
		m.entries = append(m.entries, pyrEntry{Key: hx.Hex(r.Bytes(32)), Data: FromBytes(r.Bytes(r.Intn(8)))})
		m.note = "short-entry"
	case 13: // a key that is not hex / a key of another length
		s := all[r.Intn(5)]
		if r.Bool() {
			m.entries = append(m.entries, pyrEntry{Key: "zz" + hx.Hex(s.addr)[2:], Data: FromBytes(s.payload)})
			m.note = "bad-hex-key"
		} else {
			m.entries = append(m.entries, pyrEntry{Key: hx.Hex(s.addr)[:62], Data: FromBytes(s.payload)})
			m.note = "short-key"
		}
	case 14: // a failing store
		if m.walk == "ok" {
			m.failAt = r.Intn(len(m.seen))
		}
		m.note = "put-failure"
	default: // another root than the pyramid's
		m.root = r.Bytes(32)
		m.walk, m.note = "observe", "foreign-root"
	}
	return m
}

func genPyr(r *hx.Rand, pool []*honest, all []subject) jcase {
	h := pool[r.Intn(len(pool))]
	m := mutate(r, h, all)
	return jcase{Kind: "pyr", Root: hx.Hex(m.root), Entries: m.entries, FailAt: m.failAt, Walk: m.walk, Seen: m.seen, Note: h.note + " " + m.note}
}

func framesOf(r *hx.Rand, es []pyrEntry) []frameSpec {
	var fs []frameSpec
	for _, e := range es {
		h := e.Key
		if _, err := hex.DecodeString(h); err != nil {
			continue // on the wire a key is always the hex of some bytes
		}
		fs = append(fs, frameSpec{Hash: h, Chunk: e.Data})
	}
	// order on the wire is the sender's map order: shuffle
	for i := len(fs) - 1; i > 0; i-- {
		j := r.Intn(i + 1)
		fs[i], fs[j] = fs[j], fs[i]
	}
	return fs
}

func genHist(r *hx.Rand, pool []*honest, all []subject) jcase {
	jc := jcase{Kind: "hist"}
	small := []*honest{pool[0], pool[2], pool[3], pool[1], pool[5]}
	nops := 1 + r.Intn(4)
	h := small[r.Intn(len(small))]
	for i := 0; i < nops; i++ {
		if r.Chance(1, 4) {
			h = small[r.Intn(len(small))]
		}
		m := mutate(r, h, all)
		for m.note == "bad-hex-key" || m.note == "foreign-root" {
			m = mutate(r, h, all)
		}
		op := histOp{Root: hx.Hex(m.root), Frames: framesOf(r, m.entries), FailAt: m.failAt, Walk: m.walk, Seen: m.seen}
		end := frameSpec{Ok: true}
		switch r.Intn(12) {
		case 0: // the terminating frame carries data: ignored
			s := all[r.Intn(5)]
			end.Hash, end.Chunk = hx.Hex(s.addr), FromBytes(s.payload)
		case 1: // the stream ends without the terminating frame
			op.Frames = append(op.Frames, frameSpec{Bad: r.Bool()})
			if !op.Frames[len(op.Frames)-1].Bad {
				op.Frames = op.Frames[:len(op.Frames)-1]
			}
			end = frameSpec{}
		case 2: // a duplicate of an entry, first a junk version then the right one (the later one wins)
			if len(op.Frames) > 0 {
				f := op.Frames[r.Intn(len(op.Frames))]
				op.Frames = append([]frameSpec{{Hash: f.Hash, Chunk: FromBytes(r.Bytes(20))}}, op.Frames...)
			}
		case 3: // ... or the junk version last
			if len(op.Frames) > 0 && (m.note == "honest" || m.note == "extra-valid" || m.note == "zero-extended" || m.note == "put-failure") {
				f := op.Frames[r.Intn(len(op.Frames))]
				op.Frames = append(op.Frames, frameSpec{Hash: f.Hash, Chunk: FromBytes(append(le64(12), r.Bytes(12)...))})
				op.Walk = "observe"
			}
		case 4:
			op.SourceFail = true
		}
		if end.Ok {
			op.Frames = append(op.Frames, end)
		}
		jc.Ops = append(jc.Ops, op)
		jc.Note += fmt.Sprintf("[%s %s]", h.note, m.note)
	}
	return jc
}

// ---------------------------------------------------------------- fixed cases (run on every seed)

func corpus(r *hx.Rand, pool []*honest, all []subject) []jcase {
	var out []jcase
	// F-pyramid-oversize: an honest single-chunk root of 256 KiB plus 4 trailing bytes
	h := pool[1]
	es, _ := h.spec()
	es[0].Data = FromBytes(append(es[0].Data.Bytes(), 1, 2, 3, 4))
	out = append(out, jcase{Kind: "pyr", Root: hx.Hex(h.root), Entries: es, FailAt: -1, Walk: "observe", Note: "F-pyramid-oversize witness"})
	// the same through chunkinfo's exchange, then the honest pyramid, then a repeated exchange
	hs, seen := h.spec()
	out = append(out, jcase{Kind: "hist", Note: "F-pyramid-oversize through chunkinfo, then honest, then repeated", Ops: []histOp{
		{Root: hx.Hex(h.root), Frames: append(framesOf(r, es), frameSpec{Ok: true}), FailAt: -1, Walk: "observe"},
		{Root: hx.Hex(h.root), Frames: append(framesOf(r, hs), frameSpec{Ok: true}), FailAt: -1, Walk: "ok", Seen: seen},
		{Root: hx.Hex(h.root), Frames: append(framesOf(r, es), frameSpec{Ok: true}), FailAt: -1, Walk: "observe"},
	}})
	// boundary: exactly ChunkSize+SpanSize (accepted) and one more byte (refused), zero byte appended
	es1, _ := h.spec()
	es1[0].Data = FromBytes(append(es1[0].Data.Bytes(), 0))
	out = append(out, jcase{Kind: "pyr", Root: hx.Hex(h.root), Entries: es1, FailAt: -1, Walk: "observe", Note: "full chunk + one zero byte"})
	out = append(out, jcase{Kind: "pyr", Root: hx.Hex(h.root), Entries: hs, FailAt: -1, Walk: "ok", Seen: seen, Note: "full chunk"})
	// a walk that panics in the caller's goroutine after the checks passed: root is an intermediate
	// chunk (span 100 > 40 data bytes) whose data is one reference plus 8 stray bytes
	childAddr, child := cacOf(100, fileData(r, 100))
	rootAddr, root := cacOf(100, append(append([]byte{}, childAddr...), r.Bytes(8)...))
	out = append(out, jcase{Kind: "pyr", Root: hx.Hex(rootAddr), FailAt: -1, Walk: "observe", Note: "walk panics on a stray-tail intermediate root",
		Entries: []pyrEntry{{Key: hx.Hex(rootAddr), Data: FromBytes(root)}, {Key: hx.Hex(childAddr), Data: FromBytes(child)}}})
	// retrieval: full chunk + trailing bytes, then the honest chunk on the second route
	s := all[7]
	e1, e2 := okEnv(), okEnv()
	e1.Reply = reply{Kind: "delivery", Data: FromBytes(append(append([]byte{}, s.payload...), 1, 2, 3, 4))}
	e2.Reply = reply{Kind: "delivery", Data: FromBytes(s.payload)}
	out = append(out, jcase{Kind: "retr", Addr: hx.Hex(s.addr), Root: hx.Hex(r.Bytes(32)), NRoutes: 2, Pass1: []attemptEnv{e1, e2}, Pass2: []attemptEnv{e1, e1}, Note: "oversize then honest"})
	// retrieval: an honest single-owner chunk
	so := all[11]
	e3 := okEnv()
	e3.Reply = reply{Kind: "delivery", Data: FromBytes(so.payload)}
	out = append(out, jcase{Kind: "retr", Addr: hx.Hex(so.addr), Root: hx.Hex(r.Bytes(32)), NRoutes: 1, Pass1: []attemptEnv{e3}, Pass2: []attemptEnv{e3}, Note: "honest soc"})
	// empty payload under another span than the requested empty chunk's (seeded change C06-3), then the genuine one
	ea0, ep0 := cacOf(0, nil)
	eb, ee := okEnv(), okEnv()
	eb.Reply = reply{Kind: "delivery", Data: FromBytes(le64(1))}
	ee.Reply = reply{Kind: "delivery", Data: FromBytes(ep0)}
	out = append(out, jcase{Kind: "retr", Addr: hx.Hex(ea0), Root: hx.Hex(r.Bytes(32)), NRoutes: 2, Pass1: []attemptEnv{eb, ee}, Pass2: []attemptEnv{eb, eb}, Note: "empty chunk: span 1 for the span-0 address, then genuine"})
	ea1, _ := cacOf(4096, nil)
	ez := okEnv()
	ez.Reply = reply{Kind: "delivery", Data: FromBytes(le64(0))}
	out = append(out, jcase{Kind: "retr", Addr: hx.Hex(ea1), Root: hx.Hex(r.Bytes(32)), NRoutes: 1, Pass1: []attemptEnv{ez}, Pass2: []attemptEnv{ez}, Note: "empty chunk: span 0 for the span-4096 address"})
	out = append(out, jcase{Kind: "pyr", Root: hx.Hex(ea0), FailAt: -1, Walk: "observe", Note: "pyramid: empty payload, span 2^32 under the span-0 empty chunk's key",
		Entries: []pyrEntry{{Key: hx.Hex(ea0), Data: FromBytes(le64(1 << 32))}}})
	// relay of an invalid and of a valid delivery
	out = append(out, jcase{Kind: "relay", Addr: hx.Hex(s.addr), Root: hx.Hex(r.Bytes(32)), Pass1: []attemptEnv{e1}, Note: "relay oversize"})
	out = append(out, jcase{Kind: "relay", Addr: hx.Hex(s.addr), Root: hx.Hex(r.Bytes(32)), Pass1: []attemptEnv{e2}, Note: "relay honest"})
	return out
}

var _ = boson.ChunkSize
