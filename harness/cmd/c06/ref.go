// Independent reference objects of the C06 harness: a byte-string representation that
// stays small for 256 KiB payloads (literal stretches + runs), a reference BMT (plain
// recursive keccak256 over the zero-padded 8192-segment tree, no pooling, no truncation),
// and the validity predicate the oracle uses.
package main

import (
	"bytes"
	"encoding/hex"
	"fmt"
	"strings"

	"golang.org/x/crypto/sha3"
	"verifharness/hx"
)

// ---------------------------------------------------------------- blobs

// Seg is a literal stretch (Lit, hex in JSON) or a run of N copies of byte B.
type Seg struct {
	Lit string `json:"lit,omitempty"`
	B   int    `json:"b,omitempty"`
	N   int    `json:"n,omitempty"`
}

type Blob []Seg

func (b Blob) Bytes() []byte {
	var out []byte
	for _, s := range b {
		if s.N > 0 {
			out = append(out, bytes.Repeat([]byte{byte(s.B)}, s.N)...)
		} else {
			x, err := hex.DecodeString(s.Lit)
			if err != nil {
				panic(err)
			}
			out = append(out, x...)
		}
	}
	return out
}

// FromBytes compresses runs of >= 12 equal bytes.
func FromBytes(p []byte) Blob {
	var out Blob
	lit := []byte{}
	flush := func() {
		if len(lit) > 0 {
			out = append(out, Seg{Lit: hex.EncodeToString(lit)})
			lit = []byte{}
		}
	}
	for i := 0; i < len(p); {
		j := i
		for j < len(p) && p[j] == p[i] {
			j++
		}
		if j-i >= 12 {
			flush()
			out = append(out, Seg{B: int(p[i]), N: j - i})
		} else {
			lit = append(lit, p[i:j]...)
		}
		i = j
	}
	flush()
	return out
}

// Coq renders the blob as a term of type Corr.blob.
func (b Blob) Coq() string {
	if len(b) == 0 {
		return "(@nil seg)"
	}
	el := make([]string, len(b))
	for i, s := range b {
		if s.N > 0 {
			el[i] = fmt.Sprintf("Run %d %d", s.B, s.N)
		} else {
			x, _ := hex.DecodeString(s.Lit)
			el[i] = "Lit " + hx.CoqBytes(x)
		}
	}
	return "[" + strings.Join(el, "; ") + "]%N"
}

func coqOpt(ok bool, s string) string {
	if !ok {
		return "None"
	}
	return hx.CoqSome(s)
}

// ---------------------------------------------------------------- reference BMT

const (
	refSegs  = 8192 // boson.BmtBranches
	refSeg   = 32
	refDepth = 13
	refCap   = refSegs * refSeg
)

var zeroH [refDepth + 1][]byte

func keccak(parts ...[]byte) []byte {
	h := sha3.NewLegacyKeccak256()
	for _, p := range parts {
		h.Write(p)
	}
	return h.Sum(nil)
}

func init() {
	zeroH[0] = make([]byte, refSeg)
	for i := 1; i <= refDepth; i++ {
		zeroH[i] = keccak(zeroH[i-1], zeroH[i-1])
	}
}

func refSub(data []byte, level, off int) []byte {
	if off >= len(data) {
		return zeroH[level]
	}
	if level == 0 {
		seg := make([]byte, refSeg)
		copy(seg, data[off:])
		return seg
	}
	half := refSeg << uint(level-1)
	return keccak(refSub(data, level-1, off), refSub(data, level-1, off+half))
}

// refBMT: keccak(span || root of the binary tree over data zero-padded to refCap). data must fit.
func refBMT(span, data []byte) []byte {
	if len(data) > refCap {
		panic("refBMT: data beyond capacity")
	}
	return keccak(span, refSub(data, refDepth, 0))
}

// refCacValid is the property's notion of a valid content-addressed chunk.
func refCacValid(addr, payload []byte) (bool, string) {
	if len(payload) < 8 {
		return false, "short"
	}
	if len(payload) > refCap+8 {
		return false, "oversize"
	}
	if !bytes.Equal(refBMT(payload[:8], payload[8:]), addr) {
		return false, "hash-mismatch"
	}
	return true, ""
}

// ---------------------------------------------------------------- hash table for the model

// hashTab collects, for every payload the implementation may feed to the pooled hasher, the
// preimage the hasher digests (span, data) and its reference hash.
type hashTab struct {
	seen map[string]bool
	ents []string
}

func newTab() *hashTab { return &hashTab{seen: map[string]bool{}} }

func (t *hashTab) add(payload []byte) {
	// cac.Valid and the (repaired) pyramid check hash a payload only within these bounds
	if len(payload) < 8 || len(payload) > refCap+8 {
		return
	}
	d := payload[8:]
	pre := append(append([]byte{}, payload[:8]...), d...)
	k := string(keccak(pre))
	if t.seen[k] {
		return
	}
	t.seen[k] = true
	t.ents = append(t.ents, hx.CoqPair(FromBytes(pre).Coq(), hx.CoqBytes(refBMT(payload[:8], d))))
}

func (t *hashTab) Coq() string { return hx.CoqList(t.ents, "blob * list N") }
