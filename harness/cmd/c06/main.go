// C06 harness: only valid chunks are accepted from peers.
//
// Drives, against scripted peers (pkg/p2p/streamtest) and recording stubs:
//   - retrieval.Service.RetrieveChunk (route loop -> retrieveChunk)                 kind "retr"
//   - retrieval.Service's stream handler in its relaying branch                     kind "relay"
//   - traversal.GetChunkHashes(ctx, root, pyramid)                                  kind "pyr"
//   - chunkinfo.ChunkInfo pyramid exchanges (sendPyramid -> onChunkPyramidResp ->
//     traversal.GetChunkHashes), several per ChunkInfo instance                      kind "hist"
//
// Observables: the calls made on the stubs in order (connect/reserve/stream/credit/report/put),
// the Put calls (address, payload), the returned chunk or the error CLASS.
// Oracle: every payload Put or returned/forwarded is, for the address it is stored under, a
// valid content-addressed chunk by an independent reference BMT (or soc.Valid).
package main

import (
	"bytes"
	"context"
	"encoding/binary"
	"encoding/hex"
	"errors"
	"fmt"
	"io"
	"os"
	"sort"
	"strings"
	"time"

	"github.com/gauss-project/aurorafs/pkg/boson"
	"github.com/gauss-project/aurorafs/pkg/chunkinfo"
	cipb "github.com/gauss-project/aurorafs/pkg/chunkinfo/pb"
	"github.com/gauss-project/aurorafs/pkg/file/loadsave"
	"github.com/gauss-project/aurorafs/pkg/file/pipeline"
	"github.com/gauss-project/aurorafs/pkg/file/pipeline/builder"
	"github.com/gauss-project/aurorafs/pkg/logging"
	"github.com/gauss-project/aurorafs/pkg/manifest"
	"github.com/gauss-project/aurorafs/pkg/p2p"
	"github.com/gauss-project/aurorafs/pkg/p2p/protobuf"
	"github.com/gauss-project/aurorafs/pkg/p2p/streamtest"
	"github.com/gauss-project/aurorafs/pkg/retrieval"
	rpb "github.com/gauss-project/aurorafs/pkg/retrieval/pb"
	"github.com/gauss-project/aurorafs/pkg/sctx"
	"github.com/gauss-project/aurorafs/pkg/soc"
	sldb "github.com/gauss-project/aurorafs/pkg/statestore/leveldb"
	"github.com/gauss-project/aurorafs/pkg/storage"
	smock "github.com/gauss-project/aurorafs/pkg/storage/mock"
	"github.com/gauss-project/aurorafs/pkg/subscribe"
	"github.com/gauss-project/aurorafs/pkg/traversal"
	"verifharness/hx"
)

const (
	chunkSize = boson.ChunkSize
	maxFrame  = 1024 * 1024
)

var logger = logging.New(io.Discard, 0)

var debug = os.Getenv("VERIF_C06_DEBUG") != ""

// ---------------------------------------------------------------- case specs (JSON, replayable)

type pyrEntry struct {
	Key  string `json:"key"` // map key as given to GetChunkHashes (hex or not)
	Data Blob   `json:"data"`
}

type frameSpec struct {
	Hash  string `json:"hash,omitempty"`
	Chunk Blob   `json:"chunk,omitempty"`
	Ok    bool   `json:"ok,omitempty"`
	Bad   bool   `json:"bad,omitempty"` // an undecodable frame
}

type histOp struct {
	Root       string      `json:"root"`
	Frames     []frameSpec `json:"frames"`
	FailAt     int         `json:"fail_at"` // index of the failing store Put, -1 none
	SourceFail bool        `json:"source_fail,omitempty"`
	Walk       string      `json:"walk"` // ok | err | observe : the harness' own expectation of the traversal walk
	Seen       []string    `json:"seen,omitempty"`
}

type jcase struct {
	Kind string `json:"kind"`
	Note string `json:"note,omitempty"`
	// retr / relay
	Addr    string       `json:"addr,omitempty"`
	Root    string       `json:"root,omitempty"`
	NRoutes int          `json:"nroutes,omitempty"`
	Pass1   []attemptEnv `json:"pass1,omitempty"`
	Pass2   []attemptEnv `json:"pass2,omitempty"`
	Local   *Blob        `json:"local,omitempty"`
	Self    bool         `json:"self,omitempty"`
	// pyr
	Entries []pyrEntry `json:"entries,omitempty"`
	FailAt  int        `json:"fail_at,omitempty"`
	Walk    string     `json:"walk,omitempty"`
	Seen    []string   `json:"seen,omitempty"`
	// hist
	Ops []histOp `json:"ops,omitempty"`
}

// ---------------------------------------------------------------- helpers

func le64(v uint64) []byte {
	b := make([]byte, 8)
	binary.LittleEndian.PutUint64(b, v)
	return b
}

// cacOf: the honest content-addressed chunk (address by the reference BMT) of span||data.
func cacOf(span uint64, data []byte) (addr, payload []byte) {
	payload = append(le64(span), data...)
	return refBMT(payload[:8], data), payload
}

func unhex(s string) []byte {
	b, err := hex.DecodeString(s)
	if err != nil {
		panic(err)
	}
	return b
}

func coqKey(k string, i int) string {
	b, err := hex.DecodeString(k)
	if err != nil {
		return fmt.Sprintf("(KBad %d)", i)
	}
	return "(KHex " + hx.CoqBytes(b) + ")"
}

func coqBytesOfHexList(xs []string) string {
	bs := make([][]byte, len(xs))
	for i, x := range xs {
		bs[i] = unhex(x)
	}
	return hx.CoqBytesList(bs)
}

func coqFail(k int) string {
	if k < 0 {
		return "None"
	}
	return hx.CoqSome(hx.CoqN(uint64(k)))
}

func coqPuts(evs []event) string {
	var el []string
	for _, e := range evs {
		if e.Kind == "put" {
			el = append(el, hx.CoqPair(hx.CoqBytes(e.Addr), FromBytes(e.Data).Coq()))
		}
	}
	return hx.CoqList(el, "list N * blob")
}

func coqTrace(evs []event) string {
	var el []string
	for _, e := range evs {
		switch e.Kind {
		case "connect":
			el = append(el, "OConnect")
		case "reserve":
			el = append(el, "OReserve")
		case "stream":
			el = append(el, "OStream")
		case "credit":
			el = append(el, "OCredit")
		case "report":
			el = append(el, "OReport")
		case "put":
			el = append(el, hx.CoqApp("OPut", hx.CoqBytes(e.Addr), FromBytes(e.Data).Coq()))
		}
	}
	return hx.CoqList(el, "cev")
}

// size classes for the histogram
func szClass(n int) string {
	switch {
	case n < 8:
		return "<8"
	case n <= 8+4096:
		return "small"
	case n < 8+chunkSize:
		return "mid"
	case n == 8+chunkSize:
		return "=max"
	case n <= maxFrame:
		return ">max"
	default:
		return ">1MiB"
	}
}

// ---------------------------------------------------------------- the oracle

type oracle struct{ run *hx.Run }

// stored: a payload Put under addr (or returned / forwarded for it) must be a valid chunk for addr.
func (o *oracle) accepted(scn, how string, addr, payload []byte, jc interface{}) {
	o.run.OracleChecked(1)
	ok, why := refCacValid(addr, payload)
	if ok {
		return
	}
	if soc.Valid(boson.NewChunk(boson.NewAddress(addr), payload)) {
		return
	}
	// boundary classes get their own signature
	if why == "hash-mismatch" && len(payload) == 8 {
		why = "hash-mismatch:empty-payload"
	} else if why == "hash-mismatch" && len(payload) == 9 {
		why = "hash-mismatch:one-byte-payload"
	}
	o.run.Violate(hx.Violation{
		Sig:    fmt.Sprintf("%s:%s-invalid-chunk:%s", scn, how, why),
		Detail: fmt.Sprintf("%s: a %d-byte payload was %s for address %x but is neither a valid content-addressed chunk (%s) nor a valid single-owner chunk for it", scn, len(payload), how, addr, why),
		Case:   jc, Impl: map[string]interface{}{"addr": hx.Hex(addr), "payload_len": len(payload)}, Want: "rejected",
	})
}

func (o *oracle) wrongAddr(scn string, want, got []byte, jc interface{}) {
	if !bytes.Equal(want, got) {
		o.run.Violate(hx.Violation{Sig: scn + ":stored-under-other-address", Detail: fmt.Sprintf("requested %x, stored/returned under %x", want, got), Case: jc})
	}
}

// ---------------------------------------------------------------- retrieval scenarios

// peerSpec: the remote side of the "retrieval" stream; replies per the current script entry.
func peerSpec(sc *scriptState, reqs *[][]byte) p2p.ProtocolSpec {
	return p2p.ProtocolSpec{Name: "retrieval", Version: "1.0.0", StreamSpecs: []p2p.StreamSpec{{
		Name: "retrieval",
		Handler: func(ctx context.Context, _ p2p.Peer, stream p2p.Stream) error {
			defer stream.Close()
			w, r := protobuf.NewWriterAndReader(stream)
			var req rpb.RequestChunk
			if err := r.ReadMsgWithContext(ctx, &req); err != nil {
				return err
			}
			if reqs != nil {
				*reqs = append(*reqs, append([]byte{}, req.ChunkAddr...))
			}
			rp := sc.current().Reply
			var err error
			switch rp.Kind {
			case "delivery":
				err = w.WriteMsgWithContext(ctx, &rpb.Delivery{Data: rp.Data.Bytes()})
			case "garbage":
				_, err = stream.Write([]byte{3, 0xff, 0xff, 0xff})
			case "oversize":
				var hdr [10]byte
				n := binary.PutUvarint(hdr[:], uint64(maxFrame+rp.Extra))
				_, err = stream.Write(append(hdr[:n], 0x0a, 0x01, 0x00))
			default: // close
				return nil
			}
			// streamtest's reader reports EOF as soon as the writer has closed, even with unread
			// bytes pending: keep the stream open until the client is done with it
			waitPeerClose(stream)
			return err
		},
	}}}
}

func waitPeerClose(stream p2p.Stream) {
	hx.WithTimeout(20*time.Second, func() { _, _ = io.Copy(io.Discard, stream) })
}

// tolerantReader hides streamtest's early EOF (data and EOF returned together) from bufio.
type tolerantReader struct{ s p2p.Stream }

func (t tolerantReader) Read(p []byte) (int, error) {
	n, err := t.s.Read(p)
	if n > 0 {
		return n, nil
	}
	return n, err
}

// replyModel: (Coq creply, the payload if one is decoded)
func replyModel(rp reply) (string, []byte, bool) {
	switch rp.Kind {
	case "delivery":
		d := rp.Data.Bytes()
		flen := (&rpb.Delivery{Data: d}).Size()
		return hx.CoqApp("CFrame", hx.CoqN(uint64(flen)), hx.CoqSome(rp.Data.Coq())), d, true
	case "garbage":
		return "(CFrame 3 None)", nil, false
	case "oversize":
		return hx.CoqApp("CFrame", hx.CoqN(uint64(maxFrame+rp.Extra)), "None"), nil, false
	default:
		return "CClose", nil, false
	}
}

func envModel(addr []byte, e attemptEnv, tab *hashTab) string {
	rs, d, has := replyModel(e.Reply)
	socv := false
	if has {
		tab.add(d)
		socv = soc.Valid(boson.NewChunk(boson.NewAddress(addr), d))
	}
	return hx.CoqApp("CEnv", hx.CoqBool(e.ConnectOK), hx.CoqBool(e.ReserveOK), hx.CoqBool(e.StreamOK), rs,
		hx.CoqBool(socv), hx.CoqBool(e.CreditOK), hx.CoqBool(e.ReportOK), hx.CoqBool(e.PutOK))
}

func envsModel(addr []byte, es []attemptEnv, tab *hashTab) string {
	el := make([]string, len(es))
	for i, e := range es {
		el[i] = envModel(addr, e, tab)
	}
	return hx.CoqList(el, "cenv")
}

var (
	selfAddr = boson.MustParseHexAddress("5e1f00000000000000000000000000000000000000000000000000000000c06a")
	reqAddr  = boson.MustParseHexAddress("4e9000000000000000000000000000000000000000000000000000000000c06b")
)

func targetAddr(i int) boson.Address {
	b := make([]byte, 32)
	b[0], b[31] = 0xa0, byte(i+1)
	return boson.NewAddress(b)
}

func newRetrieval(sc *scriptState, log *evlog, store *storeStub, reqs *[][]byte) *retrieval.Service {
	rec := streamtest.New(streamtest.WithProtocols(peerSpec(sc, reqs)), streamtest.WithBaseAddr(selfAddr))
	store.sc = sc
	svc := retrieval.New(selfAddr, &streamerStub{log: log, sc: sc, inner: rec}, &routeStub{log: log, sc: sc}, store,
		true, logger, nil, &acctStub{log: log, sc: sc}, subscribe.NewSubPub())
	svc.Config(&ciStub{log: log, sc: sc})
	return svc
}

func runRetr(run *hx.Run, orc *oracle, jc jcase) {
	addr := unhex(jc.Addr)
	root := unhex(jc.Root)
	log := &evlog{}
	sc := &scriptState{envs: append(append([]attemptEnv{}, jc.Pass1...), jc.Pass2...)}
	store := newStore(log)
	var reqs [][]byte
	svc := newRetrieval(sc, log, store, &reqs)
	ctx := context.Background()
	if jc.NRoutes > 0 {
		ts := make([]string, jc.NRoutes)
		for i := range ts {
			ts[i] = targetAddr(i).String()
		}
		ctx = sctx.SetTargets(ctx, strings.Join(ts, ","))
	}
	var ch boson.Chunk
	var err error
	done := hx.WithTimeout(30*time.Second, func() {
		ch, err = svc.RetrieveChunk(ctx, boson.NewAddress(root), boson.NewAddress(addr))
	})
	evs := log.take()
	res := "ONotFound"
	switch {
	case !done:
		res = "OHang"
	case err == nil && ch != nil:
		res = hx.CoqApp("OOk", hx.CoqBytes(ch.Address().Bytes()), FromBytes(ch.Data()).Coq())
		orc.accepted("retrieval", "returned", ch.Address().Bytes(), ch.Data(), jc)
		orc.wrongAddr("retrieval", addr, ch.Address().Bytes(), jc)
	case errors.Is(err, storage.ErrNotFound):
		res = "ONotFound"
	case jc.NRoutes == 0:
		res = "ONoRoute"
	default:
		res = "OOtherError"
	}
	for _, e := range evs {
		if e.Kind == "put" {
			orc.accepted("retrieval", "stored", e.Addr, e.Data, jc)
			orc.wrongAddr("retrieval", addr, e.Addr, jc)
		}
	}
	for _, q := range reqs {
		if !bytes.Equal(q, addr) {
			run.Violate(hx.Violation{Sig: "retrieval:request-for-other-address", Detail: "the request on the wire names another chunk", Case: jc})
		}
	}
	tab := newTab()
	p1 := envsModel(addr, jc.Pass1, tab)
	p2 := envsModel(addr, jc.Pass2, tab)
	coq := hx.CoqApp("CRetr", hx.CoqBytes(addr), hx.CoqN(uint64(jc.NRoutes)), p1, p2, tab.Coq(), coqTrace(evs), res)
	nontrivial := false
	for _, e := range append(append([]attemptEnv{}, jc.Pass1...), jc.Pass2...) {
		if e.Reply.Kind == "delivery" && e.ConnectOK && e.ReserveOK && e.StreamOK {
			nontrivial = true
		}
		run.Hist("retr.reply=" + e.Reply.Kind)
		if e.Reply.Kind == "delivery" {
			run.Hist("retr.len=" + szClass(len(e.Reply.Data.Bytes())))
		}
	}
	run.Hist("retr.result=" + strings.SplitN(strings.Trim(res, "()"), " ", 2)[0])
	key, _ := jsonKey(jc)
	run.AddCase(coq, jc, key, nontrivial)
}

// relay: the service's own handler is asked (by reqAddr) for a chunk it does not have.
func runRelay(run *hx.Run, orc *oracle, jc jcase) {
	addr := unhex(jc.Addr)
	root := unhex(jc.Root)
	log := &evlog{}
	sc := &scriptState{envs: []attemptEnv{jc.Pass1[0]}}
	store := newStore(log)
	if jc.Local != nil {
		store.m[boson.NewAddress(addr).String()] = jc.Local.Bytes()
	}
	svc := newRetrieval(sc, log, store, nil)
	// the requester's side
	rec := streamtest.New(streamtest.WithProtocols(svc.Protocol()), streamtest.WithBaseAddr(reqAddr))
	target := targetAddr(0)
	if jc.Self {
		target = selfAddr
	}
	var got []byte
	delivered := false
	done := hx.WithTimeout(30*time.Second, func() {
		stream, err := rec.NewStream(context.Background(), selfAddr, nil, "retrieval", "1.0.0", "retrieval")
		if err != nil {
			return
		}
		defer stream.Close()
		w, r := protobuf.NewWriter(stream), protobuf.NewReader(tolerantReader{stream})
		if err := w.WriteMsgWithContext(context.Background(), &rpb.RequestChunk{TargetAddr: target.Bytes(), RootAddr: root, ChunkAddr: addr}); err != nil {
			return
		}
		var d rpb.Delivery
		if err := r.ReadMsgWithContext(context.Background(), &d); err != nil {
			return
		}
		got, delivered = d.Data, true
	})
	_ = done
	evs := log.take()
	if delivered && jc.Local == nil {
		orc.accepted("relay", "forwarded", addr, got, jc)
	}
	for _, e := range evs {
		if e.Kind == "put" {
			orc.accepted("relay", "stored", e.Addr, e.Data, jc)
			orc.wrongAddr("relay", addr, e.Addr, jc)
		}
	}
	tab := newTab()
	local := "None"
	if jc.Local != nil {
		local = hx.CoqSome(jc.Local.Coq())
	}
	coq := hx.CoqApp("CRelay", hx.CoqBytes(addr), local, hx.CoqBool(jc.Self), envModel(addr, jc.Pass1[0], tab), tab.Coq(),
		coqTrace(evs), coqOpt(delivered, FromBytes(got).Coq()))
	run.Hist("relay.reply=" + jc.Pass1[0].Reply.Kind)
	run.Hist(fmt.Sprintf("relay.delivered=%v", delivered))
	key, _ := jsonKey(jc)
	run.AddCase(coq, jc, key, jc.Local == nil && !jc.Self && jc.Pass1[0].Reply.Kind == "delivery")
}

// ---------------------------------------------------------------- pyramid scenarios

func classify(err error, panicked bool) int {
	switch {
	case panicked:
		return 3
	case err == nil:
		return 0
	case errors.Is(err, traversal.ErrInvalidPyramid):
		return 1
	case errors.Is(err, errPutStub):
		return 2
	default:
		return 4
	}
}

// walkModel: the queries/outcome handed to the model: the harness' own expectation when it has
// one (jc.Walk ok/err with jc.Seen), otherwise what was observed (the Put addresses; error class).
func walkModel(walk string, seen []string, root []byte, evs []event, class int) (string, string) {
	switch walk {
	case "ok":
		return coqBytesOfHexList(seen), "WOk"
	case "err":
		return "(@nil (list N))", "WErr"
	}
	var qs [][]byte
	for _, e := range evs {
		if e.Kind == "put" {
			qs = append(qs, e.Addr)
		}
	}
	w := "WOk"
	if class == 3 {
		w = "WPanic"
	} else if class == 4 {
		w = "WErr"
	}
	return hx.CoqBytesList(qs), w
}

func runPyr(run *hx.Run, orc *oracle, jc jcase) {
	root := unhex(jc.Root)
	log := &evlog{}
	store := newStore(log)
	store.reset(jc.FailAt)
	pyr := make(map[string][]byte, len(jc.Entries))
	tab := newTab()
	var ents []string
	for i, e := range jc.Entries {
		d := e.Data.Bytes()
		pyr[e.Key] = d
		tab.add(d)
		ents = append(ents, hx.CoqPair(coqKey(e.Key, i), e.Data.Coq()))
		run.Hist("pyr.entry=" + szClass(len(d)))
	}
	tr := traversal.New(store)
	var err error
	var panicked bool
	done := hx.WithTimeout(60*time.Second, func() {
		panicked, _ = hx.Guard(func() { _, _, err = tr.GetChunkHashes(context.Background(), boson.NewAddress(root), pyr) })
	})
	evs := log.take()
	class := classify(err, panicked)
	if !done {
		class = 5
	}
	if debug {
		fmt.Fprintf(os.Stderr, "pyr root=%s class=%d err=%v\n", jc.Root[:8], class, err)
	}
	for _, e := range evs {
		if e.Kind == "put" {
			orc.accepted("pyramid", "stored", e.Addr, e.Data, jc)
		}
	}
	qs, wend := walkModel(jc.Walk, jc.Seen, root, evs, class)
	coq := hx.CoqApp("CPyr", hx.CoqBytes(root), hx.CoqList(ents, "pkey * blob"), qs, wend, coqFail(jc.FailAt), tab.Coq(),
		coqPuts(evs), hx.CoqN(uint64(class)))
	run.Hist(fmt.Sprintf("pyr.class=%d", class))
	run.Hist("pyr.walk=" + jc.Walk)
	key, _ := jsonKey(jc)
	run.AddCase(coq, jc, key, len(jc.Entries) > 0)
}

// pyramidPeer: the remote side of chunkinfo's "chunkpyramid" stream.
func pyramidPeer(cur *[]frameSpec) p2p.ProtocolSpec {
	return p2p.ProtocolSpec{Name: "chunkinfo", Version: "2.0.0", StreamSpecs: []p2p.StreamSpec{{
		Name: "chunkpyramid",
		Handler: func(ctx context.Context, _ p2p.Peer, stream p2p.Stream) error {
			defer stream.Close()
			w, r := protobuf.NewWriterAndReader(stream)
			var req cipb.ChunkPyramidReq
			if err := r.ReadMsgWithContext(ctx, &req); err != nil {
				return err
			}
			for _, f := range *cur {
				if f.Bad {
					_, err := stream.Write([]byte{3, 0xff, 0xff, 0xff})
					return err
				}
				var h []byte
				if f.Hash != "" {
					h = unhex(f.Hash)
				}
				if err := w.WriteMsgWithContext(ctx, &cipb.ChunkPyramidResp{Hash: h, Chunk: f.Chunk.Bytes(), Ok: f.Ok}); err != nil {
					return err
				}
			}
			if n := len(*cur); n > 0 && (*cur)[n-1].Ok {
				waitPeerClose(stream)
			}
			return nil
		},
	}}}
}

func runHist(run *hx.Run, orc *oracle, jc jcase) {
	log := &evlog{}
	store := newStore(log)
	inner, err := sldb.NewInMemoryStateStore(logger)
	if err != nil {
		panic(err)
	}
	state := &failState{StateStorer: inner}
	var cur []frameSpec
	rec := streamtest.New(streamtest.WithProtocols(pyramidPeer(&cur)), streamtest.WithBaseAddr(selfAddr))
	ci := chunkinfo.New(selfAddr, rec, logger, traversal.New(store), state, store, &routeStub{}, nil, nil, subscribe.NewSubPub())
	peer := targetAddr(0)
	tab := newTab()
	var ops, obs []string
	for _, op := range jc.Ops {
		cur = op.Frames
		store.reset(op.FailAt)
		state.setFail(op.SourceFail)
		root := unhex(op.Root)
		var e error
		var panicked bool
		done := hx.WithTimeout(60*time.Second, func() {
			panicked, _ = hx.Guard(func() { e = ci.VerifFindChunkPyramid(context.Background(), boson.NewAddress(root), peer) })
		})
		// bookkeeping after a success runs through chunkinfo's update goroutines; it may read the store
		time.Sleep(2 * time.Millisecond)
		evs := log.take()
		class := classify(e, panicked)
		if !done {
			class = 5
		}
		if debug {
			fmt.Fprintf(os.Stderr, "hist op root=%s class=%d err=%v\n", op.Root[:8], class, e)
		}
		for _, ev := range evs {
			if ev.Kind == "put" {
				orc.accepted("chunkinfo-pyramid", "stored", ev.Addr, ev.Data, jc)
			}
		}
		var fr []string
		for _, f := range op.Frames {
			if f.Bad {
				fr = append(fr, "CFBad")
				continue
			}
			d := f.Chunk.Bytes()
			if !f.Ok {
				tab.add(d)
				run.Hist("hist.entry=" + szClass(len(d)))
			}
			var h []byte
			if f.Hash != "" {
				h = unhex(f.Hash)
			}
			fr = append(fr, hx.CoqApp("CFResp", hx.CoqBytes(h), f.Chunk.Coq(), hx.CoqBool(f.Ok)))
		}
		qs, wend := walkModel(op.Walk, op.Seen, root, evs, class)
		ops = append(ops, hx.CoqApp("COp", hx.CoqBytes(root), hx.CoqList(fr, "cframe"), qs, wend, coqFail(op.FailAt), hx.CoqBool(!op.SourceFail)))
		obs = append(obs, hx.CoqPair(coqPuts(evs), hx.CoqN(uint64(class))))
		run.Hist(fmt.Sprintf("hist.class=%d", class))
	}
	coq := hx.CoqApp("CHist", hx.CoqList(ops, "cop"), tab.Coq(), hx.CoqList(obs, "list (list N * blob) * N"))
	key, _ := jsonKey(jc)
	run.AddCase(coq, jc, key, len(jc.Ops) > 0)
}

func jsonKey(jc jcase) (string, error) {
	b, err := jsonMarshal(jc)
	return string(keccak(b)), err
}

// ---------------------------------------------------------------- honest material

type honest struct {
	root    []byte
	entries map[string][]byte // the honest pyramid (GetPyramid of the sender)
	leaf    map[string]bool   // entry is a leaf chunk (span <= len(data))
	note    string
}

func pipelineFactory(s storage.Putter, mode storage.ModePut) func() pipeline.Interface {
	return func() pipeline.Interface { return builder.NewPipelineBuilder(context.Background(), s, mode, false) }
}

// structured file content: compressible so that single-chunk roots stay small in the case files
func fileData(r *hx.Rand, n int) []byte {
	out := make([]byte, n)
	fill := byte(r.Intn(256))
	for i := range out {
		out[i] = fill
	}
	copy(out, r.Bytes(min(n, 8+r.Intn(24))))
	if n > 64 {
		copy(out[n-8:], r.Bytes(8))
	}
	return out
}

func min(a, b int) int {
	if a < b {
		return a
	}
	return b
}

// mkHonest uploads files (+ optionally a manifest over them) into a sender store with the real
// pipeline and asks the real traversal for the pyramid.
func mkHonest(r *hx.Rand, sizes []int, withManifest bool) *honest {
	ctx := context.Background()
	st := smock.NewStorer()
	var refs []boson.Address
	for _, n := range sizes {
		pipe := builder.NewPipelineBuilder(ctx, st, storage.ModePutUpload, false)
		fr, err := builder.FeedPipeline(ctx, pipe, bytes.NewReader(fileData(r, n)))
		if err != nil {
			panic(err)
		}
		refs = append(refs, fr)
	}
	root := refs[0]
	if withManifest {
		ls := loadsave.New(st, pipelineFactory(st, storage.ModePutRequest))
		m, err := manifest.NewMantarayManifest(ls, false)
		if err != nil {
			panic(err)
		}
		for i, fr := range refs {
			if err := m.Add(ctx, fmt.Sprintf("dir%d/file-%d.bin", i%2, i), manifest.NewEntry(fr, nil)); err != nil {
				panic(err)
			}
		}
		if root, err = m.Store(ctx); err != nil {
			panic(err)
		}
	}
	pyr, err := traversal.New(st).GetPyramid(ctx, root)
	if err != nil {
		panic(err)
	}
	h := &honest{root: root.Bytes(), entries: pyr, leaf: map[string]bool{}, note: fmt.Sprintf("sizes=%v manifest=%v", sizes, withManifest)}
	for k, d := range pyr {
		h.leaf[k] = binary.LittleEndian.Uint64(d[:8]) <= uint64(len(d)-8)
	}
	return h
}

func (h *honest) keys() []string {
	ks := make([]string, 0, len(h.entries))
	for k := range h.entries {
		ks = append(ks, k)
	}
	sort.Strings(ks)
	return ks
}

func (h *honest) spec() ([]pyrEntry, []string) {
	var es []pyrEntry
	for _, k := range h.keys() {
		es = append(es, pyrEntry{Key: k, Data: FromBytes(h.entries[k])})
	}
	return es, h.keys()
}

// ---------------------------------------------------------------- main

func runCase(run *hx.Run, orc *oracle, jc jcase) {
	switch jc.Kind {
	case "retr":
		runRetr(run, orc, jc)
	case "relay":
		runRelay(run, orc, jc)
	case "pyr":
		runPyr(run, orc, jc)
	case "hist":
		runHist(run, orc, jc)
	default:
		panic("unknown case kind " + jc.Kind)
	}
}

func main() {
	run := hx.Start("C06", "Aurora.C06.Corr",
		"scripted peers against the real retrieval.Service (RetrieveChunk over 0..3 routes x 2 passes; relaying handler), traversal.GetChunkHashes and chunkinfo pyramid exchanges (1..4 per history); replies/entries = honest cac/soc chunks (0 B .. 256 KiB) and their truncations, zero/junk extensions (within and beyond ChunkSize+8, up to 1 MiB frames), bit flips, other-address payloads, short/garbage/oversize frames, extra/missing/duplicate pyramid entries, bad keys, injected local failures; non-trivial = a delivery reaches the validity check / a non-empty pyramid; distinct by the full case description")
	orc := &oracle{run: run}
	if run.Replay != "" {
		var jc jcase
		if err := run.ReadReplay(&jc); err != nil {
			panic(err)
		}
		runCase(run, orc, jc)
		run.Finish()
		return
	}
	r := run.R
	all := subjects(r.Fork(1), run.Thorough())
	pool := honestPool(r.Fork(2), run.Thorough())
	for _, jc := range corpus(r.Fork(3), pool, all) {
		runCase(run, orc, jc)
	}
	// every honest pyramid, unmodified, directly and through chunkinfo
	for _, h := range pool {
		es, seen := h.spec()
		w := h.walkExpect()
		if w != "ok" {
			seen = nil
		}
		runCase(run, orc, jcase{Kind: "pyr", Root: hx.Hex(h.root), Entries: es, FailAt: -1, Walk: w, Seen: seen, Note: "honest " + h.note})
		runCase(run, orc, jcase{Kind: "hist", Note: "honest " + h.note, Ops: []histOp{
			{Root: hx.Hex(h.root), Frames: append(framesOf(r, es), frameSpec{Ok: true}), FailAt: -1, Walk: w, Seen: seen}}})
	}
	rr, rl, rp, rh := r.Fork(4), r.Fork(5), r.Fork(6), r.Fork(7)
	for i := 0; i < run.N(100, 1600); i++ {
		runCase(run, orc, genRetr(rr, all))
	}
	for i := 0; i < run.N(30, 400); i++ {
		runCase(run, orc, genRelay(rl, all))
	}
	// boundary class: empty / one-byte payloads with assorted spans
	re := r.Fork(8)
	for i := 0; i < run.N(30, 400); i++ {
		runCase(run, orc, genEmpty(re))
	}
	for i := 0; i < run.N(100, 1600); i++ {
		runCase(run, orc, genPyr(rp, pool, all))
	}
	for i := 0; i < run.N(30, 400); i++ {
		runCase(run, orc, genHist(rh, pool, all))
	}
	run.Finish()
}
