// C07 harness: file reads honour the reader contract (joiner ReadAt / Read / Seek / Size).
//
// The REAL joiner runs over a synthetic lazy chunk store that serves a virtual file of any size
// (up to 2^60 bytes): the chunk of the byte range [a, a+n) has the address enc(a, n) and is built
// on demand following the Aurora format top-down.  The same store is defined in Coq (C07/Corr.v),
// so every case is also replayed on the model.  Buffers are make([]byte, len, cap) filled with a
// canary up to the capacity.
//
// Oracle (independent of the model; the property statement on what the joiner returned):
//
//	ReadAt(b, off): off >= size -> (0, EOF), nothing written; otherwise n == min(len(b), size-off),
//	err == nil, b[:n] == content[off:off+n], b[n:cap(b)] untouched.
//	Read: the same at the tracked position, which then advances by n.
//	Seek(o, whence): either an error and the position is unchanged, or the returned position is
//	the requested one (0: o, 1: pos+o, 2: size-o), it lies in [0, size], and later reads start there.
package main

import (
	"context"
	"encoding/binary"
	"errors"
	"fmt"
	"io"
	"sync"

	"github.com/gauss-project/aurorafs/pkg/boson"
	"github.com/gauss-project/aurorafs/pkg/encryption"
	"github.com/gauss-project/aurorafs/pkg/file"
	"github.com/gauss-project/aurorafs/pkg/file/joiner"
	"github.com/gauss-project/aurorafs/pkg/file/pipeline"
	pbmt "github.com/gauss-project/aurorafs/pkg/file/pipeline/bmt"
	"github.com/gauss-project/aurorafs/pkg/file/pipeline/builder"
	encw "github.com/gauss-project/aurorafs/pkg/file/pipeline/encryption"
	"github.com/gauss-project/aurorafs/pkg/file/pipeline/hashtrie"
	pstore "github.com/gauss-project/aurorafs/pkg/file/pipeline/store"
	"github.com/gauss-project/aurorafs/pkg/storage"
	"verifharness/hx"
)

const (
	CS = int64(boson.ChunkSize)
	RL = int64(boson.HashSize)
	BR = CS / RL
)

func fb(seed, o int64) byte {
	return byte((o*131 + (o>>8)*7 + (o>>18)*13 + seed) & 255)
}

var pad = []byte{165, 90, 165, 90, 165, 90, 165, 90, 1, 2, 3, 4, 5, 6, 7, 8}

func enc(a, n int64) []byte {
	b := make([]byte, 32)
	binary.LittleEndian.PutUint64(b[0:], uint64(a))
	binary.LittleEndian.PutUint64(b[8:], uint64(n))
	copy(b[16:], pad)
	return b
}

type fault struct {
	Kind int   `json:"kind"` // 0 none, 1 Get fails, 2 span reported one too large
	A    int64 `json:"a"`
	N    int64 `json:"n"`
}

type synStore struct {
	seed int64
	flt  fault
	gets int
}

var errSyn = errors.New("synthetic: get failed")

func branchOf(n int64) int64 {
	B := CS
	for i := 0; i < 8; i++ {
		if B <= (n-1)/BR {
			B *= BR
		} else {
			break
		}
	}
	return B
}

func (s *synStore) Get(_ context.Context, _ storage.ModeGet, addr boson.Address) (boson.Chunk, error) {
	ab := addr.Bytes()
	a := int64(binary.LittleEndian.Uint64(ab[0:8]))
	n := int64(binary.LittleEndian.Uint64(ab[8:16]))
	hit := s.flt.A == a && s.flt.N == n
	if s.flt.Kind == 1 && hit {
		return nil, errSyn
	}
	span := n
	if s.flt.Kind == 2 && hit {
		span = n + 1
	}
	var data []byte
	if n <= CS {
		data = make([]byte, 8+n)
		for i := int64(0); i < n; i++ {
			data[8+i] = fb(s.seed, a+i)
		}
	} else {
		B := branchOf(n)
		r := (n + B - 1) / B
		data = make([]byte, 8, 8+r*RL)
		for j := int64(0); j < r; j++ {
			l := n - j*B
			if l > B {
				l = B
			}
			data = append(data, enc(a+j*B, l)...)
		}
	}
	binary.LittleEndian.PutUint64(data[:8], uint64(span))
	return boson.NewChunk(addr, data), nil
}

type jop struct {
	Kind   string `json:"kind"` // readat | read | seek
	Len    int    `json:"len,omitempty"`
	Cap    int    `json:"cap,omitempty"`
	Off    int64  `json:"off,omitempty"`
	Whence int    `json:"whence,omitempty"`
}

type jcase struct {
	Conc bool  `json:"conc,omitempty"` // concurrent ReadAt layer: G goroutines x K calls on ONE joiner (oracle only)
	G    int   `json:"g,omitempty"`
	K    int   `json:"k,omitempty"`
	Lift bool  `json:"lift,omitempty"` // file of N identical chunks + Tail bytes built through the real writer stages
	Enc  bool  `json:"enc,omitempty"`  // lift: encrypted (64-byte references, branching 4096, real decrypting store)
	N    int64 `json:"n,omitempty"`
	Tail int64 `json:"tail,omitempty"`
	Size int64 `json:"size"`
	Seed int64 `json:"seed"`
	Flt  fault `json:"fault"`
	Ops  []jop `json:"ops"`
}

const canary = 0xEE

func dig(l []byte) (uint64, uint64) {
	s1, s2 := uint32(1), uint32(2)
	for _, x := range l {
		s1 = s1*16777619 + uint32(x) + 1
		s2 = s2*2654435761 + uint32(x) + 1
	}
	return uint64(s1), uint64(s2)
}

func coqZ(v int64) string { return hx.CoqZ(v) }

func main() {
	run := hx.Start("C07", "Aurora.C07.Corr",
		"sequences of ReadAt/Read/Seek on the real joiner over a synthetic lazy store: file sizes 0, 1, around 256 KiB and its multiples, around 2 GiB (8192 chunks), around 16 TiB and random up to 2^60; offsets around chunk / subtree boundaries, the end, beyond the end; buffers with cap in {len, len+1, 2 len, len+64}; seeks with the three whences incl. out-of-range and overflowing offsets; optional faulty chunk; concurrent layer (oracle only): 8 goroutines x 30 ReadAt calls on ONE joiner over real uploads of 3, 9, 20 chunks and a lifted encrypted tree; lift corpus: real stored trees of identical chunks above 1 GiB (encrypted, 64-byte references through the real decrypting store, branching 4096) and 2 GiB (plain) read around every level boundary; non-trivial = a read that crosses a chunk boundary, has cap > len, or follows a seek; distinct by (size, seed, fault, ops)")
	r := run.R
	ctx := context.Background()

	doCase := func(jc jcase, toCoq bool) {
		var st storage.Getter = &synStore{seed: jc.Seed, flt: jc.Flt}
		rootRef := enc(0, jc.Size)
		content := func(o int64) byte { return fb(jc.Seed, o) }
		if jc.Lift {
			jc.Size = jc.N*CS + jc.Tail
			ls, ref, lerr := liftUpload(ctx, jc.Enc, int(jc.N), int(jc.Tail))
			if lerr != nil {
				run.Violate(hx.Violation{Sig: "lift:upload-error", Detail: lerr.Error(), Case: jc})
				return
			}
			st, rootRef = ls, ref
			content = func(o int64) byte { return liftByte(jc.N, o) }
		}
		var j file.Joiner
		var size int64
		var err error
		panicked, msg := hx.Guard(func() { j, size, err = joiner.New(ctx, st, storage.ModeGetRequest, boson.NewAddress(rootRef)) })
		fl := "NoFault"
		switch jc.Flt.Kind {
		case 1:
			fl = hx.CoqApp("FailGet", coqZ(jc.Flt.A), coqZ(jc.Flt.N))
		case 2:
			fl = hx.CoqApp("BigSpan", coqZ(jc.Flt.A), coqZ(jc.Flt.N))
		}
		key := fmt.Sprintf("%d|%d|%v|%v|%v|%v", jc.Size, jc.Seed, jc.Flt, jc.Ops, jc.Lift, jc.Enc)
		if panicked {
			run.Violate(hx.Violation{Sig: "new:panic", Detail: msg, Case: jc})
			return
		}
		if err != nil {
			run.AddCase(hx.CoqApp("CNewFail", coqZ(jc.Size), coqZ(jc.Seed), fl), jc, key, false)
			if jc.Flt.Kind == 0 {
				run.Violate(hx.Violation{Sig: "new:error-on-good-store", Detail: err.Error(), Case: jc})
			}
			return
		}
		faulty := jc.Flt.Kind != 0
		run.OracleChecked(1)
		if !faulty && (size != jc.Size || j.Size() != jc.Size) {
			run.Violate(hx.Violation{Sig: "size:!=content-length", Detail: fmt.Sprintf("Size() = %d, New returned %d, content length %d", j.Size(), size, jc.Size), Case: jc, Impl: j.Size(), Want: jc.Size})
		}
		pos := int64(0) // the oracle's idea of the sequential position
		var steps []string
		nontrivial := false
		afterSeek := false
		for i, o := range jc.Ops {
			switch o.Kind {
			case "readat", "read":
				buf := make([]byte, o.Len, o.Cap)
				full := buf[:o.Cap]
				for k := range full {
					full[k] = canary
				}
				var n int
				var rerr error
				at := o.Off
				if o.Kind == "read" {
					at = pos
				}
				pk, pm := hx.Guard(func() {
					if o.Kind == "readat" {
						n, rerr = j.ReadAt(buf, o.Off)
					} else {
						n, rerr = j.Read(buf)
					}
				})
				if pk {
					run.Violate(hx.Violation{Sig: o.Kind + ":panic", Detail: pm, Case: jc})
					return
				}
				ec := uint64(0)
				if rerr == io.EOF {
					ec = 1
				} else if rerr != nil {
					ec = 2
				}
				d1, d2 := dig(full)
				fb0 := "None"
				if o.Cap <= 40 {
					fb0 = hx.CoqSome(hx.CoqBytes(full))
				}
				ob := hx.CoqApp("ObsRead", coqZ(int64(n)), hx.CoqN(ec), hx.CoqPair(hx.CoqN(d1), hx.CoqN(d2)), fb0)
				var op string
				if o.Kind == "readat" {
					op = hx.CoqApp("OReadAt", coqZ(int64(o.Len)), coqZ(int64(o.Cap)), coqZ(o.Off))
				} else {
					op = hx.CoqApp("ORead", coqZ(int64(o.Len)), coqZ(int64(o.Cap)))
				}
				steps = append(steps, hx.CoqPair(op, ob))
				run.Hist(fmt.Sprintf("%s.cap-len=%s", o.Kind, capClass(o.Len, o.Cap)))
				if o.Cap > o.Len || afterSeek || (at/CS != (at+int64(o.Len))/CS && at < jc.Size) {
					nontrivial = true
				}
				// ---- oracle
				if !faulty {
					run.OracleChecked(4)
					where := fmt.Sprintf("op %d %s(len=%d,cap=%d) at %d, size %d", i, o.Kind, o.Len, o.Cap, at, jc.Size)
					if n > o.Len {
						run.Violate(hx.Violation{Sig: "readat:count>len", Detail: where + fmt.Sprintf(": returned %d", n), Case: jc, Impl: n, Want: o.Len})
					}
					for k := o.Len; k < o.Cap; k++ {
						if full[k] != canary {
							run.Violate(hx.Violation{Sig: "readat:writes-beyond-len", Detail: where + fmt.Sprintf(": byte %d beyond len was overwritten", k), Case: jc})
							break
						}
					}
					if at >= jc.Size {
						if n != 0 || rerr != io.EOF {
							run.Violate(hx.Violation{Sig: "readat:no-eof-at-end", Detail: where + fmt.Sprintf(": n=%d err=%v", n, rerr), Case: jc})
						}
					} else {
						want := int64(o.Len)
						if jc.Size-at < want {
							want = jc.Size - at
						}
						if rerr != nil {
							run.Violate(hx.Violation{Sig: "readat:error-inside-file", Detail: where + ": " + rerr.Error(), Case: jc})
						} else if int64(n) != want && n <= o.Len {
							run.Violate(hx.Violation{Sig: "readat:count!=min(len,size-off)", Detail: where + fmt.Sprintf(": n=%d want %d", n, want), Case: jc, Impl: n, Want: want})
						}
						lim := n
						if lim > o.Len {
							lim = o.Len
						}
						for k := 0; k < lim; k++ {
							if full[k] != content(at+int64(k)) {
								run.Violate(hx.Violation{Sig: "readat:content", Detail: where + fmt.Sprintf(": byte %d differs from the content", k), Case: jc})
								break
							}
						}
						for k := lim; k < o.Len; k++ {
							if full[k] != canary {
								run.Violate(hx.Violation{Sig: "readat:writes-beyond-count", Detail: where + fmt.Sprintf(": byte %d >= n was overwritten", k), Case: jc})
								break
							}
						}
					}
				}
				if o.Kind == "read" && (rerr == nil || rerr == io.EOF) {
					pos += int64(n)
				}
				afterSeek = false
			case "seek":
				var p int64
				var serr error
				pk, pm := hx.Guard(func() { p, serr = j.Seek(o.Off, o.Whence) })
				if pk {
					run.Violate(hx.Violation{Sig: "seek:panic", Detail: pm, Case: jc})
					return
				}
				ec := uint64(0)
				switch {
				case serr == nil:
				case serr == io.EOF:
					ec = 1
				case serr.Error() == "seek: invalid whence":
					ec = 2
				case serr.Error() == "seek: invalid offset":
					ec = 3
				default:
					ec = 9
				}
				steps = append(steps, hx.CoqPair(hx.CoqApp("OSeek", coqZ(o.Off), coqZ(int64(o.Whence))), hx.CoqApp("ObsSeek", coqZ(p), hx.CoqN(ec))))
				run.Hist(fmt.Sprintf("seek.whence=%d.err=%d", o.Whence, ec))
				run.OracleChecked(1)
				if serr == nil {
					var want int64
					ok := true
					switch o.Whence {
					case 0:
						want = o.Off
					case 1:
						want = pos + o.Off // checked below against overflow by range test
					case 2:
						want = jc.Size - o.Off
					default:
						ok = false
					}
					if !ok {
						run.Violate(hx.Violation{Sig: "seek:accepts-invalid-whence", Detail: fmt.Sprintf("whence %d accepted", o.Whence), Case: jc})
					} else if p != want {
						run.Violate(hx.Violation{Sig: "seek:wrong-position", Detail: fmt.Sprintf("op %d Seek(%d,%d) from %d returned %d, requested %d", i, o.Off, o.Whence, pos, p, want), Case: jc, Impl: p, Want: want})
					} else if p < 0 || (!faulty && p > jc.Size) {
						run.Violate(hx.Violation{Sig: "seek:position-outside-file", Detail: fmt.Sprintf("op %d Seek(%d,%d) accepted position %d of a %d byte file", i, o.Off, o.Whence, p, jc.Size), Case: jc})
					}
					pos = p
					afterSeek = true
				}
			}
		}
		coq := ""
		if toCoq {
			coq = hx.CoqApp("CJoin", coqZ(jc.Size), coqZ(jc.Seed), fl, hx.CoqList(steps, "op * obs"))
			if jc.Lift {
				coq = hx.CoqApp("CLift", hx.CoqBool(jc.Enc), coqZ(jc.N), coqZ(jc.Tail), hx.CoqList(steps, "op * obs"))
			}
		}
		run.AddCase(coq, jc, key, nontrivial)
		run.Hist(fmt.Sprintf("size~2^%d", log2(jc.Size)))
	}

	if run.Replay != "" {
		var jc jcase
		if err := run.ReadReplay(&jc); err != nil {
			panic(err)
		}
		if jc.Conc {
			doConc(run, jc)
		} else {
			doCase(jc, true)
		}
		run.Finish()
		return
	}

	// ---- corpus: the F-joiner-cap witness (100-byte file, make([]byte,10,64)) and friends
	doCase(jcase{Size: 100, Seed: 1, Ops: []jop{{Kind: "readat", Len: 10, Cap: 64, Off: 0}, {Kind: "readat", Len: 10, Cap: 64, Off: 95},
		{Kind: "read", Len: 7, Cap: 9}, {Kind: "read", Len: 0, Cap: 5}, {Kind: "seek", Off: 3, Whence: 2}, {Kind: "read", Len: 10, Cap: 10}, {Kind: "read", Len: 1, Cap: 1}}}, true)
	doCase(jcase{Size: 0, Seed: 2, Ops: []jop{{Kind: "readat", Len: 4, Cap: 8, Off: 0}, {Kind: "read", Len: 4, Cap: 4}, {Kind: "seek", Off: 0, Whence: 2}, {Kind: "seek", Off: 1, Whence: 0}}}, true)
	doCase(jcase{Size: 3*CS + 17, Seed: 3, Ops: []jop{{Kind: "readat", Len: 20, Cap: 33, Off: CS - 7}, {Kind: "seek", Off: 2*CS - 3, Whence: 0}, {Kind: "read", Len: 5, Cap: 10}, {Kind: "read", Len: 5, Cap: 5},
		{Kind: "seek", Off: -(1 << 63), Whence: 2}, {Kind: "seek", Off: 1<<63 - 1, Whence: 1}, {Kind: "seek", Off: 5, Whence: 7}, {Kind: "seek", Off: -1, Whence: 0}, {Kind: "read", Len: 3, Cap: 3}}}, true)

	// ---- lift corpus (every seed): level boundaries of real two-/three-level trees, plain and encrypted
	for _, encd := range []bool{true, false} {
		br := BR
		if encd {
			br = BR / 2
		}
		for _, sh := range []struct{ n, tail int64 }{{br, 1}, {br + 1, 0}, {br + 1, 777}, {2*br + 3, 0}} {
			size := sh.n*CS + sh.tail
			bd := br * CS
			var ops []jop
			for _, o := range []int64{bd - 100, bd - 1, bd, bd + 1, bd - CS - 3, bd + CS - 5, 2*bd - 7, size - 50, size, size + 1} {
				if o < 0 {
					continue
				}
				l := r.Pick([]int{1, 16, 64, 200})
				if o == bd-100 {
					l = 4096
				}
				c := l
				if r.Chance(1, 3) {
					c = l + 1 + r.Intn(40)
				}
				ops = append(ops, jop{Kind: "readat", Len: l, Cap: c, Off: o})
			}
			ops = append(ops, jop{Kind: "seek", Off: bd - 10, Whence: 0}, jop{Kind: "read", Len: 30, Cap: 30}, jop{Kind: "read", Len: 40, Cap: 64},
				jop{Kind: "seek", Off: 5, Whence: 2}, jop{Kind: "read", Len: 10, Cap: 10}, jop{Kind: "seek", Off: CS - 3, Whence: 1}, jop{Kind: "read", Len: 8, Cap: 8})
			for k := 0; k < 3; k++ {
				ops = append(ops, jop{Kind: "readat", Len: 32, Cap: 32, Off: int64(r.U64()>>1) % size})
			}
			doCase(jcase{Lift: true, Enc: encd, N: sh.n, Tail: sh.tail, Ops: ops}, true)
		}
	}

	sizes := func() int64 {
		switch r.Intn(10) {
		case 0:
			return int64(r.Intn(3))
		case 1:
			return int64(r.Intn(5000))
		case 2:
			return CS + int64(r.Intn(5)) - 2
		case 3:
			return int64(1+r.Intn(6))*CS + int64(r.Intn(5)) - 2
		case 4:
			return BR*CS + int64(r.Intn(5)) - 2 // 2 GiB: second level full
		case 5:
			return int64(1+r.Intn(40))*BR*CS + int64(r.Intn(int(CS)))*int64(r.Intn(3)) + int64(r.Intn(3)) - 1
		case 6:
			return BR*BR*CS + int64(r.Intn(5)) - 2 // 16 TiB
		case 7:
			return int64(r.U64() >> uint(4+r.Intn(40)))
		case 8:
			return int64(1+r.Intn(30))*CS + int64(r.Intn(int(CS)))
		default:
			return int64(r.Intn(int(3 * CS)))
		}
	}
	genOff := func(size int64) int64 {
		var o int64
		switch r.Intn(8) {
		case 0:
			o = 0
		case 1:
			o = size - int64(r.Intn(40))
		case 2:
			o = size + int64(r.Intn(3))
		case 3: // chunk boundary
			if size > CS {
				o = int64(r.Intn(int(size/CS)+1))*CS - int64(r.Intn(30))
				if size/CS > 1<<30 {
					o = (int64(r.U64()>>1)%(size/CS))*CS - int64(r.Intn(30))
				}
			}
		case 4: // second-level boundary
			if size > BR*CS {
				o = (1+int64(r.U64()>>1)%(size/(BR*CS)))*BR*CS - int64(r.Intn(30))
			}
		case 5:
			if size > 0 {
				o = int64(r.U64()>>1) % size
			}
		case 6:
			o = size - CS - int64(r.Intn(20))
		default:
			if size > 0 {
				o = int64(r.U64()>>1) % (size + 10)
			}
		}
		if o < 0 {
			o = 0
		}
		return o
	}
	genLenCap := func(big bool) (int, int) {
		l := r.Pick([]int{0, 1, 2, 7, 16, 31, 32, 33, 40, 64, 100, 200})
		if big {
			l = r.Pick([]int{int(CS) - 1, int(CS), int(CS) + 1, 3*int(CS) + 5, 4096, 70000})
		}
		c := l
		switch r.Intn(5) {
		case 0:
			c = l + 1
		case 1:
			c = 2 * l
		case 2:
			c = l + 64
		}
		return l, c
	}
	genOps := func(size int64, nops int, big bool) []jop {
		var ops []jop
		for k := 0; k < nops; k++ {
			l, c := genLenCap(big && r.Chance(1, 3))
			switch r.Intn(10) {
			case 0, 1, 2, 3:
				ops = append(ops, jop{Kind: "readat", Len: l, Cap: c, Off: genOff(size)})
			case 4, 5, 6:
				ops = append(ops, jop{Kind: "read", Len: l, Cap: c})
			default:
				w := r.Intn(3)
				var o int64
				switch r.Intn(6) {
				case 0:
					o = -int64(r.Intn(50))
				case 1:
					o = int64(r.U64()) // anything, incl. overflowing
				case 2:
					w = 3 + r.Intn(3)
				default:
					o = genOff(size)
					if w == 2 {
						o = size - o
					}
					if w == 1 {
						o = int64(r.Intn(200)) - 100
					}
				}
				ops = append(ops, jop{Kind: "seek", Off: o, Whence: w})
			}
		}
		return ops
	}

	// ---- stream checked by the model and the oracle (small buffers)
	nCoq := run.N(40, 400)
	for i := 0; i < nCoq+run.N(80, 800); i++ {
		size := sizes()
		if size < 0 {
			size = 0
		}
		jc := jcase{Size: size, Seed: int64(r.Intn(256)), Ops: genOps(size, 3+r.Intn(5), false)}
		doCase(jc, i < nCoq) // the first nCoq also go to the Coq model (each costs ~0.3 s of vm_compute)
	}
	// ---- faulty stores (model only; the oracle does not apply)
	for i := 0; i < run.N(8, 80); i++ {
		size := int64(2+r.Intn(30))*CS + int64(r.Intn(1000))
		if r.Chance(1, 3) {
			size = BR*CS + int64(1+r.Intn(5))*CS + 5
		}
		// a chunk that exists in the tree: a leaf range, or (for the 3-level file) the full second-level node
		k := int64(r.Intn(int(size/CS) + 1))
		a, n := k*CS, CS
		if size-a < n {
			n = size - a
		}
		if size > BR*CS {
			if r.Bool() {
				a, n = 0, BR*CS
			} else if a < BR*CS { // leaf below the full node
			} else if size-BR*CS <= CS { // single carried leaf
				a, n = BR*CS, size-BR*CS
			}
		}
		jc := jcase{Size: size, Seed: int64(r.Intn(256)), Flt: fault{Kind: 1 + r.Intn(2), A: a, N: n}}
		jc.Ops = []jop{{Kind: "readat", Len: 50, Cap: 50, Off: a + n - 20}, {Kind: "readat", Len: 30, Cap: 30, Off: 0}, {Kind: "read", Len: 16, Cap: 20}}
		if a >= 40 {
			jc.Ops = append(jc.Ops, jop{Kind: "readat", Len: 30, Cap: 30, Off: a - 40})
		}
		doCase(jc, true)
	}
	// ---- large buffers: oracle only
	for i := 0; i < run.N(25, 300); i++ {
		size := sizes()
		if size < 0 {
			size = 0
		}
		jc := jcase{Size: size, Seed: int64(r.Intn(256)), Ops: genOps(size, 2+r.Intn(3), true)}
		doCase(jc, false)
	}
	// ---- concurrent ReadAt on ONE joiner (io.ReaderAt: "Clients of ReadAt can execute parallel ReadAt
	// calls on the same input source"); oracle only
	for _, ch := range []int{3, 9, 20} {
		doConc(run, jcase{Conc: true, G: 8, K: 30, Size: int64(ch)*CS + int64(r.Intn(5000)), Seed: int64(r.U64() >> 1)})
	}
	doConc(run, jcase{Conc: true, G: 8, K: 12, Lift: true, Enc: true, N: BR/2 + 1, Tail: 777, Seed: int64(r.U64() >> 1)})
	run.Finish()
}

func capClass(l, c int) string {
	switch {
	case c == l:
		return "0"
	case c == l+1:
		return "1"
	case c == 2*l:
		return "len"
	default:
		return "more"
	}
}

func log2(v int64) int {
	n := 0
	for v > 1 {
		v >>= 1
		n++
	}
	return n / 4 * 4
}

// ---------------------------------------------------------------- "lift": real stored trees above 1 GiB

type liftStore struct {
	mu sync.Mutex
	m  map[string][]byte
}

func (s *liftStore) Put(_ context.Context, _ storage.ModePut, chs ...boson.Chunk) ([]bool, error) {
	s.mu.Lock()
	defer s.mu.Unlock()
	for _, c := range chs {
		s.m[string(c.Address().Bytes())] = append([]byte{}, c.Data()...)
	}
	return make([]bool, len(chs)), nil
}
func (s *liftStore) Get(_ context.Context, _ storage.ModeGet, a boson.Address) (boson.Chunk, error) {
	s.mu.Lock()
	defer s.mu.Unlock()
	d, ok := s.m[string(a.Bytes())]
	if !ok {
		return nil, storage.ErrNotFound
	}
	return boson.NewChunk(a, d), nil
}

func liftByte(n, o int64) byte {
	if o < n*CS {
		return byte(1 + (o%CS+8)%251)
	}
	return byte(7 + (o-n*CS+8)%251)
}

// liftUpload stores a file of n identical full chunks plus an optional shorter tail through the real
// (Encryption ->) BMT -> Store -> HashTrie stages with the feeder left out: the repeated chunk passes
// the stages once and its (span, ref, key) is handed to the hash-trie writer n-1 more times.
func liftUpload(ctx context.Context, enc bool, n, tail int) (*liftStore, []byte, error) {
	st := &liftStore{m: map[string][]byte{}}
	var tw, top pipeline.ChainWriter
	if enc {
		short := func() pipeline.ChainWriter {
			return encw.NewEncryptionWriter(encryption.NewChunkEncrypter(), pbmt.NewBmtWriter(pstore.NewStoreWriter(ctx, st, storage.ModePutUpload, nil)))
		}
		tw = hashtrie.NewHashTrieWriter(boson.ChunkSize, boson.Branches/2, boson.HashSize+encryption.KeyLength, short)
		top = encw.NewEncryptionWriter(encryption.NewChunkEncrypter(), pbmt.NewBmtWriter(pstore.NewStoreWriter(ctx, st, storage.ModePutUpload, tw)))
	} else {
		short := func() pipeline.ChainWriter {
			return pbmt.NewBmtWriter(pstore.NewStoreWriter(ctx, st, storage.ModePutUpload, nil))
		}
		tw = hashtrie.NewHashTrieWriter(boson.ChunkSize, boson.Branches, boson.HashSize, short)
		top = pbmt.NewBmtWriter(pstore.NewStoreWriter(ctx, st, storage.ModePutUpload, tw))
	}
	chunkOf := func(size int, fill byte) *pipeline.PipeWriteArgs {
		d := make([]byte, 8+size)
		binary.LittleEndian.PutUint64(d[:8], uint64(size))
		for i := 8; i < len(d); i++ {
			d[i] = fill + byte(i%251)
		}
		return &pipeline.PipeWriteArgs{Data: d, Span: append([]byte(nil), d[:8]...)}
	}
	f := chunkOf(int(CS), 1)
	if err := top.ChainWrite(f); err != nil {
		return nil, nil, err
	}
	for i := 1; i < n; i++ {
		if err := tw.ChainWrite(&pipeline.PipeWriteArgs{Ref: f.Ref, Span: f.Span, Key: f.Key}); err != nil {
			return nil, nil, err
		}
	}
	if tail > 0 {
		if err := top.ChainWrite(chunkOf(tail, 7)); err != nil {
			return nil, nil, err
		}
	}
	ref, err := top.Sum()
	return st, ref, err
}

// ---------------------------------------------------------------- concurrent ReadAt layer

// doConc: G goroutines, released together, each issue K ReadAt calls on the SAME joiner over a real
// multi-chunk upload (or a lifted tree); every call is checked on its own: n <= len, n == min(len,
// size-off), bytes equal the content, canary beyond len intact, nil error (io.EOF at/after the end).
func doConc(run *hx.Run, jc jcase) {
	ctx := context.Background()
	var st storage.Getter
	var root []byte
	var content func(at int64, n int) []byte
	size := jc.Size
	if jc.Lift {
		size = jc.N*CS + jc.Tail
		ls, ref, err := liftUpload(ctx, jc.Enc, int(jc.N), int(jc.Tail))
		if err != nil {
			run.Violate(hx.Violation{Sig: "lift:upload-error", Detail: err.Error(), Case: jc})
			return
		}
		st, root = ls, ref
		content = func(at int64, n int) []byte {
			out := make([]byte, n)
			for i := range out {
				out[i] = liftByte(jc.N, at+int64(i))
			}
			return out
		}
	} else {
		data := hx.NewRand(uint64(jc.Seed)).Bytes(int(size))
		ls := &liftStore{m: map[string][]byte{}}
		p := builder.NewPipelineBuilder(ctx, ls, storage.ModePutUpload, false)
		if _, err := p.Write(data); err != nil {
			run.Violate(hx.Violation{Sig: "conc:upload-error", Detail: err.Error(), Case: jc})
			return
		}
		sum, err := p.Sum()
		if err != nil {
			run.Violate(hx.Violation{Sig: "conc:upload-error", Detail: err.Error(), Case: jc})
			return
		}
		st, root = ls, sum
		content = func(at int64, n int) []byte { return data[at : at+int64(n)] }
	}
	j, _, err := joiner.New(ctx, st, storage.ModeGetRequest, boson.NewAddress(root))
	if err != nil {
		run.Violate(hx.Violation{Sig: "conc:open-error", Detail: err.Error(), Case: jc})
		return
	}
	type bad struct{ sig, detail string }
	found := make([][]bad, jc.G)
	start := make(chan struct{})
	var wg sync.WaitGroup
	for g := 0; g < jc.G; g++ {
		wg.Add(1)
		go func(g int) {
			defer wg.Done()
			rr := hx.NewRand(uint64(jc.Seed)*131 + uint64(g))
			<-start
			pk, pm := hx.Guard(func() {
				for k := 0; k < jc.K; k++ {
					var l int
					switch rr.Intn(5) {
					case 0:
						l = rr.Intn(64)
					case 1:
						l = int(CS) - 1 + rr.Intn(3)
					case 2:
						l = int(CS)*(1+rr.Intn(4)) + rr.Intn(1000)
					default:
						l = 1 + rr.Intn(3*int(CS))
					}
					c := l
					if rr.Chance(1, 2) {
						c = l + 1 + rr.Intn(100)
					}
					var off int64
					switch rr.Intn(6) {
					case 0:
						off = size - int64(rr.Intn(2*int(CS)))
					case 1:
						off = size + int64(rr.Intn(3))
					case 2:
						off = (int64(rr.U64()>>1)%(size/CS+1))*CS - int64(rr.Intn(50))
					default:
						off = int64(rr.U64()>>1) % size
					}
					if off < 0 {
						off = 0
					}
					buf := make([]byte, l, c)
					full := buf[:c]
					for i := l; i < c; i++ {
						full[i] = canary
					}
					n, rerr := j.ReadAt(buf, off)
					where := fmt.Sprintf("goroutine %d call %d ReadAt(len=%d,cap=%d) at %d, size %d", g, k, l, c, off, size)
					if n > l {
						found[g] = append(found[g], bad{"readat:concurrent:count>len", where + fmt.Sprintf(": returned %d", n)})
						continue
					}
					for i := l; i < c; i++ {
						if full[i] != canary {
							found[g] = append(found[g], bad{"readat:concurrent:writes-beyond-len", where})
							break
						}
					}
					if off >= size {
						if n != 0 || rerr != io.EOF {
							found[g] = append(found[g], bad{"readat:concurrent:no-eof-at-end", where + fmt.Sprintf(": n=%d err=%v", n, rerr)})
						}
						continue
					}
					want := int64(l)
					if size-off < want {
						want = size - off
					}
					if rerr != nil {
						found[g] = append(found[g], bad{"readat:concurrent:error-inside-file", where + ": " + rerr.Error()})
					} else if int64(n) != want {
						found[g] = append(found[g], bad{"readat:concurrent:count!=min", where + fmt.Sprintf(": n=%d want %d", n, want)})
					} else {
						exp := content(off, n)
						for i := 0; i < n; i++ {
							if buf[i] != exp[i] {
								found[g] = append(found[g], bad{"readat:concurrent:content", where + fmt.Sprintf(": byte %d differs", i)})
								break
							}
						}
					}
				}
			})
			if pk {
				found[g] = append(found[g], bad{"readat:concurrent:panic", pm})
			}
		}(g)
	}
	close(start)
	wg.Wait()
	run.OracleChecked(4 * jc.G * jc.K)
	seen := map[string]bool{}
	for _, fs := range found {
		for _, b := range fs {
			if !seen[b.sig] {
				seen[b.sig] = true
				run.Violate(hx.Violation{Sig: b.sig, Detail: b.detail, Case: jc})
			}
		}
	}
	run.AddCase("", jc, fmt.Sprintf("conc|%d|%d|%d|%d|%v|%d", size, jc.Seed, jc.G, jc.K, jc.Lift, jc.N), true)
	run.Hist(fmt.Sprintf("concurrent.chunks=%d", (size+CS-1)/CS))
}
