// C12 harness: garbage collection never deletes pinned or uploaded chunks and
// never changes a pin count.  Histories of real API uploads (POST /aurora,
// /bytes, /chunks, pinned or not), downloads (pyramid exchange + chunk
// retrieval into the cache), pins/unpins (POST/DELETE /pins), deletions and
// synchronous collection runs on the real stack (harness/gcx), with the REAL
// chunkinfo behind localstore.
//
//   - correspondence (Aurora.C12.Corr): every localstore call, registration,
//     delete and both phases of each run compared with the model (observation,
//     all five indexes, gcSize, gc bookkeeping, chunkinfo pyramid tables);
//   - oracle (gcx.C12Oracle): around every run, on the store's own dumps:
//     pinned chunks stay, pin counts stay, uploaded chunks stay.
package main

import (
	"verifharness/gcx"
	"verifharness/hx"
)

func main() {
	run := hx.Start("C12", "Aurora.C12.Corr",
		"histories of 5..15 node operations over 2..4 files of 1..4 chunks (256 KiB blocks from a pool of 5: shared, repeated, prefix files; manifest roots via POST /aurora, bare roots via POST /bytes): uploads (pinned or not), single-chunk uploads, pyramid exchange + chunk retrieval into the cache, reads, root pins/unpins, DELETE, chunk-transfer registrations, collection runs with capacity 2..10 (some with an access at the interleaving point or a small batch size); non-trivial = a run recycled at least one file; distinct by (capacity, files, operations)")
	gcx.Main(run, &gcx.C12Oracle{}, 20, 900)
}
