package main

import (
	"fmt"
	"os"
	"runtime/pprof"
	"time"

	"verifharness/hx"
	"verifharness/lsx"
)

func main() {
	f, _ := os.Create(os.Args[1])
	pprof.StartCPUProfile(f)
	defer pprof.StopCPUProfile()
	r := hx.NewRand(1)
	t0 := time.Now()
	var topen, tsteps, tclose time.Duration
	for i := 0; i < 60; i++ {
		t1 := time.Now()
		g, err := lsx.NewGen(r.Fork(uint64(i)), "api", 1<<40, false)
		if err != nil {
			panic(err)
		}
		t2 := time.Now()
		g.Steps(20)
		t3 := time.Now()
		g.St.Close()
		t4 := time.Now()
		topen += t2.Sub(t1)
		tsteps += t3.Sub(t2)
		tclose += t4.Sub(t3)
	}
	fmt.Println(time.Since(t0), topen, tsteps, tclose)
}
