// C15 harness: pin and unpin are idempotent inverses.
//
// Real pinning.NewService over a real localstore.DB (leveldb in memory), the
// in-memory leveldb state store and the real traversal; the /pins handlers of
// the real api.New through ServeHTTP. Files come from the real upload
// pipeline (run once per distinct content, its Put calls replayed on every
// history's store): multi-chunk files of 256 KiB chunks that share chunks,
// repeat a chunk, or whose reference IS a data chunk of another file, and
// small single-chunk files around the manifest-header boundaries.
//
//   - correspondence: every step (each Put of an upload, each chunk-level Set,
//     each service call and each handler call) is compared with the Coq model
//     Aurora.C15: result + all five localstore indexes + gcSize + every
//     state-store key;
//   - oracle (pinx.Oracle): the statement of C15 on the implementation, per
//     level (svc / api), with the harness's own reading of which chunks a
//     reference consists of.
package main

import (
	"fmt"

	"verifharness/hx"
	"verifharness/pinx"
)

const C = 262144

func segs(xs ...int) pinx.FileSpec {
	var f pinx.FileSpec
	for i := 0; i+1 < len(xs); i += 2 {
		f.Segs = append(f.Segs, pinx.Seg{B: byte(xs[i]), N: xs[i+1]})
	}
	return f
}

// the multi-chunk library: fills 1,2,3; full chunks and short tails
func bigLib(thorough bool) []pinx.FileSpec {
	l := []pinx.FileSpec{
		segs(1, C, 2, C),         // A
		segs(1, C, 2, C, 3, 100), // shares two chunks with A
		segs(1, C, 1, C),         // a repeated chunk
		segs(1, C),               // its reference is the data chunk 1C of the others
		segs(2, C, 1, C, 2, C),   // repeated and shared
		segs(3, 100),             // its reference is the tail chunk of the second file
		segs(1, C, 3, 1),
	}
	if thorough {
		l = append(l, segs(1, C, 2, C, 1, C, 2, C), segs(3, C), segs(2, C, 2, C, 2, C, 3, 100), segs(3, C, 1, C), segs(2, C))
	}
	return l
}

func smallLib(r *hx.Rand) []pinx.FileSpec {
	var l []pinx.FileSpec
	for _, n := range []int{0, 1, 31, 32, 33, 63, 64, 65, 100, 300} {
		l = append(l, pinx.FileSpec{Raw: hx.Hex(r.Bytes(n))})
	}
	l = append(l, segs(7, 64), segs(0, 200), segs(9, 5000))
	return l
}

type gen struct {
	r    *hx.Rand
	h    *pinx.Hist
	refs []int
	univ int
	lvl  int // 0 service, 1 api, 2 mixed
}

func (g *gen) pickRef() int {
	// mostly file references; sometimes any chunk address (a leaf or intermediate chunk as a reference), rarely an absent one
	switch x := g.r.Intn(20); {
	case x < 15:
		return g.refs[g.r.Intn(len(g.refs))]
	case x < 18:
		return g.r.Intn(g.univ)
	default:
		return g.univ - 1 - g.r.Intn(len(g.h.Extra))
	}
}

func (g *gen) pinOp(kind string, a int) pinx.Op {
	api := g.lvl == 1 || (g.lvl == 2 && g.r.Bool())
	if api {
		return pinx.Op{K: "api" + kind, A: a}
	}
	return pinx.Op{K: kind, A: a}
}

func genHist(r *hx.Rand, lib []pinx.FileSpec, kind string, nfiles, nops int) *pinx.Hist {
	h := &pinx.Hist{Kind: kind, Base: hx.Hex(r.Bytes(32)), Cap: 1000}
	perm := make([]int, len(lib))
	for i := range perm {
		perm[i] = i
	}
	for i := 0; i < nfiles && i < len(lib); i++ {
		j := i + r.Intn(len(lib)-i)
		perm[i], perm[j] = perm[j], perm[i]
		h.Files = append(h.Files, lib[perm[i]])
	}
	h.Extra = []string{hx.Hex(r.Bytes(32)), hx.Hex(r.Bytes(32))}
	univ, _, refs := h.Universe()
	g := &gen{r: r, h: h, refs: refs, univ: len(univ), lvl: r.Intn(3)}
	// set-up: every file enters the store (mostly a plain upload; sometimes cached by a retrieval, sometimes a pinned upload)
	uploaded := map[int]bool{}
	for f := range h.Files {
		if r.Chance(1, 12) {
			continue // not uploaded (possibly partly present through shared chunks)
		}
		mode := 1
		switch x := r.Intn(10); {
		case x == 0:
			mode = 0
		case x == 1:
			mode = 2
		}
		h.Ops = append(h.Ops, pinx.Op{K: "upload", F: f, Mode: mode})
		uploaded[f] = true
		if mode == 2 {
			h.Ops = append(h.Ops, pinx.Op{K: "pin", A: refs[f], NoTrav: true}) // what the upload handlers do after a pinned upload
		}
	}
	for r.Chance(1, 4) {
		h.Ops = append(h.Ops, pinx.Op{K: "cpin", A: r.Intn(len(univ))}) // chunk-level pins: a non-zero base line
	}
	last := -1
	for i := 0; i < nops; i++ {
		a := g.pickRef()
		if last >= 0 && r.Chance(2, 5) {
			a = last // stay on the same reference: repeated pins / unpins
		}
		last = a
		switch x := r.Intn(100); {
		case x < 38:
			h.Ops = append(h.Ops, g.pinOp("pin", a))
		case x < 74:
			h.Ops = append(h.Ops, g.pinOp("unpin", a))
		case x < 80:
			if g.lvl >= 1 {
				h.Ops = append(h.Ops, pinx.Op{K: "apiget", A: a})
			} else {
				h.Ops = append(h.Ops, pinx.Op{K: "has", A: a})
			}
		case x < 88:
			if g.lvl >= 1 {
				h.Ops = append(h.Ops, pinx.Op{K: "apilist"})
			} else {
				h.Ops = append(h.Ops, pinx.Op{K: "list"})
			}
		case x < 90:
			h.Ops = append(h.Ops, pinx.Op{K: "apibad", Mode: r.Intn(6)})
		case x < 93:
			h.Ops = append(h.Ops, pinx.Op{K: "cpin", A: r.Intn(len(univ))})
		case x < 95:
			h.Ops = append(h.Ops, pinx.Op{K: "cunpin", A: r.Intn(len(univ))})
		case x < 97:
			h.Ops = append(h.Ops, pinx.Op{K: "rm", A: r.Intn(len(univ))})
		case x < 99:
			f := r.Intn(len(h.Files))
			h.Ops = append(h.Ops, pinx.Op{K: "upload", F: f, Mode: 1})
		default:
			h.Ops = append(h.Ops, pinx.Op{K: "pin", A: a, NoTrav: true})
		}
	}
	return h
}

func corpus() []*pinx.Hist {
	base := "a1" + fmt.Sprintf("%062d", 0)
	A, B, D, L := segs(1, C, 2, C, 1, C), segs(1, C, 3, 100), segs(3, 100), segs(1, C)
	up := func(n int) []pinx.Op {
		var o []pinx.Op
		for f := 0; f < n; f++ {
			o = append(o, pinx.Op{K: "upload", F: f, Mode: 1})
		}
		return o
	}
	cat := func(a []pinx.Op, b ...pinx.Op) []pinx.Op { return append(append([]pinx.Op{}, a...), b...) }
	// universe of {A,B}: A's puts 0:1C 1:2C (1C again) 2:root A ; B's puts: 3:tail 4:root B ; extras after
	mk := func(kind string, files []pinx.FileSpec, ops []pinx.Op) *pinx.Hist {
		return &pinx.Hist{Kind: kind, Base: base, Cap: 1000, Files: files, Extra: []string{fmt.Sprintf("%064d", 9)}, Ops: ops}
	}
	fs := []pinx.FileSpec{A, B}
	ref := func(h *pinx.Hist, f int) int { _, _, r := h.Universe(); return r[f] }
	h0 := mk("tmp", fs, nil)
	ra, rb := ref(h0, 0), ref(h0, 1)
	fs2 := []pinx.FileSpec{A, L, D, B}
	h1 := mk("tmp", fs2, nil)
	rl, rd := ref(h1, 1), ref(h1, 2)
	idx := func(h *pinx.Hist, f pinx.FileSpec) int { _, m, _ := h.Universe(); return m[string(pinx.Build(f).Ref)] }
	tailB, c2, absent := idx(h0, D), idx(h0, segs(2, C)), len(func() [][]byte { u, _, _ := h0.Universe(); return u }())-1
	return []*pinx.Hist{
		// fixed (fix-createpin-repeat): F-createpin-repeat — pin, pin, unpin left every chunk of A pinned once with the root key gone
		mk("corpus-createpin-repeat-svc", fs, cat(up(2), pinx.Op{K: "pin", A: ra}, pinx.Op{K: "pin", A: ra}, pinx.Op{K: "list"}, pinx.Op{K: "unpin", A: ra}, pinx.Op{K: "list"})),
		// fixed (fix-deletepin-repeat): the second unpin of A decremented the chunk it shares with the pinned B
		mk("corpus-deletepin-repeat-shared-svc", fs, cat(up(2), pinx.Op{K: "pin", A: ra}, pinx.Op{K: "pin", A: rb}, pinx.Op{K: "unpin", A: ra}, pinx.Op{K: "unpin", A: ra}, pinx.Op{K: "has", A: rb}, pinx.Op{K: "unpin", A: rb})),
		// the same two histories through the handlers (guarded by HasPin before and after the repair)
		mk("corpus-createpin-repeat-api", fs, cat(up(2), pinx.Op{K: "apipin", A: ra}, pinx.Op{K: "apipin", A: ra}, pinx.Op{K: "apilist"}, pinx.Op{K: "apiunpin", A: ra}, pinx.Op{K: "apilist"})),
		mk("corpus-deletepin-repeat-shared-api", fs, cat(up(2), pinx.Op{K: "apipin", A: ra}, pinx.Op{K: "apipin", A: rb}, pinx.Op{K: "apiunpin", A: ra}, pinx.Op{K: "apiunpin", A: ra}, pinx.Op{K: "apiget", A: rb}, pinx.Op{K: "apiunpin", A: rb})),
		// references that are data chunks of other files: L = chunk 1C of A and B, D = the tail chunk of B
		mk("corpus-leaf-as-reference", fs2, cat(up(4), pinx.Op{K: "pin", A: ra}, pinx.Op{K: "pin", A: rl}, pinx.Op{K: "pin", A: rd}, pinx.Op{K: "unpin", A: ra}, pinx.Op{K: "unpin", A: rl}, pinx.Op{K: "unpin", A: rl}, pinx.Op{K: "unpin", A: rd})),
		// a cached file (retrieval: request puts under the file context) is pinned and unpinned: gc bookkeeping moves, counters return
		mk("corpus-cached-file", fs, []pinx.Op{{K: "upload", F: 0, Mode: 0}, {K: "upload", F: 1, Mode: 1}, {K: "pin", A: ra}, {K: "pin", A: rb}, {K: "unpin", A: ra}, {K: "pin", A: ra}, {K: "unpin", A: rb}, {K: "unpin", A: ra}}),
		// pinned upload twice (outside pin.go): every chunk counted twice, one root key; one unpin leaves 1
		mk("corpus-pinned-upload", fs, []pinx.Op{{K: "upload", F: 1, Mode: 2}, {K: "pin", A: rb, NoTrav: true}, {K: "apiget", A: rb}, {K: "apipin", A: rb}, {K: "apiunpin", A: rb}, {K: "apiunpin", A: rb}}),
		// not stored: absent reference, and a file whose chunk was removed (before and after the pin)
		mk("corpus-not-stored", fs, cat(up(2), pinx.Op{K: "pin", A: absent}, pinx.Op{K: "apipin", A: absent}, pinx.Op{K: "unpin", A: absent}, pinx.Op{K: "apiunpin", A: absent},
			pinx.Op{K: "pin", A: rb}, pinx.Op{K: "rm", A: tailB}, pinx.Op{K: "unpin", A: rb}, pinx.Op{K: "apiunpin", A: rb}, pinx.Op{K: "rm", A: c2}, pinx.Op{K: "pin", A: ra}, pinx.Op{K: "apipin", A: ra}, pinx.Op{K: "list"})),
		// a chunk-level unpin between pin and unpin: DeletePin reports ErrTraversal and keeps the root key
		mk("corpus-unpin-after-chunk-unpin", fs, cat(up(2), pinx.Op{K: "pin", A: rb}, pinx.Op{K: "cunpin", A: tailB}, pinx.Op{K: "unpin", A: rb}, pinx.Op{K: "apiunpin", A: rb}, pinx.Op{K: "list"})),
	}
}

func main() {
	run := hx.Start("C15", "Aurora.C15.Corr",
		"histories of pin/unpin/has/list at the service level (pinning.Service), at the handler level (/pins through ServeHTTP) or mixed, over 2-4 files taken from a library of pipeline-built files (256 KiB chunks: files sharing chunks, repeating a chunk, single chunks that are data chunks of other files; small files of 0..5000 bytes), entered by upload / cached retrieval / pinned upload, with chunk-level pins as base line and rare chunk-level unpin/remove/re-upload in between; references are file references, arbitrary chunk addresses or absent addresses; 2/5 of the operations stay on the previous reference (repeats); non-trivial = at least one successful pin, one successful unpin and one repeated pin or unpin; distinct by the whole history")

	exec := func(h *pinx.Hist) {
		st := pinx.Open(h)
		or := pinx.NewOracle(st, run)
		pinOK, unpinOK, repeat := false, false, false
		lastKind := map[int]string{}
		for i, op := range h.Ops {
			n := len(st.Trace)
			st.Exec(op, i == len(h.Ops)-1)
			for _, info := range st.Trace[n:] {
				or.Step(info)
				run.Hist("step." + info.Kind)
				switch info.Kind {
				case "pin", "apipin":
					if info.Err == 0 && (info.Kind == "pin" || info.Code < 300) {
						pinOK = true
					}
					if lastKind[info.Ref] == "pin" {
						repeat = true
						run.Hist("repeat.pin")
					}
					lastKind[info.Ref] = "pin"
				case "unpin", "apiunpin":
					if info.Err == 0 && (info.Kind == "unpin" || info.Code < 300) {
						unpinOK = true
					}
					if lastKind[info.Ref] == "unpin" {
						repeat = true
						run.Hist("repeat.unpin")
					}
					lastKind[info.Ref] = "unpin"
				}
				if info.Kind == "pin" || info.Kind == "unpin" {
					run.Hist(fmt.Sprintf("svc.%s.errclass%d", info.Kind, info.Err))
				}
				if info.Code != 0 {
					run.Hist(fmt.Sprintf("api.%s.status%d", info.Kind, info.Code))
				}
			}
		}
		run.AddCase(st.CoqCase(), h, h.Key(), pinOK && unpinOK && repeat)
		st.Close()
	}

	if run.Replay != "" {
		var h pinx.Hist
		if err := run.ReadReplay(&h); err != nil {
			panic(err)
		}
		exec(&h)
		run.Finish()
		return
	}

	big := bigLib(run.Thorough())
	small := smallLib(run.R.Fork(77))
	pinx.BuildAll(append(append([]pinx.FileSpec{segs(1, C, 2, C, 1, C), segs(1, C, 3, 100), segs(2, C)}, big...), small...))

	for _, h := range corpus() {
		run.Hist("history.corpus")
		exec(h)
	}
	for i := 0; i < run.N(10, 120); i++ {
		r := run.R.Fork(uint64(1000 + i))
		run.Hist("history.multi-chunk")
		exec(genHist(r, big, "multi-chunk", 2+r.Intn(3), 8+r.Intn(run.N(8, 14))))
	}
	for i := 0; i < run.N(80, 1200); i++ {
		r := run.R.Fork(uint64(500000 + i))
		run.Hist("history.small-files")
		exec(genHist(r, small, "small-files", 2+r.Intn(4), 10+r.Intn(25)))
	}
	run.Finish()
}
