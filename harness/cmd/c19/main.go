// C19 harness: pkg/shed (Index / Uint64Field / Uint64Vector / StringField / batches)
// on a real shed.DB over the leveldb driver, against a reference of sorted maps.
package main

import (
	"sync/atomic"
	"time"

	"bytes"
	"encoding/binary"
	"encoding/hex"
	"encoding/json"
	"errors"
	"fmt"
	"os"
	"path/filepath"
	"sort"
	"strings"

	"github.com/gauss-project/aurorafs/pkg/shed"
	"github.com/gauss-project/aurorafs/pkg/shed/driver"
	sldb "github.com/gauss-project/aurorafs/pkg/shed/leveldb"
	"verifharness/hx"
)

// ---------------------------------------------------------------- case description

type jcb struct {
	Kind string `json:"kind"` // never | at
	N    int    `json:"n,omitempty"`
	Stop bool   `json:"stop,omitempty"`
	Err  int    `json:"err,omitempty"`
}

// one operation; keys/values/prefixes are the ENCODED byte strings (hex)
type jop struct {
	Op    string   `json:"op"`
	Ix    string   `json:"ix,omitempty"`    // index name
	K     string   `json:"k,omitempty"`     // key / prefix
	V     string   `json:"v,omitempty"`     // value
	Ks    []string `json:"ks,omitempty"`    // HasMulti / Fill
	Start *string  `json:"start,omitempty"` // Iterate StartFrom
	Skip  bool     `json:"skip,omitempty"`
	Rev   bool     `json:"rev,omitempty"`
	Cb    *jcb     `json:"cb,omitempty"`
	F     string   `json:"f,omitempty"` // field / vector name (hex)
	Vec   bool     `json:"vec,omitempty"`
	I     uint64   `json:"i,omitempty"` // vector index
	N     uint64   `json:"n,omitempty"` // uint64 value
	// bbulk: a large batch given by a descriptor (see bulkOp); Ix / Ix2 are the two indexes
	Ix2    string `json:"ix2,omitempty"`
	Count  uint64 `json:"count,omitempty"`
	NKeys  uint64 `json:"nkeys,omitempty"`
	Stride uint64 `json:"stride,omitempty"`
	Off    uint64 `json:"off,omitempty"`
}

// bulkOp expands the descriptor of a large batch: the n-th operation goes to index Ix (n even) or
// Ix2 (n odd), on the 2-byte key number (n*Stride+Off) mod NKeys; every third one is a delete, the
// others put the 2-byte value {n mod 256, n/256 mod 256}. Same definition as Model.bulk_write.
func bulkOp(o jop, n uint64) (ix string, key, val []byte, del bool) {
	j := (n*o.Stride + o.Off) % o.NKeys
	ix = o.Ix
	if n%2 == 1 {
		ix = o.Ix2
	}
	return ix, []byte{byte(j / 256), byte(j % 256)}, []byte{byte(n % 256), byte(n / 256 % 256)}, n%3 == 2
}

type jcase struct {
	Ops  []jop     `json:"ops"`
	Conc *concSpec `json:"conc,omitempty"` // a bulk reader against batch commits placed between its lookups
}

// concSpec: after the sequential history Ops, one bulk read of index "raw-a" (Fill / HasMulti over Keys, or a
// full Iterate) during which the batches Commits[j] are committed by another goroutine when the reader has
// completed Commits[j].Pos lookups (visits).
type concWrite struct {
	K   string `json:"k"`
	V   string `json:"v,omitempty"`
	Del bool   `json:"del,omitempty"`
}
type concCommit struct {
	Pos    int         `json:"pos"`
	Writes []concWrite `json:"writes"`
}
type concSpec struct {
	Kind    string       `json:"kind"` // fill | hasmulti | iter
	Keys    []string     `json:"keys,omitempty"`
	Rev     bool         `json:"rev,omitempty"`
	Commits []concCommit `json:"commits"`
}

type cbErr struct{ code int }

func (e *cbErr) Error() string { return fmt.Sprintf("callback error %d", e.code) }

// ---------------------------------------------------------------- index kinds (three key encodings)

// raw: key = Address, value = Data
// bin: key = BinID (8 bytes big endian), value = Address
// ts : key = StoreTimestamp (8 bytes big endian) ++ Address, value = Data
func kindOf(name string) string {
	switch {
	case strings.HasPrefix(name, "bin"):
		return "bin"
	case strings.HasPrefix(name, "ts"):
		return "ts"
	}
	return "raw"
}

func funcsOf(kind string) shed.IndexFuncs {
	switch kind {
	case "bin":
		return shed.IndexFuncs{
			EncodeKey: func(f shed.Item) ([]byte, error) {
				b := make([]byte, 8)
				binary.BigEndian.PutUint64(b, f.BinID)
				return b, nil
			},
			DecodeKey:   func(k []byte) (shed.Item, error) { return shed.Item{BinID: binary.BigEndian.Uint64(k)}, nil },
			EncodeValue: func(f shed.Item) ([]byte, error) { return f.Address, nil },
			DecodeValue: func(kf shed.Item, v []byte) (shed.Item, error) { return shed.Item{Address: v}, nil },
		}
	case "ts":
		return shed.IndexFuncs{
			EncodeKey: func(f shed.Item) ([]byte, error) {
				b := make([]byte, 8, 8+len(f.Address))
				binary.BigEndian.PutUint64(b, uint64(f.StoreTimestamp))
				return append(b, f.Address...), nil
			},
			DecodeKey: func(k []byte) (shed.Item, error) {
				return shed.Item{StoreTimestamp: int64(binary.BigEndian.Uint64(k[:8])), Address: k[8:]}, nil
			},
			EncodeValue: func(f shed.Item) ([]byte, error) { return f.Data, nil },
			DecodeValue: func(kf shed.Item, v []byte) (shed.Item, error) { return shed.Item{Data: v}, nil },
		}
	}
	return shed.IndexFuncs{
		EncodeKey: func(f shed.Item) ([]byte, error) {
			if h, _ := encodeHook.Load().(hookBox); h.f != nil {
				h.f()
			}
			return f.Address, nil
		},
		DecodeKey:   func(k []byte) (shed.Item, error) { return shed.Item{Address: k}, nil },
		EncodeValue: func(f shed.Item) ([]byte, error) { return f.Data, nil },
		DecodeValue: func(kf shed.Item, v []byte) (shed.Item, error) { return shed.Item{Data: v}, nil },
	}
}

// encodeHook, when set, runs inside every EncodeKey call of a raw index: the concurrent scenarios use it
// to park a bulk reader between two of its lookups while another goroutine commits a batch.
var encodeHook atomic.Value // hookBox

type hookBox struct{ f func() }

// itemOf builds the Item whose encoded key / value are k / v.
func itemOf(kind string, k, v []byte) shed.Item {
	switch kind {
	case "bin":
		return shed.Item{BinID: binary.BigEndian.Uint64(k), Address: v}
	case "ts":
		return shed.Item{StoreTimestamp: int64(binary.BigEndian.Uint64(k[:8])), Address: k[8:], Data: v}
	}
	return shed.Item{Address: k, Data: v}
}

// kvOf returns the encoded key / value of an Item handed out by the index.
func kvOf(kind string, it shed.Item) (k, v []byte) {
	f := funcsOf(kind)
	k, _ = f.EncodeKey(it)
	v, _ = f.EncodeValue(it)
	return append([]byte{}, k...), append([]byte{}, v...)
}

// ---------------------------------------------------------------- real environment

type env struct {
	db     *shed.DB
	dir    string
	names  []string // index names in creation order
	idx    map[string]shed.Index
	prefix map[string]byte
	u64    map[string]shed.Uint64Field
	vec    map[string]shed.Uint64Vector
	str    map[string]shed.StringField
	batch  driver.Batching
}

var dirSeq int

func openEnv(disk bool) *env {
	e := &env{}
	if disk {
		dirSeq++
		e.dir = filepath.Join(os.Getenv("VERIF_WORKDIR"), fmt.Sprintf("c19-db-%d", dirSeq))
		_ = os.RemoveAll(e.dir)
	}
	e.open()
	return e
}

func (e *env) open() {
	db, err := shed.NewDB(e.dir, &shed.Options{Driver: "leveldb"})
	if err != nil {
		panic(err)
	}
	e.db = db
	e.idx = map[string]shed.Index{}
	if e.prefix == nil {
		e.prefix = map[string]byte{}
	}
	e.u64, e.vec, e.str = map[string]shed.Uint64Field{}, map[string]shed.Uint64Vector{}, map[string]shed.StringField{}
	e.batch = db.NewBatch()
}

func (e *env) close() {
	if e.db != nil {
		_ = e.db.Close()
	}
	if e.dir != "" {
		_ = os.RemoveAll(e.dir)
	}
}

func (e *env) newIndex(name string) byte {
	ix, err := e.db.NewIndex(name, funcsOf(kindOf(name)))
	if err != nil {
		panic(err)
	}
	e.idx[name] = ix
	var probe []byte
	switch kindOf(name) {
	case "raw":
		probe = []byte{}
	default:
		probe = make([]byte, 8)
	}
	full, _ := ix.ItemKey(itemOf(kindOf(name), probe, nil))
	known := false
	for _, n := range e.names {
		if n == name {
			known = true
		}
	}
	if !known {
		e.names = append(e.names, name)
	}
	e.prefix[name] = full[0]
	return full[0]
}

func (e *env) reopen() {
	if err := e.db.Close(); err != nil {
		panic(err)
	}
	e.open()
	// the index handles are re-created in reverse order of their creation
	for i := len(e.names) - 1; i >= 0; i-- {
		old := e.prefix[e.names[i]]
		if p := e.newIndex(e.names[i]); p != old {
			panic(fmt.Sprintf("index %q changed prefix %d -> %d on reopen", e.names[i], old, p))
		}
	}
}

func (e *env) fieldU64(name string) shed.Uint64Field {
	if f, ok := e.u64[name]; ok {
		return f
	}
	f, err := e.db.NewUint64Field(name)
	if err != nil {
		panic(err)
	}
	e.u64[name] = f
	return f
}
func (e *env) fieldVec(name string) shed.Uint64Vector {
	if f, ok := e.vec[name]; ok {
		return f
	}
	f, err := e.db.NewUint64Vector(name)
	if err != nil {
		panic(err)
	}
	e.vec[name] = f
	return f
}
func (e *env) fieldStr(name string) shed.StringField {
	if f, ok := e.str[name]; ok {
		return f
	}
	f, err := e.db.NewStringField(name)
	if err != nil {
		panic(err)
	}
	e.str[name] = f
	return f
}

type visit struct{ k, v []byte }

func (e *env) iterate(o jop) (vis []visit, res string) {
	kind := kindOf(o.Ix)
	opts := &shed.IterateOptions{SkipStartFromItem: o.Skip, Reverse: o.Rev, Prefix: unhex(o.K)}
	if len(opts.Prefix) == 0 {
		opts.Prefix = nil
	}
	if o.Start != nil {
		it := itemOf(kind, unhex(*o.Start), nil)
		opts.StartFrom = &it
	}
	calls := 0
	err := e.idx[o.Ix].Iterate(func(it shed.Item) (bool, error) {
		i := calls
		calls++
		k, v := kvOf(kind, it)
		vis = append(vis, visit{k, v})
		if o.Cb != nil && o.Cb.Kind == "at" && i == o.Cb.N {
			var er error
			if o.Cb.Err != 0 {
				er = &cbErr{o.Cb.Err}
			}
			return o.Cb.Stop, er
		}
		return false, nil
	}, opts)
	res = "IterNil"
	if err != nil {
		var ce *cbErr
		switch {
		case errors.As(err, &ce):
			res = hx.CoqApp("IterCb", hx.CoqN(uint64(ce.code)))
		case strings.Contains(err.Error(), "invalid prefix"):
			res = "IterBadPrefix"
		default:
			res = "IterStuck"
		}
	}
	return
}

func coqKV(vis []visit) string {
	el := make([]string, len(vis))
	for i, x := range vis {
		el[i] = hx.CoqPair(hx.CoqBytes(x.k), hx.CoqBytes(x.v))
	}
	return hx.CoqList(el, "kv")
}

type obsT struct {
	coq string
	cmp string // comparable rendering used by the oracle
}

func itemObs(kind string, it shed.Item, err error) obsT {
	if errors.Is(err, driver.ErrNotFound) {
		return obsT{"BNotFound", "notfound"}
	}
	if err != nil {
		return obsT{"BStuck", "error:" + err.Error()}
	}
	k, v := kvOf(kind, it)
	return obsT{hx.CoqApp("BItem", hx.CoqBytes(k), hx.CoqBytes(v)), fmt.Sprintf("item:%x=%x", k, v)}
}

func errObs(err error) obsT {
	if err != nil {
		return obsT{"BStuck", "error:" + err.Error()}
	}
	return obsT{"BOk", "ok"}
}

func u64Obs(v uint64, err error) obsT {
	if err != nil {
		return obsT{"BStuck", "error:" + err.Error()}
	}
	return obsT{hx.CoqApp("BU64", hx.CoqN(v)), fmt.Sprintf("u64:%d", v)}
}

// apply runs one operation on the real database.
func (e *env) apply(o jop) (ob obsT) {
	kind := kindOf(o.Ix)
	ix := e.idx[o.Ix]
	k, v := unhex(o.K), unhex(o.V)
	fname := string(unhex(o.F))
	panicked, msg := hx.Guard(func() {
		switch o.Op {
		case "newindex":
			p := e.newIndex(o.Ix)
			ob = obsT{hx.CoqApp("BPrefix", hx.CoqN(uint64(p))), fmt.Sprintf("prefix:%d", p)}
		case "put":
			ob = errObs(ix.Put(itemOf(kind, k, v)))
		case "delete":
			ob = errObs(ix.Delete(itemOf(kind, k, nil)))
		case "get":
			it, err := ix.Get(itemOf(kind, k, nil))
			switch {
			case errors.Is(err, driver.ErrNotFound):
				ob = obsT{"BNotFound", "notfound"}
			case err != nil:
				ob = obsT{"BStuck", "error:" + err.Error()}
			default:
				_, val := kvOf(kind, it)
				ob = obsT{hx.CoqApp("BVal", hx.CoqBytes(val)), fmt.Sprintf("val:%x", val)}
			}
		case "has":
			yes, err := ix.Has(itemOf(kind, k, nil))
			if err != nil {
				ob = obsT{"BStuck", "error:" + err.Error()}
			} else {
				ob = obsT{hx.CoqApp("BBool", hx.CoqBool(yes)), fmt.Sprintf("bool:%v", yes)}
			}
		case "hasmulti":
			items := make([]shed.Item, len(o.Ks))
			for i, s := range o.Ks {
				items[i] = itemOf(kind, unhex(s), nil)
			}
			have, err := ix.HasMulti(items...)
			if err != nil {
				ob = obsT{"BStuck", "error:" + err.Error()}
			} else {
				ob = obsT{hx.CoqApp("BBools", hx.CoqBoolList(have)), fmt.Sprintf("bools:%v", have)}
			}
		case "fill":
			items := make([]shed.Item, len(o.Ks))
			for i, s := range o.Ks {
				items[i] = itemOf(kind, unhex(s), nil)
			}
			err := ix.Fill(items)
			n := len(items)
			ok := err == nil
			if err != nil {
				if !errors.Is(err, driver.ErrNotFound) {
					ob = obsT{"BStuck", "error:" + err.Error()}
					return
				}
				// the items before the first missing one were filled; find it
				n = 0
				for n < len(items) {
					if h, _ := ix.Has(items[n]); !h {
						break
					}
					n++
				}
			}
			vals := make([][]byte, n)
			var sb strings.Builder
			for i := 0; i < n; i++ {
				_, vals[i] = kvOf(kind, items[i])
				fmt.Fprintf(&sb, "%x,", vals[i])
			}
			ob = obsT{hx.CoqApp("BFill", hx.CoqBytesList(vals), hx.CoqBool(ok)), fmt.Sprintf("fill:%s ok=%v", sb.String(), ok)}
		case "iter":
			vis, res := e.iterate(o)
			var sb strings.Builder
			for _, x := range vis {
				fmt.Fprintf(&sb, "%x=%x,", x.k, x.v)
			}
			ob = obsT{hx.CoqApp("BIter", coqKV(vis), res), "iter:" + sb.String() + " " + res}
			if res == "IterStuck" {
				ob.coq = "BStuck"
			}
		case "first":
			it, err := ix.First(k)
			ob = itemObs(kind, it, err)
		case "last":
			it, err := ix.Last(k)
			ob = itemObs(kind, it, err)
		case "count":
			n, err := ix.Count()
			if err != nil {
				ob = obsT{"BStuck", "error:" + err.Error()}
			} else {
				ob = obsT{hx.CoqApp("BCount", hx.CoqN(uint64(n))), fmt.Sprintf("count:%d", n)}
			}
		case "countfrom":
			n, err := ix.CountFrom(itemOf(kind, k, nil))
			if err != nil {
				ob = obsT{"BStuck", "error:" + err.Error()}
			} else {
				ob = obsT{hx.CoqApp("BCount", hx.CoqN(uint64(n))), fmt.Sprintf("count:%d", n)}
			}
		case "batchnew":
			e.batch = e.db.NewBatch()
			ob = obsT{"BOk", "ok"}
		case "bput":
			ob = errObs(ix.PutInBatch(e.batch, itemOf(kind, k, v)))
		case "bdelete":
			ob = errObs(ix.DeleteInBatch(e.batch, itemOf(kind, k, nil)))
		case "bbulk":
			for n := uint64(0); n < o.Count; n++ {
				bix, bk, bv, del := bulkOp(o, n)
				var err error
				if del {
					err = e.idx[bix].DeleteInBatch(e.batch, itemOf(kindOf(bix), bk, nil))
				} else {
					err = e.idx[bix].PutInBatch(e.batch, itemOf(kindOf(bix), bk, bv))
				}
				if err != nil {
					ob = obsT{"BStuck", "error:" + err.Error()}
					return
				}
			}
			ob = obsT{"BOk", "ok"}
		case "bcommit":
			ob = errObs(e.batch.Commit())
		case "fget":
			if o.Vec {
				ob = u64Obs(e.fieldVec(fname).Get(o.I))
			} else {
				ob = u64Obs(e.fieldU64(fname).Get())
			}
		case "fput":
			if o.Vec {
				ob = errObs(e.fieldVec(fname).Put(o.I, o.N))
			} else {
				ob = errObs(e.fieldU64(fname).Put(o.N))
			}
		case "finc":
			if o.Vec {
				ob = u64Obs(e.fieldVec(fname).Inc(o.I))
			} else {
				ob = u64Obs(e.fieldU64(fname).Inc())
			}
		case "fdec":
			if o.Vec {
				ob = u64Obs(e.fieldVec(fname).Dec(o.I))
			} else {
				ob = u64Obs(e.fieldU64(fname).Dec())
			}
		case "fputb":
			if o.Vec {
				ob = errObs(e.fieldVec(fname).PutInBatch(e.batch, o.I, o.N))
			} else {
				ob = errObs(e.fieldU64(fname).PutInBatch(e.batch, o.N))
			}
		case "fincb":
			if o.Vec {
				ob = u64Obs(e.fieldVec(fname).IncInBatch(e.batch, o.I))
			} else {
				ob = u64Obs(e.fieldU64(fname).IncInBatch(e.batch))
			}
		case "fdecb":
			if o.Vec {
				ob = u64Obs(e.fieldVec(fname).DecInBatch(e.batch, o.I))
			} else {
				ob = u64Obs(e.fieldU64(fname).DecInBatch(e.batch))
			}
		case "sget":
			s, err := e.fieldStr(fname).Get()
			if err != nil {
				ob = obsT{"BStuck", "error:" + err.Error()}
			} else {
				ob = obsT{hx.CoqApp("BVal", hx.CoqBytes([]byte(s))), fmt.Sprintf("val:%x", s)}
			}
		case "sput":
			ob = errObs(e.fieldStr(fname).Put(string(v)))
		case "sputb":
			ob = errObs(e.fieldStr(fname).PutInBatch(e.batch, string(v)))
		case "reopen":
			e.reopen()
			ob = obsT{"BOk", "ok"}
		default:
			panic("unknown op " + o.Op)
		}
	})
	if panicked {
		if strings.Contains(msg, "index out of range") {
			return obsT{"BPanic", "panic"}
		}
		return obsT{"BStuck", "panic:" + msg}
	}
	return ob
}

// ---------------------------------------------------------------- Coq rendering of an operation

func coqOptBytes(s *string) string {
	if s == nil {
		return "None"
	}
	return hx.CoqSome(hx.CoqBytes(unhex(*s)))
}
func coqCb(cb *jcb) string {
	if cb == nil || cb.Kind != "at" {
		return "CbNever"
	}
	e := "None"
	if cb.Err != 0 {
		e = hx.CoqSome(hx.CoqN(uint64(cb.Err)))
	}
	return hx.CoqApp("CbAt", hx.CoqNat(cb.N), hx.CoqBool(cb.Stop), e)
}
func hexList(ks []string) string {
	bs := make([][]byte, len(ks))
	for i, s := range ks {
		bs[i] = unhex(s)
	}
	return hx.CoqBytesList(bs)
}

func (e *env) coqOp(o jop) string {
	i := hx.CoqN(uint64(e.prefix[o.Ix]))
	k, v := hx.CoqBytes(unhex(o.K)), hx.CoqBytes(unhex(o.V))
	fk := hx.CoqApp("field_key", hx.CoqBytes(unhex(o.F)))
	if o.Vec {
		fk = hx.CoqApp("vec_key", hx.CoqBytes(unhex(o.F)), hx.CoqN(o.I))
	}
	switch o.Op {
	case "newindex":
		return hx.CoqApp("ONewIndex", hx.CoqBytes([]byte(o.Ix)))
	case "put":
		return hx.CoqApp("OPut", i, k, v)
	case "delete":
		return hx.CoqApp("ODelete", i, k)
	case "get":
		return hx.CoqApp("OGet", i, k)
	case "has":
		return hx.CoqApp("OHas", i, k)
	case "hasmulti":
		return hx.CoqApp("OHasMulti", i, hexList(o.Ks))
	case "fill":
		return hx.CoqApp("OFill", i, hexList(o.Ks))
	case "iter":
		return hx.CoqApp("OIter", i, coqOptBytes(o.Start), hx.CoqBool(o.Skip), k, hx.CoqBool(o.Rev), coqCb(o.Cb))
	case "first":
		return hx.CoqApp("OFirst", i, k)
	case "last":
		return hx.CoqApp("OLast", i, k)
	case "count":
		return hx.CoqApp("OCount", i)
	case "countfrom":
		return hx.CoqApp("OCountFrom", i, k)
	case "batchnew":
		return "OBatchNew"
	case "bput":
		return hx.CoqApp("OBPut", i, k, v)
	case "bdelete":
		return hx.CoqApp("OBDelete", i, k)
	case "bcommit":
		return "OBCommit"
	case "bbulk":
		return hx.CoqApp("OBBulk", i, hx.CoqN(uint64(e.prefix[o.Ix2])), hx.CoqN(o.Count), hx.CoqN(o.NKeys), hx.CoqN(o.Stride), hx.CoqN(o.Off))
	case "fget":
		return hx.CoqApp("OFGet", fk)
	case "fput":
		return hx.CoqApp("OFPut", fk, hx.CoqN(o.N))
	case "finc":
		return hx.CoqApp("OFInc", fk)
	case "fdec":
		return hx.CoqApp("OFDec", fk)
	case "fputb":
		return hx.CoqApp("OFPutB", fk, hx.CoqN(o.N))
	case "fincb":
		return hx.CoqApp("OFIncB", fk)
	case "fdecb":
		return hx.CoqApp("OFDecB", fk)
	case "sget":
		return hx.CoqApp("OSGet", fk)
	case "sput":
		return hx.CoqApp("OSPut", fk, v)
	case "sputb":
		return hx.CoqApp("OSPutB", fk, v)
	case "reopen":
		return "OReopen"
	}
	panic("coqOp " + o.Op)
}

// ---------------------------------------------------------------- reference: one sorted map per index, one map of fields

type refWrite struct {
	ix  string // index name, or "" for a field
	k   string
	v   []byte
	del bool
}
type ref struct {
	idx    map[string]map[string][]byte
	fields map[string][]byte // "u:"+name, "v:"+name+":"+i, "s:"+name -> stored bytes
	batch  []refWrite
}

func newRef() *ref { return &ref{idx: map[string]map[string][]byte{}, fields: map[string][]byte{}} }

func (r *ref) sorted(ix string) []visit {
	var out []visit
	for k, v := range r.idx[ix] {
		out = append(out, visit{[]byte(k), v})
	}
	sort.Slice(out, func(i, j int) bool { return bytes.Compare(out[i].k, out[j].k) < 0 })
	return out
}

func fieldName(o jop) string {
	if o.Vec {
		return fmt.Sprintf("v:%s:%d", o.F, o.I)
	}
	return "u:" + o.F
}
func (r *ref) u64(name string) uint64 {
	b, ok := r.fields[name]
	if !ok {
		return 0
	}
	return binary.BigEndian.Uint64(b)
}
func be64(v uint64) []byte {
	b := make([]byte, 8)
	binary.BigEndian.PutUint64(b, v)
	return b
}
func (r *ref) apply(w refWrite) {
	if w.ix == "" {
		r.fields[w.k] = w.v
		return
	}
	if w.del {
		delete(r.idx[w.ix], w.k)
	} else {
		r.idx[w.ix][w.k] = w.v
	}
}

// expected returns the comparable rendering the property demands for a read operation
// ("" = no demand: outside the domain fixed in notes/C19.md), and updates the reference for writes.
func (r *ref) expected(o jop) (want string, class string) {
	k, v := unhex(o.K), unhex(o.V)
	m := r.idx[o.Ix]
	switch o.Op {
	case "newindex":
		if r.idx[o.Ix] == nil {
			r.idx[o.Ix] = map[string][]byte{}
		}
	case "put":
		r.apply(refWrite{ix: o.Ix, k: string(k), v: v})
		return "ok", "put"
	case "delete":
		r.apply(refWrite{ix: o.Ix, k: string(k), del: true})
		return "ok", "delete"
	case "bput":
		r.batch = append(r.batch, refWrite{ix: o.Ix, k: string(k), v: v})
		return "ok", "batch-put"
	case "bdelete":
		r.batch = append(r.batch, refWrite{ix: o.Ix, k: string(k), del: true})
		return "ok", "batch-delete"
	case "bbulk":
		for n := uint64(0); n < o.Count; n++ {
			bix, bk, bv, del := bulkOp(o, n)
			r.batch = append(r.batch, refWrite{ix: bix, k: string(bk), v: bv, del: del})
		}
		return "ok", "batch-bulk"
	case "batchnew":
		r.batch = nil
	case "reopen":
		r.batch = nil
	case "bcommit":
		for _, w := range r.batch {
			r.apply(w)
		}
		return "ok", "commit"
	case "get":
		if val, ok := m[string(k)]; ok {
			return fmt.Sprintf("val:%x", val), "get:present"
		}
		return "notfound", "get:absent"
	case "has":
		_, ok := m[string(k)]
		return fmt.Sprintf("bool:%v", ok), "has"
	case "hasmulti":
		have := make([]bool, len(o.Ks))
		for i, s := range o.Ks {
			_, have[i] = m[string(unhex(s))]
		}
		return fmt.Sprintf("bools:%v", have), "hasmulti"
	case "fill":
		var sb strings.Builder
		ok := true
		for _, s := range o.Ks {
			val, present := m[string(unhex(s))]
			if !present {
				ok = false
				break
			}
			fmt.Fprintf(&sb, "%x,", val)
		}
		if ok {
			return fmt.Sprintf("fill:%s ok=%v", sb.String(), ok), "fill:all-present"
		}
		return fmt.Sprintf("fill:%s ok=%v", sb.String(), ok), "fill:some-absent"
	case "count":
		return fmt.Sprintf("count:%d", len(m)), "count"
	case "countfrom":
		n := 0
		for kk := range m {
			if bytes.Compare([]byte(kk), k) >= 0 {
				n++
			}
		}
		return fmt.Sprintf("count:%d", n), "countfrom"
	case "first", "last":
		all := r.sorted(o.Ix)
		var sel []visit
		for _, e := range all {
			if bytes.HasPrefix(e.k, k) {
				sel = append(sel, e)
			}
		}
		cl := o.Op + ":prefix"
		if len(k) == 0 {
			cl = o.Op + ":no-prefix"
		} else if k[len(k)-1] == 0xff {
			cl = o.Op + ":prefix-ends-0xff"
		}
		if len(sel) == 0 {
			return "notfound", cl + ":none"
		}
		e := sel[0]
		if o.Op == "last" {
			e = sel[len(sel)-1]
		}
		return fmt.Sprintf("item:%x=%x", e.k, e.v), cl
	case "iter":
		dir := "fwd"
		if o.Rev {
			dir = "rev"
		}
		cl := "iterate:" + dir
		var start []byte
		if o.Start != nil {
			start = unhex(*o.Start)
			if !bytes.HasPrefix(start, k) {
				return "", cl + ":start-outside-prefix" // domain: the start item lies under the prefix
			}
			if _, present := m[string(start)]; present {
				cl += ":start-present"
			} else {
				cl += ":start-absent"
			}
		} else {
			cl += ":no-start"
			if o.Skip {
				return "", cl + ":skip-without-start" // domain: skip-start needs a start item
			}
		}
		var sel []visit
		for _, e := range r.sorted(o.Ix) {
			if !bytes.HasPrefix(e.k, k) {
				continue
			}
			if start != nil {
				c := bytes.Compare(e.k, start)
				if (!o.Rev && c < 0) || (o.Rev && c > 0) || (o.Skip && c == 0) {
					continue
				}
			}
			sel = append(sel, e)
		}
		if o.Rev {
			for i, j := 0, len(sel)-1; i < j; i, j = i+1, j-1 {
				sel[i], sel[j] = sel[j], sel[i]
			}
		}
		res := "IterNil"
		if o.Cb != nil && o.Cb.Kind == "at" && o.Cb.N < len(sel) && (o.Cb.Stop || o.Cb.Err != 0) {
			sel = sel[:o.Cb.N+1]
			if o.Cb.Err != 0 {
				res = hx.CoqApp("IterCb", hx.CoqN(uint64(o.Cb.Err)))
				cl += ":cb-error"
			} else {
				cl += ":cb-stop"
			}
		}
		var sb strings.Builder
		for _, x := range sel {
			fmt.Fprintf(&sb, "%x=%x,", x.k, x.v)
		}
		return "iter:" + sb.String() + " " + res, cl
	case "fget":
		return fmt.Sprintf("u64:%d", r.u64(fieldName(o))), "field:get"
	case "fput":
		r.apply(refWrite{k: fieldName(o), v: be64(o.N)})
		return "ok", "field:put"
	case "finc":
		n := r.u64(fieldName(o)) + 1
		r.apply(refWrite{k: fieldName(o), v: be64(n)})
		return fmt.Sprintf("u64:%d", n), "field:inc"
	case "fdec":
		n := r.u64(fieldName(o))
		if n > 0 {
			n--
		}
		r.apply(refWrite{k: fieldName(o), v: be64(n)})
		return fmt.Sprintf("u64:%d", n), "field:dec"
	case "fputb":
		r.batch = append(r.batch, refWrite{k: fieldName(o), v: be64(o.N)})
		return "ok", "field:batch-put"
	case "fincb":
		n := r.u64(fieldName(o)) + 1
		r.batch = append(r.batch, refWrite{k: fieldName(o), v: be64(n)})
		return fmt.Sprintf("u64:%d", n), "field:batch-inc"
	case "fdecb":
		n := r.u64(fieldName(o))
		if n > 0 {
			n--
		}
		r.batch = append(r.batch, refWrite{k: fieldName(o), v: be64(n)})
		return fmt.Sprintf("u64:%d", n), "field:batch-dec"
	case "sget":
		return fmt.Sprintf("val:%x", r.fields["s:"+o.F]), "string:get"
	case "sput":
		r.apply(refWrite{k: "s:" + o.F, v: v})
		return "ok", "string:put"
	case "sputb":
		r.batch = append(r.batch, refWrite{k: "s:" + o.F, v: v})
		return "ok", "string:batch-put"
	}
	return "", o.Op
}

// ---------------------------------------------------------------- one history

// collides: the history uses field names that alias a vector slot (notes/C19.md); the reference
// of independent named fields does not apply then (the model still does).
func runHistory(run *hx.Run, ops []jop, oracleOn bool) {
	disk := false
	for _, o := range ops {
		if o.Op == "reopen" {
			disk = true
		}
	}
	e := openEnv(disk)
	defer e.close()
	r := newRef()
	coqOps := make([]string, 0, len(ops))
	coqObs := make([]string, 0, len(ops))
	nontrivial := false
	jc := jcase{Ops: ops}
	for i, o := range ops {
		var ob obsT
		if !hx.WithTimeout(30e9, func() { ob = e.apply(o) }) {
			run.Violate(hx.Violation{Sig: "hang:" + o.Op, Detail: fmt.Sprintf("op %d did not return within 30s", i), Case: jc})
			break
		}
		coqOps = append(coqOps, e.coqOp(o))
		coqObs = append(coqObs, ob.coq)
		run.Hist("op." + o.Op)
		want, class := r.expected(o)
		if o.Op == "iter" {
			run.Hist(class)
			if strings.Count(ob.cmp, "=") >= 2 {
				nontrivial = true
			}
		}
		if ob.coq == "BStuck" {
			run.Violate(hx.Violation{Sig: "unexpected-error:" + o.Op, Detail: fmt.Sprintf("op %d (%s): %s", i, o.Op, ob.cmp), Case: jc, Impl: ob.cmp, Want: "no error"})
			continue
		}
		if oracleOn && want != "" {
			run.OracleChecked(1)
			if want != ob.cmp {
				run.Violate(hx.Violation{Sig: class + ":differs-from-reference-map", Detail: fmt.Sprintf("op %d (%s on %q): shed returned %s, the reference sorted map says %s", i, o.Op, o.Ix, ob.cmp, want),
					Case: jc, Impl: ob.cmp, Want: want})
			}
		}
	}
	run.AddCase(hx.CoqApp("Case", hx.CoqList(coqOps, "op"), hx.CoqList(coqObs, "obs")), jc, strings.Join(coqOps, ";"), nontrivial)
}

// ---------------------------------------------------------------- bulk readers against concurrent commits

const concIx = "raw-a"

func copyMap(m map[string][]byte) map[string][]byte {
	c := make(map[string][]byte, len(m))
	for k, v := range m {
		c[k] = v
	}
	return c
}

// runConc: sequential set-up, then the interleaved bulk read; oracle: the result is that of the reference
// sorted map at ONE single commit point (before all commits, or after the first j of them).
func runConc(run *hx.Run, jc jcase) {
	spec := jc.Conc
	e := openEnv(false)
	defer e.close()
	r := newRef()
	var preOps, preObs []string
	for i, o := range jc.Ops {
		ob := e.apply(o)
		preOps = append(preOps, e.coqOp(o))
		preObs = append(preObs, ob.coq)
		if want, class := r.expected(o); want != "" && want != ob.cmp {
			run.Violate(hx.Violation{Sig: class + ":differs-from-reference-map", Detail: fmt.Sprintf("set-up op %d: %s vs %s", i, ob.cmp, want), Case: jc})
		}
	}
	ix := e.idx[concIx]
	pfx := e.prefix[concIx]
	// reference states: before the commits, after 1, 2, … of them
	states := []map[string][]byte{copyMap(r.idx[concIx])}
	var hung int32
	done := 0 // commits performed
	doCommits := func(pos int) {
		for done < len(spec.Commits) && spec.Commits[done].Pos == pos {
			c := spec.Commits[done]
			fin := make(chan error, 1)
			go func() { // the writer goroutine: one batch, committed while the reader is parked
				b := e.db.NewBatch()
				var err error
				for _, w := range c.Writes {
					if w.Del {
						err = ix.DeleteInBatch(b, itemOf("raw", unhex(w.K), nil))
					} else {
						err = ix.PutInBatch(b, itemOf("raw", unhex(w.K), unhex(w.V)))
					}
					if err != nil {
						break
					}
				}
				if err == nil {
					err = b.Commit()
				}
				fin <- err
			}()
			select {
			case err := <-fin:
				if err != nil {
					run.Violate(hx.Violation{Sig: "unexpected-error:concurrent-commit", Detail: err.Error(), Case: jc})
				}
			case <-time.After(20 * time.Second):
				atomic.StoreInt32(&hung, 1)
			}
			next := copyMap(states[len(states)-1])
			for _, w := range c.Writes {
				if w.Del {
					delete(next, string(unhex(w.K)))
				} else {
					next[string(unhex(w.K))] = unhex(w.V)
				}
			}
			states = append(states, next)
			done++
		}
	}
	// the reader's hook: called before each lookup (EncodeKey) / on each visit (iterate callback)
	var paused int32
	calls := 0
	hook := func() {
		if atomic.LoadInt32(&paused) == 1 { // EncodeKey calls of the writer goroutine
			return
		}
		atomic.StoreInt32(&paused, 1)
		doCommits(calls)
		calls++
		atomic.StoreInt32(&paused, 0)
	}
	items := make([]shed.Item, len(spec.Keys))
	for i, k := range spec.Keys {
		items[i] = itemOf("raw", unhex(k), nil)
	}
	// what the reference map answers in state st
	answer := func(st map[string][]byte) string {
		switch spec.Kind {
		case "fill":
			var sb strings.Builder
			ok := true
			for _, k := range spec.Keys {
				v, present := st[string(unhex(k))]
				if !present {
					ok = false
					break
				}
				fmt.Fprintf(&sb, "%x,", v)
			}
			return fmt.Sprintf("fill:%s ok=%v", sb.String(), ok)
		case "hasmulti":
			have := make([]bool, len(spec.Keys))
			for i, k := range spec.Keys {
				_, have[i] = st[string(unhex(k))]
			}
			return fmt.Sprintf("bools:%v", have)
		}
		var all []visit
		for k, v := range st {
			all = append(all, visit{[]byte(k), v})
		}
		sort.Slice(all, func(i, j int) bool { return (bytes.Compare(all[i].k, all[j].k) < 0) != spec.Rev })
		var sb strings.Builder
		for _, x := range all {
			fmt.Fprintf(&sb, "%x=%x,", x.k, x.v)
		}
		return "iter:" + sb.String()
	}
	var got, coqCase string
	var vals [][]byte
	var have []bool
	var vis []visit
	var rerr error
	finished := hx.WithTimeout(60*time.Second, func() {
		switch spec.Kind {
		case "fill":
			encodeHook.Store(hookBox{hook})
			rerr = ix.Fill(items)
			encodeHook.Store(hookBox{})
		case "hasmulti":
			encodeHook.Store(hookBox{hook})
			have, rerr = ix.HasMulti(items...)
			encodeHook.Store(hookBox{})
		default:
			rerr = ix.Iterate(func(it shed.Item) (bool, error) {
				hook()
				k, v := kvOf("raw", it)
				vis = append(vis, visit{k, v})
				return false, nil
			}, &shed.IterateOptions{Reverse: spec.Rev})
		}
	})
	encodeHook.Store(hookBox{})
	if !finished || atomic.LoadInt32(&hung) == 1 {
		run.Violate(hx.Violation{Sig: "hang:concurrent-" + spec.Kind, Detail: "bulk reader or concurrent commit did not return", Case: jc})
		return
	}
	// schedule of the model: thread 0 = reader (snapshot, then one lookup per key), thread 1 = writer
	sched := []string{hx.CoqNat(0)}
	ci := 0
	for j := range spec.Keys {
		for ci < done && spec.Commits[ci].Pos == j {
			sched = append(sched, hx.CoqNat(1))
			ci++
		}
		sched = append(sched, hx.CoqNat(0))
	}
	coqKeys := make([]string, len(spec.Keys))
	for i, k := range spec.Keys {
		coqKeys[i] = hx.CoqApp("ikey", hx.CoqN(uint64(pfx)), hx.CoqBytes(unhex(k)))
	}
	coqWss := make([]string, 0, done)
	for _, c := range spec.Commits[:done] {
		ws := make([]string, len(c.Writes))
		for i, w := range c.Writes {
			key := hx.CoqApp("ikey", hx.CoqN(uint64(pfx)), hx.CoqBytes(unhex(w.K)))
			if w.Del {
				ws[i] = hx.CoqApp("WDel", key)
			} else {
				ws[i] = hx.CoqApp("WPut", key, hx.CoqBytes(unhex(w.V)))
			}
		}
		coqWss = append(coqWss, hx.CoqList(ws, "bwrite"))
	}
	switch spec.Kind {
	case "fill":
		ok := rerr == nil
		n := len(items)
		if rerr != nil {
			if !errors.Is(rerr, driver.ErrNotFound) {
				run.Violate(hx.Violation{Sig: "unexpected-error:concurrent-fill", Detail: rerr.Error(), Case: jc})
				return
			}
			// items before the first missing one were filled: those whose value was set
			n = 0
			for n < len(items) && items[n].Data != nil {
				n++
			}
		}
		var sb strings.Builder
		for i := 0; i < n; i++ {
			_, v := kvOf("raw", items[i])
			vals = append(vals, v)
			fmt.Fprintf(&sb, "%x,", v)
		}
		got = fmt.Sprintf("fill:%s ok=%v", sb.String(), ok)
		coqCase = hx.CoqApp("CaseFill", hx.CoqList(preOps, "op"), hx.CoqList(coqKeys, "bytes"), hx.CoqList(coqWss, "list bwrite"), hx.CoqList(sched, "nat"), hx.CoqBytesList(vals), hx.CoqBool(ok))
	case "hasmulti":
		if rerr != nil {
			run.Violate(hx.Violation{Sig: "unexpected-error:concurrent-hasmulti", Detail: rerr.Error(), Case: jc})
			return
		}
		got = fmt.Sprintf("bools:%v", have)
		coqCase = hx.CoqApp("CaseHasMulti", hx.CoqList(preOps, "op"), hx.CoqList(coqKeys, "bytes"), hx.CoqList(coqWss, "list bwrite"), hx.CoqList(sched, "nat"), hx.CoqBoolList(have))
	default:
		if rerr != nil {
			run.Violate(hx.Violation{Sig: "unexpected-error:concurrent-iterate", Detail: rerr.Error(), Case: jc})
			return
		}
		var sb strings.Builder
		for _, x := range vis {
			fmt.Fprintf(&sb, "%x=%x,", x.k, x.v)
		}
		got = "iter:" + sb.String()
		// the goleveldb iterator is a snapshot taken when it is created: in the model the iteration is the
		// sequential operation placed BEFORE the commits
		ops := append(append([]string{}, preOps...), hx.CoqApp("OIter", hx.CoqN(uint64(pfx)), "None", "false", hx.CoqBytes(nil), hx.CoqBool(spec.Rev), "CbNever"))
		obs := append(append([]string{}, preObs...), hx.CoqApp("BIter", coqKV(vis), "IterNil"))
		coqCase = hx.CoqApp("Case", hx.CoqList(ops, "op"), hx.CoqList(obs, "obs"))
	}
	// oracle: one single commit point explains the whole result
	run.OracleChecked(1)
	run.Hist("concurrent." + spec.Kind)
	matched := -1
	for j, st := range states {
		if answer(st) == got {
			matched = j
			break
		}
	}
	if matched < 0 {
		wants := make([]string, len(states))
		for j, st := range states {
			wants[j] = answer(st)
		}
		run.Violate(hx.Violation{Sig: spec.Kind + ":concurrent-commit:result-from-no-single-committed-state",
			Detail: fmt.Sprintf("%s interleaved with %d batch commit(s) returned %s; the reference map at the commit points says %s", spec.Kind, done, got, strings.Join(wants, " | ")),
			Case:   jc, Impl: got, Want: wants})
	} else {
		run.Hist(fmt.Sprintf("concurrent.%s.state=%d/%d", spec.Kind, matched, len(states)-1))
	}
	cj, _ := json.Marshal(jc)
	run.AddCase(coqCase, jc, "conc|"+string(cj), done > 0)
}

// genConc: a handful of stored keys, a bulk read over some of them (and a missing one now and then), one or
// two batches committed between its lookups, each rewriting / deleting at least two of the keys read
func genConc(r *hx.Rand) jcase {
	pool := []string{"a", "ab", "b", "c", "k1", "k2", "\xff", "z"}
	jc := jcase{Ops: []jop{{Op: "newindex", Ix: "raw-a"}, {Op: "newindex", Ix: "raw-d"}, put("raw-d", "a", "other")}}
	var stored []string
	for _, k := range pool {
		if r.Chance(3, 4) {
			stored = append(stored, k)
			jc.Ops = append(jc.Ops, put("raw-a", k, "old-"+k))
		}
	}
	if len(stored) < 2 {
		stored = []string{"a", "b"}
		jc.Ops = append(jc.Ops, put("raw-a", "a", "old-a"), put("raw-a", "b", "old-b"))
	}
	spec := &concSpec{Kind: []string{"fill", "fill", "hasmulti", "iter"}[r.Intn(4)], Rev: r.Bool()}
	n := 2 + r.Intn(4)
	for i := 0; i < n; i++ {
		k := stored[r.Intn(len(stored))]
		if spec.Kind == "hasmulti" && r.Chance(1, 4) || r.Chance(1, 12) {
			k = pool[r.Intn(len(pool))] // possibly not stored
		}
		spec.Keys = append(spec.Keys, hexs([]byte(k)))
	}
	steps := n
	if spec.Kind == "iter" {
		steps = len(stored)
	}
	pos := 0
	for c := 0; c < 1+r.Intn(2); c++ {
		pos += r.Intn(steps)
		if pos >= steps {
			break
		}
		cm := concCommit{Pos: pos}
		for _, k := range stored {
			switch {
			case r.Chance(1, 5):
				cm.Writes = append(cm.Writes, concWrite{K: hexs([]byte(k)), Del: true})
			default:
				cm.Writes = append(cm.Writes, concWrite{K: hexs([]byte(k)), V: hexs([]byte(fmt.Sprintf("new%d-%s", c, k)))})
			}
		}
		if r.Chance(1, 3) {
			cm.Writes = append(cm.Writes, concWrite{K: hexs([]byte("added")), V: hexs([]byte("x"))})
		}
		spec.Commits = append(spec.Commits, cm)
	}
	jc.Conc = spec
	return jc
}

// fixed concurrent cases: the witness of seeded/C19-3 (two keys, one batch rewriting both between the
// two lookups of a Fill), the same for HasMulti (batch deleting both) and Iterate, two commits, a commit
// before the first lookup
func concCorpus() []jcase {
	base := []jop{{Op: "newindex", Ix: "raw-a"}, {Op: "newindex", Ix: "raw-d"}, put("raw-a", "hash-a", "old"), put("raw-a", "hash-b", "old"), put("raw-a", "hash-c", "old"), put("raw-d", "hash-a", "other")}
	k := func(s string) string { return hexs([]byte(s)) }
	both := func(v string) []concWrite {
		return []concWrite{{K: k("hash-a"), V: k(v)}, {K: k("hash-b"), V: k(v)}, {K: k("hash-c"), V: k(v)}}
	}
	del := []concWrite{{K: k("hash-a"), Del: true}, {K: k("hash-b"), Del: true}}
	keys := []string{k("hash-a"), k("hash-b")}
	keys3 := []string{k("hash-a"), k("hash-b"), k("hash-c")}
	return []jcase{
		{Ops: base, Conc: &concSpec{Kind: "fill", Keys: keys, Commits: []concCommit{{Pos: 1, Writes: both("new")}}}},
		{Ops: base, Conc: &concSpec{Kind: "fill", Keys: keys3, Commits: []concCommit{{Pos: 1, Writes: both("n1")}, {Pos: 2, Writes: both("n2")}}}},
		{Ops: base, Conc: &concSpec{Kind: "fill", Keys: keys3, Commits: []concCommit{{Pos: 0, Writes: both("n0")}, {Pos: 2, Writes: del}}}},
		{Ops: base, Conc: &concSpec{Kind: "fill", Keys: keys3, Commits: []concCommit{{Pos: 2, Writes: del}}}},
		{Ops: base, Conc: &concSpec{Kind: "hasmulti", Keys: keys3, Commits: []concCommit{{Pos: 1, Writes: del}}}},
		{Ops: base, Conc: &concSpec{Kind: "iter", Commits: []concCommit{{Pos: 1, Writes: both("new")}}}},
		{Ops: base, Conc: &concSpec{Kind: "iter", Rev: true, Commits: []concCommit{{Pos: 1, Writes: del}, {Pos: 2, Writes: both("n2")}}}},
	}
}

// ---------------------------------------------------------------- generators

var indexNames = []string{"raw-a", "bin-b", "ts-c", "raw-d"}

func hexs(b []byte) string { return hx.Hex(b) }
func sp(s string) *string  { h := hexs([]byte(s)); return &h }

func genKey(r *hx.Rand, kind string) []byte {
	switch kind {
	case "bin":
		return be64([]uint64{0, 1, 2, 3, 255, 256, 257, 1 << 32, ^uint64(0), ^uint64(0) - 1, 0x01ff, 0x0200}[r.Intn(12)])
	case "ts":
		ts := be64([]uint64{0, 1, 2, 255, 256}[r.Intn(5)])
		return append(ts, []byte([]string{"", "a", "b", "\xff", "ab"}[r.Intn(5)])...)
	}
	pool := []string{"", "a", "ab", "abc", "b", "a\xff", "a\xff\xff", "a\xffz", "b\x00", "\xff", "\xff\xff", "\xff\x00", "\x00", "\x01\xff", "\x01\xff7", "\x02", "\x02\x00", "c"}
	if r.Chance(4, 5) {
		return []byte(pool[r.Intn(len(pool))])
	}
	al := []byte{'a', 'b', 0x00, 0xff, 0x01, 0x02}
	k := make([]byte, r.Intn(4))
	for i := range k {
		k[i] = al[r.Intn(len(al))]
	}
	return k
}

func genPrefix(r *hx.Rand, kind string, live []string) []byte {
	if r.Chance(1, 3) {
		return nil
	}
	k := genKey(r, kind)
	if len(live) > 0 && r.Bool() {
		k = []byte(live[r.Intn(len(live))])
	}
	if len(k) == 0 {
		return nil
	}
	return k[:1+r.Intn(len(k))]
}

// batchGroup: one batch that writes the SAME key several times (put-then-delete, delete-then-put,
// put-put, put-delete-put, delete-delete, put-delete-delete), on a key that is committed or not,
// then commits and reads the key back in every way. A batch must be applied entirely and in order,
// whatever the committed database held when the batched operation was recorded.
func batchGroup(r *hx.Rand, ix string, k []byte, fresh bool) []jop {
	kh := hexs(k)
	bput := func() jop { return jop{Op: "bput", Ix: ix, K: kh, V: hexs(r.Bytes(1 + r.Intn(2)))} }
	bdel := jop{Op: "bdelete", Ix: ix, K: kh}
	var g []jop
	if fresh {
		g = append(g, jop{Op: "batchnew"})
	}
	switch r.Intn(6) {
	case 0:
		g = append(g, bput(), bdel)
	case 1:
		g = append(g, bdel, bput())
	case 2:
		g = append(g, bput(), bput())
	case 3:
		g = append(g, bput(), bdel, bput())
	case 4:
		g = append(g, bdel, bdel)
	default:
		g = append(g, bput(), bdel, bdel)
	}
	if r.Bool() {
		g = append(g, jop{Op: "get", Ix: ix, K: kh}) // still the committed value: nothing is visible before commit
	}
	g = append(g, jop{Op: "bcommit"}, jop{Op: "get", Ix: ix, K: kh}, jop{Op: "has", Ix: ix, K: kh})
	switch r.Intn(3) {
	case 0:
		g = append(g, jop{Op: "count", Ix: ix})
	case 1:
		g = append(g, jop{Op: "iter", Ix: ix, Rev: r.Bool()})
	}
	return g
}

func genHistory(r *hx.Rand, n int, withReopen bool) []jop {
	var ops []jop
	nIdx := 2 + r.Intn(3)
	for i := 0; i < nIdx; i++ {
		ops = append(ops, jop{Op: "newindex", Ix: indexNames[i]})
	}
	live := map[string][]string{}
	pick := func(ix string) []byte {
		if l := live[ix]; len(l) > 0 && r.Chance(2, 3) {
			return []byte(l[r.Intn(len(l))])
		}
		return genKey(r, kindOf(ix))
	}
	fnames := []string{"fa", "fb"}
	// populate first, so that iterations have something to walk over
	for j := 4 + r.Intn(8); j > 0; j-- {
		ix := indexNames[r.Intn(nIdx)]
		k := genKey(r, kindOf(ix))
		live[ix] = append(live[ix], string(k))
		ops = append(ops, jop{Op: "put", Ix: ix, K: hexs(k), V: hexs(r.Bytes(r.Intn(3)))})
	}
	n += len(ops)
	group := func() {
		ix := indexNames[r.Intn(nIdx)]
		k := genKey(r, kindOf(ix)) // mostly not stored
		if l := live[ix]; len(l) > 0 && r.Bool() {
			k = []byte(l[r.Intn(len(l))]) // mostly stored
		}
		live[ix] = append(live[ix], string(k))
		ops = append(ops, batchGroup(r, ix, k, r.Chance(3, 4))...)
	}
	// every history holds at least one same-key batch
	group()
	for len(ops) < n {
		ix := indexNames[r.Intn(nIdx)]
		kind := kindOf(ix)
		if r.Chance(1, 14) {
			group()
			continue
		}
		switch x := r.Intn(100); {
		case x < 22:
			k := genKey(r, kind)
			live[ix] = append(live[ix], string(k))
			ops = append(ops, jop{Op: "put", Ix: ix, K: hexs(k), V: hexs(r.Bytes(r.Intn(3)))})
		case x < 27:
			ops = append(ops, jop{Op: "delete", Ix: ix, K: hexs(pick(ix))})
		case x < 32:
			ops = append(ops, jop{Op: "get", Ix: ix, K: hexs(pick(ix))})
		case x < 35:
			ops = append(ops, jop{Op: "has", Ix: ix, K: hexs(pick(ix))})
		case x < 38:
			var ks []string
			for j := r.Intn(4); j >= 0; j-- {
				ks = append(ks, hexs(pick(ix)))
			}
			op := "hasmulti"
			if r.Bool() {
				op = "fill"
			}
			ops = append(ops, jop{Op: op, Ix: ix, Ks: ks})
		case x < 58:
			o := jop{Op: "iter", Ix: ix, Rev: r.Bool()}
			p := genPrefix(r, kind, live[ix])
			o.K = hexs(p)
			if r.Chance(3, 5) {
				// start item: mostly under the prefix; present or absent
				s := pick(ix)
				if l := live[ix]; len(l) > 0 && r.Bool() {
					// a stored key under the prefix, when there is one
					for try := 0; try < 4; try++ {
						if c := []byte(l[r.Intn(len(l))]); bytes.HasPrefix(c, p) {
							s = c
							break
						}
					}
				}
				if r.Chance(4, 5) && !bytes.HasPrefix(s, p) {
					s = append(append([]byte{}, p...), s...)
					if kind == "bin" {
						s = append(s, make([]byte, 8)...)[:8]
					} else if kind == "ts" && len(s) < 8 {
						s = append(s, make([]byte, 8)...)[:8]
					}
				}
				h := hexs(s)
				o.Start = &h
				o.Skip = r.Chance(1, 3)
			} else {
				o.Skip = r.Chance(1, 12)
			}
			switch r.Intn(6) {
			case 0, 1:
				o.Cb = &jcb{Kind: "at", N: r.Intn(3), Stop: true}
			case 2:
				o.Cb = &jcb{Kind: "at", N: r.Intn(3), Err: 1 + r.Intn(3)}
			case 3:
				o.Cb = &jcb{Kind: "at", N: r.Intn(3), Stop: true, Err: 1 + r.Intn(3)}
			}
			ops = append(ops, o)
		case x < 66:
			op := "first"
			if r.Chance(2, 3) {
				op = "last"
			}
			ops = append(ops, jop{Op: op, Ix: ix, K: hexs(genPrefix(r, kind, live[ix]))})
		case x < 69:
			ops = append(ops, jop{Op: "count", Ix: ix})
		case x < 72:
			ops = append(ops, jop{Op: "countfrom", Ix: ix, K: hexs(pick(ix))})
		case x < 74:
			ops = append(ops, jop{Op: "batchnew"})
		case x < 80:
			k := genKey(r, kind)
			live[ix] = append(live[ix], string(k))
			ops = append(ops, jop{Op: "bput", Ix: ix, K: hexs(k), V: hexs(r.Bytes(r.Intn(3)))})
		case x < 82:
			ops = append(ops, jop{Op: "bdelete", Ix: ix, K: hexs(pick(ix))})
		case x < 86:
			ops = append(ops, jop{Op: "bcommit"})
		case x < 96:
			o := jop{Op: []string{"fget", "fput", "finc", "fdec", "fputb", "fincb", "fdecb", "fget", "finc"}[r.Intn(9)], F: hexs([]byte(fnames[r.Intn(2)]))}
			if r.Bool() {
				o.Vec = true
				o.F = hexs([]byte("va"))
				o.I = []uint64{0, 1, 255, 256, ^uint64(0)}[r.Intn(5)]
			}
			if o.Op == "fput" || o.Op == "fputb" {
				o.N = []uint64{0, 1, 7, ^uint64(0), ^uint64(0) - 1, r.U64()}[r.Intn(6)]
			}
			ops = append(ops, o)
		case x < 99:
			o := jop{Op: []string{"sget", "sput", "sputb"}[r.Intn(3)], F: hexs([]byte("sa"))}
			if o.Op != "sget" {
				o.V = hexs(r.Bytes(r.Intn(4)))
			}
			ops = append(ops, o)
		default:
			if withReopen {
				ops = append(ops, jop{Op: "reopen"})
			}
		}
	}
	return ops
}

func put(ix, k, v string) jop { return jop{Op: "put", Ix: ix, K: hexs([]byte(k)), V: hexs([]byte(v))} }
func bp(ix, k, v string) jop  { return jop{Op: "bput", Ix: ix, K: hexs([]byte(k)), V: hexs([]byte(v))} }
func bd(ix, k string) jop     { return jop{Op: "bdelete", Ix: ix, K: hexs([]byte(k))} }
func gt(ix, k string) jop     { return jop{Op: "get", Ix: ix, K: hexs([]byte(k))} }

// fixed histories run on every seed: the witnesses of the repaired defects and the corner cases
func corpus() [][]jop {
	ni := func(n string) jop { return jop{Op: "newindex", Ix: n} }
	base := []jop{ni("raw-a"), ni("raw-d"), put("raw-a", "1", "v1"), put("raw-a", "3", "v3"), put("raw-a", "5", "v5"),
		put("raw-a", "\x01\xff7", "c"), put("raw-a", "\x02", "d"), put("raw-d", "z", "vz")}
	with := func(more ...jop) []jop { return append(append([]jop{}, base...), more...) }
	return [][]jop{
		// F-shed-last (whole database / carry / 0xff prefix)
		with(jop{Op: "last", Ix: "raw-a"}, jop{Op: "last", Ix: "raw-a", K: hexs([]byte("\x01\xff"))}, jop{Op: "last", Ix: "raw-a", K: hexs([]byte("3"))},
			put("raw-a", "\xff\xff1", ""), jop{Op: "last", Ix: "raw-a", K: hexs([]byte("\xff\xff"))}, jop{Op: "last", Ix: "raw-a", K: hexs([]byte("\xff"))},
			jop{Op: "last", Ix: "raw-d"}, jop{Op: "last", Ix: "raw-a", K: hexs([]byte("4"))}, jop{Op: "first", Ix: "raw-a", K: hexs([]byte("\xff"))}, jop{Op: "first", Ix: "raw-a"}),
		// F-shed-reverse-start-absent
		with(jop{Op: "iter", Ix: "raw-a", Rev: true, Start: sp("4")}, jop{Op: "iter", Ix: "raw-a", Rev: true, Start: sp("6")}, jop{Op: "iter", Ix: "raw-a", Rev: true, Start: sp("0")},
			jop{Op: "iter", Ix: "raw-a", Rev: true, Start: sp("\xff\xff\xff")}, jop{Op: "iter", Ix: "raw-d", Rev: true, Start: sp("zz")}, jop{Op: "iter", Ix: "raw-a", Rev: true, Start: sp("\x00")},
			jop{Op: "iter", Ix: "raw-a", Rev: true, Start: sp("3")}, jop{Op: "iter", Ix: "raw-a", Rev: true, Start: sp("3"), Skip: true}, jop{Op: "iter", Ix: "raw-a", Rev: true, Start: sp("4"), Skip: true},
			jop{Op: "iter", Ix: "raw-a", Start: sp("4")}, jop{Op: "iter", Ix: "raw-a", Start: sp("3"), Skip: true}, jop{Op: "iter", Ix: "raw-a", Rev: true}, jop{Op: "iter", Ix: "raw-a"}),
		// outside the oracle's domain, still compared with the model: skip without start, start outside the prefix
		with(put("raw-a", "", "e"), jop{Op: "iter", Ix: "raw-a", Skip: true}, jop{Op: "iter", Ix: "raw-a", Skip: true, K: hexs([]byte("3"))}, jop{Op: "iter", Ix: "raw-a", Skip: true, Rev: true, K: hexs([]byte("3"))},
			jop{Op: "iter", Ix: "raw-a", Start: sp("1"), K: hexs([]byte("3"))}, jop{Op: "iter", Ix: "raw-a", Start: sp("5"), K: hexs([]byte("3")), Rev: true}),
		// a batch is applied on commit only, entirely, in order, and again when committed again
		with(jop{Op: "batchnew"}, jop{Op: "bput", Ix: "raw-a", K: hexs([]byte("q")), V: hexs([]byte("1"))}, jop{Op: "bdelete", Ix: "raw-a", K: hexs([]byte("1"))}, jop{Op: "bput", Ix: "raw-d", K: hexs([]byte("q")), V: hexs([]byte("2"))},
			jop{Op: "bput", Ix: "raw-a", K: hexs([]byte("q")), V: hexs([]byte("3"))}, jop{Op: "get", Ix: "raw-a", K: hexs([]byte("q"))}, jop{Op: "get", Ix: "raw-a", K: hexs([]byte("1"))}, jop{Op: "bcommit"},
			jop{Op: "get", Ix: "raw-a", K: hexs([]byte("q"))}, jop{Op: "get", Ix: "raw-a", K: hexs([]byte("1"))}, jop{Op: "get", Ix: "raw-d", K: hexs([]byte("q"))},
			jop{Op: "delete", Ix: "raw-a", K: hexs([]byte("q"))}, jop{Op: "bcommit"}, jop{Op: "get", Ix: "raw-a", K: hexs([]byte("q"))}),
		// one batch writing the same key several times, keys committed ("1", "3") and not ("u", "w", "n", "m"):
		// the batch is applied entirely and in order; nothing is visible before the commit
		with(jop{Op: "batchnew"},
			bp("raw-a", "u", "1"), bd("raw-a", "u"), // put-then-delete, key not stored
			bd("raw-a", "3"), bp("raw-a", "3", "new"), // delete-then-put, key stored
			bp("raw-a", "w", "1"), bp("raw-a", "w", "2"), // put-put
			bp("raw-a", "1", "x"), bd("raw-a", "1"), // put-then-delete, key stored
			bd("raw-a", "n"), bp("raw-a", "n", "v"), // delete-then-put, key not stored
			bp("raw-a", "m", "1"), bd("raw-a", "m"), bp("raw-a", "m", "2"), // put-delete-put
			bp("raw-d", "u", "other"), bd("raw-d", "z"), // the same key in another index; a stored key of that index
			gt("raw-a", "u"), gt("raw-a", "3"), gt("raw-a", "1"), jop{Op: "count", Ix: "raw-a"},
			jop{Op: "bcommit"},
			gt("raw-a", "u"), jop{Op: "has", Ix: "raw-a", K: hexs([]byte("u"))}, gt("raw-a", "3"), gt("raw-a", "w"), gt("raw-a", "1"), gt("raw-a", "n"), gt("raw-a", "m"),
			gt("raw-d", "u"), gt("raw-d", "z"), jop{Op: "count", Ix: "raw-a"}, jop{Op: "iter", Ix: "raw-a"}, jop{Op: "iter", Ix: "raw-a", Rev: true}, jop{Op: "count", Ix: "raw-d"},
			// and once more in a second batch on the now committed keys
			jop{Op: "batchnew"}, bp("raw-a", "u", "9"), bd("raw-a", "u"), bd("raw-a", "w"), bp("raw-a", "w", "3"), jop{Op: "bcommit"},
			gt("raw-a", "u"), gt("raw-a", "w"), jop{Op: "iter", Ix: "raw-a"}),
		// LARGE batches (5000 and 9000 operations over 300 / 700 keys of two indexes): nothing is visible
		// before the commit however large the batch is, everything after it
		largeBatch(5000, 300, 7, 0, false),
		largeBatch(9000, 700, 11, 5, false),
		// a large uncommitted batch is dropped entirely by close + reopen
		largeBatch(9000, 300, 7, 3, true),
		// fields: wrap-around, floor at zero, batch reads the committed value, reopen
		{ni("raw-a"), jop{Op: "fget", F: hexs([]byte("fa"))}, jop{Op: "fdec", F: hexs([]byte("fa"))}, jop{Op: "fput", F: hexs([]byte("fa")), N: ^uint64(0)}, jop{Op: "finc", F: hexs([]byte("fa"))},
			jop{Op: "fincb", F: hexs([]byte("fa"))}, jop{Op: "fincb", F: hexs([]byte("fa"))}, jop{Op: "fget", F: hexs([]byte("fa"))}, jop{Op: "bcommit"}, jop{Op: "fget", F: hexs([]byte("fa"))},
			jop{Op: "fput", F: hexs([]byte("va")), Vec: true, I: 256, N: 9}, jop{Op: "fget", F: hexs([]byte("va")), Vec: true, I: 1}, jop{Op: "fget", F: hexs([]byte("va")), Vec: true, I: 256},
			jop{Op: "sput", F: hexs([]byte("sa")), V: hexs([]byte("hello"))}, jop{Op: "reopen"}, jop{Op: "sget", F: hexs([]byte("sa"))}, jop{Op: "fget", F: hexs([]byte("va")), Vec: true, I: 256}, jop{Op: "fget", F: hexs([]byte("fa"))}},
	}
}

func key2(j uint64) string { return hexs([]byte{byte(j / 256), byte(j % 256)}) }

// bulkReads: lookups, counts and iterations over the two indexes a large batch writes to
func bulkReads(r *hx.Rand, nkeys uint64) []jop {
	ks := []uint64{0, 1, 2, 5, nkeys / 2, nkeys - 1, nkeys}
	if r != nil {
		ks = append(ks, uint64(r.Intn(int(nkeys))), uint64(r.Intn(int(nkeys))))
	}
	var g []jop
	for _, ix := range []string{"raw-a", "raw-d"} {
		var multi []string
		for _, j := range ks {
			multi = append(multi, key2(j))
		}
		g = append(g, jop{Op: "get", Ix: ix, K: key2(ks[1])}, jop{Op: "get", Ix: ix, K: key2(ks[4])}, jop{Op: "has", Ix: ix, K: key2(ks[5])},
			jop{Op: "hasmulti", Ix: ix, Ks: multi}, jop{Op: "count", Ix: ix}, jop{Op: "first", Ix: ix}, jop{Op: "last", Ix: ix})
	}
	return append(g, jop{Op: "iter", Ix: "raw-a"}, jop{Op: "iter", Ix: "raw-d", Rev: true, Cb: &jcb{Kind: "at", N: 9, Stop: true}})
}

// largeBatch: a few stored keys, a large batch, reads BEFORE the commit, then either commit + reads,
// or reopen (the batch is dropped) + reads + a small committed batch
func largeBatch(count, nkeys, stride, off uint64, reopen bool) []jop {
	h := []jop{{Op: "newindex", Ix: "raw-a"}, {Op: "newindex", Ix: "raw-d"},
		{Op: "put", Ix: "raw-a", K: key2(1), V: hexs([]byte("old"))}, {Op: "put", Ix: "raw-d", K: key2(nkeys / 2), V: hexs([]byte("old"))},
		{Op: "put", Ix: "raw-a", K: key2(nkeys + 7), V: hexs([]byte("keep"))}, {Op: "batchnew"},
		{Op: "bbulk", Ix: "raw-a", Ix2: "raw-d", Count: count, NKeys: nkeys, Stride: stride, Off: off}}
	h = append(h, bulkReads(nil, nkeys)...)
	if reopen {
		h = append(h, jop{Op: "reopen"})
		h = append(h, bulkReads(nil, nkeys)...)
		h = append(h, jop{Op: "bbulk", Ix: "raw-d", Ix2: "raw-a", Count: 10, NKeys: nkeys, Stride: 1, Off: 0}, jop{Op: "bcommit"})
	} else {
		h = append(h, jop{Op: "bcommit"})
	}
	return append(h, bulkReads(nil, nkeys)...)
}

// names that alias: a string field whose name is a vector's name followed by the 8 bytes of a slot
func aliasCorpus() []jop {
	alias := append([]byte("va"), be64(5)...)
	return []jop{{Op: "newindex", Ix: "raw-a"}, {Op: "sput", F: hexs(alias), V: hexs([]byte("abc"))}, {Op: "fget", F: hexs([]byte("va")), Vec: true, I: 5},
		{Op: "finc", F: hexs([]byte("va")), Vec: true, I: 5}, {Op: "sput", F: hexs(alias), V: hexs([]byte("abcdefghij"))}, {Op: "fget", F: hexs([]byte("va")), Vec: true, I: 5}}
}

func main() {
	shed.Register("leveldb", sldb.Driver{})
	run := hx.Start("C19", "Aurora.C19.Corr",
		"(a) histories over 2-4 indexes with three key encodings (raw variable-length keys incl. empty / 0x00 / 0xff runs, 8-byte big-endian ids, 8-byte timestamp ++ address) mixing put/delete/get/has/hasMulti/fill/first/last/count/countFrom, iterate with every combination of prefix, present or absent start item, skip-start, reverse and stopping/failing callbacks, batched writes with commit / re-commit / discard, batches writing the same stored or unstored key several times (put-delete, delete-put, put-put, …), LARGE batches of 4095..9000 operations over a few hundred keys of two indexes read before and after the commit / dropped by a reopen, uint64 fields, vectors, string fields, and close+reopen on disk; non-trivial = some iteration visited at least two items; distinct by operation list; (b) bulk readers (Fill / HasMulti over 2-5 keys, full Iterate) parked between two of their lookups / visits while another goroutine commits one or two batches rewriting or deleting the keys being read; non-trivial = at least one commit fell inside the read")
	r := run.R

	if run.Replay != "" {
		var jc jcase
		if err := run.ReadReplay(&jc); err != nil {
			panic(err)
		}
		if jc.Conc != nil {
			runConc(run, jc)
		} else {
			runHistory(run, jc.Ops, true)
		}
		run.Finish()
		return
	}
	for _, h := range corpus() {
		runHistory(run, h, true)
	}
	runHistory(run, aliasCorpus(), false)
	for _, jc := range concCorpus() {
		runConc(run, jc)
	}
	for i := 0; i < run.N(24, 300); i++ {
		runConc(run, genConc(r.Fork(0xc0c0+uint64(i))))
	}
	for _, f := range hx.CorpusFiles("C19") {
		var jc jcase
		run.Replay = f
		if err := run.ReadReplay(&jc); err == nil {
			runHistory(run, jc.Ops, true)
		}
		run.Replay = ""
	}
	nh := run.N(110, 1500)
	for i := 0; i < nh; i++ {
		g := r.Fork(uint64(i))
		if i%12 == 7 {
			// a large batch around the sizes 4095 / 4096 / 4097 / 8192 / …, random key pool and stride
			count := []uint64{4095, 4096, 4097, 5000, 8191, 8192, 8193, 6000}[g.Intn(8)]
			nkeys := uint64(50 + g.Intn(400))
			h := largeBatch(count, nkeys, uint64(1+g.Intn(20)), uint64(g.Intn(int(nkeys))), i%24 == 19)
			run.Hist("large-batch")
			runHistory(run, h, true)
			continue
		}
		runHistory(run, genHistory(g, 12+g.Intn(run.N(30, 50)), i%4 == 3), true)
	}
	run.Finish()
}

func unhex(s string) []byte {
	b, _ := hex.DecodeString(s)
	return b
}
