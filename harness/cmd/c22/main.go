// C22 harness: neighbourhood depth.
//
//	A. recalcDepth itself (hook VerifDepthRecalc) on peer multisets over bins
//	   0..31 with random reachability, radii and insertion orders, under the
//	   live thresholds (varied through kademlia.New / Options.BinMaxPeers);
//	B. a real Kad (stub p2p/discovery, in-memory metrics DB, default
//	   reachability filter fed through Kad.Reachable) driven by histories of
//	   Connected / Outbound / Disconnected / Reachable / SetRadius, observing
//	   NeighborhoodDepth after every event.
package main

import (
	"context"
	"encoding/hex"
	"fmt"
	"io"
	"sync"
	"time"

	"github.com/gauss-project/aurorafs/pkg/addressbook"
	"github.com/gauss-project/aurorafs/pkg/aurora"
	"github.com/gauss-project/aurorafs/pkg/boson"
	"github.com/gauss-project/aurorafs/pkg/discovery"
	"github.com/gauss-project/aurorafs/pkg/logging"
	"github.com/gauss-project/aurorafs/pkg/p2p"
	"github.com/gauss-project/aurorafs/pkg/shed"
	sldb "github.com/gauss-project/aurorafs/pkg/shed/leveldb"
	"github.com/gauss-project/aurorafs/pkg/subscribe"
	"github.com/gauss-project/aurorafs/pkg/topology/kademlia"
	"github.com/gauss-project/aurorafs/pkg/topology/pslice"
	"verifharness/hx"
)

// ---------------------------------------------------------------- stubs

type p2pStub struct{ p2p.Service }

func (p2pStub) Disconnect(boson.Address, string) error               { return nil }
func (p2pStub) NetworkStatus() p2p.NetworkStatus                     { return p2p.NetworkStatusAvailable }
func (p2pStub) Blocklist(boson.Address, time.Duration, string) error { return nil }

type discStub struct{ discovery.Driver }

func (discStub) IsStart() bool { return false }
func (discStub) IsHive2() bool { return false }
func (discStub) BroadcastPeers(context.Context, boson.Address, ...boson.Address) error {
	return nil
}
func (discStub) NotifyDiscoverWork(...boson.Address) {}

type abStub struct{ addressbook.Interface }

func (abStub) Remove(boson.Address) error { return nil }

type subStub struct{}

func (subStub) Subscribe(subscribe.INotifier, string, string, string) error { return nil }
func (subStub) Publish(string, string, string, interface{}) error           { return nil }
func (subStub) PublishArray(string, string, string, []interface{}) error    { return nil }

func fullMode() aurora.Model { return aurora.NewModel().SetMode(aurora.FullNode) }
func bootMode() aurora.Model {
	return aurora.NewModel().SetMode(aurora.FullNode).SetMode(aurora.BootNode)
}

var registerOnce sync.Once

type env struct {
	kad *kademlia.Kad
	db  *shed.DB
}

func newKad(base boson.Address, binMax int) (*env, error) {
	registerOnce.Do(func() { shed.Register("leveldb", sldb.Driver{}) })
	db, err := shed.NewDB("", &shed.Options{Driver: "leveldb"})
	if err != nil {
		return nil, err
	}
	k, err := kademlia.New(base, abStub{}, discStub{}, p2pStub{}, nil, nil, nil, db, logging.New(io.Discard, 0), subStub{},
		kademlia.Options{NodeMode: fullMode(), BinMaxPeers: binMax})
	if err != nil {
		return nil, err
	}
	return &env{kad: k, db: db}, nil
}

func (e *env) close() {
	e.kad.VerifDepthShutdown()
	_ = e.db.Close()
}

// ---------------------------------------------------------------- the statement, evaluated on counts

type binCount struct{ tot, reach int }

// checkDepth evaluates the clauses of the property on (per-bin totals and
// reachable counts, radius, depth).  quick is the live quick-saturation number.
// Returns (sig, detail) of the first violated clause or "".
func checkDepth(bins []binCount, radius, depth, quick int) (string, string) {
	total := 0
	for _, b := range bins {
		total += b.tot
	}
	if depth > radius {
		return "le-radius", fmt.Sprintf("depth %d exceeds radius %d", depth, radius)
	}
	if total <= 3 && depth != 0 {
		return "zero-when-at-most-three", fmt.Sprintf("%d peers connected, depth %d", total, depth)
	}
	if depth > 0 {
		beyond := 0
		for i := depth; i < len(bins); i++ {
			beyond += bins[i].reach
		}
		if beyond < 3 {
			return "three-reachable-beyond", fmt.Sprintf("depth %d leaves %d reachable peers at or beyond it", depth, beyond)
		}
	}
	for i, b := range bins {
		if b.tot == 0 && depth > i {
			return "le-shallowest-empty", fmt.Sprintf("depth %d exceeds the empty bin %d", depth, i)
		}
	}
	for i := 0; i < depth && i < len(bins); i++ {
		if bins[i].reach < quick {
			class := "bin-with-some-reachable-peers"
			if bins[i].reach == 0 && bins[i].tot > 0 {
				class = "bin-with-only-unreachable-peers"
			}
			return "shallower-saturated:" + class, fmt.Sprintf("depth %d but bin %d holds %d reachable peers (< %d; %d peers in all)", depth, i, bins[i].reach, quick, bins[i].tot)
		}
	}
	return "", ""
}

// ---------------------------------------------------------------- part A

type jbin struct {
	Bin int    `json:"bin"`
	Unr []bool `json:"unreachable"` // one entry per peer of the bin
}

type jdepth struct {
	Kind   string `json:"kind"` // "depth"
	BinMax int    `json:"bin_max"`
	Radius int    `json:"radius"`
	Bins   []jbin `json:"bins"`
	Order  uint64 `json:"order_seed"`
}

type jkad struct {
	Kind   string   `json:"kind"` // "kad"
	BinMax int      `json:"bin_max"`
	Base   string   `json:"base"`
	Events []jevent `json:"events"`
}

type jevent struct {
	K string `json:"k"` // conn out outboot disc reach radius
	A string `json:"a,omitempty"`
	V int    `json:"v,omitempty"` // reach: 0 unknown 1 public 2 private; radius value
}

var base32 = boson.MustParseHexAddress("a5a5a5a5a5a5a5a5a5a5a5a5a5a5a5a5a5a5a5a5a5a5a5a5a5a5a5a5a5a5a5a5")

// address in bin po of base, distinguished by (po, idx)
func addrAt(base []byte, po, idx int) []byte {
	a := append([]byte{}, base...)
	a[po/8] ^= 0x80 >> uint(po%8)
	// unique tail: last two bytes carry idx (well after the first differing bit for 32-byte addresses)
	a[len(a)-1] ^= byte(idx)
	a[len(a)-2] ^= byte(idx>>8) | 0x40
	return a
}

// setThresholds makes kademlia.New rewrite the package thresholds; returns live (nn, quick).
func setThresholds(run *hx.Run, binMax int) (int, int) {
	e, err := newKad(base32, binMax)
	if err != nil {
		panic(err)
	}
	e.close()
	return kademlia.VerifDepthThresholds()
}

var lastBinMax = -1

func doDepth(run *hx.Run, jc jdepth) {
	nn, quick := kademlia.VerifDepthThresholds()
	if jc.BinMax != lastBinMax {
		quickBefore := quick
		nn, quick = setThresholds(run, jc.BinMax)
		lastBinMax = jc.BinMax
		// derivation of the threshold from BinMaxPeers (constants side of the property)
		run.AddCase(hx.CoqApp("CThresh", hx.CoqZ(int64(jc.BinMax)), hx.CoqZ(int64(quickBefore)), hx.CoqZ(int64(quick))),
			map[string]interface{}{"kind": "thresh", "bin_max": jc.BinMax, "quick_before": quickBefore}, fmt.Sprintf("thresh|%d|%d", jc.BinMax, quickBefore), false)
	}

	type peer struct {
		a   boson.Address
		unr bool
		bin int
	}
	var peers []peer
	unr := map[string]bool{}
	for _, b := range jc.Bins {
		for i, u := range b.Unr {
			a := boson.NewAddress(addrAt(base32.Bytes(), b.Bin, i))
			peers = append(peers, peer{a, u, b.Bin})
			unr[a.ByteString()] = u
		}
	}
	filter := func(a boson.Address) bool { return unr[a.ByteString()] }

	build := func(seed uint64, churn bool) *pslice.PSlice {
		r := hx.NewRand(seed)
		ps := pslice.New(int(boson.MaxBins), base32)
		perm := make([]int, len(peers))
		for i := range perm {
			perm[i] = i
		}
		for i := len(perm) - 1; i > 0; i-- {
			j := r.Intn(i + 1)
			perm[i], perm[j] = perm[j], perm[i]
		}
		for _, i := range perm {
			ps.Add(peers[i].a)
			if churn && r.Chance(1, 4) { // disconnect and reconnect: changes slice order only
				ps.Remove(peers[i].a)
				j := perm[r.Intn(len(perm))]
				ps.Add(peers[j].a)
				ps.Add(peers[i].a)
			}
		}
		if churn { // everything is connected in the end
			for _, p := range peers {
				ps.Add(p.a)
			}
		}
		return ps
	}

	ps := build(jc.Order, false)
	var d uint8
	panicked, msg := hx.Guard(func() { d = kademlia.VerifDepthRecalc(ps, uint8(jc.Radius), filter) })
	if panicked {
		run.Violate(hx.Violation{Sig: "panic:recalc", Detail: msg, Case: jc})
		return
	}
	// observation for the model: bins in slice order with the filter's answer
	counts := make([]binCount, boson.MaxBins)
	coqBins := make([]string, boson.MaxBins)
	nonEmpty, someUnr := 0, false
	for b := 0; b < int(boson.MaxBins); b++ {
		bp := ps.BinPeers(uint8(b))
		fl := make([]bool, len(bp))
		for i, a := range bp {
			fl[i] = unr[a.ByteString()]
			counts[b].tot++
			if !fl[i] {
				counts[b].reach++
			} else {
				someUnr = true
			}
		}
		if len(bp) > 0 {
			nonEmpty++
		}
		coqBins[b] = hx.CoqBoolList(fl)
	}
	run.AddCase(hx.CoqApp("CDepth", hx.CoqNat(nn), hx.CoqNat(quick), hx.CoqNat(jc.Radius), hx.CoqList(coqBins, "list bool"), hx.CoqNat(int(d))),
		jc, fmt.Sprintf("depth|%d|%d|%v", quick, jc.Radius, counts), len(peers) > 3)
	run.Hist(fmt.Sprintf("A.depth=%d", d))
	run.Hist(fmt.Sprintf("A.quick=%d", quick))
	if someUnr {
		run.Hist("A.with-unreachable")
	}
	run.OracleChecked(1)
	if sig, det := checkDepth(counts, jc.Radius, int(d), quick); sig != "" {
		run.Violate(hx.Violation{Sig: sig, Detail: det, Case: jc, Impl: d})
	}
	// order independence: other connection orders (with disconnect/reconnect churn) of the same set
	for k := uint64(1); k <= 2; k++ {
		ps2 := build(jc.Order*7919+k, k == 2)
		d2 := kademlia.VerifDepthRecalc(ps2, uint8(jc.Radius), filter)
		run.OracleChecked(1)
		if d2 != d {
			run.Violate(hx.Violation{Sig: "order-dependent", Detail: fmt.Sprintf("same peer set connected in another order: depth %d vs %d", d2, d), Case: jc, Impl: d2, Want: d})
		}
	}
}

// ---------------------------------------------------------------- part B

func doKad(run *hx.Run, jc jkad) {
	base := boson.NewAddress(unhex(jc.Base))
	e, err := newKad(base, jc.BinMax)
	if err != nil {
		panic(err)
	}
	defer e.close()
	k := e.kad
	nn, quick := kademlia.VerifDepthThresholds()
	status := map[string]int{} // reference: last recorded status
	var coqEv []string
	var obs []string
	kinds := map[string]bool{}
	ctx := context.Background()
	stop := false
	for step, ev := range jc.Events {
		if stop {
			break
		}
		a := boson.NewAddress(unhex(ev.A))
		var coq string
		panicked, msg := hx.Guard(func() {
			switch ev.K {
			case "conn":
				// forceConnection: the admission decision (C24) is not part of this property
				if err := k.Connected(ctx, p2p.Peer{Address: a, Mode: fullMode()}, true); err != nil {
					panic("Connected: " + err.Error())
				}
				coq = hx.CoqApp("EConnected", hx.CoqBytes(a.Bytes()))
			case "out":
				k.Outbound(p2p.Peer{Address: a, Mode: fullMode()})
				coq = hx.CoqApp("EOutbound", hx.CoqBytes(a.Bytes()), "false")
			case "outboot":
				k.Outbound(p2p.Peer{Address: a, Mode: bootMode()})
				coq = hx.CoqApp("EOutbound", hx.CoqBytes(a.Bytes()), "true")
			case "disc":
				k.Disconnected(p2p.Peer{Address: a, Mode: fullMode()}, "test")
				coq = hx.CoqApp("EDisconnected", hx.CoqBytes(a.Bytes()))
			case "reach":
				st := []p2p.ReachabilityStatus{p2p.ReachabilityStatusUnknown, p2p.ReachabilityStatusPublic, p2p.ReachabilityStatusPrivate}[ev.V]
				k.Reachable(a, st)
				status[a.ByteString()] = ev.V
				coq = hx.CoqApp("EReachable", hx.CoqBytes(a.Bytes()), []string{"Unknown", "Public", "Private"}[ev.V])
			case "radius":
				k.SetRadius(uint8(ev.V))
				coq = hx.CoqApp("ESetRadius", hx.CoqNat(ev.V))
			}
		})
		if panicked {
			run.Violate(hx.Violation{Sig: "panic:kad:" + ev.K, Detail: msg, Case: jc})
			return
		}
		kinds[ev.K] = true
		run.Hist("B.ev." + ev.K)
		d := k.NeighborhoodDepth()
		coqEv = append(coqEv, coq)
		obs = append(obs, hx.CoqNat(int(d)))
		// the statement on the CURRENT set
		_, radius := k.VerifDepthState()
		counts := make([]binCount, boson.MaxBins)
		for b := 0; b < int(boson.MaxBins); b++ {
			for _, p := range k.ConnectedPeers().BinPeers(uint8(b)) {
				counts[b].tot++
				if status[p.ByteString()] == 1 {
					counts[b].reach++
				}
			}
		}
		run.OracleChecked(2)
		after := map[string]string{"conn": "connect", "out": "connect", "outboot": "bootnode-outbound", "disc": "disconnect", "radius": "set-radius"}[ev.K]
		if ev.K == "reach" {
			after = "reachability-gain"
			if ev.V != 1 {
				after = "reachability-loss"
			}
		}
		if sig, det := checkDepth(counts, int(radius), int(d), quick); sig != "" {
			run.Violate(hx.Violation{Sig: sig + ":after-" + after, Detail: fmt.Sprintf("step %d (%s): %s", step, ev.K, det), Case: jc, Impl: d})
			stop = true
		}
		// "depends only on the current set": the stored depth is the depth of the current set
		fresh := kademlia.VerifDepthRecalc(k.ConnectedPeers(), radius, k.VerifDepthUnreachable)
		if fresh != d {
			run.Violate(hx.Violation{Sig: "stored-depth-stale:after-" + after, Detail: fmt.Sprintf("step %d (%s): NeighborhoodDepth()=%d, depth of the current set is %d", step, ev.K, d, fresh), Case: jc, Impl: d, Want: fresh})
			stop = true
		}
		run.Hist(fmt.Sprintf("B.depth=%d", d))
	}
	run.AddCase(hx.CoqApp("CKad", hx.CoqBytes(base.Bytes()), hx.CoqNat(nn), hx.CoqNat(quick), hx.CoqList(coqEv, "event"), hx.CoqList(obs, "nat")),
		jc, fmt.Sprintf("kad|%d|%s|%v", quick, jc.Base, jc.Events), len(kinds) >= 3)
}

func unhex(s string) []byte {
	b, _ := hex.DecodeString(s)
	return b
}

// ---------------------------------------------------------------- generation

func genDepth(r *hx.Rand, binMax int) jdepth {
	jc := jdepth{Kind: "depth", BinMax: binMax, Order: r.U64() >> 1}
	jc.Radius = r.Pick([]int{0, 1, 2, 3, 4, 5, 6, 8, 12, 31, 31, 31, 31, 255})
	quick := (jc.BinMax + 4) / 5
	if jc.BinMax == 0 {
		_, quick = kademlia.VerifDepthThresholds()
	}
	deep := r.Intn(9) // bins 0..deep-1 are candidates for saturation
	pUnr := r.Pick([]int{0, 0, 0, 5, 10, 25, 60})
	for b := 0; b < deep+r.Intn(4); b++ {
		n := quick + r.Intn(3)
		switch r.Intn(14) {
		case 0:
			n = 0 // an empty bin
		case 1:
			n = r.Intn(quick + 1)
		case 2:
			n = quick + 5
		}
		bin := jbin{Bin: b}
		allUnr := r.Chance(1, 12) // a bin holding only unreachable peers
		for i := 0; i < n; i++ {
			bin.Unr = append(bin.Unr, allUnr || r.Intn(100) < pUnr)
		}
		if len(bin.Unr) > 0 {
			jc.Bins = append(jc.Bins, bin)
		}
	}
	// a few deep peers (nearest neighbours)
	for i := r.Intn(4); i > 0; i-- {
		b := 9 + r.Intn(23)
		jc.Bins = append(jc.Bins, jbin{Bin: b, Unr: []bool{r.Intn(100) < pUnr}})
	}
	// merge bins listed twice
	m := map[int]int{}
	var out []jbin
	for _, b := range jc.Bins {
		if i, ok := m[b.Bin]; ok {
			out[i].Unr = append(out[i].Unr, b.Unr...)
		} else {
			m[b.Bin] = len(out)
			out = append(out, b)
		}
	}
	jc.Bins = out
	return jc
}

func genKad(r *hx.Rand) jkad {
	blen := r.Pick([]int{8, 8, 8, 32})
	base := r.Bytes(blen)
	jc := jkad{Kind: "kad", BinMax: r.Pick([]int{5, 5, 5, 5, 10, 10, 20, 0}), Base: hx.Hex(base)}
	// universe: 10..22 peers over bins 0..4 plus a few deep ones
	var uni [][]byte
	n := 10 + r.Intn(13)
	for i := 0; i < n; i++ {
		po := r.Intn(5)
		if r.Chance(1, 6) {
			po = 5 + r.Intn(20)
		}
		uni = append(uni, addrAt(base, po, i+1))
	}
	connected := map[int]bool{}
	pick := func() int { return r.Intn(len(uni)) }
	// warm-up: most of the universe connects and is found public, so that positive depths are reached
	for j := range uni {
		if r.Chance(3, 4) {
			k := "conn"
			if r.Bool() {
				k = "out"
			}
			connected[j] = true
			jc.Events = append(jc.Events, jevent{K: k, A: hx.Hex(uni[j])})
			if r.Chance(5, 6) {
				jc.Events = append(jc.Events, jevent{K: "reach", A: hx.Hex(uni[j]), V: 1})
			}
		}
	}
	ne := 10 + r.Intn(25)
	for i := 0; i < ne; i++ {
		switch x := r.Intn(20); {
		case x < 7:
			j := pick()
			k := "conn"
			if r.Bool() {
				k = "out"
			}
			connected[j] = true
			jc.Events = append(jc.Events, jevent{K: k, A: hx.Hex(uni[j])})
			if r.Chance(2, 3) { // most peers are found public soon after connecting
				jc.Events = append(jc.Events, jevent{K: "reach", A: hx.Hex(uni[j]), V: 1})
			}
		case x < 10:
			j := pick()
			for t := 0; t < 4 && !connected[j]; t++ {
				j = pick()
			}
			delete(connected, j)
			jc.Events = append(jc.Events, jevent{K: "disc", A: hx.Hex(uni[j])})
		case x < 16:
			j := pick()
			for t := 0; t < 4 && !connected[j]; t++ {
				j = pick()
			}
			jc.Events = append(jc.Events, jevent{K: "reach", A: hx.Hex(uni[j]), V: r.Pick([]int{0, 1, 1, 1, 2, 2})})
		case x < 17:
			jc.Events = append(jc.Events, jevent{K: "outboot", A: hx.Hex(uni[pick()])})
		default:
			jc.Events = append(jc.Events, jevent{K: "radius", V: r.Pick([]int{0, 1, 2, 3, 31, 31, 31, 31, 31, 200})})
		}
	}
	return jc
}

func corpus() (ds []jdepth, ks []jkad) {
	t, f := true, false
	// F-depth-skips-bin: bins 0: 4 reachable, 1: 2 unreachable, 2: 4 reachable  (quick = 4)
	ds = append(ds, jdepth{Kind: "depth", BinMax: 20, Radius: 31, Order: 1, Bins: []jbin{{0, []bool{f, f, f, f}}, {1, []bool{t, t}}, {2, []bool{f, f, f, f}}}})
	// the same with quick = 1, and the skipped bin deeper
	ds = append(ds, jdepth{Kind: "depth", BinMax: 5, Radius: 31, Order: 2, Bins: []jbin{{0, []bool{f}}, {1, []bool{f, t}}, {2, []bool{t}}, {3, []bool{f, f}}, {4, []bool{f}}}})
	// bin 0 holding only unreachable peers; all unreachable; <= 3 peers; radius below depth; empty bin below
	ds = append(ds, jdepth{Kind: "depth", BinMax: 5, Radius: 31, Order: 3, Bins: []jbin{{0, []bool{t}}, {1, []bool{f, f}}, {2, []bool{f, f}}}})
	ds = append(ds, jdepth{Kind: "depth", BinMax: 5, Radius: 31, Order: 4, Bins: []jbin{{0, []bool{t, t}}, {1, []bool{t, t}}, {2, []bool{t}}}})
	ds = append(ds, jdepth{Kind: "depth", BinMax: 5, Radius: 31, Order: 5, Bins: []jbin{{0, []bool{f}}, {1, []bool{f}}, {2, []bool{f}}}})
	ds = append(ds, jdepth{Kind: "depth", BinMax: 5, Radius: 1, Order: 6, Bins: []jbin{{0, []bool{f}}, {1, []bool{f}}, {2, []bool{f}}, {3, []bool{f, f, f}}}})
	ds = append(ds, jdepth{Kind: "depth", BinMax: 5, Radius: 31, Order: 7, Bins: []jbin{{0, []bool{f}}, {2, []bool{f}}, {3, []bool{f, f, f}}}})
	// saturated all the way: depth limited by the nearest-neighbour candidate
	ds = append(ds, jdepth{Kind: "depth", BinMax: 10, Radius: 31, Order: 8, Bins: []jbin{{0, []bool{f, f}}, {1, []bool{f, f}}, {2, []bool{f, f}}, {3, []bool{f, f}}, {4, []bool{f}}, {20, []bool{f}}}})
	// F-depth-stale: 4 public peers in bins 0..3 (quick = 1) -> depth 1; then two of the deep ones turn private
	b := "a5a5a5a5a5a5a5a5"
	p := func(po, i int) string { return hx.Hex(addrAt(unhex(b), po, i)) }
	ev := []jevent{}
	for i, po := range []int{0, 1, 2, 3} {
		ev = append(ev, jevent{K: "conn", A: p(po, i+1)}, jevent{K: "reach", A: p(po, i+1), V: 1})
	}
	ev = append(ev, jevent{K: "reach", A: p(2, 3), V: 2}, jevent{K: "reach", A: p(3, 4), V: 0}, jevent{K: "disc", A: p(0, 1)}, jevent{K: "radius", V: 0}, jevent{K: "radius", V: 0}, jevent{K: "radius", V: 31})
	ks = append(ks, jkad{Kind: "kad", BinMax: 5, Base: b, Events: ev})
	return
}

func main() {
	run := hx.Start("C22", "Aurora.C22.Corr",
		"A: peer multisets over bins 0..31 (prefix of candidate bins around the quick-saturation number, empty bins, bins holding only unreachable peers, a few deep peers), random reachability 0..90%, radii 0..31/255, BinMaxPeers in {0,5,7,10,15,20,23,50}; each set connected in 3 orders (one with disconnect/reconnect churn); non-trivial = more than 3 peers; distinct by (quick, radius, per-bin (total, reachable)). B: real Kad, 15..55 events (Connected/Outbound/bootnode Outbound/Disconnected/Reachable public|private|unknown/SetRadius) over 10..22 peers; non-trivial = at least 3 event kinds; distinct by event list. C: two goroutines on one real Kad, a Reachable call parked (through Options.ReachabilityFunc) on the last predicate evaluation of its depth computation while the other goroutine runs Disconnected/Connected/SetRadius/Reachable calls; non-trivial = parked and the depth of the final set differs from the depth before")

	if run.Replay != "" {
		var probe struct {
			Kind string `json:"kind"`
		}
		if err := run.ReadReplay(&probe); err != nil {
			panic(err)
		}
		if probe.Kind == "conc" {
			var jc jconc
			_ = run.ReadReplay(&jc)
			doConc(run, jc)
		} else if probe.Kind == "kad" {
			var jc jkad
			_ = run.ReadReplay(&jc)
			doKad(run, jc)
		} else {
			var jc jdepth
			_ = run.ReadReplay(&jc)
			doDepth(run, jc)
		}
		run.Finish()
		return
	}

	ds, ks := corpus()
	for _, jc := range ds {
		doDepth(run, jc)
	}
	for _, jc := range ks {
		doKad(run, jc)
	}
	r := run.R
	for blk := 0; blk < run.N(16, 200); blk++ {
		binMax := r.Pick([]int{0, 5, 5, 7, 10, 10, 15, 20, 23, 50})
		for i := 0; i < 25; i++ {
			doDepth(run, genDepth(r, binMax))
		}
	}
	for i := 0; i < run.N(36, 600); i++ {
		doKad(run, genKad(r))
	}
	// C: forced interleavings of two depth writers
	for _, jc := range corpusConc() {
		doConc(run, jc)
	}
	for i := 0; i < run.N(24, 300); i++ {
		doConc(run, genConc(r))
	}
	run.Finish()
}
