// C22 harness, part C: two goroutines writing the depth of one real Kad, with the
// interleaving FORCED through Options.ReachabilityFunc (the predicate recalcDepth
// evaluates for every peer): a Kad.Reachable call is parked on the last predicate
// evaluation of its depth computation while a second goroutine runs
// Disconnected / Connected / SetRadius / Reachable calls.  In the code under
// test every depth writer recomputes and stores under depthMu, so the second
// goroutine blocks (detected by a bounded wait) until the first is released;
// whatever the order, once both have returned NeighborhoodDepth() must be the
// depth of the current peer set.
package main

import (
	"context"
	"fmt"
	"io"
	"sync"
	"time"

	"github.com/gauss-project/aurorafs/pkg/boson"
	"github.com/gauss-project/aurorafs/pkg/logging"
	"github.com/gauss-project/aurorafs/pkg/p2p"
	"github.com/gauss-project/aurorafs/pkg/shed"
	sldb "github.com/gauss-project/aurorafs/pkg/shed/leveldb"
	"github.com/gauss-project/aurorafs/pkg/topology/kademlia"
	"verifharness/hx"
)

type jconc struct {
	Kind   string   `json:"kind"` // "conc"
	BinMax int      `json:"bin_max"`
	Base   string   `json:"base"`
	Setup  []jevent `json:"setup"`
	T1     jevent   `json:"t1"` // the parked Reachable call
	T2     []jevent `json:"t2"` // the calls of the second goroutine
}

// hook: reachability predicate + scheduling point
type hook struct {
	mu      sync.Mutex
	status  map[string]int // last status announced for a peer (1 = public)
	mode    int            // 0 pass, 1 count, 2 armed
	calls   int
	target  int
	reached chan struct{}
	release chan struct{}
}

func (h *hook) filter(a boson.Address) bool {
	h.mu.Lock()
	st := h.status[a.ByteString()]
	fire := false
	switch h.mode {
	case 1:
		h.calls++
	case 2:
		h.calls++
		if h.calls == h.target {
			h.mode = 0
			fire = true
		}
	}
	h.mu.Unlock()
	if fire {
		close(h.reached)
		<-h.release
	}
	return st != 1
}

func (h *hook) set(a boson.Address, v int) {
	h.mu.Lock()
	h.status[a.ByteString()] = v
	h.mu.Unlock()
}

func newKadHook(base boson.Address, binMax int, h *hook) (*env, error) {
	registerOnce.Do(func() { shed.Register("leveldb", sldb.Driver{}) })
	db, err := shed.NewDB("", &shed.Options{Driver: "leveldb"})
	if err != nil {
		return nil, err
	}
	k, err := kademlia.New(base, abStub{}, discStub{}, p2pStub{}, nil, nil, nil, db, logging.New(io.Discard, 0), subStub{},
		kademlia.Options{NodeMode: fullMode(), BinMaxPeers: binMax, ReachabilityFunc: h.filter})
	if err != nil {
		return nil, err
	}
	return &env{kad: k, db: db}, nil
}

var statusNames = []string{"Unknown", "Public", "Private"}

// apply performs one event on the Kad (announcing the status to the hook first
// for a reachability event) and returns its Coq form.
func applyEvent(k *kademlia.Kad, h *hook, ev jevent, skipStatus bool) {
	a := boson.NewAddress(unhex(ev.A))
	switch ev.K {
	case "conn":
		if err := k.Connected(context.Background(), p2p.Peer{Address: a, Mode: fullMode()}, true); err != nil {
			panic("Connected: " + err.Error())
		}
	case "out":
		k.Outbound(p2p.Peer{Address: a, Mode: fullMode()})
	case "disc":
		k.Disconnected(p2p.Peer{Address: a, Mode: fullMode()}, "test")
	case "reach":
		if !skipStatus {
			h.set(a, ev.V)
		}
		k.Reachable(a, []p2p.ReachabilityStatus{p2p.ReachabilityStatusUnknown, p2p.ReachabilityStatusPublic, p2p.ReachabilityStatusPrivate}[ev.V])
	case "radius":
		k.SetRadius(uint8(ev.V))
	}
}

func coqEvent(ev jevent) string {
	a := unhex(ev.A)
	switch ev.K {
	case "conn":
		return hx.CoqApp("EConnected", hx.CoqBytes(a))
	case "out":
		return hx.CoqApp("EOutbound", hx.CoqBytes(a), "false")
	case "disc":
		return hx.CoqApp("EDisconnected", hx.CoqBytes(a))
	case "reach":
		return hx.CoqApp("EReachable", hx.CoqBytes(a), statusNames[ev.V])
	case "radius":
		return hx.CoqApp("ESetRadius", hx.CoqNat(ev.V))
	}
	panic("bad event " + ev.K)
}

func coqEvents(evs []jevent) string {
	el := make([]string, len(evs))
	for i, e := range evs {
		el[i] = coqEvent(e)
	}
	return hx.CoqList(el, "event")
}

func doConc(run *hx.Run, jc jconc) {
	h := &hook{status: map[string]int{}}
	base := boson.NewAddress(unhex(jc.Base))
	e, err := newKadHook(base, jc.BinMax, h)
	if err != nil {
		panic(err)
	}
	defer e.close()
	k := e.kad
	nn, quick := kademlia.VerifDepthThresholds()
	if p, msg := hx.Guard(func() {
		for _, ev := range jc.Setup {
			applyEvent(k, h, ev, false)
		}
	}); p {
		run.Violate(hx.Violation{Sig: "panic:kad:setup", Detail: msg, Case: jc})
		return
	}
	depthBefore := k.NeighborhoodDepth()

	// T1's status change is announced now: it is action (a) of its call
	t1a := boson.NewAddress(unhex(jc.T1.A))
	h.set(t1a, jc.T1.V)
	// how many predicate evaluations its depth computation will make
	_, radius := k.VerifDepthState()
	h.mu.Lock()
	h.mode, h.calls = 1, 0
	h.mu.Unlock()
	_ = kademlia.VerifDepthRecalc(k.ConnectedPeers(), radius, h.filter)
	h.mu.Lock()
	target := h.calls
	h.mode, h.calls = 0, 0
	h.mu.Unlock()

	steps := func(tid, n int) []string {
		s := make([]string, n)
		for i := range s {
			s[i] = hx.CoqPair(hx.CoqNat(tid), hx.CoqNat(0))
		}
		return s
	}
	var sched []string
	overtook := false
	if target == 0 {
		// nothing to park on (at most three peers): the two programs run one after the other
		run.Hist("C.sequential")
		if p, msg := hx.Guard(func() {
			applyEvent(k, h, jc.T1, true)
			for _, ev := range jc.T2 {
				applyEvent(k, h, ev, false)
			}
		}); p {
			run.Violate(hx.Violation{Sig: "panic:kad:conc", Detail: msg, Case: jc})
			return
		}
		sched = append(steps(0, 3), steps(1, 3*len(jc.T2)+3)...)
	} else {
		h.mu.Lock()
		h.mode, h.target = 2, target
		h.reached, h.release = make(chan struct{}), make(chan struct{})
		h.mu.Unlock()
		var pmsg [2]string
		done1, done2 := make(chan struct{}), make(chan struct{})
		go func() {
			defer close(done1)
			_, pmsg[0] = hx.Guard(func() { applyEvent(k, h, jc.T1, true) })
		}()
		select {
		case <-h.reached:
		case <-time.After(10 * time.Second):
			run.Violate(hx.Violation{Sig: "hang:reachable-never-evaluated-the-predicate", Detail: "the parked Reachable call did not reach its scheduling point", Case: jc})
			close(h.release)
			return
		}
		go func() {
			defer close(done2)
			_, pmsg[1] = hx.Guard(func() {
				for _, ev := range jc.T2 {
					applyEvent(k, h, ev, false)
				}
			})
		}()
		select {
		case <-done2:
			overtook = true // the second goroutine was not serialised behind the first
		case <-time.After(120 * time.Millisecond):
		}
		close(h.release)
		ok := hx.WithTimeout(20*time.Second, func() { <-done1; <-done2 })
		if !ok {
			run.Violate(hx.Violation{Sig: "hang:concurrent-depth-writers", Detail: "the two goroutines did not both return", Case: jc})
			return
		}
		if pmsg[0] != "" || pmsg[1] != "" {
			run.Violate(hx.Violation{Sig: "panic:kad:conc", Detail: pmsg[0] + pmsg[1], Case: jc})
			return
		}
		if overtook {
			run.Hist("C.second-goroutine-overtook")
		} else {
			run.Hist("C.second-goroutine-blocked-on-depthMu")
		}
		// T1: (a), lock | T2: (a) of its first call (or blocked), blocked | T1: store | T2 runs | padding
		sched = append(steps(0, 2), steps(1, 2)...)
		sched = append(sched, steps(0, 1)...)
		sched = append(sched, steps(1, 3*len(jc.T2)+3)...)
		sched = append(sched, steps(0, 3)...)
	}

	d := k.NeighborhoodDepth()
	_, radius = k.VerifDepthState()
	fresh := kademlia.VerifDepthRecalc(k.ConnectedPeers(), radius, h.filter)
	run.OracleChecked(2)
	run.Hist(fmt.Sprintf("C.depth %d->%d", depthBefore, fresh))
	if fresh != d {
		run.Violate(hx.Violation{Sig: "stored-depth-stale:after-concurrent-reachable", Detail: fmt.Sprintf("a Reachable call overlapped %d other call(s); after all returned NeighborhoodDepth()=%d, depth of the current set is %d (second goroutine overtook: %v)", len(jc.T2), d, fresh, overtook), Case: jc, Impl: d, Want: fresh})
	}
	counts := make([]binCount, boson.MaxBins)
	for b := 0; b < int(boson.MaxBins); b++ {
		for _, p := range k.ConnectedPeers().BinPeers(uint8(b)) {
			counts[b].tot++
			if !h.filter(p) {
				counts[b].reach++
			}
		}
	}
	if sig, det := checkDepth(counts, int(radius), int(d), quick); sig != "" {
		run.Violate(hx.Violation{Sig: sig + ":after-concurrent-reachable", Detail: det, Case: jc, Impl: d})
	}
	progs := hx.CoqList([]string{coqEvents([]jevent{jc.T1}), coqEvents(jc.T2)}, "list event")
	run.AddCase(hx.CoqApp("CConc", hx.CoqBytes(base.Bytes()), hx.CoqNat(nn), hx.CoqNat(quick), coqEvents(jc.Setup), progs,
		hx.CoqList(sched, "nat * nat"), hx.CoqNat(int(d))),
		jc, fmt.Sprintf("conc|%d|%s|%v|%v|%v", quick, jc.Base, jc.Setup, jc.T1, jc.T2), target > 0 && fresh != depthBefore)
}

func genConc(r *hx.Rand) jconc {
	base := r.Bytes(8)
	binMax := r.Pick([]int{5, 5, 5, 10, 20})
	quick := (binMax + 4) / 5
	jc := jconc{Kind: "conc", BinMax: binMax, Base: hx.Hex(base)}
	type peer struct {
		a   string
		bin int
	}
	var peers []peer
	idx := 1
	nb := 2 + r.Intn(3)
	for b := 0; b <= nb; b++ {
		n := quick + r.Intn(2)
		if b == nb {
			n = 1 + r.Intn(3)
		}
		for i := 0; i < n; i++ {
			p := peer{hx.Hex(addrAt(base, b, idx)), b}
			idx++
			peers = append(peers, p)
			jc.Setup = append(jc.Setup, jevent{K: []string{"conn", "out"}[r.Intn(2)], A: p.a})
			if r.Chance(7, 8) {
				jc.Setup = append(jc.Setup, jevent{K: "reach", A: p.a, V: 1})
			}
		}
	}
	if r.Chance(1, 3) {
		jc.Setup = append(jc.Setup, jevent{K: "radius", V: r.Pick([]int{1, 2, 3, 31})})
	}
	jc.T1 = jevent{K: "reach", A: peers[r.Intn(len(peers))].a, V: r.Pick([]int{1, 1, 1, 2, 0})}
	switch r.Intn(5) {
	case 0: // everything beyond bin 0 disconnects
		for _, p := range peers {
			if p.bin > 0 {
				jc.T2 = append(jc.T2, jevent{K: "disc", A: p.a})
			}
		}
	case 1: // all but three peers disconnect
		for _, p := range peers[3:] {
			jc.T2 = append(jc.T2, jevent{K: "disc", A: p.a})
		}
	case 2:
		jc.T2 = append(jc.T2, jevent{K: "radius", V: r.Pick([]int{0, 0, 1})})
	case 3: // the peers of one shallow bin turn private
		b := r.Intn(nb)
		for _, p := range peers {
			if p.bin == b {
				jc.T2 = append(jc.T2, jevent{K: "reach", A: p.a, V: 2})
			}
		}
	default:
		for i := 0; i < 1+r.Intn(4); i++ {
			p := peers[r.Intn(len(peers))]
			switch r.Intn(4) {
			case 0:
				jc.T2 = append(jc.T2, jevent{K: "disc", A: p.a})
			case 1:
				jc.T2 = append(jc.T2, jevent{K: "conn", A: hx.Hex(addrAt(base, r.Intn(nb+2), idx))}, jevent{K: "reach", A: hx.Hex(addrAt(base, 0, idx)), V: 1})
				idx++
			case 2:
				jc.T2 = append(jc.T2, jevent{K: "reach", A: p.a, V: r.Pick([]int{0, 1, 2})})
			default:
				jc.T2 = append(jc.T2, jevent{K: "radius", V: r.Pick([]int{0, 1, 2, 31})})
			}
		}
	}
	return jc
}

func corpusConc() []jconc {
	// the demo of seeded/C22-3: bins 0 and 1 hold 4 public peers, bin 2 holds 3 (quick 4): depth 2;
	// a Reachable call overlaps the disconnection of everything but three bin-0 peers: depth 0
	b := "a5a5a5a5a5a5a5a5"
	p := func(po, i int) string { return hx.Hex(addrAt(unhex(b), po, i)) }
	jc := jconc{Kind: "conc", BinMax: 20, Base: b}
	idx := 1
	var bins [3][]string
	for bin, n := range []int{4, 4, 3} {
		for i := 0; i < n; i++ {
			a := p(bin, idx)
			idx++
			bins[bin] = append(bins[bin], a)
			jc.Setup = append(jc.Setup, jevent{K: "conn", A: a}, jevent{K: "reach", A: a, V: 1})
		}
	}
	jc.T1 = jevent{K: "reach", A: bins[0][0], V: 1}
	for _, a := range append(append(append([]string{}, bins[2]...), bins[1]...), bins[0][3]) {
		jc.T2 = append(jc.T2, jevent{K: "disc", A: a})
	}
	// the same set, the overlapped call is SetRadius(0)
	jc2 := jc
	jc2.T2 = []jevent{{K: "radius", V: 0}}
	return []jconc{jc, jc2}
}
