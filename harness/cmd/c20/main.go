// C20 harness: boson.Proximity / ExtendedProximity / Distance / DistanceCmp / Closer.
package main

import (
	"encoding/hex"
	"fmt"
	"math/big"

	"github.com/gauss-project/aurorafs/pkg/boson"
	"verifharness/hx"
)

type jcase struct {
	Kind string `json:"kind"`
	A    string `json:"a,omitempty"`
	X    string `json:"x"`
	Y    string `json:"y"`
}

func lcpBits(x, y []byte) int {
	n := 0
	for i := range x {
		if i >= len(y) {
			break
		}
		d := x[i] ^ y[i]
		for j := 7; j >= 0; j-- {
			if d>>uint(j)&1 != 0 {
				return n
			}
			n++
		}
	}
	return n
}

func optN(ok bool, v uint64) string {
	if !ok {
		return "None"
	}
	return hx.CoqSome(hx.CoqN(v))
}

func main() {
	run := hx.Start("C20", "Aurora.C20.Corr",
		"pairs/triples of byte addresses: first differing bit swept over 0..47 with random tails, random pairs, lengths 0..40 and 255..257; non-trivial = equal-length pair inside the theorem's domain (4/5 <= len < 256) or a DistanceCmp/Closer triple of equal length; distinct by (kind, inputs)")
	r := run.R

	doProx := func(x, y []byte, ext bool) {
		kind := "prox"
		f := boson.Proximity
		maxpo := int(boson.MaxPO)
		if ext {
			kind, f, maxpo = "ext", boson.ExtendedProximity, int(boson.ExtendedPO)
		}
		var got uint8
		panicked, _ := hx.Guard(func() { got = f(x, y) })
		var got2 uint8
		p2, _ := hx.Guard(func() { got2 = f(y, x) })
		jc := jcase{Kind: kind, X: hx.Hex(x), Y: hx.Hex(y)}
		inDomain := len(x) == len(y) && len(x) < 256 && maxpo < 8*len(x)
		ctor := "CProx"
		if ext {
			ctor = "CExt"
		}
		run.AddCase(hx.CoqApp(ctor, hx.CoqBytes(x), hx.CoqBytes(y), optN(!panicked, uint64(got))), jc,
			fmt.Sprintf("%s|%x|%x", kind, x, y), inDomain)
		run.Hist(fmt.Sprintf("%s.len=%d", kind, len(x)/8*8))
		// oracle: the statement itself, on the implementation
		if inDomain {
			run.OracleChecked(2)
			want := lcpBits(x, y)
			if want > maxpo {
				want = maxpo
			}
			if panicked || int(got) != want {
				sig := kind + ":result!=min(lcp,cap)"
				if !panicked && int(got) > maxpo {
					sig = kind + ":result>cap"
				}
				run.Violate(hx.Violation{Sig: sig, Detail: fmt.Sprintf("%s(%x,%x) = %d (panic=%v), leading equal bits capped = %d", kind, x, y, got, panicked, want), Case: jc, Impl: got, Want: want})
			}
			if panicked != p2 || got != got2 {
				run.Violate(hx.Violation{Sig: kind + ":asymmetric", Detail: fmt.Sprintf("%s(x,y)=%d %s(y,x)=%d", kind, got, kind, got2), Case: jc, Impl: []uint8{got, got2}, Want: "equal"})
			}
		}
	}

	doCmp := func(a, x, y []byte) {
		jc := jcase{Kind: "cmp", A: hx.Hex(a), X: hx.Hex(x), Y: hx.Hex(y)}
		var c int
		var err error
		if p, msg := hx.Guard(func() { c, err = boson.DistanceCmp(a, x, y) }); p {
			run.Violate(hx.Violation{Sig: "cmp:panic", Detail: "DistanceCmp panicked: " + msg, Case: jc})
			run.AddCase("", jc, fmt.Sprintf("cmp|%x|%x|%x", a, x, y), false)
			return
		}
		obs := "None"
		if err == nil {
			obs = hx.CoqSome(hx.CoqZ(int64(c)))
		}
		eq := len(a) == len(x) && len(a) == len(y)
		run.AddCase(hx.CoqApp("CCmp", hx.CoqBytes(a), hx.CoqBytes(x), hx.CoqBytes(y), obs), jc, fmt.Sprintf("cmp|%x|%x|%x", a, x, y), eq && len(a) > 0)
		run.Hist(fmt.Sprintf("cmp.len=%d", len(a)/8*8))
		// Closer: a.Closer(x, y) == DistanceCmp(x, a, y) == 1
		var cl bool
		var cerr error
		if p, msg := hx.Guard(func() { cl, cerr = boson.NewAddress(a).Closer(boson.NewAddress(x), boson.NewAddress(y)) }); p {
			run.Violate(hx.Violation{Sig: "closer:panic", Detail: "Closer panicked: " + msg, Case: jc})
			return
		}
		cobs := "None"
		if cerr == nil {
			cobs = hx.CoqSome(hx.CoqBool(cl))
		}
		run.AddCase(hx.CoqApp("CCloser", hx.CoqBytes(a), hx.CoqBytes(x), hx.CoqBytes(y), cobs), jcase{Kind: "closer", A: hx.Hex(a), X: hx.Hex(x), Y: hx.Hex(y)}, fmt.Sprintf("closer|%x|%x|%x", a, x, y), eq && len(a) > 0)
		if eq {
			run.OracleChecked(2)
			dx, e1 := boson.Distance(x, a)
			dy, e2 := boson.Distance(y, a)
			if e1 != nil || e2 != nil || err != nil {
				run.Violate(hx.Violation{Sig: "cmp:error-on-equal-length", Detail: "error on equal lengths", Case: jc})
				return
			}
			// independent big-integer view
			bx := new(big.Int).SetBytes(xorb(x, a))
			by := new(big.Int).SetBytes(xorb(y, a))
			if dx.Cmp(bx) != 0 || dy.Cmp(by) != 0 {
				run.Violate(hx.Violation{Sig: "distance:not-xor-bigint", Detail: "Distance differs from big-endian xor", Case: jc})
			}
			want := -bx.Cmp(by) // 1 if x closer
			if c != want {
				run.Violate(hx.Violation{Sig: "cmp:disagrees-with-bigint-order", Detail: fmt.Sprintf("DistanceCmp=%d, bigint order says %d", c, want), Case: jc, Impl: c, Want: want})
			}
			// Closer(a; x, y): a closer to x than y is: d(a,x) < d(y,x)
			wa := new(big.Int).SetBytes(xorb(a, x)).Cmp(new(big.Int).SetBytes(xorb(y, x))) < 0
			if cerr != nil || cl != wa {
				run.Violate(hx.Violation{Sig: "closer:disagrees-with-bigint-order", Detail: fmt.Sprintf("Closer=%v want %v", cl, wa), Case: jc, Impl: cl, Want: wa})
			}
		} else if err == nil {
			run.Violate(hx.Violation{Sig: "cmp:no-error-on-length-mismatch", Detail: "no error on length mismatch", Case: jc})
		}
	}

	if run.Replay != "" {
		var jc jcase
		if err := run.ReadReplay(&jc); err != nil {
			panic(err)
		}
		a, x, y := unhex(jc.A), unhex(jc.X), unhex(jc.Y)
		switch jc.Kind {
		case "prox":
			doProx(x, y, false)
		case "ext":
			doProx(x, y, true)
		default:
			doCmp(a, x, y)
		}
		run.Finish()
		return
	}

	// 1. first differing bit sweep
	tails := run.N(4, 16)
	for bit := 0; bit < 48; bit++ {
		for t := 0; t < tails; t++ {
			n := 32
			if t%4 == 3 {
				n = 6 + r.Intn(30)
			}
			x := r.Bytes(n)
			y := append([]byte{}, x...)
			y[bit/8] ^= 0x80 >> uint(bit%8)
			for k := bit + 1; k < 8*n; k++ { // random tail after the first differing bit
				if r.Bool() {
					y[k/8] ^= 0x80 >> uint(k%8)
				}
			}
			doProx(x, y, false)
			doProx(x, y, true)
		}
	}
	// 2. identical, short, long, unequal lengths
	for _, n := range []int{0, 1, 2, 3, 4, 5, 6, 31, 32, 33, 40, 255, 256, 257} {
		x := r.Bytes(n)
		doProx(x, append([]byte{}, x...), false)
		doProx(x, append([]byte{}, x...), true)
		y := r.Bytes(n)
		doProx(x, y, false)
		doProx(x, y, true)
		if n > 0 {
			z := r.Bytes(r.Intn(n))
			doProx(x, z, false)
			doProx(z, x, true)
		}
	}
	// 3. random pairs sharing a random prefix
	for i := 0; i < run.N(150, 3000); i++ {
		n := r.Intn(41)
		x := r.Bytes(n)
		y := r.Bytes(n)
		if n > 0 {
			copy(y, x[:r.Intn(n+1)])
		}
		doProx(x, y, r.Bool())
	}
	// 4. DistanceCmp / Closer triples
	for i := 0; i < run.N(200, 3000); i++ {
		n := r.Pick([]int{0, 1, 2, 3, 8, 32, 32, 32, 40})
		a, x, y := r.Bytes(n), r.Bytes(n), r.Bytes(n)
		if n > 0 {
			k := r.Intn(n + 1)
			copy(x, a[:k])
			copy(y, x[:r.Intn(n+1)])
		}
		switch r.Intn(12) {
		case 0:
			y = append([]byte{}, x...)
		case 1:
			y = r.Bytes(n + 1)
		case 2:
			a = r.Bytes(r.Intn(n + 1))
		}
		doCmp(a, x, y)
	}
	// 5. DistanceCmp / Closer with controlled common-prefix lengths: x and y first differ from a
	//    at bits px and py (swept, |px-py| <= 1, across the MaxPO/ExtendedPO boundaries), random or equal tails
	flip := func(b []byte, bit int) {
		if bit >= 0 && bit < 8*len(b) {
			b[bit/8] ^= 0x80 >> uint(bit%8)
		}
	}
	for px := 0; px < 48; px++ {
		for _, py := range []int{px - 1, px, px + 1, px + 4, 300} {
			for rep := 0; rep < run.N(1, 4); rep++ {
				a := r.Bytes(32)
				x := append([]byte{}, a...)
				y := append([]byte{}, a...)
				flip(x, px)
				flip(y, py)
				tail := r.Bytes(32)
				for k := 0; k < 8*32; k++ {
					if tail[k/8]&(0x80>>uint(k%8)) == 0 {
						continue
					}
					if k > px && (rep%2 == 0 || r.Bool()) {
						flip(x, k)
					}
					if k > py && k > px && (rep%2 == 0 || r.Bool()) { // rep even: equal tails beyond both bits
						flip(y, k)
					}
				}
				doCmp(a, x, y)
			}
		}
	}
	run.Finish()
}

func xorb(x, y []byte) []byte {
	c := make([]byte, len(x))
	for i := range x {
		c[i] = x[i] ^ y[i]
	}
	return c
}

func unhex(s string) []byte {
	b, _ := hex.DecodeString(s)
	return b
}
