// C26 harness: pkg/blocker. A real Blocker is built by the real constructor
// (hook VerifNew stops the two background loops), sequencer ticks and blocking
// sweeps are run synchronously (VerifTick / VerifSweep) against a recording
// Blocklister; a second part runs the real background loops under real time.
package main

import (
	"encoding/hex"
	"errors"
	"fmt"
	"io"
	"math/big"
	"sort"
	"strconv"
	"sync"
	"time"

	"github.com/gauss-project/aurorafs/pkg/blocker"
	"github.com/gauss-project/aurorafs/pkg/boson"
	"github.com/gauss-project/aurorafs/pkg/logging"
	"github.com/gauss-project/aurorafs/pkg/p2p"
	"verifharness/hx"
)

type jev struct {
	Kind string `json:"k"` // tick | flag | unflag | prune | sweep | sweepticks
	I    int    `json:"i,omitempty"`
	A    bool   `json:"a,omitempty"`    // NetworkStatus() == Available at the time of the call
	Seen []int  `json:"seen,omitempty"` // prune
	N    int    `json:"n,omitempty"`    // sweepticks: ticks to run inside the sweep (one after each Blocklist call)
	Fail bool   `json:"fail,omitempty"` // Blocklist returns an error during this sweep
}
type jcase struct {
	Kind string   `json:"kind"` // hist | new | live
	Ft   int64    `json:"ft"`
	Res  int64    `json:"res"`
	Wake int64    `json:"wake,omitempty"`
	Seq0 string   `json:"seq0,omitempty"`
	Pool []string `json:"pool,omitempty"`
	Evs  []jev    `json:"evs,omitempty"`
	Op   string   `json:"op,omitempty"`   // gate: unflag | prune | reflag
	Real bool     `json:"real,omitempty"` // gate: real background loops (else VerifSweep in a goroutine)
	NDue int      `json:"ndue,omitempty"` // gate: number of peers due in the sweep
}

const blockDur = 3600 * time.Second

type call struct {
	addr string
	dur  time.Duration
	at   time.Time
}

// recorder implements p2p.Blocklister.
type recorder struct {
	mu      sync.Mutex
	status  p2p.NetworkStatus
	calls   []call
	cb      []string
	fail    bool
	onBlock func()
}

func (r *recorder) NetworkStatus() p2p.NetworkStatus {
	r.mu.Lock()
	defer r.mu.Unlock()
	return r.status
}
func (r *recorder) setAvail(a bool) {
	r.mu.Lock()
	defer r.mu.Unlock()
	if a {
		r.status = p2p.NetworkStatusAvailable
	} else {
		r.status = p2p.NetworkStatusUnavailable
	}
}
func (r *recorder) Blocklist(a boson.Address, d time.Duration, reason string) error {
	r.mu.Lock()
	r.calls = append(r.calls, call{hx.Hex(a.Bytes()), d, time.Now()})
	f, fail := r.onBlock, r.fail
	r.mu.Unlock()
	if f != nil {
		f()
	}
	if fail {
		return errors.New("blocklist failed")
	}
	return nil
}
func (r *recorder) callback(a boson.Address) {
	r.mu.Lock()
	defer r.mu.Unlock()
	r.cb = append(r.cb, hx.Hex(a.Bytes()))
}
func (r *recorder) take() ([]call, []string) {
	r.mu.Lock()
	defer r.mu.Unlock()
	c, cb := r.calls, r.cb
	r.calls, r.cb = nil, nil
	return c, cb
}

func unhex(s string) []byte { b, _ := hex.DecodeString(s); return b }
func addrOf(s string) boson.Address { return boson.NewAddress(unhex(s)) }

var logger = logging.New(io.Discard, 0)

func coqNatList(xs []int) string {
	el := make([]string, len(xs))
	for i, x := range xs {
		el[i] = hx.CoqNat(x)
	}
	return hx.CoqList(el, "nat")
}

// ------------------------------------------------------------ constructor cases
func runNew(run *hx.Run, jc jcase) {
	prev := blocker.VerifSetResolution(time.Duration(jc.Res))
	defer blocker.VerifSetResolution(prev)
	rec := &recorder{status: p2p.NetworkStatusUnavailable}
	var b *blocker.Blocker
	panicked, _ := hx.Guard(func() { b = blocker.New(rec, time.Duration(jc.Ft), blockDur, time.Duration(jc.Wake), nil, logger) })
	if b != nil {
		_ = b.Close()
	}
	// oracle: the documented contract of New
	want := jc.Ft <= jc.Res || jc.Wake < jc.Res
	run.OracleChecked(1)
	if panicked != want {
		run.Violate(hx.Violation{Sig: "new:argument-validation", Detail: fmt.Sprintf("New(flagTimeout=%d, wakeUp=%d) with resolution %d: panicked=%v", jc.Ft, jc.Wake, jc.Res, panicked), Case: jc, Impl: panicked, Want: want})
	}
	run.AddCase(hx.CoqApp("CNew", hx.CoqZ(jc.Ft), hx.CoqZ(jc.Res), hx.CoqZ(jc.Wake), hx.CoqBool(panicked)), jc, fmt.Sprintf("%v", jc), panicked)
	run.Hist("kind.new")
}

// ------------------------------------------------------------ history cases

// reference of the property statement: per flagged peer the number of
// sequencer iterations that saw the network available since the flag period
// began; ended records why a peer is not in a flag period.
type refState struct {
	count map[string]uint64
	ended map[string]string
}

func (r *refState) timedOut(a string, ft, res int64, extra uint64) bool {
	n, ok := r.count[a]
	if !ok {
		return false
	}
	lhs := new(big.Int).Mul(new(big.Int).SetUint64(n+extra), big.NewInt(res))
	return lhs.Cmp(big.NewInt(ft)) > 0
}

func runHist(run *hx.Run, jc jcase) {
	prev := blocker.VerifSetResolution(time.Duration(jc.Res))
	defer blocker.VerifSetResolution(prev)
	rec := &recorder{status: p2p.NetworkStatusUnavailable}
	seen := map[string]bool{}
	viol := func(sig, detail string, impl, want interface{}) {
		if seen[sig] {
			return
		}
		seen[sig] = true
		run.Violate(hx.Violation{Sig: sig, Detail: detail, Case: jc, Impl: impl, Want: want})
	}
	var b *blocker.Blocker
	if p, msg := hx.Guard(func() {
		b = blocker.VerifNew(rec, time.Duration(jc.Ft), blockDur, rec.callback, logger)
	}); p {
		viol("new:panic-on-accepted-arguments", msg, "panic", nil)
		return
	}
	seq0, _ := strconv.ParseUint(jc.Seq0, 10, 64)
	b.VerifSetSequence(seq0)
	idx := map[string]int{}
	for i, a := range jc.Pool {
		idx[a] = i
	}
	// oracle domain: the uint64 sequence does not wrap
	T := uint64(jc.Ft / jc.Res)
	inDomain := seq0 == 0 && T < 1<<62
	if !inDomain {
		run.Hist("outside-no-wrap-domain")
	}
	ref := refState{count: map[string]uint64{}, ended: map[string]string{}}
	var coq []string
	blockedTotal := 0

	sortedIdx := func(addrs []string) []int {
		s := append([]string{}, addrs...)
		sort.Strings(s)
		out := make([]int, len(s))
		for i, a := range s {
			out[i] = idx[a]
		}
		return out
	}

	for _, e := range jc.Evs {
		run.Hist("ev." + e.Kind)
		var ev string
		ticksDone := 0
		var before map[string]bool // due before the sweep (reference)
		switch e.Kind {
		case "tick":
			rec.setAvail(e.A)
			b.VerifTick()
			ev = hx.CoqApp("ITick", hx.CoqBool(e.A))
			if e.A {
				for a := range ref.count {
					ref.count[a]++
				}
			}
		case "flag":
			rec.setAvail(e.A)
			b.Flag(addrOf(jc.Pool[e.I]))
			ev = hx.CoqApp("IFlag", hx.CoqNat(e.I), hx.CoqBool(e.A))
			if _, ok := ref.count[jc.Pool[e.I]]; !ok && e.A {
				ref.count[jc.Pool[e.I]] = 0
			}
		case "unflag":
			b.Unflag(addrOf(jc.Pool[e.I]))
			ev = hx.CoqApp("IUnflag", hx.CoqNat(e.I))
			if _, ok := ref.count[jc.Pool[e.I]]; ok {
				delete(ref.count, jc.Pool[e.I])
			}
			ref.ended[jc.Pool[e.I]] = "after-unflag"
		case "prune":
			var sl []boson.Address
			keep := map[string]bool{}
			for _, i := range e.Seen {
				sl = append(sl, addrOf(jc.Pool[i]))
				keep[jc.Pool[i]] = true
			}
			b.PruneUnseen(sl)
			ev = hx.CoqApp("IPrune", coqNatList(e.Seen))
			for a := range ref.count {
				if !keep[a] {
					delete(ref.count, a)
					ref.ended[a] = "after-prune"
				}
			}
		case "sweep", "sweepticks":
			before = map[string]bool{}
			for a := range ref.count {
				if ref.timedOut(a, jc.Ft, jc.Res, 0) {
					before[a] = true
				}
			}
			rec.mu.Lock()
			rec.fail = e.Fail
			rec.onBlock = nil
			if e.Kind == "sweepticks" {
				budget := e.N
				rec.onBlock = func() { // runs inside block(), between two iterations of its loop
					if budget > 0 {
						budget--
						ticksDone++
						b.VerifTick()
					}
				}
			}
			rec.mu.Unlock()
			rec.setAvail(true)
			if !hx.WithTimeout(20*time.Second, func() { b.VerifSweep() }) {
				viol("sweep:hang", "VerifSweep did not return in 20s", "hang", nil)
				return
			}
			rec.mu.Lock()
			rec.onBlock, rec.fail = nil, false
			rec.mu.Unlock()
		}
		calls, cbs := rec.take()
		var blocked []string
		for _, c := range calls {
			blocked = append(blocked, c.addr)
			if c.dur != blockDur {
				viol("blocklist:wrong-duration", fmt.Sprintf("Blocklist(%s, %v), configured %v", c.addr, c.dur, blockDur), c.dur, blockDur)
			}
		}
		if fmt.Sprint(blocked) != fmt.Sprint(cbs) {
			viol("callback:differs-from-blocklist-calls", fmt.Sprintf("blocklist calls %v, callbacks %v", blocked, cbs), cbs, blocked)
		}
		blockedTotal += len(blocked)
		if e.Kind == "sweepticks" {
			ev = hx.CoqApp("ISweepTicks", hx.CoqNat(ticksDone))
			run.HistN("in-sweep-ticks", ticksDone)
		} else if e.Kind == "sweep" {
			ev = "ISweep"
		}
		coq = append(coq, hx.CoqPair(ev, coqNatList(sortedIdx(blocked))))

		// ---- oracle on what the implementation did at this event
		if inDomain {
			run.OracleChecked(1 + len(blocked))
			dup := map[string]bool{}
			for _, a := range blocked {
				if dup[a] {
					viol("blocked:twice-in-one-flag-period", fmt.Sprintf("%s blocklisted twice by one sweep", a), blocked, "once")
				}
				dup[a] = true
			}
			if before == nil {
				if len(blocked) > 0 {
					viol("blocked:outside-a-sweep", fmt.Sprintf("event %s blocklisted %v", e.Kind, blocked), blocked, nil)
				}
			} else {
				if ticksDone > 0 {
					for a := range ref.count {
						ref.count[a] += uint64(ticksDone)
					}
				}
				for _, a := range blocked {
					if _, ok := ref.count[a]; !ok {
						why := ref.ended[a]
						if why == "" {
							why = "never-flagged"
						}
						viol("blocked:peer-not-flagged:"+why, fmt.Sprintf("%s blocklisted while not in a flag period (%s)", a, why), a, nil)
					} else if !ref.timedOut(a, jc.Ft, jc.Res, 0) {
						viol("blocked:before-flag-timeout", fmt.Sprintf("%s blocklisted after %d available ticks of %dns, flag timeout %dns", a, ref.count[a], jc.Res, jc.Ft), ref.count[a], "count*resolution > flagTimeout")
					}
				}
				for a := range before {
					if !dup[a] {
						viol("not-blocked:after-flag-timeout", fmt.Sprintf("%s flagged for %d available ticks of %dns (> flag timeout %dns) not blocklisted by the sweep", a, ref.count[a], jc.Res, jc.Ft), blocked, a)
					}
				}
				if ticksDone == 0 {
					for a := range ref.count {
						if ref.timedOut(a, jc.Ft, jc.Res, 0) && !dup[a] && !before[a] {
							viol("not-blocked:after-flag-timeout", a, blocked, a)
						}
					}
				}
				for _, a := range blocked {
					delete(ref.count, a)
					ref.ended[a] = "after-blocklisting"
				}
			}
		}
	}
	// final observation
	fl := b.VerifFlagged()
	var keys []string
	for k := range fl {
		keys = append(keys, hx.Hex([]byte(k)))
	}
	sort.Strings(keys)
	fm := make([]string, len(keys))
	for i, k := range keys {
		fm[i] = hx.CoqPair(hx.CoqNat(idx[k]), hx.CoqN(fl[string(unhex(k))]))
	}
	pool := make([][]byte, len(jc.Pool))
	for i, a := range jc.Pool {
		pool[i] = unhex(a)
	}
	term := hx.CoqApp("CHist", hx.CoqZ(jc.Ft), hx.CoqZ(jc.Res), hx.CoqN(seq0), hx.CoqBytesList(pool),
		hx.CoqList(coq, "iev * list nat"), hx.CoqN(b.VerifSequence()), hx.CoqList(fm, "nat * N"))
	run.AddCase(term, jc, fmt.Sprintf("%v", jc), blockedTotal > 0)
	run.Hist("kind.hist")
	run.HistN("blocklistings", blockedTotal)
}

// ------------------------------------------------------------ the real loops under real time
// availability windows of the live recorder, measured conservatively: a
// window opens BEFORE the status is switched to available and closes AFTER
// the switch to unavailable has returned, so every sequencer iteration that
// read "available" lies inside a window.
type window struct{ from, to time.Time } // to.IsZero(): still open

type liveNet struct {
	rec  *recorder
	mu   sync.Mutex
	wins []window
}

func (l *liveNet) set(avail bool) {
	l.mu.Lock()
	defer l.mu.Unlock()
	open := len(l.wins) > 0 && l.wins[len(l.wins)-1].to.IsZero()
	if avail && !open {
		l.wins = append(l.wins, window{from: time.Now()})
		l.rec.setAvail(true)
	} else if !avail && open {
		l.rec.setAvail(false)
		l.wins[len(l.wins)-1].to = time.Now()
	}
}

// maxTicks bounds the number of sequencer iterations that can have seen the
// network available between from and to: an iteration takes at least one
// resolution (time.After never fires early), so a window of length w holds at
// most floor(w/res)+1 of them.
func (l *liveNet) maxTicks(from, to time.Time, res time.Duration) uint64 {
	l.mu.Lock()
	defer l.mu.Unlock()
	var n uint64
	for _, w := range l.wins {
		a, b := w.from, w.to
		if b.IsZero() || b.After(to) {
			b = to
		}
		if a.Before(from) {
			a = from
		}
		if b.Before(a) {
			continue
		}
		n += uint64(b.Sub(a)/res) + 1
	}
	return n
}

func runLive(run *hx.Run, jc jcase) {
	res := time.Duration(jc.Res)
	ft := time.Duration(jc.Ft)
	T := uint64(ft / res)
	prev := blocker.VerifSetResolution(res)
	defer blocker.VerifSetResolution(prev)
	rec := &recorder{status: p2p.NetworkStatusUnavailable}
	net := &liveNet{rec: rec}
	seen := map[string]bool{}
	viol := func(sig, detail string) {
		if !seen[sig] {
			seen[sig] = true
			run.Violate(hx.Violation{Sig: sig, Detail: detail, Case: jc})
		}
	}
	tNew := time.Now()
	net.set(true)
	b := blocker.New(rec, ft, blockDur, res, rec.callback, logger)
	defer b.Close()
	count := func(a string) (n int, first time.Time) {
		rec.mu.Lock()
		defer rec.mu.Unlock()
		for _, c := range rec.calls {
			if c.addr == a {
				if n == 0 {
					first = c.at
				}
				n++
			}
		}
		return
	}
	// the monotonic sequence counts only iterations that saw the network
	// available: it can never exceed what the available windows can hold
	checkSeq := func(where string) {
		s := b.VerifSequence() // read first, clock afterwards: conservative
		now := time.Now()
		run.OracleChecked(1)
		if max := net.maxTicks(tNew, now, res); s > max {
			viol("live:sequence-exceeds-available-time", fmt.Sprintf("%s: sequence %d, but the network was available for at most %d iterations of %v", where, s, max, res))
		}
	}
	waitFor := func(a string, d time.Duration) bool {
		dl := time.Now().Add(d)
		for time.Now().Before(dl) {
			checkSeq("while waiting")
			if n, _ := count(a); n > 0 {
				return true
			}
			time.Sleep(res / 2)
		}
		return false
	}
	// a blocklisting needs more than T iterations that saw the network available since the flag
	checkBlockTime := func(a string, flaggedAt time.Time) {
		n, at := count(a)
		if n == 0 {
			return
		}
		run.OracleChecked(1)
		if max := net.maxTicks(flaggedAt, at, res); max < T+1 {
			viol("live:blocked-before-flag-timeout", fmt.Sprintf("blocklisted %v after the flag; in between the network was available for at most %d iterations of %v, the flag timeout %v needs %d", at.Sub(flaggedAt), max, res, ft, T+1))
		}
	}
	p, q, r, u := jc.Pool[0], jc.Pool[1], jc.Pool[2], jc.Pool[3]
	outage := 12 * time.Duration(T+1) * res // more than 5x the flag timeout

	// 1. flagged and never succeeding: blocklisted, not too early, exactly once
	t0 := time.Now()
	b.Flag(addrOf(p))
	run.OracleChecked(6)
	if !waitFor(p, 20*time.Second) {
		viol("live:not-blocked-after-flag-timeout", "flagged peer not blocklisted within 20s")
	}
	checkBlockTime(p, t0)
	// 2. flagged, then an outage longer than the flag timeout, then recovery:
	//    the outage must not count
	tq := time.Now()
	b.Flag(addrOf(q))
	net.set(false)
	s1 := b.VerifSequence()
	deadline, stillFlagged := b.VerifFlagged()[string(unhex(q))]
	b.Flag(addrOf(u)) // no effect while unavailable
	time.Sleep(outage)
	// at most the one iteration that had read "available" before the switch may still count
	if s2 := b.VerifSequence(); s2 > s1+1 {
		viol("live:sequence-advanced-while-network-unavailable", fmt.Sprintf("sequence %d -> %d while unavailable", s1, s2))
	}
	if n, _ := count(q); n > 0 && stillFlagged && deadline >= s1+1 {
		viol("live:blocked-while-network-unavailable", "peer blocklisted although fewer than timeout ticks saw the network available")
	}
	checkSeq("end of outage")
	net.set(true)
	if !waitFor(q, 20*time.Second) {
		viol("live:not-blocked-after-flag-timeout", "flagged peer not blocklisted within 20s after the network came back")
	}
	checkBlockTime(q, tq)
	checkSeq("after recovery")
	// 3. success before the timeout; 4. pruned as unseen
	b.Flag(addrOf(r))
	b.Unflag(addrOf(r))
	b.Flag(addrOf(jc.Pool[4]))
	b.PruneUnseen([]boson.Address{addrOf(p)})
	time.Sleep(outage / 2)
	checkSeq("end")
	if n, _ := count(r); n > 0 {
		viol("live:blocked-after-unflag", "peer blocklisted after Unflag")
	}
	if n, _ := count(jc.Pool[4]); n > 0 {
		viol("live:blocked-after-prune", "peer blocklisted after being pruned as unseen")
	}
	if n, _ := count(u); n > 0 {
		viol("live:blocked-flag-while-unavailable", "peer flagged while the network was unavailable got blocklisted")
	}
	for _, a := range []string{p, q} {
		if n, _ := count(a); n > 1 {
			viol("live:blocked-twice-in-one-flag-period", fmt.Sprintf("%d blocklistings for one flag period", n))
		}
	}
	run.AddCase("", jc, fmt.Sprintf("%v", jc), true)
	run.Hist("kind.live")
}

// ------------------------------------------------------------ schedules inside a sweep
// gateBL is a Blocklister whose first Blocklist call of a case blocks until
// released; every call and every "API call returned" is appended to one log
// under one mutex, so the log order is consistent with happens-before.
type logEnt struct{ kind, addr string }
type gateBL struct {
	mu      sync.Mutex
	log     []logEnt
	gated   bool
	entered chan string
	release chan struct{}
}

func (g *gateBL) NetworkStatus() p2p.NetworkStatus { return p2p.NetworkStatusAvailable }
func (g *gateBL) note(kind, addr string) {
	g.mu.Lock()
	g.log = append(g.log, logEnt{kind, addr})
	g.mu.Unlock()
}
func (g *gateBL) Blocklist(a boson.Address, d time.Duration, reason string) error {
	h := hx.Hex(a.Bytes())
	g.mu.Lock()
	g.log = append(g.log, logEnt{"blocklist", h})
	first := !g.gated
	g.gated = true
	g.mu.Unlock()
	if first {
		g.entered <- h
		<-g.release
	}
	return nil
}

const gateWait = 150 * time.Millisecond

// runGate: several peers are due; the sweep (real block(), through VerifSweep
// in a goroutine or through the real sweep loop) is held inside the Blocklist
// call for the first of them; meanwhile another goroutine calls Unflag /
// PruneUnseen / Unflag+Flag for ANOTHER due peer and the harness waits a
// bounded time for it to return (at HEAD it blocks on the mutex until the
// sweep is over), then lets the sweep go on. Whatever the order, no Blocklist
// call for that peer may be logged after its Unflag/PruneUnseen returned.
func runGate(run *hx.Run, jc jcase) {
	res, ft := time.Duration(jc.Res), time.Duration(jc.Ft)
	T := int(ft / res)
	prev := blocker.VerifSetResolution(res)
	defer blocker.VerifSetResolution(prev)
	g := &gateBL{entered: make(chan string, 1), release: make(chan struct{})}
	seen := map[string]bool{}
	viol := func(sig, detail string) {
		if !seen[sig] {
			seen[sig] = true
			run.Violate(hx.Violation{Sig: sig, Detail: detail, Case: jc})
		}
	}
	due := jc.Pool[:jc.NDue]
	notDue := jc.Pool[jc.NDue]
	var b *blocker.Blocker
	sweepDone := make(chan struct{})
	if jc.Real {
		b = blocker.New(g, ft, blockDur, res, nil, logger)
		for _, a := range due {
			b.Flag(addrOf(a))
		}
	} else {
		b = blocker.VerifNew(g, ft, blockDur, nil, logger)
		for _, a := range due {
			b.Flag(addrOf(a))
		}
		b.VerifTick()
		b.Flag(addrOf(notDue))
		for i := 0; i < T; i++ {
			b.VerifTick()
		}
		go func() { b.VerifSweep(); close(sweepDone) }()
	}
	var X string
	select {
	case X = <-g.entered:
	case <-time.After(20 * time.Second):
		viol("sweep-race:no-blocklisting-of-due-peers", "no Blocklist call within 20s although peers are due")
		close(g.release)
		if jc.Real {
			_ = b.Close()
		}
		run.AddCase("", jc, fmt.Sprintf("%v", jc), false)
		return
	}
	Y := due[0]
	if Y == X {
		Y = due[1]
	}
	opDone := make(chan struct{})
	go func() {
		switch jc.Op {
		case "prune":
			var keep []boson.Address
			for _, a := range jc.Pool {
				if a != Y {
					keep = append(keep, addrOf(a))
				}
			}
			b.PruneUnseen(keep)
			g.note("returned", Y)
		case "reflag":
			b.Unflag(addrOf(Y))
			g.note("returned", Y)
			b.Flag(addrOf(Y))
			g.note("reflagged", Y)
		default:
			b.Unflag(addrOf(Y))
			g.note("returned", Y)
		}
		close(opDone)
	}()
	order := "sweep-finished-first"
	select {
	case <-opDone:
		order = "api-call-returned-inside-the-sweep"
	case <-time.After(gateWait):
	}
	close(g.release)
	ok := true
	if !jc.Real {
		ok = hx.WithTimeout(20*time.Second, func() { <-sweepDone })
	}
	ok = hx.WithTimeout(20*time.Second, func() { <-opDone }) && ok
	if !ok {
		viol("sweep-race:hang", "sweep or API call did not finish within 20s after the gate was released")
	}
	if jc.Real {
		time.Sleep(20 * res)
		_ = b.Close()
	}
	run.Hist("gate." + order)
	run.Hist("gate.op=" + jc.Op)
	// ---- oracle on the log
	g.mu.Lock()
	log := append([]logEnt{}, g.log...)
	g.mu.Unlock()
	returned := false
	calls := map[string]int{}
	for _, e := range log {
		switch e.kind {
		case "returned":
			returned = true
		case "blocklist":
			calls[e.addr]++
			run.OracleChecked(1)
			if e.addr == Y && returned {
				viol("sweep-race:blocklisted-after-"+jc.Op+"-returned", fmt.Sprintf("Blocklist(%s) was called after %s of that peer had returned (sweep held in Blocklist(%s)); log %v", Y, jc.Op, X, log))
			}
		}
	}
	run.OracleChecked(len(due) + 2)
	for _, a := range due {
		if a != Y && calls[a] != 1 && !jc.Real {
			viol("sweep-race:due-peer-not-blocklisted-once", fmt.Sprintf("%s blocklisted %d times", a, calls[a]))
		}
		if calls[a] > 1 {
			viol("blocked:twice-in-one-flag-period", fmt.Sprintf("%s blocklisted %d times", a, calls[a]))
		}
	}
	if !jc.Real && calls[notDue] > 0 {
		viol("blocked:before-flag-timeout", "peer flagged one tick later was blocklisted by the same sweep")
	}
	if jc.Op == "reflag" {
		// Flag returned after every Unflag, the network was available, nothing ended the new period
		if _, ok := b.VerifFlagged()[string(unhex(Y))]; !ok {
			viol("sweep-race:reflag-lost", fmt.Sprintf("%s was flagged again after its Unflag, no Unflag/Prune/timeout since, but it is not flagged any more", Y))
		}
	}
	run.AddCase("", jc, fmt.Sprintf("%v", jc), true)
	run.Hist("kind.gate")
}

// ------------------------------------------------------------ generators
func genPool(r *hx.Rand) []string {
	base := r.Bytes(32)
	sib := append([]byte{}, base...)
	sib[31] ^= 0x80
	pool := []string{hx.Hex(base), hx.Hex(sib), hx.Hex(r.Bytes(32)), hx.Hex(r.Bytes(32)), hx.Hex(r.Bytes(32))}
	if r.Chance(1, 3) {
		pool = append(pool, hx.Hex(base[:2]))
	}
	if r.Chance(1, 5) {
		pool = append(pool, "")
	}
	return pool
}

func genConfig(r *hx.Rand) (ft, res int64) {
	res = []int64{1000000000, 1000000000, 1000000, 7, 1, 3600000000000}[r.Intn(6)]
	t := int64(1 + r.Intn(5))
	if r.Chance(1, 12) {
		t = int64(20 + r.Intn(400))
	}
	frac := []int64{0, 0, 1, res - 1, res / 2}[r.Intn(5)]
	ft = t*res + frac
	if ft <= res {
		ft = res + 1
	}
	return
}

func genHist(r *hx.Rand, n int) jcase {
	ft, res := genConfig(r)
	jc := jcase{Kind: "hist", Ft: ft, Res: res, Seq0: "0", Pool: genPool(r)}
	T := ft / res
	np := len(jc.Pool)
	hot := 2 + r.Intn(2)
	for i := 0; i < n; i++ {
		pi := r.Intn(np)
		if r.Chance(2, 3) {
			pi = r.Intn(hot)
		}
		switch k := r.Intn(100); {
		case k < 38:
			jc.Evs = append(jc.Evs, jev{Kind: "tick", A: !r.Chance(1, 4)})
			if T > 8 && r.Chance(1, 3) { // long timeouts: bursts
				for j := int64(0); j < T/2; j++ {
					jc.Evs = append(jc.Evs, jev{Kind: "tick", A: true})
				}
			}
		case k < 60:
			jc.Evs = append(jc.Evs, jev{Kind: "flag", I: pi, A: !r.Chance(1, 6)})
		case k < 67:
			jc.Evs = append(jc.Evs, jev{Kind: "unflag", I: pi})
		case k < 72:
			var seen []int
			for j := 0; j < np; j++ {
				if r.Chance(2, 3) {
					seen = append(seen, j)
				}
			}
			jc.Evs = append(jc.Evs, jev{Kind: "prune", Seen: seen})
		case k < 90:
			jc.Evs = append(jc.Evs, jev{Kind: "sweep", Fail: r.Chance(1, 5)})
		default:
			jc.Evs = append(jc.Evs, jev{Kind: "sweepticks", N: 1 + r.Intn(3), Fail: r.Chance(1, 5)})
		}
	}
	jc.Evs = append(jc.Evs, jev{Kind: "sweep"})
	return jc
}

// near the uint64 wrap of the sequence and with huge timeouts (outside the theorems' domain)
func genWrap(r *hx.Rand, n int) jcase {
	jc := genHist(r, n)
	switch r.Intn(3) {
	case 0:
		jc.Seq0 = strconv.FormatUint(^uint64(0)-uint64(r.Intn(6)), 10)
	case 1:
		jc.Seq0 = strconv.FormatUint(^uint64(0)-uint64(jc.Ft/jc.Res)-uint64(r.Intn(4)), 10)
	default:
		jc.Res = 1
		jc.Ft = int64(^uint64(0)>>1) - int64(r.Intn(3))
		jc.Seq0 = strconv.FormatUint(uint64(1)<<63+uint64(r.Intn(5)), 10)
	}
	return jc
}

func corpus() []jcase {
	a := func(c byte) string { return hex.EncodeToString(append(make([]byte, 31), c)) }
	pool := []string{a(1), a(2), a(3)}
	tk := jev{Kind: "tick", A: true}
	off := jev{Kind: "tick", A: false}
	sw := jev{Kind: "sweep"}
	return []jcase{
		// flagTimeout 2.5 s, resolution 1 s: blocked by the sweep after the third available tick, not the second
		{Kind: "hist", Ft: 2500000000, Res: 1000000000, Seq0: "0", Pool: pool, Evs: []jev{{Kind: "flag", I: 0, A: true}, tk, off, tk, sw, {Kind: "flag", I: 0, A: true}, tk, sw, sw}},
		// exact multiple: 2 s needs three ticks as well; unflag / prune / flag while unavailable
		{Kind: "hist", Ft: 2000000000, Res: 1000000000, Seq0: "0", Pool: pool, Evs: []jev{{Kind: "flag", I: 0, A: true}, {Kind: "flag", I: 1, A: true}, {Kind: "flag", I: 2, A: false}, tk, tk, sw, {Kind: "unflag", I: 0}, {Kind: "flag", I: 0, A: true}, tk, sw, {Kind: "prune", Seen: []int{0}}, tk, tk, tk, sw, sw}},
		// a tick between two iterations of the sweep loop
		{Kind: "hist", Ft: 1000000001, Res: 1000000000, Seq0: "0", Pool: pool, Evs: []jev{{Kind: "flag", I: 0, A: true}, tk, {Kind: "flag", I: 1, A: true}, {Kind: "flag", I: 2, A: true}, tk, {Kind: "sweepticks", N: 2}, sw, tk, sw}},
		// the constructor's contract
		{Kind: "new", Ft: 1000000000, Res: 1000000000, Wake: 1000000000},
		{Kind: "new", Ft: 1000000001, Res: 1000000000, Wake: 999999999},
		{Kind: "new", Ft: 1000000001, Res: 1000000000, Wake: 1000000000},
		// the real sequencer and sweep goroutines through an outage 12x the flag timeout (seeded change C26-2)
		{Kind: "live", Ft: 12000000, Res: 2000000, Pool: append(append([]string{}, pool...), a(4), a(5))},
		{Kind: "live", Ft: 16500000, Res: 3000000, Pool: append(append([]string{}, pool...), a(4), a(5))},
		// Unflag / PruneUnseen / Unflag+Flag of a due peer while the sweep is held in Blocklist for another one (seeded change C26-3)
		{Kind: "gate", Ft: 2000000000, Res: 1000000000, Op: "unflag", NDue: 2, Pool: append(append([]string{}, pool...), a(4))},
		{Kind: "gate", Ft: 2500000000, Res: 1000000000, Op: "prune", NDue: 3, Pool: append(append([]string{}, pool...), a(4))},
		{Kind: "gate", Ft: 3000000001, Res: 1000000000, Op: "reflag", NDue: 2, Pool: append(append([]string{}, pool...), a(4))},
		{Kind: "gate", Ft: 6000000, Res: 2000000, Op: "unflag", NDue: 3, Real: true, Pool: append(append([]string{}, pool...), a(4))},
		{Kind: "gate", Ft: 6000000, Res: 2000000, Op: "prune", NDue: 2, Real: true, Pool: append(append([]string{}, pool...), a(4))},
	}
}

func dispatch(run *hx.Run, jc jcase) {
	switch jc.Kind {
	case "new":
		runNew(run, jc)
	case "live":
		runLive(run, jc)
	case "gate":
		runGate(run, jc)
	default:
		runHist(run, jc)
	}
}

func main() {
	run := hx.Start("C26", "Aurora.C26.Corr",
		"histories of tick(available?)/Flag(available?)/Unflag/PruneUnseen/sweep events on a real Blocker (real constructor, loops stopped, VerifTick/VerifSweep synchronous) with a recording Blocklister: flag timeouts of 1..5 (sometimes 20..400) ticks with fractional remainders {0,1ns,res-1,res/2}, resolutions {1ns,7ns,1ms,1s,1h}, two or three hot peers, 'sweepticks' = sequencer ticks injected between iterations of the sweep loop, Blocklist errors; a wrap stream starts the uint64 sequence near 2^64 or uses a 2^63 timeout; constructor cases; 'live' cases run the real background loops under real time (ms resolution). non-trivial = history with at least one blocklisting / constructor panic; distinct by full case")
	if run.Replay != "" {
		var jc jcase
		if err := run.ReadReplay(&jc); err != nil {
			panic(err)
		}
		dispatch(run, jc)
		run.Finish()
		return
	}
	for _, jc := range corpus() {
		dispatch(run, jc)
	}
	r := run.R
	for i := 0; i < run.N(110, 2500); i++ {
		dispatch(run, genHist(r, 10+r.Intn(run.N(30, 60))))
	}
	for i := 0; i < run.N(20, 300); i++ {
		dispatch(run, genWrap(r, 8+r.Intn(20)))
	}
	for i := 0; i < run.N(20, 200); i++ {
		res := []int64{1, 7, 1000, 1000000000}[r.Intn(4)]
		pick := func() int64 {
			return []int64{res - 1, res, res + 1, 2 * res, 0, -1, int64(r.U64() % uint64(3*res+1))}[r.Intn(7)]
		}
		dispatch(run, jcase{Kind: "new", Ft: pick(), Res: res, Wake: pick()})
	}
	for i := 0; i < run.N(2, 12); i++ {
		res := int64(2000000 + r.Intn(3)*1000000) // 2..4 ms
		t := int64(2 + r.Intn(5))
		dispatch(run, jcase{Kind: "live", Ft: t*res + int64(r.Intn(int(res))), Res: res, Pool: genPool(r)})
	}
	for i := 0; i < run.N(4, 40); i++ {
		real := r.Chance(1, 3)
		ops := []string{"unflag", "prune", "reflag"}
		jc := jcase{Kind: "gate", Real: real, NDue: 2 + r.Intn(3), Pool: genPool(r)}
		if real {
			jc.Res = int64(2000000 + r.Intn(2)*1000000)
			jc.Op = ops[r.Intn(2)]
		} else {
			jc.Res = 1000000000
			jc.Op = ops[r.Intn(3)]
		}
		jc.Ft = int64(2+r.Intn(3))*jc.Res + int64(r.Intn(int(jc.Res)))
		dispatch(run, jc)
	}
	run.Finish()
}
