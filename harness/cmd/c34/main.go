// C34 harness: peer address records — aurora.NewAddress/ParseAddress, the real
// handshake Service (Handshake / Handle, through pkg/p2p/libp2p/verifexport)
// and routetab's saveUnderlay / FindUnderlay.
//
// The real primitives (Keccak, SHA3, btcec sign/recover, go-multiaddr's byte
// parser) are called through harness/sigtab, which records their outputs as
// the table the Coq model is evaluated with.
package main

import (
	"bytes"
	"context"
	"crypto/ecdsa"
	"encoding/binary"
	"encoding/hex"
	"errors"
	"fmt"
	"io"
	"math/big"
	"sort"
	"strings"
	"time"

	"github.com/btcsuite/btcd/btcec"
	"github.com/gauss-project/aurorafs/pkg/addressbook"
	"github.com/gauss-project/aurorafs/pkg/aurora"
	"github.com/gauss-project/aurorafs/pkg/boson"
	"github.com/gauss-project/aurorafs/pkg/crypto"
	"github.com/gauss-project/aurorafs/pkg/logging"
	"github.com/gauss-project/aurorafs/pkg/p2p"
	vx "github.com/gauss-project/aurorafs/pkg/p2p/libp2p/verifexport"
	"github.com/gauss-project/aurorafs/pkg/p2p/protobuf"
	"github.com/gauss-project/aurorafs/pkg/routetab"
	rpb "github.com/gauss-project/aurorafs/pkg/routetab/pb"
	sldb "github.com/gauss-project/aurorafs/pkg/statestore/leveldb"
	"github.com/gauss-project/aurorafs/pkg/topology/lightnode"
	libp2pcrypto "github.com/libp2p/go-libp2p-core/crypto"
	libp2ppeer "github.com/libp2p/go-libp2p-core/peer"
	ma "github.com/multiformats/go-multiaddr"

	"verifharness/hx"
	"verifharness/sigtab"
)

var (
	run    *hx.Run
	logger = logging.New(io.Discard, 0)
	B      = sigtab.B
)

type jrec struct {
	U   string `json:"u"`
	O   string `json:"o"`
	Sig string `json:"sig"`
}
type jstep struct {
	Find   bool   `json:"find,omitempty"`
	Target string `json:"target,omitempty"`
	Recs   []jrec `json:"recs"`
}
type jnode struct {
	Key   string `json:"key"`
	NetID uint64 `json:"netid"`
	Adv   string `json:"adv,omitempty"` // multiaddr text the resolver returns
	Mode  string `json:"mode,omitempty"`
}
type jcase struct {
	Kind   string  `json:"kind"` // parse | new | mutate | handle | handshake | twonode | route | signbytes
	Name   string  `json:"name,omitempty"`
	Rec    *jrec   `json:"rec,omitempty"`
	NetID  uint64  `json:"netid,omitempty"`
	Key    string  `json:"key,omitempty"`
	Field  string  `json:"field,omitempty"`
	A      *jnode  `json:"a,omitempty"`
	Bn     *jnode  `json:"b,omitempty"`
	AckNet uint64  `json:"ack_netid,omitempty"`
	Mode   string  `json:"mode,omitempty"`
	Picker int     `json:"picker,omitempty"` // 0 none, 1 accept, 2 refuse
	Light  bool    `json:"light_full,omitempty"`
	Syn    string  `json:"syn,omitempty"`
	Steps  []jstep `json:"steps,omitempty"`
}

func unhex(s string) []byte { b, _ := hex.DecodeString(s); return b }
func cat(bs ...[]byte) []byte {
	var o []byte
	for _, b := range bs {
		o = append(o, b...)
	}
	return o
}
func keyOf(b []byte) *ecdsa.PrivateKey { return crypto.Secp256k1PrivateKeyFromBytes(b) }

// ownSignData: the bytes the statement says are signed, built without pkg/aurora.
func ownSignData(u, o []byte, n uint64) []byte {
	nb := make([]byte, 8)
	binary.BigEndian.PutUint64(nb, n)
	return cat([]byte("aurorafs-handshake-"), u, o, nb)
}

func overlayOf(pk *ecdsa.PublicKey) []byte {
	a, err := crypto.NewOverlayAddress(*pk, 0)
	if err != nil {
		return nil
	}
	return a.Bytes()
}

// authentic: the statement's own definition of an acceptable record.
func authentic(u, o, sig []byte, n uint64) bool {
	pk, err := crypto.Recover(sig, ownSignData(u, o, n))
	if err != nil {
		return false
	}
	if !bytes.Equal(overlayOf(pk), o) {
		return false
	}
	_, err = ma.NewMultiaddrBytes(u)
	return err == nil
}

// parseFlow records what ParseAddress asks of the primitives.
func parseFlow(t *sigtab.Tab, u, o, sig []byte, n uint64, decoys bool) {
	sd := aurora.VerifSignData(u, o, n)
	pk := t.RecoverFlow(sig, sd, decoys)
	if pk == nil {
		return
	}
	kh := t.K(pk)
	t.S3(kh)
	if decoys {
		t.S3(pk)
		t.K(kh)
	}
	t.Ma(u)
}

func orecOf(sig, data []byte) string {
	var pk *ecdsa.PublicKey
	var err error
	panicked, _ := hx.Guard(func() { pk, err = crypto.Recover(sig, data) })
	switch {
	case panicked:
		return hx.CoqApp("ORErr", hx.CoqN(99))
	case errors.Is(err, crypto.ErrInvalidLength):
		return hx.CoqApp("ORErr", hx.CoqN(1))
	case err != nil:
		return hx.CoqApp("ORErr", hx.CoqN(2))
	}
	return hx.CoqApp("OR", B(sigtab.Pub64(pk)))
}

func coqNode(keyb, overlay []byte, n uint64) string {
	return hx.CoqApp("Build_node", B(keyb), B(overlay), hx.CoqN(n))
}
func coqRec(u, o, sig []byte) string { return hx.CoqApp("Build_addr_rec", B(u), B(o), B(sig)) }
func coqAck(u, o, sig []byte, n uint64, mode []byte) string {
	return hx.CoqApp("Build_ack", B(u), B(o), B(sig), hx.CoqN(n), B(mode))
}

// doParse: ParseAddress on (u, o, sig, n); oracle = acceptance is exactly authenticity.
func doParse(name string, u, o, sig []byte, n uint64, withCoq bool) bool {
	jc := jcase{Kind: "parse", Name: name, Rec: &jrec{hx.Hex(u), hx.Hex(o), hx.Hex(sig)}, NetID: n}
	var err error
	var got *aurora.Address
	panicked, _ := hx.Guard(func() { got, err = aurora.ParseAddress(u, o, sig, n) })
	ok := !panicked && err == nil
	coq := ""
	if withCoq {
		t := sigtab.New()
		parseFlow(t, u, o, sig, n, name != "mut")
		coq = hx.CoqApp("CParse", t.Coq(), B(u), B(o), B(sig), hx.CoqN(n), orecOf(sig, aurora.VerifSignData(u, o, n)), hx.CoqBool(ok))
	}
	run.AddCase(coq, jc, fmt.Sprintf("parse|%x|%x|%x|%d", u, o, sig, n), len(sig) == 65)
	run.Hist("parse." + name)
	run.OracleChecked(1)
	want := authentic(u, o, sig, n)
	switch {
	case panicked:
		run.Violate(hx.Violation{Sig: "total:panic-in-ParseAddress", Detail: "ParseAddress panicked", Case: jc})
	case ok && !want:
		run.Violate(hx.Violation{Sig: "parse:accepts-unauthenticated-record", Detail: "ParseAddress accepted a record whose signature over (underlay, overlay, network id) does not recover a key with the claimed overlay", Case: jc, Impl: true, Want: false})
	case !ok && want:
		run.Violate(hx.Violation{Sig: "parse:rejects-authentic-record", Detail: "ParseAddress rejected an authentic record", Case: jc, Impl: false, Want: true})
	case !ok && !errors.Is(err, aurora.ErrInvalidAddress):
		run.Violate(hx.Violation{Sig: "parse:error-is-not-ErrInvalidAddress", Detail: fmt.Sprint(err), Case: jc})
	}
	if ok && (!bytes.Equal(got.Overlay.Bytes(), o) || !bytes.Equal(got.Underlay.Bytes(), u) || !bytes.Equal(got.Signature, sig)) {
		run.Violate(hx.Violation{Sig: "parse:returned-record-differs-from-input", Detail: "accepted record is not the input triple", Case: jc})
	}
	return ok
}

type rec struct{ u, o, sig []byte }

// doNew: NewAddress with a node's own signer and overlay; the record must be accepted.
func doNew(keyb []byte, um ma.Multiaddr, n uint64, withCoq bool) rec {
	key := keyOf(keyb)
	o := overlayOf(&key.PublicKey)
	u := um.Bytes()
	jc := jcase{Kind: "new", Key: hx.Hex(keyb), Rec: &jrec{U: hx.Hex(u)}, NetID: n}
	a, err := aurora.NewAddress(crypto.NewDefaultSigner(key), um, boson.NewAddress(o), n)
	if err != nil {
		run.Violate(hx.Violation{Sig: "own:NewAddress-fails", Detail: fmt.Sprint(err), Case: jc})
		return rec{}
	}
	if withCoq {
		t := sigtab.New()
		t.SignFlow(key, aurora.VerifSignData(u, o, n))
		run.AddCase(hx.CoqApp("CNew", t.Coq(), B(keyb), B(u), B(o), hx.CoqN(n), B(a.Signature)), jc, fmt.Sprintf("new|%x|%x|%d", keyb, u, n), true)
		t2 := sigtab.New()
		pk := sigtab.Pub64(&key.PublicKey)
		t2.S3(t2.K(pk))
		t2.S3(pk)
		run.AddCase(hx.CoqApp("COverlay", t2.Coq(), B(pk), B(o)), jc, fmt.Sprintf("overlay|%x", pk), true)
		run.AddCase(hx.CoqApp("CSignBytes", B(u), B(o), hx.CoqN(n), B(aurora.VerifSignData(u, o, n))), jc, fmt.Sprintf("signbytes|%x|%x|%d", u, o, n), true)
	}
	run.OracleChecked(2)
	if !bytes.Equal(aurora.VerifSignData(u, o, n), ownSignData(u, o, n)) {
		run.Violate(hx.Violation{Sig: "signdata:not-tag||underlay||overlay||be64(netid)", Detail: "signed bytes differ from the stated layout", Case: jc})
	}
	if !doParse("own", u, o, a.Signature, n, withCoq) {
		run.Violate(hx.Violation{Sig: "own:own-record-rejected", Detail: "a record produced by the node's own signer is rejected", Case: jc, Impl: false, Want: true})
	}
	return rec{u, o, a.Signature}
}

func highSTwin(sig []byte) []byte {
	o := append([]byte{}, sig...)
	s := new(big.Int).SetBytes(sig[32:64])
	s.Sub(btcec.S256().N, s)
	b := s.Bytes()
	for i := 32; i < 64; i++ {
		o[i] = 0
	}
	copy(o[64-len(b):64], b)
	o[64] = 27 + ((sig[64] - 27) ^ 1)
	return o
}

// doMutate: every single-field change of an honest record must be rejected.
func doMutate(keyb []byte, um ma.Multiaddr, n uint64, others []rec, otherMA []ma.Multiaddr, coqEvery int) {
	r := run.R
	h := doNew(keyb, um, n, false)
	if h.sig == nil {
		return
	}
	key := keyOf(keyb)
	i := 0
	try := func(field string, u, o, sig []byte, n2 uint64) {
		if bytes.Equal(u, h.u) && bytes.Equal(o, h.o) && bytes.Equal(sig, h.sig) && n2 == n {
			return
		}
		i++
		withCoq := strings.Contains(field, "-") || i%coqEvery == 0
		ok := doParse("mut", u, o, sig, n2, withCoq)
		run.Hist("mut." + field)
		run.OracleChecked(1)
		if ok {
			run.Violate(hx.Violation{Sig: "mutation:accepted-after-changing-" + field, Detail: "record accepted after changing its " + field,
				Case: jcase{Kind: "parse", Name: "mut", Rec: &jrec{hx.Hex(u), hx.Hex(o), hx.Hex(sig)}, NetID: n2, Field: field}, Impl: true, Want: false})
		}
	}
	flip := func(b []byte, pos int, x byte) []byte {
		c := append([]byte{}, b...)
		c[pos] ^= x
		return c
	}
	// underlay
	for pos := range h.u {
		try("underlay", flip(h.u, pos, byte(1+r.Intn(255))), h.o, h.sig, n)
	}
	for _, m := range otherMA {
		try("underlay", m.Bytes(), h.o, h.sig, n)
	}
	try("underlay", nil, h.o, h.sig, n)
	try("underlay", append(append([]byte{}, h.u...), h.o[:1]...), h.o[1:], h.sig, n) // boundary shifted between underlay and overlay: same signed bytes
	// overlay
	for pos := range h.o {
		try("overlay", h.u, flip(h.o, pos, byte(1+r.Intn(255))), h.sig, n)
	}
	for _, x := range others {
		try("overlay", h.u, x.o, h.sig, n)
	}
	try("overlay", h.u, h.o[:31], h.sig, n)
	try("overlay", h.u, append(append([]byte{}, h.o...), 0), h.sig, n)
	// signature
	for pos := range h.sig {
		try("signature", h.u, h.o, flip(h.sig, pos, byte(1+r.Intn(255))), n)
	}
	plus4 := append([]byte{}, h.sig...)
	plus4[64] += 4
	try("signature-recovery-byte-plus-4", h.u, h.o, plus4, n)
	try("signature-high-s-twin", h.u, h.o, highSTwin(h.sig), n)
	for _, x := range others {
		try("signature-of-another-record", h.u, h.o, x.sig, n)
	}
	s2, _ := crypto.NewDefaultSigner(keyOf(r.Bytes(32))).Sign(ownSignData(h.u, h.o, n))
	try("signature-of-another-key", h.u, h.o, s2, n)
	s3, _ := crypto.NewDefaultSigner(key).Sign(ownSignData(h.o, h.u, n))
	try("signature-over-other-bytes", h.u, h.o, s3, n)
	try("signature", h.u, h.o, h.sig[:64], n)
	// network id
	for _, n2 := range []uint64{n + 1, n - 1, 0, n ^ (1 << 63), n ^ (1 << 32), n << 8, r.U64(), ^n} {
		try("network-id", h.u, h.o, h.sig, n2)
	}
}

// ---------------------------------------------------------------- handshake

type resolver struct{ adv ma.Multiaddr }

func (r resolver) Resolve(observed ma.Multiaddr) (ma.Multiaddr, error) {
	if r.adv != nil {
		return r.adv, nil
	}
	return observed, nil
}

type picker bool

func (p picker) Pick(p2p.Peer) bool { return bool(p) }

type hsNode struct {
	keyb    []byte
	key     *ecdsa.PrivateKey
	overlay []byte
	netid   uint64
	peerID  libp2ppeer.ID
	addr    ma.Multiaddr // without /p2p
	full    ma.Multiaddr // with /p2p
	mode    aurora.Model
	svc     *vx.HandshakeService
}

type detReader struct{ r *hx.Rand }

func (d detReader) Read(p []byte) (int, error) { copy(p, d.r.Bytes(len(p))); return len(p), nil }

func newHsNode(r *hx.Rand, keyb []byte, netid uint64, fullNode bool, adv ma.Multiaddr, lightLimit int) *hsNode {
	n := &hsNode{keyb: keyb, key: keyOf(keyb), netid: netid}
	n.overlay = overlayOf(&n.key.PublicKey)
	_, pub, err := libp2pcrypto.GenerateEd25519Key(detReader{r})
	if err != nil {
		panic(err)
	}
	n.peerID, _ = libp2ppeer.IDFromPublicKey(pub)
	n.addr, _ = ma.NewMultiaddr(fmt.Sprintf("/ip4/%d.%d.%d.%d/tcp/%d", 1+r.Intn(220), r.Intn(256), r.Intn(256), 1+r.Intn(250), 1024+r.Intn(60000)))
	n.full, _ = ma.NewMultiaddr(fmt.Sprintf("%s/p2p/%s", n.addr.String(), n.peerID.Pretty()))
	n.mode = aurora.NewModel()
	if fullNode {
		n.mode = n.mode.SetMode(aurora.FullNode)
	}
	svc, err := vx.HandshakeNew(crypto.NewDefaultSigner(n.key), resolver{adv}, boson.NewAddress(n.overlay), netid, n.mode, "hi", n.peerID, logger, lightnode.NewContainer(boson.NewAddress(n.overlay)), lightLimit)
	if err != nil {
		panic(err)
	}
	n.svc = svc
	return n
}

func hsClass(err error) uint64 {
	switch {
	case err == nil:
		return 0
	case errors.Is(err, vx.HandshakeErrNetworkIDIncompatible):
		return 1
	case errors.Is(err, vx.HandshakeErrInvalidAck):
		return 2
	case errors.Is(err, aurora.ErrInvalidNodeMode):
		return 3
	case errors.Is(err, vx.HandshakeErrPicker):
		return 4
	case errors.Is(err, vx.HandshakeErrPickerLight):
		return 5
	case errors.Is(err, vx.HandshakeErrInvalidSyn):
		return 6
	}
	return 9
}

func hsObs(info *aurora.AddressInfo, err error, panicked bool) (string, uint64) {
	if panicked {
		return hx.CoqApp("HErr", hx.CoqN(98)), 98
	}
	if c := hsClass(err); c != 0 {
		return hx.CoqApp("HErr", hx.CoqN(c)), c
	}
	return hx.CoqApp("HOk", B(info.Address.Underlay.Bytes()), B(info.Address.Overlay.Bytes()), B(info.Address.Signature), B(info.NodeMode.Bv.Bytes())), 0
}

// ackOracle: a handshake may return a peer record only if it is authentic under
// the node's own network id and the ack carried that network id.
func ackOracle(kind string, jc jcase, nd *hsNode, u, o, sig []byte, ackNet uint64, class uint64, info *aurora.AddressInfo) {
	run.OracleChecked(1)
	want := authentic(u, o, sig, nd.netid) && ackNet == nd.netid
	if class == 0 && !want {
		run.Violate(hx.Violation{Sig: kind + ":accepts-unauthenticated-ack", Detail: "handshake returned a peer whose address record is not authentic for this network", Case: jc, Impl: "accepted", Want: "rejected"})
	}
	if class == 0 && (!bytes.Equal(info.Address.Overlay.Bytes(), o) || !bytes.Equal(info.Address.Underlay.Bytes(), u)) {
		run.Violate(hx.Violation{Sig: kind + ":returned-record-differs-from-ack", Detail: "returned record is not the one in the ack", Case: jc})
	}
	if (class == 2 || class == 1) && want {
		run.Violate(hx.Violation{Sig: kind + ":rejects-authentic-ack", Detail: "authentic ack of the same network rejected", Case: jc, Impl: class, Want: 0})
	}
	if ackNet != nd.netid && class != 1 && class != 9 && class != 6 {
		run.Violate(hx.Violation{Sig: kind + ":network-id-mismatch-not-refused-as-such", Detail: fmt.Sprintf("class %d", class), Case: jc, Impl: class, Want: 1})
	}
}

// doHandle: the peer's Syn and Ack are pre-written; Handle answers SynAck.
func doHandle(name string, nd *hsNode, peer *hsNode, u, o, sig []byte, ackNet uint64, mode []byte, pick int, lightFull bool) {
	jc := jcase{Kind: "handle", Name: name, A: &jnode{Key: hx.Hex(nd.keyb), NetID: nd.netid}, Rec: &jrec{hx.Hex(u), hx.Hex(o), hx.Hex(sig)}, AckNet: ackNet, Mode: hx.Hex(mode), Picker: pick, Light: lightFull}
	limit := 100
	if lightFull {
		limit = 0
	}
	svc, _ := vx.HandshakeNew(crypto.NewDefaultSigner(nd.key), resolver{}, boson.NewAddress(nd.overlay), nd.netid, nd.mode, "hi", nd.peerID, logger, lightnode.NewContainer(boson.NewAddress(nd.overlay)), limit)
	switch pick {
	case 1:
		svc.SetPicker(picker(true))
	case 2:
		svc.SetPicker(picker(false))
	}
	var in, out bytes.Buffer
	w := protobuf.NewWriter(&in)
	_ = w.WriteMsgWithContext(context.Background(), &vx.HandshakeSyn{ObservedUnderlay: nd.full.Bytes()})
	_ = w.WriteMsgWithContext(context.Background(), &vx.HandshakeAck{Address: &vx.HandshakeBzzAddress{Underlay: u, Overlay: o, Signature: sig}, NetworkID: ackNet, NodeMode: mode, WelcomeMessage: "yo"})
	var info *aurora.AddressInfo
	var err error
	panicked, _ := hx.Guard(func() {
		info, err = svc.Handle(context.Background(), vx.HandshakeNewMockStream(&in, &out), peer.addr, peer.peerID)
	})
	obs, class := hsObs(info, err, panicked)
	coq := ""
	if class != 9 && class != 98 {
		t := sigtab.New()
		parseFlow(t, u, o, sig, nd.netid, false)
		pk := "None"
		if pick == 1 {
			pk = "(Some true)"
		} else if pick == 2 {
			pk = "(Some false)"
		}
		coq = hx.CoqApp("CHandle", t.Coq(), coqNode(nd.keyb, nd.overlay, nd.netid), pk, hx.CoqBool(lightFull), coqAck(u, o, sig, ackNet, mode), obs)
	}
	run.AddCase(coq, jc, fmt.Sprintf("handle|%x|%x|%x|%x|%d|%d|%x|%d|%v", nd.keyb, u, o, sig, nd.netid, ackNet, mode, pick, lightFull), true)
	run.Hist(fmt.Sprintf("handle.%s.class=%d", name, class))
	ackOracle("handle", jc, nd, u, o, sig, ackNet, class, info)
	// what the node itself sent: SynAck with its own record
	var sa vx.HandshakeSynAck
	if e := protobuf.NewReader(&out).ReadMsgWithContext(context.Background(), &sa); e == nil && sa.Ack != nil && sa.Ack.Address != nil {
		ownAck(nd, sa.Ack, peer.full.Bytes())
	}
}

// ownAck: compare the Ack a node emitted with the model, and check it is authentic.
func ownAck(nd *hsNode, a *vx.HandshakeAck, adv []byte) {
	jc := jcase{Kind: "ownack", A: &jnode{Key: hx.Hex(nd.keyb), NetID: nd.netid}}
	t := sigtab.New()
	t.SignFlow(nd.key, aurora.VerifSignData(a.Address.Underlay, nd.overlay, nd.netid))
	run.AddCase(hx.CoqApp("COwnAck", t.Coq(), coqNode(nd.keyb, nd.overlay, nd.netid), B(a.Address.Underlay), B(a.NodeMode),
		coqAck(a.Address.Underlay, a.Address.Overlay, a.Address.Signature, a.NetworkID, a.NodeMode)), jc,
		fmt.Sprintf("ownack|%x|%x|%d", nd.keyb, a.Address.Underlay, nd.netid), true)
	run.OracleChecked(1)
	if !authentic(a.Address.Underlay, a.Address.Overlay, a.Address.Signature, nd.netid) || a.NetworkID != nd.netid || !bytes.Equal(a.Address.Overlay, nd.overlay) {
		run.Violate(hx.Violation{Sig: "own:emitted-ack-not-authentic", Detail: "the Ack a node emits does not carry an authentic record of itself", Case: jc})
	}
}

// doHandshake: the peer's SynAck is pre-written; Handshake sends Syn, then Ack.
func doHandshake(name string, nd *hsNode, peer *hsNode, syn []byte, u, o, sig []byte, ackNet uint64, mode []byte) {
	jc := jcase{Kind: "handshake", Name: name, A: &jnode{Key: hx.Hex(nd.keyb), NetID: nd.netid}, Rec: &jrec{hx.Hex(u), hx.Hex(o), hx.Hex(sig)}, AckNet: ackNet, Mode: hx.Hex(mode), Syn: hx.Hex(syn)}
	var in, out bytes.Buffer
	w := protobuf.NewWriter(&in)
	_ = w.WriteMsgWithContext(context.Background(), &vx.HandshakeSynAck{
		Syn: &vx.HandshakeSyn{ObservedUnderlay: syn},
		Ack: &vx.HandshakeAck{Address: &vx.HandshakeBzzAddress{Underlay: u, Overlay: o, Signature: sig}, NetworkID: ackNet, NodeMode: mode, WelcomeMessage: "yo"}})
	var info *aurora.AddressInfo
	var err error
	panicked, _ := hx.Guard(func() {
		info, err = nd.svc.Handshake(context.Background(), vx.HandshakeNewMockStream(&in, &out), peer.addr, peer.peerID)
	})
	obs, class := hsObs(info, err, panicked)
	_, synErr := ma.NewMultiaddrBytes(syn)
	coq := ""
	if class != 9 && class != 98 {
		t := sigtab.New()
		parseFlow(t, u, o, sig, nd.netid, false)
		coq = hx.CoqApp("CHandshake", t.Coq(), coqNode(nd.keyb, nd.overlay, nd.netid), hx.CoqBool(synErr == nil), coqAck(u, o, sig, ackNet, mode), obs)
	}
	run.AddCase(coq, jc, fmt.Sprintf("handshake|%x|%x|%x|%x|%x|%d|%d|%x", nd.keyb, syn, u, o, sig, nd.netid, ackNet, mode), true)
	run.Hist(fmt.Sprintf("handshake.%s.class=%d", name, class))
	ackOracle("handshake", jc, nd, u, o, sig, ackNet, class, info)
	// Syn, then (on success) the node's own Ack
	rd := protobuf.NewReader(&out)
	var s vx.HandshakeSyn
	if e := rd.ReadMsgWithContext(context.Background(), &s); e == nil {
		var a vx.HandshakeAck
		if e := rd.ReadMsgWithContext(context.Background(), &a); e == nil && a.Address != nil {
			ownAck(nd, &a, syn)
		}
	}
}

// pipe stream pair for the two-node run
type pipeStream struct {
	r *io.PipeReader
	w *io.PipeWriter
}

func (p pipeStream) Read(b []byte) (int, error)  { return p.r.Read(b) }
func (p pipeStream) Write(b []byte) (int, error) { return p.w.Write(b) }
func (p pipeStream) Close() error                { p.w.Close(); return nil }
func (p pipeStream) FullClose() error            { p.w.Close(); return nil }
func (p pipeStream) Reset() error {
	p.w.CloseWithError(io.ErrClosedPipe)
	p.r.CloseWithError(io.ErrClosedPipe)
	return nil
}
func (p pipeStream) Headers() p2p.Headers         { return nil }
func (p pipeStream) ResponseHeaders() p2p.Headers { return nil }

// doTwoNode: A.Handshake against B.Handle, both the real service.
func doTwoNode(a, b *hsNode) {
	jc := jcase{Kind: "twonode", A: &jnode{Key: hx.Hex(a.keyb), NetID: a.netid}, Bn: &jnode{Key: hx.Hex(b.keyb), NetID: b.netid}}
	r1, w1 := io.Pipe()
	r2, w2 := io.Pipe()
	sa, sb := pipeStream{r1, w2}, pipeStream{r2, w1}
	var ia, ib *aurora.AddressInfo
	var ea, eb error
	var pa, pb bool
	done := make(chan struct{}, 2)
	ctx, cancel := context.WithTimeout(context.Background(), 5*time.Second)
	defer cancel()
	go func() {
		pa, _ = hx.Guard(func() { ia, ea = a.svc.Handshake(ctx, sa, b.addr, b.peerID) })
		if ea != nil {
			_ = sa.Reset()
		}
		done <- struct{}{}
	}()
	go func() {
		pb, _ = hx.Guard(func() { ib, eb = b.svc.Handle(ctx, sb, a.addr, a.peerID) })
		if eb != nil {
			_ = sb.Reset()
		}
		done <- struct{}{}
	}()
	finished := hx.WithTimeout(20*time.Second, func() { <-done; <-done })
	if !finished {
		run.Violate(hx.Violation{Sig: "twonode:hang", Detail: "handshake between two nodes did not finish", Case: jc})
		return
	}
	oa, ca := hsObs(ia, ea, pa)
	ob, cb := hsObs(ib, eb, pb)
	// the records each side advertises: identity resolver => what the other side observed
	advA, advB := a.full.Bytes(), b.full.Bytes()
	t := sigtab.New()
	sigB := t.SignFlow(b.key, aurora.VerifSignData(advB, b.overlay, b.netid))
	sigA := t.SignFlow(a.key, aurora.VerifSignData(advA, a.overlay, a.netid))
	parseFlow(t, advB, b.overlay, sigB, a.netid, false)
	parseFlow(t, advA, a.overlay, sigA, b.netid, false)
	obB := "None"
	if cb != 9 && cb != 98 {
		obB = hx.CoqSome(ob)
	}
	coq := ""
	if ca != 9 && ca != 98 {
		coq = hx.CoqApp("CTwoNode", t.Coq(), coqNode(a.keyb, a.overlay, a.netid), coqNode(b.keyb, b.overlay, b.netid), B(advA), B(advB), B(a.mode.Bv.Bytes()), B(b.mode.Bv.Bytes()), oa, obB)
	}
	run.AddCase(coq, jc, fmt.Sprintf("twonode|%x|%x|%d|%d", a.keyb, b.keyb, a.netid, b.netid), true)
	run.Hist(fmt.Sprintf("twonode.classA=%d.classB=%d", ca, cb))
	run.OracleChecked(2)
	if a.netid == b.netid {
		if ca != 0 || cb != 0 {
			run.Violate(hx.Violation{Sig: "own:handshake-between-honest-nodes-fails", Detail: fmt.Sprintf("same network, initiator class %d (%v), responder class %d (%v)", ca, ea, cb, eb), Case: jc})
		} else if !bytes.Equal(ia.Address.Overlay.Bytes(), b.overlay) || !bytes.Equal(ib.Address.Overlay.Bytes(), a.overlay) {
			run.Violate(hx.Violation{Sig: "own:handshake-returns-wrong-overlay", Detail: "each side must learn the other's overlay", Case: jc})
		}
	} else if ca == 0 || cb == 0 {
		run.Violate(hx.Violation{Sig: "handshake:different-networks-connected", Detail: "nodes of different network ids completed a handshake", Case: jc})
	}
}

// ---------------------------------------------------------------- routetab

type relay struct{ reply *rpb.UnderlayResp }

func (s relay) NewStream(context.Context, boson.Address, p2p.Headers, string, string, string) (p2p.Stream, error) {
	return nil, errors.New("unused")
}
func (s relay) NewConnChainRelayStream(context.Context, boson.Address, p2p.Headers, string, string, string) (p2p.Stream, error) {
	return nil, errors.New("unused")
}
func (s relay) NewRelayStream(context.Context, boson.Address, p2p.Headers, string, string, string, bool) (p2p.Stream, error) {
	var in, out bytes.Buffer
	_ = protobuf.NewWriter(&in).WriteMsgWithContext(context.Background(), s.reply)
	return vx.HandshakeNewMockStream(&in, &out), nil
}

func doRoute(n uint64, steps []jstep) {
	jc := jcase{Kind: "route", NetID: n, Steps: steps}
	store, err := sldb.NewInMemoryStateStore(logger)
	if err != nil {
		panic(err)
	}
	defer store.Close()
	book := addressbook.New(store)
	t := sigtab.New()
	var cs []string
	want := map[string]rec{} // reference: latest authentic record per overlay
	bad := false
	for _, st := range steps {
		var list []*rpb.UnderlayResp
		var vs []string
		for _, x := range st.Recs {
			u, o, sig := unhex(x.U), unhex(x.O), unhex(x.Sig)
			list = append(list, &rpb.UnderlayResp{Dest: o, Underlay: u, Signature: sig})
			vs = append(vs, hx.CoqApp("Build_underlay_resp", B(o), B(u), B(sig)))
			parseFlow(t, u, o, sig, n, false)
			if authentic(u, o, sig, n) {
				want[hx.Hex(o)] = rec{u, o, sig}
			}
		}
		if !st.Find {
			svc := routetab.VerifNewUnderlayService(book, n, relay{}, logger)
			if !hx.WithTimeout(10*time.Second, func() { svc.VerifSaveUnderlay(list) }) {
				bad = true
			}
			cs = append(cs, hx.CoqPair(hx.CoqApp("OpSave", hx.CoqList(vs, "underlay_resp")), "None"))
			continue
		}
		svc := routetab.VerifNewUnderlayService(book, n, relay{list[0]}, logger)
		var got *aurora.Address
		var ferr error
		if !hx.WithTimeout(10*time.Second, func() {
			if p, _ := hx.Guard(func() { got, ferr = svc.FindUnderlay(context.Background(), boson.NewAddress(unhex(st.Target))) }); p {
				bad = true
			}
		}) {
			bad = true
		}
		ob := "(Some None)"
		x := st.Recs[0]
		isAuth := authentic(unhex(x.U), unhex(x.O), unhex(x.Sig), n)
		run.OracleChecked(1)
		if ferr == nil && got != nil {
			ob = hx.CoqSome(hx.CoqSome(coqRec(got.Underlay.Bytes(), got.Overlay.Bytes(), got.Signature)))
			if !isAuth {
				run.Violate(hx.Violation{Sig: "find:returns-unauthenticated-record", Detail: "FindUnderlay returned a record that is not authentic", Case: jc})
			}
			if x.O != st.Target {
				run.Hist("observation.find-reply-for-another-dest-accepted")
			}
		} else if isAuth {
			run.Violate(hx.Violation{Sig: "find:rejects-authentic-reply", Detail: fmt.Sprint(ferr), Case: jc})
		}
		cs = append(cs, hx.CoqPair(hx.CoqApp("OpFindReply", vs[0]), ob))
	}
	addrs, err := book.Addresses()
	if err != nil {
		bad = true
	}
	sort.Slice(addrs, func(i, j int) bool { return bytes.Compare(addrs[i].Overlay.Bytes(), addrs[j].Overlay.Bytes()) < 0 })
	var dump []string
	run.OracleChecked(2)
	for _, a := range addrs {
		u, o, sig := a.Underlay.Bytes(), a.Overlay.Bytes(), a.Signature
		dump = append(dump, hx.CoqPair(B(o), coqRec(u, o, sig)))
		if !authentic(u, o, sig, n) {
			run.Violate(hx.Violation{Sig: "book:unauthenticated-record-stored", Detail: "address book holds a record that is not authentic for this network", Case: jc})
		}
		w, ok := want[hx.Hex(o)]
		if !ok || !bytes.Equal(w.u, u) || !bytes.Equal(w.sig, sig) {
			run.Violate(hx.Violation{Sig: "book:stored-record-is-not-the-latest-authentic-one", Detail: "stored record differs from the reference", Case: jc})
		}
	}
	if len(addrs) != len(want) {
		run.Violate(hx.Violation{Sig: "book:authentic-record-not-stored", Detail: fmt.Sprintf("%d stored, %d authentic submitted", len(addrs), len(want)), Case: jc})
	}
	if bad {
		run.Violate(hx.Violation{Sig: "route:panic-hang-or-store-error", Detail: "saveUnderlay/FindUnderlay panicked or did not finish, or the book could not be read", Case: jc})
	}
	run.AddCase(hx.CoqApp("CRoute", t.Coq(), hx.CoqN(n), hx.CoqList(cs, "rt_obs"), hx.CoqList(dump, "bytes * addr_rec")), jc, fmt.Sprintf("route|%d|%v", n, steps), true)
	run.Hist(fmt.Sprintf("route.steps=%d.stored=%d", len(steps), len(addrs)))
}

// ---------------------------------------------------------------- generators

func randMA(r *hx.Rand) ma.Multiaddr {
	_, pub, _ := libp2pcrypto.GenerateEd25519Key(detReader{r})
	id, _ := libp2ppeer.IDFromPublicKey(pub)
	var s string
	switch r.Intn(5) {
	case 0:
		s = fmt.Sprintf("/ip4/%d.%d.%d.%d/tcp/%d/p2p/%s", r.Intn(256), r.Intn(256), r.Intn(256), r.Intn(256), r.Intn(65536), id.Pretty())
	case 1:
		s = fmt.Sprintf("/ip6/::%x/tcp/%d/p2p/%s", 1+r.Intn(65535), r.Intn(65536), id.Pretty())
	case 2:
		s = fmt.Sprintf("/dns4/node%d.example.org/tcp/%d/p2p/%s", r.Intn(1000), r.Intn(65536), id.Pretty())
	case 3:
		s = fmt.Sprintf("/ip4/%d.%d.%d.%d/udp/%d", r.Intn(256), r.Intn(256), r.Intn(256), r.Intn(256), r.Intn(65536))
	default:
		s = fmt.Sprintf("/ip4/127.0.0.1/tcp/%d", r.Intn(65536))
	}
	m, err := ma.NewMultiaddr(s)
	if err != nil {
		panic(err)
	}
	return m
}

func pickNet(r *hx.Rand) uint64 {
	return []uint64{0, 1, 3, 10, 255, 256, 1 << 32, 1<<63 - 1, 1 << 63, ^uint64(0), r.U64()}[r.Intn(11)]
}

func replay() {
	var jc jcase
	if err := run.ReadReplay(&jc); err != nil {
		panic(err)
	}
	r := run.R
	switch jc.Kind {
	case "parse":
		doParse(jc.Name, unhex(jc.Rec.U), unhex(jc.Rec.O), unhex(jc.Rec.Sig), jc.NetID, true)
		if jc.Field != "" { // replay of a mutation violation: the record must be rejected
			if _, err := aurora.ParseAddress(unhex(jc.Rec.U), unhex(jc.Rec.O), unhex(jc.Rec.Sig), jc.NetID); err == nil {
				run.Violate(hx.Violation{Sig: "mutation:accepted-after-changing-" + jc.Field, Detail: "record accepted after changing its " + jc.Field, Case: jc})
			}
		}
	case "new":
		m, err := ma.NewMultiaddrBytes(unhex(jc.Rec.U))
		if err == nil {
			doNew(unhex(jc.Key), m, jc.NetID, true)
		}
	case "handle", "handshake", "ownack":
		nd := newHsNode(r, unhex(jc.A.Key), jc.A.NetID, true, nil, 100)
		peer := newHsNode(r, r.Bytes(32), jc.A.NetID, true, nil, 100)
		if jc.Kind == "handle" {
			doHandle(jc.Name, nd, peer, unhex(jc.Rec.U), unhex(jc.Rec.O), unhex(jc.Rec.Sig), jc.AckNet, unhex(jc.Mode), jc.Picker, jc.Light)
		} else if jc.Kind == "handshake" {
			doHandshake(jc.Name, nd, peer, unhex(jc.Syn), unhex(jc.Rec.U), unhex(jc.Rec.O), unhex(jc.Rec.Sig), jc.AckNet, unhex(jc.Mode))
		} else {
			doTwoNode(nd, peer)
		}
	case "twonode":
		doTwoNode(newHsNode(r, unhex(jc.A.Key), jc.A.NetID, true, nil, 100), newHsNode(r, unhex(jc.Bn.Key), jc.Bn.NetID, true, nil, 100))
	case "route":
		doRoute(jc.NetID, jc.Steps)
	}
}

func main() {
	run = hx.Start("C34", "Aurora.C34.Corr",
		"random secp256k1 keys x multiaddrs (ip4/ip6/dns, with and without /p2p) x network ids at 0/1/2^32/2^63/max: own records; every byte of underlay, overlay and signature altered, foreign overlays/signatures, signature re-encodings, network id changes; real handshake Service fed crafted Acks (both roles, picker and light-limit variants) and run node-against-node over a pipe; routetab saveUnderlay/FindUnderlay sequences over an in-memory address book. Non-trivial = a 65-byte signature reaching recovery; distinct by the full input tuple")
	r := run.R
	if run.Replay != "" {
		replay()
		run.Finish()
		return
	}
	nk := run.N(6, 16)
	keys := make([][]byte, nk)
	for i := range keys {
		keys[i] = r.Bytes(32)
	}
	// 0. corpus: witness of the fixed finding (re-encoded signature accepted) on a fixed key
	{
		kb := bytes.Repeat([]byte{0x22}, 32)
		m, _ := ma.NewMultiaddr("/ip4/127.0.0.1/tcp/1634/p2p/16Uiu2HAkx8ULY8cTXhdVAcMmLcH9AsTKz6uBQ7DPLKRjMLgBVYkA")
		doMutate(kb, m, 3, nil, nil, 1000000)
	}
	// 1. own records
	var recs []rec
	var mas []ma.Multiaddr
	for i := 0; i < run.N(16, 120); i++ {
		m := randMA(r)
		mas = append(mas, m)
		recs = append(recs, doNew(keys[i%nk], m, pickNet(r), true))
	}
	// 2. single-field changes
	for i := 0; i < run.N(4, 16); i++ {
		doMutate(keys[i%nk], mas[i], pickNet(r), recs[:4], mas[4:8], run.N(12, 6))
	}
	// 3. malformed records
	for i := 0; i < run.N(12, 100); i++ {
		sig := r.Bytes([]int{0, 1, 64, 65, 65, 65, 66, 130}[r.Intn(8)])
		if len(sig) == 65 {
			sig[64] = byte(26 + r.Intn(10))
			sig[32] &= 0x7f
		}
		doParse("malformed", r.Bytes(r.Intn(40)), r.Bytes([]int{0, 20, 32, 32, 33}[r.Intn(5)]), sig, pickNet(r), true)
	}
	// an authentic signature over bytes that are not a multiaddr
	for i := 0; i < 3; i++ {
		key := keyOf(keys[i])
		o := overlayOf(&key.PublicKey)
		u := []byte{0xff, 0xfe, byte(i)}
		sig, _ := crypto.NewDefaultSigner(key).Sign(ownSignData(u, o, 5))
		doParse("authentic-but-not-a-multiaddr", u, o, sig, 5, true)
	}
	// 4. handshake with crafted acks
	net := uint64(10)
	nd := newHsNode(r, keys[0], net, true, nil, 100)
	peer := newHsNode(r, keys[1], net, true, nil, 100)
	light := newHsNode(r, keys[2], net, false, nil, 100)
	full, lmode := nd.mode.Bv.Bytes(), light.mode.Bv.Bytes()
	hrec := func(p *hsNode, u []byte, n uint64) rec {
		sig, _ := crypto.NewDefaultSigner(p.key).Sign(ownSignData(u, p.overlay, n))
		return rec{u, p.overlay, sig}
	}
	good := hrec(peer, peer.full.Bytes(), net)
	other := hrec(peer, peer.full.Bytes(), net+1)
	lgood := hrec(light, light.full.Bytes(), net)
	flip := func(b []byte, pos int) []byte { c := append([]byte{}, b...); c[pos] ^= 0x40; return c }
	type variant struct {
		name      string
		x         rec
		ackNet    uint64
		mode      []byte
		pick      int
		lightFull bool
	}
	vs := []variant{
		{"good", good, net, full, 0, false},
		{"good-picker-accepts", good, net, full, 1, false},
		{"good-picker-refuses", good, net, full, 2, false},
		{"light-under-limit", lgood, net, lmode, 1, false},
		{"light-over-limit", lgood, net, lmode, 2, true},
		{"light-no-picker", lgood, net, lmode, 0, true},
		{"ack-of-another-network", other, net + 1, full, 0, false},
		{"record-signed-for-another-network", other, net, full, 0, false},
		{"good-record-wrong-ack-netid", good, net + 1, full, 0, false},
		{"empty-node-mode", good, net, nil, 0, false},
		{"empty-node-mode-bad-sig", rec{good.u, good.o, flip(good.sig, 3)}, net, nil, 1, false},
		{"bad-sig-picker-refuses", rec{good.u, good.o, flip(good.sig, 3)}, net, full, 2, false},
		{"overlay-changed", rec{good.u, flip(good.o, 0), good.sig}, net, full, 0, false},
		{"underlay-changed", rec{light.full.Bytes(), good.o, good.sig}, net, full, 0, false},
		{"signature-changed", rec{good.u, good.o, flip(good.sig, 40)}, net, full, 0, false},
		{"signature-plus-4", rec{good.u, good.o, func() []byte { s := append([]byte{}, good.sig...); s[64] += 4; return s }()}, net, full, 0, false},
		{"signature-high-s-twin", rec{good.u, good.o, highSTwin(good.sig)}, net, full, 0, false},
		{"overlay-of-another-node", rec{good.u, lgood.o, good.sig}, net, full, 0, false},
		{"two-byte-mode", good, net, []byte{1, 7}, 0, false},
	}
	for _, v := range vs {
		doHandle(v.name, nd, peer, v.x.u, v.x.o, v.x.sig, v.ackNet, v.mode, v.pick, v.lightFull)
		doHandshake(v.name, nd, peer, nd.full.Bytes(), v.x.u, v.x.o, v.x.sig, v.ackNet, v.mode)
	}
	doHandshake("invalid-syn", nd, peer, []byte{0xff, 0xff}, good.u, good.o, good.sig, net, full)
	doHandshake("invalid-syn-bad-ack", nd, peer, nil, good.u, flip(good.o, 1), good.sig, net+1, full)
	for i := 0; i < run.N(6, 60); i++ {
		p := newHsNode(r, keys[r.Intn(nk)], net, r.Bool(), nil, 100)
		x := hrec(p, p.full.Bytes(), net)
		an := net
		switch r.Intn(6) {
		case 0:
			x.sig = flip(x.sig, r.Intn(65))
		case 1:
			x.o = flip(x.o, r.Intn(32))
		case 2:
			x.u = flip(x.u, r.Intn(len(x.u)))
		case 3:
			an = pickNet(r)
		}
		if r.Bool() {
			doHandle("random", nd, p, x.u, x.o, x.sig, an, p.mode.Bv.Bytes(), r.Intn(3), r.Bool())
		} else {
			doHandshake("random", nd, p, nd.full.Bytes(), x.u, x.o, x.sig, an, p.mode.Bv.Bytes())
		}
	}
	// 5. node against node
	for i := 0; i < run.N(4, 24); i++ {
		na := pickNet(r)
		nb := na
		if i%4 == 3 {
			nb = na + 1
		}
		doTwoNode(newHsNode(r, keys[r.Intn(nk)], na, r.Bool(), nil, 100), newHsNode(r, keys[r.Intn(nk)], nb, true, nil, 100))
	}
	// 6. routetab
	for i := 0; i < run.N(5, 40); i++ {
		n := pickNet(r)
		var pool []jrec
		for j := 0; j < 5; j++ {
			key := keyOf(keys[r.Intn(nk)])
			o := overlayOf(&key.PublicKey)
			u := randMA(r).Bytes()
			sn := n
			if r.Intn(5) == 0 {
				sn = n + 1
			}
			sig, _ := crypto.NewDefaultSigner(key).Sign(ownSignData(u, o, sn))
			switch r.Intn(7) {
			case 0:
				sig = flip(sig, r.Intn(65))
			case 1:
				o = flip(o, r.Intn(32))
			case 2:
				u = randMA(r).Bytes()
			}
			pool = append(pool, jrec{hx.Hex(u), hx.Hex(o), hx.Hex(sig)})
		}
		var steps []jstep
		for s := 0; s < 1+r.Intn(4); s++ {
			if r.Intn(3) == 0 {
				x := pool[r.Intn(len(pool))]
				tgt := x.O
				if r.Intn(4) == 0 {
					tgt = hx.Hex(r.Bytes(32))
				}
				steps = append(steps, jstep{Find: true, Target: tgt, Recs: []jrec{x}})
			} else {
				var l []jrec
				for k := 0; k < r.Intn(4); k++ {
					l = append(l, pool[r.Intn(len(pool))])
				}
				steps = append(steps, jstep{Recs: l})
			}
		}
		doRoute(n, steps)
	}
	run.Finish()
}
