// C21 harness: the "tail" patterns (seeded/C21-3).  While EachBin/EachBinRev is
// walking a bin — cells of that bin are still to be yielded — the callback
// removes the element that is currently LAST in that bin (and possibly the one
// before it) and adds into the same bin.  A Remove that merely re-slices leaves
// spare capacity behind, the Add then appends in place and overwrites a cell the
// iterator still reads.
package main

import (
	"fmt"

	"verifharness/hx"
)

// tailUpd builds the callback's updates for a bin whose current content is cur
// (slice order): pattern 0: remove last, add y1; 1: remove last, add y1, add y2;
// 2: remove the two trailing ones, re-add them in the opposite order; 3: remove
// last, batched add of y1, y2.
func tailUpd(cur []string, pattern int, y1, y2 string) []jop {
	n := len(cur)
	rm := func(a string) jop { return jop{K: "remove", A: []string{a}} }
	add := func(as ...string) jop { return jop{K: "add", A: as} }
	switch {
	case pattern == 2 && n >= 2:
		return []jop{rm(cur[n-1]), rm(cur[n-2]), add(cur[n-1]), add(cur[n-2])}
	case pattern == 1:
		return []jop{rm(cur[n-1]), add(y1), add(y2)}
	case pattern == 3:
		return []jop{rm(cur[n-1]), add(y1, y2)}
	default:
		return []jop{rm(cur[n-1]), add(y1)}
	}
}

// tailEach: an iteration of the CURRENT structure whose callback applies a tail
// pattern to a bin with at least two peers while cells of it remain to be yielded.
func (g *gen) tailEach(e *exec) (jop, bool) {
	if e.maxBins < 1 || e.maxBins > 64 {
		return jop{}, false
	}
	rev := g.r.Bool()
	// walk order and the bins with >= 2 peers
	off := 0
	type cand struct{ bin, off int }
	var cands []cand
	cur := map[int][]string{}
	for w := 0; w < e.maxBins; w++ {
		b := w
		if !rev {
			b = e.maxBins - 1 - w
		}
		bp := e.ps.BinPeers(uint8(b))
		if len(bp) >= 2 {
			cands = append(cands, cand{b, off})
			for _, a := range bp {
				cur[b] = append(cur[b], hx.Hex(a.Bytes()))
			}
		}
		off += len(bp)
	}
	if len(cands) == 0 {
		return jop{}, false
	}
	c := cands[g.r.Intn(len(cands))]
	n := len(cur[c.bin])
	j := g.r.Intn(n - 1) // at least one cell of the bin is still to be yielded
	fresh := func() string {
		for t := 0; t < 20; t++ {
			a := g.at(c.bin)
			if len(a) >= 2 {
				a[len(a)-1] = byte(g.r.Intn(256))
			}
			if refPo(g.base, a, g.maxBins) == c.bin && !e.ref[string(a)] {
				return hx.Hex(a)
			}
		}
		return cur[c.bin][n-1]
	}
	sc := make([]jcb, c.off+j+1)
	sc[c.off+j].Upd = tailUpd(cur[c.bin], g.r.Intn(4), fresh(), fresh())
	if g.r.Chance(1, 3) && j+2 < n { // a second disturbance one yield later
		sc = append(sc, jcb{Upd: []jop{{K: "add", A: []string{fresh()}}}})
	}
	e.run.Hist("each.tail-pattern")
	return jop{K: "each", Rev: rev, Script: sc}, true
}

// corpusTail: fixed cases run on every seed.  One bin (bin 2 of 4) with n = 2..5
// peers, built by one batched Add (capacity exactly n) or by single Adds
// (capacity grown by append); at yield j of that bin the callback applies each
// pattern; both iteration directions.  n = 3, j = 1, pattern 2 is the demo of
// seeded/C21-3 (Remove(c), Remove(b), Add(c), Add(b) on the second yield).
func corpusTail() []jcase {
	var out []jcase
	peer := func(i int) string { return fmt.Sprintf("850000%02x", i) } // bin 2 of base a5a5a5a5
	for n := 2; n <= 5; n++ {
		var all []string
		for i := 1; i <= n; i++ {
			all = append(all, peer(i))
		}
		for _, batched := range []bool{true, false} {
			for _, rev := range []bool{false, true} {
				for _, j := range []int{0, n - 2} {
					if j == 0 && n == 2 && !batched {
						continue
					}
					for pattern := 0; pattern < 4; pattern++ {
						var ops []jop
						if batched {
							ops = append(ops, jop{K: "add", A: all})
						} else {
							for _, a := range all {
								ops = append(ops, jop{K: "add", A: []string{a}})
							}
						}
						// a neighbour in another bin so that the walk crosses bins
						ops = append(ops, jop{K: "add", A: []string{"25000001"}})
						off := 0
						if rev {
							off = 1 // bin 0 is visited first
						}
						sc := make([]jcb, off+j+1)
						sc[off+j].Upd = tailUpd(all, pattern, peer(0x41), peer(0x42))
						ops = append(ops, jop{K: "each", Rev: rev, Script: sc}, jop{K: "binpeers", B: 2}, jop{K: "each", Rev: !rev}, jop{K: "length"})
						out = append(out, jcase{MaxBins: 4, Base: "a5a5a5a5", Ops: ops})
					}
				}
			}
		}
	}
	return out
}
