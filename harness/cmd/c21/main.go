// C21 harness: pkg/topology/pslice.PSlice driven by histories of single and
// batched Add, Remove, the size/emptiness queries and EachBin/EachBinRev
// whose callback stops, skips to the next bin, returns an error, or UPDATES
// the structure while the iteration is running (the callback runs without the
// PSlice lock, so this is the deterministic form of "iteration concurrent with
// updates").  A goroutine soak (iterators vs. mutators) runs last; in the
// thorough tier the binary is built with -race.
package main

import (
	"encoding/hex"
	"errors"
	"fmt"
	"sort"
	"strings"
	"sync"
	"sync/atomic"
	"time"

	"github.com/gauss-project/aurorafs/pkg/boson"
	"github.com/gauss-project/aurorafs/pkg/topology/pslice"
	"verifharness/hx"
)

// ---------------------------------------------------------------- case format

type jcb struct {
	Stop bool  `json:"stop,omitempty"`
	Next bool  `json:"next,omitempty"`
	Err  bool  `json:"err,omitempty"`
	Upd  []jop `json:"upd,omitempty"`
}

type jop struct {
	K      string   `json:"k"` // add remove exists length binsize binpeers shallowest each
	A      []string `json:"a,omitempty"`
	B      int      `json:"b,omitempty"`
	Rev    bool     `json:"rev,omitempty"`
	Script []jcb    `json:"script,omitempty"`
}

type jcase struct {
	MaxBins int    `json:"max_bins"`
	Base    string `json:"base"`
	Ops     []jop  `json:"ops"`
}

func unhex(s string) []byte {
	b, _ := hex.DecodeString(s)
	return b
}

// ---------------------------------------------------------------- independent reference

// refPo: the statement's "bin given by its proximity to the base (capped at the
// last bin)": number of leading equal bits, capped.  Written here from the
// definition, not through boson.Proximity.
func refPo(base, a []byte, maxBins int) int {
	n := 0
	lim := len(base)
	if len(a) < lim {
		lim = len(a)
	}
	if lim > int(boson.MaxPO)/8+1 {
		lim = int(boson.MaxPO)/8 + 1
	}
	full := true
outer:
	for i := 0; i < lim; i++ {
		d := base[i] ^ a[i]
		for j := 7; j >= 0; j-- {
			if d>>uint(j)&1 != 0 {
				full = false
				break outer
			}
			n++
		}
	}
	if full || n > int(boson.MaxPO) {
		n = int(boson.MaxPO) // no differing bit inside the compared window
	}
	if n >= maxBins {
		n = maxBins - 1
	}
	return n
}

type yield struct {
	a  string // raw bytes
	po uint8
}

type exec struct {
	run     *hx.Run
	maxBins int
	base    []byte
	ps      *pslice.PSlice
	ref     map[string]bool // the added and not removed addresses
	ops     []jop
	coqOps  []string
	coqObs  []string
	dead    bool // a panic ended the history
	kinds   map[string]bool
	jc      func() jcase
}

func newExec(run *hx.Run, maxBins int, base []byte) *exec {
	e := &exec{run: run, maxBins: maxBins, base: base, ref: map[string]bool{}, kinds: map[string]bool{}}
	e.ps = pslice.New(maxBins, boson.NewAddress(base))
	e.jc = func() jcase { return jcase{MaxBins: maxBins, Base: hx.Hex(base), Ops: e.ops} }
	return e
}

func (e *exec) viol(sig, detail string, impl, want interface{}) {
	e.run.Violate(hx.Violation{Sig: sig, Detail: detail, Case: e.jc(), Impl: impl, Want: want})
}

func coqUop(o jop) string {
	if o.K == "add" {
		bs := make([][]byte, len(o.A))
		for i, a := range o.A {
			bs[i] = unhex(a)
		}
		return hx.CoqApp("UAdd", hx.CoqBytesList(bs))
	}
	return hx.CoqApp("URemove", hx.CoqBytes(unhex(o.A[0])))
}

func coqOp(o jop) string {
	switch o.K {
	case "add", "remove":
		return hx.CoqApp("OUpd", coqUop(o))
	case "exists":
		return hx.CoqApp("OExists", hx.CoqBytes(unhex(o.A[0])))
	case "length":
		return "OLength"
	case "binsize":
		return hx.CoqApp("OBinSize", hx.CoqN(uint64(o.B)))
	case "binpeers":
		return hx.CoqApp("OBinPeers", hx.CoqN(uint64(o.B)))
	case "shallowest":
		return "OShallowestEmpty"
	case "each":
		cbs := make([]string, len(o.Script))
		for i, c := range o.Script {
			us := make([]string, len(c.Upd))
			for k, u := range c.Upd {
				us[k] = coqUop(u)
			}
			cbs[i] = hx.CoqApp("Cb", hx.CoqBool(c.Stop), hx.CoqBool(c.Next), hx.CoqBool(c.Err), hx.CoqList(us, "uop"))
		}
		return hx.CoqApp("OEach", hx.CoqBool(o.Rev), hx.CoqList(cbs, "cb"))
	}
	panic("bad op " + o.K)
}

func coqAddrs(as []boson.Address) string {
	bs := make([][]byte, len(as))
	for i, a := range as {
		bs[i] = a.Bytes()
	}
	return hx.CoqBytesList(bs)
}

// applyRef / the implementation update, used both at top level and inside callbacks
func (e *exec) update(o jop) (panicked bool) {
	as := make([]boson.Address, len(o.A))
	for i, a := range o.A {
		as[i] = boson.NewAddress(unhex(a))
	}
	if o.K == "add" {
		panicked, _ = hx.Guard(func() { e.ps.Add(as...) })
		if !panicked {
			for _, a := range as {
				e.ref[a.ByteString()] = true
			}
		}
	} else {
		panicked, _ = hx.Guard(func() { e.ps.Remove(as[0]) })
		if !panicked {
			delete(e.ref, as[0].ByteString())
		}
	}
	return
}

func (e *exec) refBin(b int) map[string]bool {
	m := map[string]bool{}
	for a := range e.ref {
		if refPo(e.base, []byte(a), e.maxBins) == b {
			m[a] = true
		}
	}
	return m
}

// checkState: the set clauses of the statement, on the implementation.
// class: what the last update was (narrow signature for the violation).
func (e *exec) checkState(class string) {
	if e.maxBins <= 0 || e.maxBins > 256 {
		return
	}
	e.run.OracleChecked(1)
	total := 0
	firstEmpty := -1
	for b := 0; b < e.maxBins; b++ {
		got := e.ps.BinPeers(uint8(b))
		want := e.refBin(b)
		seen := map[string]bool{}
		for _, a := range got {
			k := a.ByteString()
			if seen[k] {
				e.viol("set:duplicate:"+class, fmt.Sprintf("address %x occurs twice in bin %d", a.Bytes(), b), len(got), len(want))
				return
			}
			seen[k] = true
			if !e.ref[k] {
				e.viol("set:membership:stale:"+class, fmt.Sprintf("address %x is stored but was removed or never added", a.Bytes()), nil, nil)
				return
			}
			if !want[k] {
				e.viol("set:wrong-bin:"+class, fmt.Sprintf("address %x stored in bin %d, proximity bin is %d", a.Bytes(), b, refPo(e.base, a.Bytes(), e.maxBins)), b, refPo(e.base, a.Bytes(), e.maxBins))
				return
			}
		}
		if len(seen) != len(want) {
			e.viol("set:membership:missing:"+class, fmt.Sprintf("bin %d holds %d of the %d added and not removed addresses", b, len(seen), len(want)), len(seen), len(want))
			return
		}
		if sz := e.ps.BinSize(uint8(b)); sz != len(want) {
			e.viol("size:binsize:"+class, fmt.Sprintf("BinSize(%d)=%d, set has %d", b, sz, len(want)), sz, len(want))
			return
		}
		total += len(want)
		if len(want) == 0 && firstEmpty < 0 {
			firstEmpty = b
		}
	}
	if l := e.ps.Length(); l != total || total != len(e.ref) {
		e.viol("size:length:"+class, fmt.Sprintf("Length()=%d, set has %d", l, len(e.ref)), l, len(e.ref))
		return
	}
	se, none := e.ps.ShallowestEmpty()
	if (firstEmpty < 0) != none || (!none && int(se) != firstEmpty) {
		e.viol("size:shallowest-empty", fmt.Sprintf("ShallowestEmpty()=(%d,%v), first empty bin of the set is %d", se, none, firstEmpty), se, firstEmpty)
	}
}

func classOf(o jop) string {
	if o.K == "remove" {
		return "remove"
	}
	if len(o.A) == 1 {
		return "single-add"
	}
	// two DISTINCT addresses of the batch agreeing on their first 8 bytes (or on all but the last byte)
	for i, a := range o.A {
		for _, b := range o.A[:i] {
			if a != b && len(a) == len(b) && len(a) >= 4 {
				k := 16 // hex digits
				if len(a)-2 < k {
					k = len(a) - 2
				}
				if a[:k] == b[:k] {
					return "batch-add-with-close-addresses"
				}
			}
		}
	}
	seen := map[string]bool{}
	for _, a := range o.A {
		if seen[a] {
			return "batch-add-with-repeated-address"
		}
		seen[a] = true
	}
	return "batch-add"
}

var errCb = errors.New("callback error")

func (e *exec) do(o jop) {
	if e.dead {
		return
	}
	e.ops = append(e.ops, o)
	e.coqOps = append(e.coqOps, coqOp(o))
	e.kinds[o.K] = true
	e.run.Hist("op." + o.K)
	obs := ""
	var panicked bool
	switch o.K {
	case "add", "remove":
		e.run.Hist("upd." + classOf(o))
		panicked = e.update(o)
		obs = "ObsUnit"
		if !panicked {
			e.checkState(classOf(o))
		}
	case "exists":
		a := boson.NewAddress(unhex(o.A[0]))
		var got bool
		panicked, _ = hx.Guard(func() { got = e.ps.Exists(a) })
		obs = hx.CoqApp("ObsBool", hx.CoqBool(got))
		if !panicked {
			e.run.OracleChecked(1)
			if got != e.ref[a.ByteString()] {
				e.viol("exists:disagrees-with-set", fmt.Sprintf("Exists(%x)=%v", a.Bytes(), got), got, !got)
			}
		}
	case "length":
		var got int
		panicked, _ = hx.Guard(func() { got = e.ps.Length() })
		obs = hx.CoqApp("ObsN", hx.CoqN(uint64(got)))
	case "binsize":
		var got int
		panicked, _ = hx.Guard(func() { got = e.ps.BinSize(uint8(o.B)) })
		obs = hx.CoqApp("ObsN", hx.CoqN(uint64(got)))
		if !panicked && o.B >= e.maxBins && got != 0 {
			e.viol("size:binsize:beyond-last-bin", "BinSize beyond the last bin is not 0", got, 0)
		}
	case "binpeers":
		var got []boson.Address
		panicked, _ = hx.Guard(func() { got = e.ps.BinPeers(uint8(o.B)) })
		obs = hx.CoqApp("ObsPeers", coqAddrs(got))
	case "shallowest":
		var se uint8
		var none bool
		panicked, _ = hx.Guard(func() { se, none = e.ps.ShallowestEmpty() })
		obs = hx.CoqApp("ObsSE", hx.CoqN(uint64(se)), hx.CoqBool(none))
	case "each":
		obs, panicked = e.each(o)
	}
	if panicked {
		e.coqObs = append(e.coqObs, "None")
		e.dead = true
		e.run.Hist("panic")
		if e.maxBins >= 1 && e.maxBins <= 256 {
			e.viol("panic:"+o.K, "operation panicked on a PSlice with 1..256 bins", "panic", "no panic")
		}
		return
	}
	e.coqObs = append(e.coqObs, hx.CoqSome(obs))
}

// each runs EachBin/EachBinRev with the scripted callback.  Oracle:
//   - without updates in callbacks: the yields are exactly cut(script, full)
//     where full = the bins (BinPeers, taken before) in iteration order;
//   - with updates: within one bin the yields follow the BinPeers snapshot
//     taken when the iteration entered that bin, whatever the callbacks did.
func (e *exec) each(o jop) (string, bool) {
	hasUpd := false
	for _, c := range o.Script {
		if len(c.Upd) > 0 {
			hasUpd = true
		}
	}
	// reference, from the exported dump
	var full []yield
	binsBefore := make([][]boson.Address, e.maxBins)
	for b := 0; b < e.maxBins && b < 256; b++ {
		binsBefore[b] = e.ps.BinPeers(uint8(b))
	}
	order := make([]int, 0, e.maxBins)
	for b := 0; b < e.maxBins; b++ {
		if o.Rev {
			order = append(order, b)
		} else {
			order = append(order, e.maxBins-1-b)
		}
	}
	for _, b := range order {
		for _, a := range binsBefore[b] {
			full = append(full, yield{a.ByteString(), uint8(b)})
		}
	}
	var ys []yield
	k := 0
	curBin := -1
	var snap []boson.Address
	snapIdx := 0
	snapBad := ""
	f := func(a boson.Address, po uint8) (bool, bool, error) {
		ys = append(ys, yield{a.ByteString(), po})
		if int(po) != curBin {
			curBin = int(po)
			snap = e.ps.BinPeers(po) // nothing ran between the header copy and this call
			snapIdx = 0
		}
		if snapBad == "" && (snapIdx >= len(snap) || !snap[snapIdx].Equal(a)) {
			snapBad = fmt.Sprintf("yield %d of bin %d is %x, the bin held %v at that position when the iteration entered it", snapIdx, po, a.Bytes(), snap)
		}
		snapIdx++
		var c jcb
		if k < len(o.Script) {
			c = o.Script[k]
		}
		k++
		for _, u := range c.Upd {
			if e.update(u) {
				panic("update inside callback panicked")
			}
		}
		var err error
		if c.Err {
			err = errCb
		}
		return c.Stop, c.Next, err
	}
	var err error
	panicked, _ := hx.Guard(func() {
		if o.Rev {
			err = e.ps.EachBinRev(f)
		} else {
			err = e.ps.EachBin(f)
		}
	})
	if panicked {
		return "", true
	}
	if err != nil && err != errCb {
		e.viol("iter:foreign-error", "iteration returned an error the callback did not produce", err.Error(), nil)
	}
	el := make([]string, len(ys))
	for i, y := range ys {
		el[i] = hx.CoqPair(hx.CoqBytes([]byte(y.a)), hx.CoqN(uint64(y.po)))
	}
	obs := hx.CoqApp("ObsEach", hx.CoqList(el, "addr * N"), hx.CoqBool(err != nil))
	e.run.OracleChecked(1)
	kind := "deepest-first"
	if o.Rev {
		kind = "shallowest-first"
	}
	if snapBad != "" {
		e.viol("iter:snapshot-changed-by-update:"+kind, snapBad, nil, nil)
	}
	if !hasUpd {
		// expected yields by the statement: walk full, apply the script
		var want []yield
		wantErr := false
		skip := -1
		kk := 0
		for _, y := range full {
			if int(y.po) == skip {
				continue
			}
			skip = -1
			want = append(want, y)
			var c jcb
			if kk < len(o.Script) {
				c = o.Script[kk]
			}
			kk++
			if c.Err {
				wantErr = true
				break
			}
			if c.Stop {
				break
			}
			if c.Next {
				skip = int(y.po)
			}
		}
		same := len(want) == len(ys)
		for i := 0; same && i < len(ys); i++ {
			same = want[i] == ys[i]
		}
		if !same || wantErr != (err != nil) {
			class := "plain"
			for i := 0; i < len(o.Script) && i < len(ys)+1; i++ {
				c := o.Script[i]
				if c.Err {
					class = "error"
					break
				} else if c.Stop {
					class = "stop"
					break
				} else if c.Next {
					class = "skip-to-next-bin"
				}
			}
			e.viol("iter:"+kind+":"+class, fmt.Sprintf("yielded %d entries (err=%v), the set in bin order with the callback's stop/next/err gives %d (err=%v)", len(ys), err != nil, len(want), wantErr), fmtYields(ys), fmtYields(want))
		}
		// and the full walk is the set, each once, right bin, ordered
		if len(o.Script) == 0 {
			seen := map[string]bool{}
			for i, y := range ys {
				if seen[y.a] || !e.ref[y.a] || int(y.po) != refPo(e.base, []byte(y.a), e.maxBins) {
					e.viol("iter:"+kind+":not-the-set", fmt.Sprintf("yield %d (%x, bin %d) is repeated, not in the set or in the wrong bin", i, y.a, y.po), nil, nil)
					break
				}
				seen[y.a] = true
				if i > 0 && ((o.Rev && ys[i-1].po > y.po) || (!o.Rev && ys[i-1].po < y.po)) {
					e.viol("iter:"+kind+":bin-order", "bins are not visited in order", nil, nil)
					break
				}
			}
			if len(seen) != len(e.ref) {
				e.viol("iter:"+kind+":not-the-set", fmt.Sprintf("full walk yielded %d of %d", len(seen), len(e.ref)), len(seen), len(e.ref))
			}
		}
	} else {
		e.checkState("update-inside-iteration")
	}
	return obs, false
}

func fmtYields(ys []yield) []string {
	r := make([]string, len(ys))
	for i, y := range ys {
		r[i] = fmt.Sprintf("%x@%d", y.a, y.po)
	}
	return r
}

func (e *exec) finish(tag string) {
	// final dump (exact slice order)
	dump := make([]string, 0, e.maxBins)
	for b := 0; b < e.maxBins && b < 256; b++ {
		dump = append(dump, coqAddrs(e.ps.BinPeers(uint8(b))))
	}
	coq := hx.CoqApp("Case", hx.CoqNat(e.maxBins), hx.CoqBytes(e.base),
		hx.CoqList(e.coqOps, "op"), hx.CoqList(e.coqObs, "option obs"), hx.CoqList(dump, "list addr"))
	ks := make([]string, 0, len(e.kinds))
	for k := range e.kinds {
		ks = append(ks, k)
	}
	sort.Strings(ks)
	// distinct by the whole history; non-trivial: at least one update and one query/iteration on 1..256 bins
	key := fmt.Sprintf("%d|%x|%v", e.maxBins, e.base, e.ops)
	nontrivial := e.maxBins >= 1 && (e.kinds["add"] || e.kinds["remove"]) && len(ks) >= 2
	e.run.AddCase(coq, e.jc(), key, nontrivial)
	e.run.Hist("history." + tag)
	e.run.Hist(fmt.Sprintf("maxBins=%d", e.maxBins))
}

// ---------------------------------------------------------------- generation

type gen struct {
	r       *hx.Rand
	maxBins int
	base    []byte
	pool    [][]byte
	fam     [][][]byte // families of DISTINCT addresses sharing a long common prefix
}

// family builds distinct addresses that agree with root on their first k
// bytes (k = 1, 8, 16, len-1 ...): some differ only in the last bit or the
// last byte, some from byte k on.
func (g *gen) family(root []byte, k int) [][]byte {
	n := len(root)
	if k > n-1 {
		k = n - 1
	}
	seen := map[string]bool{string(root): true}
	out := [][]byte{append([]byte{}, root...)}
	add := func(a []byte) {
		if !seen[string(a)] {
			seen[string(a)] = true
			out = append(out, a)
		}
	}
	a := append([]byte{}, root...)
	a[n-1] ^= 0x01 // last bit
	add(a)
	a = append([]byte{}, root...)
	a[n-1] ^= byte(1 + g.r.Intn(255)) // last byte
	add(a)
	for t := 0; t < 1+g.r.Intn(3); t++ {
		a = append([]byte{}, root...)
		a[k] ^= byte(1 + g.r.Intn(255)) // first byte after the shared prefix
		if g.r.Bool() {
			copy(a[k+1:], g.r.Bytes(n-k-1))
		}
		add(a)
	}
	return out
}

// address at proximity po from base (first differing bit = po), random tail
func (g *gen) at(po int) []byte {
	a := append([]byte{}, g.base...)
	if po >= 8*len(a) {
		return a
	}
	a[po/8] ^= 0x80 >> uint(po%8)
	for k := po + 1; k < 8*len(a); k++ {
		if g.r.Bool() {
			a[k/8] ^= 0x80 >> uint(k%8)
		}
	}
	return a
}

func newGen(r *hx.Rand, maxBins int, base []byte, npool int) *gen {
	g := &gen{r: r, maxBins: maxBins, base: base}
	for i := 0; i < npool; i++ {
		hi := maxBins + 2
		if hi > 8*len(base) {
			hi = 8 * len(base)
		}
		po := r.Intn(hi + 1)
		if r.Chance(1, 3) && maxBins > 0 {
			po = r.Intn(maxBins) // spread over real bins
		}
		a := g.at(po)
		switch r.Intn(40) {
		case 0:
			a = []byte{} // empty address: Proximity gives MaxPO
		case 1:
			a = a[:1+r.Intn(len(a))] // shorter than the base
		case 2:
			a = append(a, r.Bytes(1+r.Intn(3))...) // longer
		}
		g.pool = append(g.pool, a)
	}
	// close neighbours: families sharing the first 1 / 8 / 16 / len-1 bytes
	if len(base) >= 2 {
		for f := 0; f < 2+r.Intn(2); f++ {
			root := g.pool[r.Intn(len(g.pool))]
			if len(root) != len(base) || f == 0 {
				root = g.at(r.Intn(maxBins + 3)) // f == 0: anywhere, incl. beyond the last bin
			}
			if f == 1 {
				root = append([]byte{}, base...) // neighbours of the base itself (deepest bin)
			}
			fam := g.family(root, r.Pick([]int{1, 8, 8, 16, 31, len(base) - 1}))
			g.fam = append(g.fam, fam)
			g.pool = append(g.pool, fam...)
		}
	}
	return g
}

// famBatch: ONE batched Add holding several distinct members of a family,
// mixed with a genuine duplicate, an already stored member and an unrelated address.
func (g *gen) famBatch(ref map[string]bool) jop {
	fam := g.fam[g.r.Intn(len(g.fam))]
	var as []string
	for _, i := range g.perm(len(fam)) {
		if len(as) < 2 || g.r.Chance(2, 3) {
			as = append(as, hx.Hex(fam[i]))
		}
	}
	if g.r.Chance(1, 2) {
		as = append(as, as[g.r.Intn(len(as))]) // genuine duplicate
	}
	if a, ok := g.present(ref); ok && g.r.Chance(1, 2) {
		as = append(as, a) // already stored
	}
	if g.r.Chance(1, 3) {
		as = append(as, g.pick())
	}
	p := g.perm(len(as))
	out := make([]string, len(as))
	for i, j := range p {
		out[i] = as[j]
	}
	return jop{K: "add", A: out}
}

func (g *gen) perm(n int) []int {
	p := make([]int, n)
	for i := range p {
		p[i] = i
	}
	for i := n - 1; i > 0; i-- {
		j := g.r.Intn(i + 1)
		p[i], p[j] = p[j], p[i]
	}
	return p
}

func (g *gen) pick() string { return hx.Hex(g.pool[g.r.Intn(len(g.pool))]) }

func (g *gen) present(ref map[string]bool) (string, bool) {
	if len(ref) == 0 {
		return "", false
	}
	ks := make([]string, 0, len(ref))
	for k := range ref {
		ks = append(ks, k)
	}
	sort.Strings(ks)
	return hx.Hex([]byte(ks[g.r.Intn(len(ks))])), true
}

func (g *gen) uop(ref map[string]bool) jop {
	if len(g.fam) > 0 && g.r.Chance(1, 5) {
		return g.famBatch(ref)
	}
	switch x := g.r.Intn(10); {
	case x < 3:
		return jop{K: "add", A: []string{g.pick()}}
	case x < 6:
		n := g.r.Pick([]int{0, 2, 2, 3, 4, 5, 7})
		as := make([]string, n)
		for i := range as {
			as[i] = g.pick()
			if i > 0 && g.r.Chance(1, 5) {
				as[i] = as[g.r.Intn(i)] // the same address twice in one batch
			}
		}
		return jop{K: "add", A: as}
	default:
		if a, ok := g.present(ref); ok && g.r.Chance(5, 6) {
			return jop{K: "remove", A: []string{a}}
		}
		return jop{K: "remove", A: []string{g.pick()}}
	}
}

func (g *gen) script(ref map[string]bool, withUpd bool) []jcb {
	n := g.r.Pick([]int{0, 0, 1, 2, 3, 5, 8, 12})
	sc := make([]jcb, n)
	for i := range sc {
		switch g.r.Intn(8) {
		case 0:
			sc[i].Next = true
		case 1:
			if i >= n-2 {
				sc[i].Stop = true
			} else {
				sc[i].Next = true
			}
		case 2:
			if i >= n-1 {
				sc[i].Err = true
				sc[i].Stop = g.r.Bool()
				sc[i].Next = g.r.Bool()
			}
		case 3:
			if g.r.Chance(1, 4) {
				sc[i].Stop, sc[i].Next = true, true
			}
		}
		if withUpd && g.r.Chance(1, 2) {
			for k := 0; k <= g.r.Intn(2); k++ {
				sc[i].Upd = append(sc[i].Upd, g.uop(ref))
			}
		}
	}
	return sc
}

func (g *gen) op(ref map[string]bool) jop {
	switch x := g.r.Intn(20); {
	case x < 9:
		return g.uop(ref)
	case x < 10:
		return jop{K: "exists", A: []string{g.pick()}}
	case x < 11:
		return jop{K: "length"}
	case x < 12:
		return jop{K: "binsize", B: g.r.Intn(g.maxBins + 2)}
	case x < 13:
		return jop{K: "binpeers", B: g.r.Intn(g.maxBins + 2)}
	case x < 14:
		return jop{K: "shallowest"}
	case x < 17:
		return jop{K: "each", Rev: g.r.Bool(), Script: g.script(ref, false)}
	default:
		return jop{K: "each", Rev: g.r.Bool(), Script: g.script(ref, true)}
	}
}

// ---------------------------------------------------------------- corpus

func corpus() []jcase {
	b4 := "a5a5a5a5"
	a0 := "25000000" // bin 0
	a0b := "35112233"
	a1 := "e5000000" // bin 1
	a2 := "85000001" // bin 2
	a3 := "b5000000" // bin 3 (capped from 3)
	a9 := "a5e50000" // proximity 9 -> capped to the last bin
	return []jcase{
		// F-pslice-batch-dup: Add(a, a) must leave one entry
		{MaxBins: 4, Base: b4, Ops: []jop{{K: "add", A: []string{a0, a0}}, {K: "length"}, {K: "binpeers", B: 0}, {K: "remove", A: []string{a0}}, {K: "exists", A: []string{a0}}, {K: "length"}}},
		{MaxBins: 4, Base: b4, Ops: []jop{{K: "add", A: []string{a1}}, {K: "add", A: []string{a0, a1, a0, a2, a2, a0}}, {K: "length"}, {K: "each"}, {K: "each", Rev: true}}},
		// capping at the last bin, shallowest-empty with and without an empty bin
		{MaxBins: 4, Base: b4, Ops: []jop{{K: "shallowest"}, {K: "add", A: []string{a9, a3}}, {K: "binsize", B: 3}, {K: "shallowest"}, {K: "add", A: []string{a0, a1, a2}}, {K: "shallowest"}, {K: "binsize", B: 4}, {K: "binpeers", B: 200}}},
		// remove: middle element is replaced by the last, last element, only element
		{MaxBins: 4, Base: b4, Ops: []jop{{K: "add", A: []string{a0, a0b, "15000000", "05000000"}}, {K: "remove", A: []string{a0b}}, {K: "binpeers", B: 0}, {K: "remove", A: []string{"15000000"}}, {K: "binpeers", B: 0}, {K: "remove", A: []string{a0}}, {K: "remove", A: []string{"05000000"}}, {K: "shallowest"}, {K: "remove", A: []string{a0}}}},
		// iteration: stop, next, err precedence
		{MaxBins: 4, Base: b4, Ops: []jop{{K: "add", A: []string{a0, a0b, a1, a2, a3, a9}},
			{K: "each", Script: []jcb{{Next: true}, {}, {Next: true}, {Stop: true}}},
			{K: "each", Rev: true, Script: []jcb{{}, {Next: true, Stop: true}}},
			{K: "each", Rev: true, Script: []jcb{{Next: true}, {Err: true, Stop: true, Next: true}}},
			{K: "each", Script: []jcb{{}, {}, {}, {}, {}, {Next: true}}}}},
		// updates from inside the callback: remove the element just yielded / a later one of the same bin; add into the bin being walked
		{MaxBins: 4, Base: b4, Ops: []jop{{K: "add", A: []string{a0, a0b, "15000000", "05000000", a1}},
			{K: "each", Rev: true, Script: []jcb{{Upd: []jop{{K: "remove", A: []string{a0}}}}, {Upd: []jop{{K: "remove", A: []string{"05000000"}}}}, {Upd: []jop{{K: "add", A: []string{"0f000000"}}}}}},
			{K: "binpeers", B: 0},
			{K: "each", Script: []jcb{{Upd: []jop{{K: "add", A: []string{"e5000001", "e5000002"}}}}, {Upd: []jop{{K: "remove", A: []string{a1}}}}}},
			{K: "binpeers", B: 1}}},
		// no bins: every operation that computes a bin panics (index out of range)
		{MaxBins: 0, Base: b4, Ops: []jop{{K: "length"}, {K: "shallowest"}, {K: "binsize", B: 0}, {K: "each"}, {K: "add", A: []string{a0}}}},
		{MaxBins: 0, Base: b4, Ops: []jop{{K: "add", A: []string{}}, {K: "exists", A: []string{a0}}}},
		// one bin; empty and short addresses
		{MaxBins: 1, Base: b4, Ops: []jop{{K: "add", A: []string{a0, a9, ""}}, {K: "length"}, {K: "shallowest"}, {K: "each", Rev: true}}},
		{MaxBins: 32, Base: b4, Ops: []jop{{K: "add", A: []string{"", "a5", b4, "a5a5a5a4", "a5a5a5a5ff"}}, {K: "binpeers", B: 31}, {K: "binpeers", B: 8}, {K: "each"}}},
		{MaxBins: 33, Base: b4, Ops: []jop{{K: "add", A: []string{b4, a0}}, {K: "shallowest"}, {K: "binsize", B: 32}, {K: "binsize", B: 31}}},
		// seeded/C21-2: ONE batched Add of distinct 32-byte addresses that agree on their first 31 / 16 / 8 / 1 bytes
		// (last bit, last byte, byte 16, byte 8, byte 1 differ), with a genuine duplicate and a stored member
		{MaxBins: 32, Base: b32, Ops: []jop{
			{K: "add", A: []string{n32(31, 0x01)}},
			{K: "add", A: []string{n32(31, 0x01), n32(31, 0x00), n32(31, 0x80), n32(16, 0xff), n32(8, 0xff), n32(31, 0x00), n32(1, 0xff), n32(0, 0x80)}},
			{K: "length"}, {K: "exists", A: []string{n32(31, 0x80)}}, {K: "exists", A: []string{n32(16, 0xff)}}, {K: "exists", A: []string{n32(8, 0xff)}},
			{K: "binsize", B: 0}, {K: "binsize", B: 8}, {K: "each"}, {K: "each", Rev: true},
			{K: "remove", A: []string{n32(31, 0x80)}}, {K: "add", A: []string{n32(31, 0x80), n32(31, 0x40)}}, {K: "length"}}},
		// the same with 16-byte addresses in 4 bins, and 9-byte ones (first 8 bytes equal)
		{MaxBins: 4, Base: b32[:32], Ops: []jop{
			{K: "add", A: []string{"25" + z(14) + "01", "25" + z(14) + "02", "25" + z(7) + "01" + z(7), "25" + z(14) + "01", "e5" + z(15)}},
			{K: "length"}, {K: "binpeers", B: 0}, {K: "each"}}},
		{MaxBins: 4, Base: b32[:18], Ops: []jop{
			{K: "add", A: []string{"25" + z(7) + "01", "25" + z(7) + "02", "25" + z(7) + "03"}},
			{K: "length"}, {K: "binpeers", B: 0}, {K: "exists", A: []string{"25" + z(7) + "03"}}}},
	}
}

// 32-byte corpus addresses: b32 with byte i xor-ed with v
const b32 = "a5a5a5a5a5a5a5a5a5a5a5a5a5a5a5a5a5a5a5a5a5a5a5a5a5a5a5a5a5a5a5a5"

func n32(i int, v byte) string {
	b := unhex(b32)
	b[0] ^= 0x80 // bin 0, so that the family is not capped into the last bin only
	if i == 0 {
		b[0] ^= 0x80 ^ v // an unrelated bin
	} else {
		b[i] ^= v
	}
	return hx.Hex(b)
}

func z(n int) string { return strings.Repeat("00", n) }

// ---------------------------------------------------------------- concurrent soak

func soak(run *hx.Run, seed uint64, dur time.Duration) {
	base := []byte{0xa5, 0xa5, 0xa5, 0xa5}
	maxBins := 4
	ps := pslice.New(maxBins, boson.NewAddress(base))
	g := newGen(hx.NewRand(seed), maxBins, base, 24)
	pool := make([]boson.Address, len(g.pool))
	inPool := map[string]int{}
	for i, a := range g.pool {
		pool[i] = boson.NewAddress(a)
		inPool[string(a)] = refPo(base, a, maxBins)
	}
	var stop int32
	var bad atomic.Value
	var iters, muts int64
	var wg sync.WaitGroup
	for w := 0; w < 2; w++ {
		wg.Add(1)
		go func(w int) {
			defer wg.Done()
			r := hx.NewRand(seed*31 + uint64(w))
			defer func() {
				if e := recover(); e != nil {
					bad.Store(fmt.Sprintf("panic:concurrent-update|mutator panicked: %v", e))
				}
			}()
			for atomic.LoadInt32(&stop) == 0 {
				switch r.Intn(4) {
				case 3: // remove the peer that is currently last in a bin, then add into the same bin
					b := r.Intn(maxBins)
					if bp := ps.BinPeers(uint8(b)); len(bp) > 0 {
						ps.Remove(bp[len(bp)-1])
						for t := 0; t < 8; t++ {
							if a := pool[r.Intn(len(pool))]; inPool[a.ByteString()] == b {
								ps.Add(a)
								break
							}
						}
					}
				case 0:
					ps.Add(pool[r.Intn(len(pool))])
				case 1:
					n := 2 + r.Intn(4)
					as := make([]boson.Address, n)
					for i := range as {
						as[i] = pool[r.Intn(len(pool))]
					}
					ps.Add(as...)
				default:
					ps.Remove(pool[r.Intn(len(pool))])
				}
				atomic.AddInt64(&muts, 1)
			}
		}(w)
	}
	for w := 0; w < 8; w++ {
		wg.Add(1)
		go func(w int) {
			defer wg.Done()
			defer func() {
				if e := recover(); e != nil {
					bad.Store(fmt.Sprintf("panic:concurrent-iteration|iterator panicked: %v", e))
				}
			}()
			for atomic.LoadInt32(&stop) == 0 {
				seen := map[string]bool{}
				cur := -1
				f := func(a boson.Address, po uint8) (bool, bool, error) {
					if int(po) != cur {
						cur = int(po)
						seen = map[string]bool{}
					}
					k := a.ByteString()
					want, ok := inPool[k]
					if !ok || want != int(po) {
						bad.Store(fmt.Sprintf("iter:concurrent:foreign-or-wrong-bin|iterator saw %x in bin %d", a.Bytes(), po))
					}
					if seen[k] {
						bad.Store(fmt.Sprintf("iter:concurrent:duplicate-in-bin-snapshot|iterator saw %x twice in one pass over bin %d", a.Bytes(), po))
					}
					seen[k] = true
					return false, false, nil
				}
				if w%2 == 0 {
					_ = ps.EachBin(f)
				} else {
					_ = ps.EachBinRev(f)
				}
				_ = ps.Length()
				_, _ = ps.ShallowestEmpty()
				_ = ps.Exists(pool[w])
				_ = ps.BinPeers(uint8(w % maxBins))
				atomic.AddInt64(&iters, 1)
			}
		}(w)
	}
	time.Sleep(dur)
	atomic.StoreInt32(&stop, 1)
	wg.Wait()
	run.OracleChecked(int(iters))
	run.HistN("soak.iterations", int(iters))
	run.HistN("soak.mutations", int(muts))
	if b := bad.Load(); b != nil {
		p := strings.SplitN(b.(string), "|", 2)
		run.Violate(hx.Violation{Sig: p[0], Detail: p[1], Case: map[string]interface{}{"soak_seed": seed}})
	}
}

// ---------------------------------------------------------------- main

func main() {
	run := hx.Start("C21", "Aurora.C21.Corr",
		"histories on a real pslice.PSlice (1..33 bins; pools of 6..14 addresses placed by first differing bit incl. beyond the last bin, empty/short/long addresses): single and batched Add (with repeats inside a batch), Remove, Exists/Length/BinSize/BinPeers/ShallowestEmpty, EachBin/EachBinRev with stop/next/err scripts and with updates performed inside the callback; non-trivial = history with at least one update and one query or iteration on >= 1 bin; distinct by (bins, base, operation list). Then a goroutine soak: 8 iterators vs 2 mutators (thorough: under -race)")

	if run.Replay != "" {
		var jc jcase
		if err := run.ReadReplay(&jc); err != nil {
			panic(err)
		}
		if jc.Base == "" && len(jc.Ops) == 0 {
			soak(run, run.Seed, 2*time.Second)
			run.Finish()
			return
		}
		e := newExec(run, jc.MaxBins, unhex(jc.Base))
		for _, o := range jc.Ops {
			e.do(o)
		}
		e.finish("replay")
		run.Finish()
		return
	}

	for _, jc := range append(corpus(), corpusTail()...) {
		e := newExec(run, jc.MaxBins, unhex(jc.Base))
		for _, o := range jc.Ops {
			e.do(o)
		}
		e.finish("corpus")
	}

	r := run.R
	for h := 0; h < run.N(260, 2500); h++ {
		maxBins := r.Pick([]int{1, 2, 3, 4, 4, 4, 4, 5, 8, 16, 32, 33})
		blen := r.Pick([]int{4, 4, 4, 5, 8, 9, 16, 32})
		base := r.Bytes(blen)
		g := newGen(r.Fork(uint64(h)), maxBins, base, 6+r.Intn(9))
		e := newExec(run, maxBins, base)
		n := 8 + r.Intn(run.N(22, 40))
		for i := 0; i < n; i++ {
			if r.Chance(1, 8) {
				if o, ok := g.tailEach(e); ok {
					e.do(o)
					continue
				}
			}
			e.do(g.op(e.ref))
		}
		e.finish("random")
	}
	// histories dominated by batched Adds of close neighbours (long common prefixes)
	for h := 0; h < run.N(40, 400); h++ {
		maxBins := r.Pick([]int{4, 4, 8, 32})
		base := r.Bytes(r.Pick([]int{9, 12, 16, 32, 32}))
		g := newGen(r.Fork(uint64(h)+1000003), maxBins, base, 3+r.Intn(4))
		e := newExec(run, maxBins, base)
		for i := 0; i < 6+r.Intn(8); i++ {
			switch r.Intn(6) {
			case 0, 1, 2:
				e.do(g.famBatch(e.ref))
			case 3:
				e.do(g.uop(e.ref))
			case 4:
				e.do(jop{K: "each", Rev: r.Bool()})
			default:
				e.do(jop{K: "length"})
			}
		}
		e.finish("close-addresses")
	}

	soak(run, run.Seed, time.Duration(run.N(2, 20))*time.Second)
	run.Finish()
}
