// C09 harness: traversal.Service (Traverse / GetPyramid / GetChunkHashes) and the
// joiner's IterateChunkAddresses on a recording in-memory chunk store.
//
// Ground truth = the Put calls made while the file / directory was written by the
// real pipeline (builder.NewPipelineBuilder, plain and encrypted) and by
// manifest.Store.  Oracle (independent of the Coq model):
//
//	file:     multiset(Traverse reports) = multiset(Put addresses);
//	          data-chunk list = the first ceil(size/chunk) Puts in order (the pipeline
//	          stores data chunks as they stream by, the root reference chunk last,
//	          for files below branching*chunk bytes);
//	          pyramid keys U data chunks = Put addresses, both subsets, disjoint for
//	          multi-chunk files; pyramid values = the stored bytes
//	synthetic two-level trees (fabricated reference chunks, leaves not stored; run
//	          through joiner.New + IterateChunkAddresses because Traverse first reads
//	          the whole file to sniff a manifest): reports = all addresses of the
//	          fabricated tree, data list = its leaves in order
//	manifest: set(Traverse reports) = set(Puts); pyramid keys U data lists = set(Puts);
//	          data lists = per path (sorted, not ending in '/') the data chunks of the file
//
//	lift:     files of branching±1 identical chunks (2 GiB plain / 1 GiB encrypted) through the
//	          real BMT/Store/HashTrie stages (no feeder): joiner directly and the real service via
//	          a manifest; data list = the construction's chunk sequence
//
// Correspondence cases (Aurora.C09.Corr): the store as the decrypting store shows it
// (span, payload length, references as identifiers) + observed results.
package main

import (
	"bytes"
	"context"
	"encoding/binary"
	"encoding/hex"
	"errors"
	"fmt"
	"sort"
	"strings"
	"sync"
	"time"

	"github.com/gauss-project/aurorafs/pkg/boson"
	"github.com/gauss-project/aurorafs/pkg/encryption"
	encstore "github.com/gauss-project/aurorafs/pkg/encryption/store"
	"github.com/gauss-project/aurorafs/pkg/file/joiner"
	"github.com/gauss-project/aurorafs/pkg/file/loadsave"
	"github.com/gauss-project/aurorafs/pkg/file/pipeline"
	"github.com/gauss-project/aurorafs/pkg/file/pipeline/bmt"
	"github.com/gauss-project/aurorafs/pkg/file/pipeline/builder"
	penc "github.com/gauss-project/aurorafs/pkg/file/pipeline/encryption"
	"github.com/gauss-project/aurorafs/pkg/file/pipeline/hashtrie"
	pstore "github.com/gauss-project/aurorafs/pkg/file/pipeline/store"
	"github.com/gauss-project/aurorafs/pkg/manifest"
	"github.com/gauss-project/aurorafs/pkg/storage"
	"github.com/gauss-project/aurorafs/pkg/traversal"
	"github.com/gauss-project/manifest/mantaray"
	"verifharness/hx"
)

const chunkSize = 262144 // the oracle's own statement; compared with boson.ChunkSize at start
const plainBranching = 8192

// ---------------------------------------------------------------- store

type recStore struct {
	mu   sync.Mutex
	m    map[string][]byte
	puts []string // address of every Put, in call order
}

func newStore() *recStore { return &recStore{m: map[string][]byte{}} }

func (s *recStore) Put(_ context.Context, _ storage.ModePut, chs ...boson.Chunk) ([]bool, error) {
	s.mu.Lock()
	defer s.mu.Unlock()
	ex := make([]bool, len(chs))
	for i, c := range chs {
		k := string(c.Address().Bytes())
		_, ex[i] = s.m[k]
		s.m[k] = append([]byte(nil), c.Data()...)
		s.puts = append(s.puts, k)
	}
	return ex, nil
}
func (s *recStore) Get(_ context.Context, _ storage.ModeGet, a boson.Address) (boson.Chunk, error) {
	s.mu.Lock()
	defer s.mu.Unlock()
	d, ok := s.m[string(a.Bytes())]
	if !ok {
		return nil, storage.ErrNotFound
	}
	return boson.NewChunk(a, d), nil
}

// ---------------------------------------------------------------- identifiers

type ids struct {
	a, k   map[string]uint64
	na, nk uint64
}

func newIDs() *ids { return &ids{a: map[string]uint64{}, k: map[string]uint64{}} }
func (x *ids) addr(b []byte) uint64 {
	if v, ok := x.a[string(b)]; ok {
		return v
	}
	x.na++
	x.a[string(b)] = x.na
	return x.na
}
func (x *ids) key(b []byte) uint64 {
	if v, ok := x.k[string(b)]; ok {
		return v
	}
	x.nk++
	x.k[string(b)] = x.nk
	return x.nk
}
func (x *ids) ref(b []byte) [2]uint64 {
	if len(b) == 64 {
		return [2]uint64{x.addr(b[:32]), x.key(b[32:])}
	}
	return [2]uint64{x.addr(b), 0}
}

// ---------------------------------------------------------------- the store as the decrypting store shows it

type ent struct {
	ref  [2]uint64
	span uint64
	plen int
	refs [][2]uint64
}

// buildViews walks from root through every chunk whose span exceeds its payload
// length (such a chunk cannot be a data chunk) and records each reachable
// reference's decrypted view.
func buildViews(st storage.Getter, x *ids, seen map[string]bool, root []byte) []ent {
	get := encstore.New(st)
	var out []ent
	var walk func(ref []byte)
	walk = func(ref []byte) {
		if seen[string(ref)] {
			return
		}
		seen[string(ref)] = true
		ch, err := get.Get(context.Background(), storage.ModeGetLookup, boson.NewAddress(ref))
		if err != nil {
			return
		}
		d := ch.Data()
		e := ent{ref: x.ref(ref), span: binary.LittleEndian.Uint64(d[:8]), plen: len(d) - 8}
		var kids [][]byte
		if int64(e.span) > int64(e.plen) {
			rl := len(ref)
			for c := 0; c+rl <= e.plen; c += rl {
				kids = append(kids, d[8+c:8+c+rl])
			}
			for _, k := range kids {
				e.refs = append(e.refs, x.ref(k))
			}
		}
		out = append(out, e)
		for _, k := range kids {
			walk(k)
		}
	}
	walk(root)
	return out
}

// ---------------------------------------------------------------- Coq emitters

func coqRuns(rs [][2]uint64) string {
	if len(rs) == 0 {
		return "(@nil run)"
	}
	var sb strings.Builder
	sb.WriteString("[")
	first := true
	for i := 0; i < len(rs); {
		a, k := rs[i][0], rs[i][1]
		n, da, dk := uint64(1), uint64(0), uint64(0)
		if i+1 < len(rs) && rs[i+1][0]-a <= 1 && rs[i+1][1]-k <= 1 && rs[i+1][0] >= a && rs[i+1][1] >= k {
			da, dk = rs[i+1][0]-a, rs[i+1][1]-k
			for i+int(n) < len(rs) && rs[i+int(n)][0] == a+n*da && rs[i+int(n)][1] == k+n*dk {
				n++
			}
		}
		if !first {
			sb.WriteString("; ")
		}
		first = false
		fmt.Fprintf(&sb, "Run %d %d %d %d %d", a, k, n, da, dk)
		i += int(n)
	}
	sb.WriteString("]")
	return sb.String()
}
func coqAddrs(as []uint64) string {
	rs := make([][2]uint64, len(as))
	for i, a := range as {
		rs[i] = [2]uint64{a, 0}
	}
	return coqRuns(rs)
}
func coqEnts(es []ent) string {
	if len(es) == 0 {
		return "(@nil ent)"
	}
	el := make([]string, len(es))
	for i, e := range es {
		el[i] = fmt.Sprintf("Ent %d %d %d %d %s", e.ref[0], e.ref[1], e.span, e.plen, coqRuns(e.refs))
	}
	return "[" + strings.Join(el, ";\n     ") + "]"
}

type obsv struct {
	ok   bool
	nf   bool
	list []uint64
}

func (o obsv) coq() string {
	if o.ok {
		return "(OOk " + coqAddrs(o.list) + ")"
	}
	if o.nf {
		return "ONotFound"
	}
	return "OOther"
}
func classify(err error, l []uint64) obsv {
	if err == nil {
		return obsv{ok: true, list: l}
	}
	return obsv{nf: errors.Is(err, storage.ErrNotFound)}
}

// ---------------------------------------------------------------- helpers

func multiset(l []string) map[string]int {
	m := map[string]int{}
	for _, s := range l {
		m[s]++
	}
	return m
}
func setOf(l []string) map[string]bool {
	m := map[string]bool{}
	for _, s := range l {
		m[s] = true
	}
	return m
}
func sortedU(l []uint64, dedup bool) []uint64 {
	c := append([]uint64(nil), l...)
	sort.Slice(c, func(i, j int) bool { return c[i] < c[j] })
	if !dedup {
		return c
	}
	var o []uint64
	for i, v := range c {
		if i == 0 || v != c[i-1] {
			o = append(o, v)
		}
	}
	return o
}
func short(s string) string {
	h := hex.EncodeToString([]byte(s))
	if len(h) > 12 {
		return fmt.Sprintf("%s..(%dB)", h[:12], len(s))
	}
	return h
}
func shortList(l []string) []string {
	var o []string
	for i, s := range l {
		if i >= 8 {
			o = append(o, fmt.Sprintf("...%d more", len(l)-8))
			break
		}
		o = append(o, short(s))
	}
	return o
}

func content(r *hx.Rand, size int, mode string) []byte {
	b := make([]byte, size)
	switch mode {
	case "zeros":
	case "period2": // chunks alternate between two contents: non-adjacent duplicates
		for i := range b {
			c := (i / chunkSize) % 2
			b[i] = byte(i%chunkSize*(3+c) + c)
		}
	default:
		s := r.U64()
		for i := range b {
			if i%8 == 0 {
				s = s*6364136223846793005 + 1442695040888963407
			}
			b[i] = byte(s >> (uint(i%8) * 8))
		}
	}
	return b
}

func upload(ctx context.Context, st *recStore, enc bool, data []byte) (boson.Address, error) {
	pipe := builder.NewPipelineBuilder(ctx, st, storage.ModePutUpload, enc)
	return builder.FeedPipeline(ctx, pipe, bytes.NewReader(data))
}

func nChunks(size int) int {
	if size == 0 {
		return 1
	}
	return (size + chunkSize - 1) / chunkSize
}

// ---------------------------------------------------------------- case descriptions (replayable)

type jcase struct {
	Kind  string   `json:"kind"` // file | iter | man
	Enc   bool     `json:"enc"`
	Size  int      `json:"size,omitempty"`
	Mode  string   `json:"mode,omitempty"`
	Sub   uint64   `json:"sub"`
	Full  int      `json:"full,omitempty"`  // iter: number of full level-1 nodes
	Last  int      `json:"last,omitempty"`  // iter: leaves under the last node; 0 = none, -1 = a carried data chunk
	Dup   bool     `json:"dup,omitempty"`   // iter: all full nodes are the same chunk
	Drop  bool     `json:"drop,omitempty"`  // iter: one intermediate chunk is missing from the store
	Paths []string `json:"paths,omitempty"` // man
	Sizes []int    `json:"sizes,omitempty"` // man: file size per path
	Root  bool     `json:"root,omitempty"`  // man: add the "/" entry with the empty reference (index document)
	N     int      `json:"n,omitempty"`     // lift: identical full data chunks
	Tail  int      `json:"tail,omitempty"`  // lift: bytes of the last, shorter data chunk (0: none)
}

type harness struct {
	run *hx.Run
	ctx context.Context
}

func (h *harness) violate(sig, detail string, jc jcase, impl, want interface{}) {
	h.run.Violate(hx.Violation{Sig: sig, Detail: detail, Case: jc, Impl: impl, Want: want})
}

// collectTraverse runs Traverse and returns the reported byte strings
func collectTraverse(ctx context.Context, tr traversal.Traverser, addr boson.Address) ([]string, error) {
	var rep []string
	var mu sync.Mutex
	err := tr.Traverse(ctx, addr, func(a boson.Address) error {
		mu.Lock()
		rep = append(rep, string(a.Bytes()))
		mu.Unlock()
		return nil
	})
	return rep, err
}

func pyramidKeys(py map[string][]byte) ([]string, bool) {
	var ks []string
	ok := true
	for k := range py {
		b, err := hex.DecodeString(k)
		if err != nil {
			ok = false
			b = []byte(k)
		}
		ks = append(ks, string(b))
	}
	sort.Strings(ks)
	return ks, ok
}

func (h *harness) idsOf(x *ids, l []string) []uint64 {
	o := make([]uint64, len(l))
	for i, s := range l {
		o[i] = x.addr([]byte(s))
	}
	return o
}

// ---------------------------------------------------------------- file cases

func (h *harness) doFile(jc jcase) {
	run, ctx := h.run, h.ctx
	r := hx.NewRand(jc.Sub)
	st := newStore()
	data := content(r, jc.Size, jc.Mode)
	addr, err := upload(ctx, st, jc.Enc, data)
	if err != nil {
		h.violate("file:upload-failed", err.Error(), jc, nil, nil)
		return
	}
	puts := append([]string(nil), st.puts...)
	nc := nChunks(jc.Size)
	tr := traversal.New(st)

	var rep []string
	var terr error
	var py map[string][]byte
	var perr error
	var hashes [][][]byte
	var herr error
	done := hx.WithTimeout(120*time.Second, func() {
		rep, terr = collectTraverse(ctx, tr, addr)
		py, perr = tr.GetPyramid(ctx, addr)
		hashes, _, herr = tr.GetChunkHashes(ctx, addr, nil)
	})
	if !done {
		h.violate("file:timeout", "traversal did not finish", jc, nil, nil)
		return
	}
	if len(st.puts) != len(puts) {
		h.violate("file:traversal-writes", "traversal wrote to the store", jc, len(st.puts)-len(puts), 0)
	}
	var dlist []string
	if herr == nil {
		for _, l := range hashes {
			for _, b := range l {
				dlist = append(dlist, string(b))
			}
		}
	}
	pkeys, _ := pyramidKeys(py)

	// ---- oracle
	cls := "plain"
	if jc.Enc {
		cls = "encrypted"
	}
	multi := "single-chunk"
	if nc > 1 {
		multi = "multi-chunk"
	}
	run.OracleChecked(4)
	if terr != nil || perr != nil || herr != nil {
		h.violate("file:error:"+cls, fmt.Sprintf("traverse=%v pyramid=%v hashes=%v", terr, perr, herr), jc, nil, "no error")
	} else {
		want, got := multiset(puts), multiset(rep)
		bad := ""
		for k, n := range want {
			if got[k] == 0 {
				bad = "missing"
			} else if got[k] != n && bad == "" {
				bad = "count"
			}
		}
		for k := range got {
			if want[k] == 0 {
				if len(k) != boson.HashSize {
					bad = "reports-reference-not-address"
				} else if bad == "" {
					bad = "extra"
				}
			}
		}
		if bad != "" {
			h.violate("file:traverse!=written:"+bad+":"+cls+":"+multi, "Traverse reports differ from the Put addresses", jc, shortList(rep), shortList(puts))
		}
		// data chunks: the first nc puts, in order
		wantData := puts
		if len(puts) >= nc {
			wantData = puts[:nc]
		}
		if len(hashes) != 1 || strings.Join(dlist, "|") != strings.Join(wantData, "|") {
			sub := "order-or-content"
			for _, d := range dlist {
				if len(d) != boson.HashSize {
					sub = "reference-not-address"
				}
			}
			h.violate("file:data-chunks!=leaves:"+sub+":"+cls+":"+multi, "GetChunkHashes(nil) differs from the data chunks in file order", jc, shortList(dlist), shortList(wantData))
		}
		// pyramid: subset, cover, disjoint (multi), content
		ps, ds, ws := setOf(pkeys), setOf(dlist), setOf(puts)
		bad = ""
		for k := range ps {
			if !ws[k] {
				bad = "pyramid-key-not-written"
			}
		}
		for k := range ws {
			if !ps[k] && !ds[k] {
				bad = "not-covered"
			}
		}
		if nc > 1 {
			for k := range ps {
				if ds[k] {
					bad = "overlap"
				}
			}
		} else if !ps[puts[0]] {
			bad = "single-chunk-root-missing"
		}
		if bad != "" {
			h.violate("file:pyramid+data!=written:"+bad+":"+cls+":"+multi, "pyramid key set and data chunk list do not partition the written chunks", jc, shortList(pkeys), shortList(puts))
		}
		for k, v := range py {
			b, _ := hex.DecodeString(k)
			if sd, ok := st.m[string(b)]; ok && !bytes.Equal(sd, v) {
				h.violate("file:pyramid-content:"+cls, "pyramid value differs from the stored chunk", jc, len(v), len(sd))
				break
			}
		}
	}

	// ---- correspondence case
	x := newIDs()
	views := buildViews(st, x, map[string]bool{}, addr.Bytes())
	root := x.ref(addr.Bytes())
	to := classify(terr, h.idsOf(x, rep))
	do := classify(herr, h.idsOf(x, dlist))
	po := classify(perr, sortedU(h.idsOf(x, pkeys), true))
	coq := fmt.Sprintf("CFile %s %d %d\n    %s\n    %s %s %s", hx.CoqBool(jc.Enc), root[0], root[1], coqEnts(views), to.coq(), do.coq(), po.coq())
	run.AddCase("("+coq+")", jc, fmt.Sprintf("file|%v|%d|%s|%d", jc.Enc, jc.Size, jc.Mode, jc.Sub), nc > 1)
	run.Hist(fmt.Sprintf("file.%s.chunks=%s", cls, bucket(nc)))
	run.Hist("file.mode=" + jc.Mode)
}

func bucket(n int) string {
	switch {
	case n <= 1:
		return "1"
	case n == 2:
		return "2"
	case n <= 4:
		return "3-4"
	case n <= 16:
		return "5-16"
	default:
		return "17+"
	}
}

// ---------------------------------------------------------------- synthetic two-level trees (direct joiner)

type synthStore struct{ m map[string][]byte }

func (s *synthStore) Get(_ context.Context, _ storage.ModeGet, a boson.Address) (boson.Chunk, error) {
	d, ok := s.m[string(a.Bytes())]
	if !ok {
		return nil, storage.ErrNotFound
	}
	return boson.NewChunk(a, d), nil
}

func (h *harness) doIter(jc jcase) {
	run, ctx := h.run, h.ctx
	r := hx.NewRand(jc.Sub)
	st := &synthStore{m: map[string][]byte{}}
	ctr := uint64(0)
	fresh := func(tag byte) []byte {
		ctr++
		b := make([]byte, 32)
		b[0] = tag
		binary.BigEndian.PutUint64(b[8:], r.U64())
		binary.BigEndian.PutUint64(b[24:], ctr)
		return b
	}
	var written, leaves []string // ground truth of the fabricated tree
	// a level-1 node over m leaves, the last of which has lastLen bytes
	mkNode := func(m int, lastLen int) (addr []byte, span uint64, sub, lv []string) {
		buf := make([]byte, 8, 8+m*32)
		for i := 0; i < m; i++ {
			l := fresh('L')
			buf = append(buf, l...)
			sub = append(sub, string(l))
			lv = append(lv, string(l))
		}
		span = uint64(m-1)*chunkSize + uint64(lastLen)
		binary.LittleEndian.PutUint64(buf[:8], span)
		addr = fresh('N')
		st.m[string(addr)] = buf
		return
	}
	rootBuf := make([]byte, 8)
	total := uint64(0)
	var fa []byte
	var fsub, flv []string
	var dropped []byte
	for i := 0; i < jc.Full; i++ {
		if !jc.Dup || i == 0 {
			fa, _, fsub, flv = mkNode(plainBranching, chunkSize)
		}
		rootBuf = append(rootBuf, fa...)
		written = append(written, string(fa))
		written = append(written, fsub...)
		leaves = append(leaves, flv...)
		total += plainBranching * chunkSize
		if jc.Drop && i == jc.Full-1 {
			dropped = fa
		}
	}
	switch {
	case jc.Last == -1: // a data chunk carried up next to full nodes (this one is stored)
		l := fresh('L')
		rootBuf = append(rootBuf, l...)
		written = append(written, string(l))
		leaves = append(leaves, string(l))
		ll := 1 + r.Intn(chunkSize)
		lb := make([]byte, 8+ll)
		binary.LittleEndian.PutUint64(lb[:8], uint64(ll))
		st.m[string(l)] = lb
		total += uint64(ll)
	case jc.Last > 0:
		ll := 1 + r.Intn(chunkSize)
		if r.Chance(1, 3) {
			ll = chunkSize
		}
		a, sp, sub, lv := mkNode(jc.Last, ll)
		rootBuf = append(rootBuf, a...)
		written = append(written, string(a))
		written = append(written, sub...)
		leaves = append(leaves, lv...)
		total += sp
	}
	binary.LittleEndian.PutUint64(rootBuf[:8], total)
	rootAddr := fresh('R')
	st.m[string(rootAddr)] = rootBuf
	written = append([]string{string(rootAddr)}, written...)
	if dropped != nil {
		delete(st.m, string(dropped))
	}

	var rep, dlist []string
	var err error
	edgeMap := map[string][]byte{}
	done := hx.WithTimeout(120*time.Second, func() {
		j, _, e := joiner.New(ctx, st, storage.ModeGetRequest, boson.NewAddress(rootAddr))
		if e != nil {
			err = e
			return
		}
		j.SetSaveDataChunks()
		err = j.IterateChunkAddresses(func(a boson.Address) error {
			rep = append(rep, string(a.Bytes()))
			return nil
		})
		for _, b := range j.GetDataChunks() {
			dlist = append(dlist, string(b))
		}
		// second run: the edge-chunk collection GetPyramid uses
		j2, _, e := joiner.New(ctx, st, storage.ModeGetLookup, boson.NewAddress(rootAddr))
		if e != nil {
			err = e
			return
		}
		j2.SetSaveEdgeChunks(edgeMap)
		if e := j2.IterateChunkAddresses(func(boson.Address) error { return nil }); e != nil && err == nil {
			err = e
		}
	})
	if !done {
		h.violate("iter:timeout", "IterateChunkAddresses did not finish", jc, nil, nil)
		return
	}
	ekeys, _ := pyramidKeys(edgeMap)
	run.OracleChecked(3)
	if dropped == nil {
		if err != nil {
			h.violate("iter:error", err.Error(), jc, nil, "no error")
		} else {
			if strings.Join(sortedS(rep), "|") != strings.Join(sortedS(written), "|") {
				h.violate("iter:reports!=tree-addresses", "IterateChunkAddresses reports differ from the addresses of the tree", jc, len(rep), len(written))
			}
			if strings.Join(dlist, "|") != strings.Join(leaves, "|") {
				h.violate("iter:data-chunks!=leaves", "data chunk list differs from the leaves in file order", jc, len(dlist), len(leaves))
			}
			// edge chunks: exactly the fabricated level-1 nodes, each with its stored bytes
			ls := setOf(leaves)
			wantEdges := map[string]bool{}
			for _, w := range written[1:] {
				if !ls[w] {
					wantEdges[w] = true
				}
			}
			okE := len(ekeys) == len(wantEdges)
			for _, k := range ekeys {
				if !wantEdges[k] || !bytes.Equal(edgeMap[hex.EncodeToString([]byte(k))], st.m[k]) {
					okE = false
				}
			}
			if !okE {
				h.violate("iter:edge-chunks!=intermediate-chunks", "SetSaveEdgeChunks collected something else than the intermediate chunks below the root", jc, len(ekeys), len(wantEdges))
			}
		}
	} else if err == nil || !errors.Is(err, storage.ErrNotFound) {
		h.violate("iter:missing-chunk-not-reported", fmt.Sprintf("err=%v", err), jc, nil, "storage.ErrNotFound")
	}

	x := newIDs()
	views := buildViews(st, x, map[string]bool{}, rootAddr)
	root := x.ref(rootAddr)
	to := classify(err, h.idsOf(x, rep))
	do := classify(err, h.idsOf(x, dlist))
	eo := classify(err, sortedU(h.idsOf(x, ekeys), true))
	coq := fmt.Sprintf("CIter false %d %d\n    %s\n    %s %s %s", root[0], root[1], coqEnts(views), to.coq(), do.coq(), eo.coq())
	run.AddCase("("+coq+")", jc, fmt.Sprintf("iter|%d|%d|%v|%v|%d", jc.Full, jc.Last, jc.Dup, jc.Drop, jc.Sub), true)
	run.Hist(fmt.Sprintf("iter.full=%d.last=%s.dup=%v.drop=%v", jc.Full, lastClass(jc.Last), jc.Dup, jc.Drop))
}

func lastClass(l int) string {
	switch {
	case l == -1:
		return "carried-leaf"
	case l == 0:
		return "none"
	case l == plainBranching:
		return "full"
	default:
		return "partial"
	}
}
func sortedS(l []string) []string {
	c := append([]string(nil), l...)
	sort.Strings(c)
	return c
}

// ---------------------------------------------------------------- multi-GiB files through the real writer stages

// liftUpload stores a file of n identical full data chunks plus an optional shorter tail
// through the real BMT -> Store -> HashTrie stages (encrypted: Encryption -> BMT -> Store ->
// HashTrie with 64-byte references).  Only the feeder is left out: the repeated chunk goes
// through the stages once and its (span, reference, key) is then handed to the hash trie
// writer n-1 more times, so a 2 GiB file costs a few milliseconds.  Returns the file
// reference, the reference bytes of the repeated chunk and of the tail.
func liftUpload(ctx context.Context, st *recStore, enc bool, n, tail int) (ref, full, last []byte, err error) {
	var tw, top pipeline.ChainWriter
	if enc {
		short := func() pipeline.ChainWriter {
			return penc.NewEncryptionWriter(encryption.NewChunkEncrypter(), bmt.NewBmtWriter(pstore.NewStoreWriter(ctx, st, storage.ModePutUpload, nil)))
		}
		tw = hashtrie.NewHashTrieWriter(boson.ChunkSize, boson.Branches/2, boson.HashSize+encryption.KeyLength, short)
		top = penc.NewEncryptionWriter(encryption.NewChunkEncrypter(), bmt.NewBmtWriter(pstore.NewStoreWriter(ctx, st, storage.ModePutUpload, tw)))
	} else {
		short := func() pipeline.ChainWriter {
			return bmt.NewBmtWriter(pstore.NewStoreWriter(ctx, st, storage.ModePutUpload, nil))
		}
		tw = hashtrie.NewHashTrieWriter(boson.ChunkSize, boson.Branches, boson.HashSize, short)
		top = bmt.NewBmtWriter(pstore.NewStoreWriter(ctx, st, storage.ModePutUpload, tw))
	}
	chunkOf := func(size int, fill byte) *pipeline.PipeWriteArgs {
		d := make([]byte, 8+size)
		binary.LittleEndian.PutUint64(d[:8], uint64(size))
		for i := 8; i < len(d); i++ {
			d[i] = fill + byte(i%251)
		}
		return &pipeline.PipeWriteArgs{Data: d, Span: append([]byte(nil), d[:8]...)}
	}
	f := chunkOf(chunkSize, 1)
	if err = top.ChainWrite(f); err != nil {
		return
	}
	full = append(append([]byte(nil), f.Ref...), f.Key...)
	for i := 1; i < n; i++ {
		if err = tw.ChainWrite(&pipeline.PipeWriteArgs{Ref: f.Ref, Span: f.Span, Key: f.Key}); err != nil {
			return
		}
	}
	if tail > 0 {
		t := chunkOf(tail, 7)
		if err = top.ChainWrite(t); err != nil {
			return
		}
		last = append(append([]byte(nil), t.Ref...), t.Key...)
	}
	ref, err = top.Sum()
	return
}

func (h *harness) doLift(jc jcase) {
	run, ctx := h.run, h.ctx
	st := newStore()
	fileRef, full, last, err := liftUpload(ctx, st, jc.Enc, jc.N, jc.Tail)
	if err != nil {
		h.violate("lift:upload-failed", err.Error(), jc, nil, nil)
		return
	}
	// expected data chunks in file order (independent of any tree walk: the construction)
	var wantData []string
	for i := 0; i < jc.N; i++ {
		wantData = append(wantData, string(full[:32]))
	}
	if jc.Tail > 0 {
		wantData = append(wantData, string(last[:32]))
	}
	filePuts := append([]string(nil), st.puts...)
	cls := "plain"
	branches := plainBranching
	if jc.Enc {
		cls, branches = "encrypted", plainBranching/2
	}
	shape := "one-level"
	nd := len(wantData)
	switch {
	case nd == branches+1:
		shape = "lifted-tail"
	case nd > branches:
		shape = "two-levels"
	}

	// ---- (1) the joiner directly on the file reference
	var rep, dlist []string
	edgeMap := map[string][]byte{}
	var ierr error
	done := hx.WithTimeout(120*time.Second, func() {
		j, _, e := joiner.New(ctx, st, storage.ModeGetRequest, boson.NewAddress(fileRef))
		if e != nil {
			ierr = e
			return
		}
		j.SetSaveDataChunks()
		ierr = j.IterateChunkAddresses(func(a boson.Address) error {
			rep = append(rep, string(a.Bytes()))
			return nil
		})
		for _, b := range j.GetDataChunks() {
			dlist = append(dlist, string(b))
		}
		j2, _, e := joiner.New(ctx, st, storage.ModeGetLookup, boson.NewAddress(fileRef))
		if e != nil {
			ierr = e
			return
		}
		j2.SetSaveEdgeChunks(edgeMap)
		if e := j2.IterateChunkAddresses(func(boson.Address) error { return nil }); e != nil && ierr == nil {
			ierr = e
		}
	})
	if !done {
		h.violate("lift:timeout", "IterateChunkAddresses did not finish", jc, nil, nil)
		return
	}
	ekeys, _ := pyramidKeys(edgeMap)
	run.OracleChecked(3)
	sig := func(what string) string { return "lift:" + what + ":" + cls + ":" + shape }
	if ierr != nil {
		h.violate(sig("iterate-error"), ierr.Error(), jc, nil, "no error")
	} else {
		ws, rs := setOf(filePuts), setOf(rep)
		ok := len(ws) == len(rs)
		for k := range ws {
			ok = ok && rs[k]
		}
		if !ok {
			h.violate(sig("reports!=written"), "IterateChunkAddresses reports differ from the Put addresses", jc, len(rs), len(ws))
		}
		if strings.Join(dlist, "|") != strings.Join(wantData, "|") {
			bad := "content"
			if len(dlist) > 0 && len(rep) > 0 && dlist[len(dlist)-1] == rep[0] {
				bad = "root-listed-as-data-chunk"
			}
			h.violate(sig("data-chunks!=leaves:"+bad), "data chunk list differs from the data chunks the file was built from", jc, shortList(lastN(dlist, 3)), shortList(lastN(wantData, 3)))
		}
		ds := setOf(wantData)
		for k := range ws {
			if !ds[k] && k != rep[0] && edgeMap[hex.EncodeToString([]byte(k))] == nil {
				h.violate(sig("edge-chunks-miss-intermediate"), "an intermediate chunk below the root is not among the edge chunks", jc, len(ekeys), nil)
				break
			}
		}
	}
	x := newIDs()
	views := buildViews(st, x, map[string]bool{}, fileRef)
	root := x.ref(fileRef)
	to := classify(ierr, h.idsOf(x, rep))
	do := classify(ierr, h.idsOf(x, dlist))
	eo := classify(ierr, sortedU(h.idsOf(x, ekeys), true))
	coq := fmt.Sprintf("CIter %s %d %d\n    %s\n    %s %s %s", hx.CoqBool(jc.Enc), root[0], root[1], coqEnts(views), to.coq(), do.coq(), eo.coq())
	run.AddCase("("+coq+")", jc, fmt.Sprintf("lift|%v|%d|%d", jc.Enc, jc.N, jc.Tail), nd > branches)
	run.Hist("lift." + cls + "." + shape)

	// ---- (2) the real traversal.Service, the file inside a directory manifest (a manifest
	// reference is not read as a whole file first)
	ls := loadsave.New(st, func() pipeline.Interface {
		return builder.NewPipelineBuilder(ctx, st, storage.ModePutUpload, jc.Enc)
	})
	m, err := manifest.NewDefaultManifest(ls, jc.Enc)
	if err != nil {
		panic(err)
	}
	if err := m.Add(ctx, "file.bin", manifest.NewEntry(boson.NewAddress(fileRef), nil)); err != nil {
		h.violate("lift:manifest-add-failed", err.Error(), jc, nil, nil)
		return
	}
	addr, err := m.Store(ctx)
	if err != nil {
		h.violate("lift:manifest-store-failed", err.Error(), jc, nil, nil)
		return
	}
	puts := append([]string(nil), st.puts...)
	tr := traversal.New(st)
	var trep []string
	var terr, perr, herr error
	var py map[string][]byte
	var hashes [][][]byte
	done = hx.WithTimeout(180*time.Second, func() {
		trep, terr = collectTraverse(ctx, tr, addr)
		py, perr = tr.GetPyramid(ctx, addr)
		hashes, _, herr = tr.GetChunkHashes(ctx, addr, nil)
	})
	if !done {
		h.violate("lift:timeout", "traversal did not finish", jc, nil, nil)
		return
	}
	run.OracleChecked(3)
	if terr != nil || perr != nil || herr != nil {
		h.violate(sig("service-error"), fmt.Sprintf("traverse=%v pyramid=%v hashes=%v", terr, perr, herr), jc, nil, "no error")
		return
	}
	ws, rs := setOf(puts), setOf(trep)
	ok := len(ws) == len(rs)
	for k := range ws {
		ok = ok && rs[k]
	}
	if !ok {
		h.violate(sig("traverse!=written"), "Traverse reports differ from the Put addresses", jc, len(rs), len(ws))
	}
	var hl []string
	if len(hashes) == 1 {
		for _, b := range hashes[0] {
			hl = append(hl, string(b))
		}
	}
	if len(hashes) != 1 || strings.Join(hl, "|") != strings.Join(wantData, "|") {
		bad := "content"
		if len(hl) > 0 && hl[len(hl)-1] == string(fileRef[:32]) {
			bad = "root-listed-as-data-chunk"
		}
		h.violate(sig("service-data-chunks!=leaves:"+bad), "GetChunkHashes(nil) differs from the data chunks the file was built from", jc, shortList(lastN(hl, 3)), shortList(lastN(wantData, 3)))
	}
	pkeys, _ := pyramidKeys(py)
	ps, ds := setOf(pkeys), setOf(hl)
	bad := ""
	for k := range ps {
		if !ws[k] {
			bad = "pyramid-key-not-written"
		}
		if ds[k] {
			bad = "overlap"
		}
	}
	for k := range ws {
		if !ps[k] && !ds[k] {
			bad = "not-covered"
		}
	}
	if bad != "" {
		h.violate(sig("pyramid+data!=written:"+bad), "pyramid key set and data chunk list do not partition the written chunks", jc, len(pkeys), len(ws))
	}
}

func lastN(l []string, n int) []string {
	if len(l) > n {
		return l[len(l)-n:]
	}
	return l
}

// ---------------------------------------------------------------- manifests

type mnodeInfo struct {
	path    []byte
	ref     []byte
	isValue bool
	entry   []byte
	kids    []*mnodeInfo
}

func (h *harness) doMan(jc jcase) {
	run, ctx := h.run, h.ctx
	r := hx.NewRand(jc.Sub)
	st := newStore()
	ls := loadsave.New(st, func() pipeline.Interface {
		return builder.NewPipelineBuilder(ctx, st, storage.ModePutUpload, jc.Enc)
	})
	m, err := manifest.NewDefaultManifest(ls, jc.Enc)
	if err != nil {
		panic(err)
	}
	fileData := map[string][]string{} // path -> data chunk addresses in order (last add wins)
	for i, p := range jc.Paths {
		before := len(st.puts)
		data := content(r, jc.Sizes[i], "rand")
		ref, err := upload(ctx, st, jc.Enc, data)
		if err != nil {
			panic(err)
		}
		fileData[p] = append([]string(nil), st.puts[before:before+nChunks(jc.Sizes[i])]...)
		md := map[string]string{manifest.EntryMetadataContentTypeKey: "text/plain", manifest.EntryMetadataFilenameKey: p}
		if err := m.Add(ctx, p, manifest.NewEntry(ref, md)); err != nil {
			h.violate("manifest:add-failed", err.Error(), jc, nil, nil)
			return
		}
	}
	if jc.Root {
		md := map[string]string{manifest.WebsiteIndexDocumentSuffixKey: "index.html"}
		if err := m.Add(ctx, manifest.RootPath, manifest.NewEntry(boson.ZeroAddress, md)); err != nil {
			h.violate("manifest:add-failed", err.Error(), jc, nil, nil)
			return
		}
	}
	addr, err := m.Store(ctx)
	if err != nil {
		h.violate("manifest:store-failed", err.Error(), jc, nil, nil)
		return
	}
	puts := append([]string(nil), st.puts...)
	tr := traversal.New(st)
	var rep []string
	var terr, perr, herr error
	var py map[string][]byte
	var hashes [][][]byte
	done := hx.WithTimeout(120*time.Second, func() {
		rep, terr = collectTraverse(ctx, tr, addr)
		py, perr = tr.GetPyramid(ctx, addr)
		hashes, _, herr = tr.GetChunkHashes(ctx, addr, nil)
	})
	if !done {
		h.violate("manifest:timeout", "traversal did not finish", jc, nil, nil)
		return
	}
	pkeys, _ := pyramidKeys(py)
	cls := "plain"
	if jc.Enc {
		cls = "encrypted"
	}
	rootCls := ""
	if jc.Root {
		rootCls = ":with-root-entry"
	}
	run.OracleChecked(3)
	if terr != nil || perr != nil || herr != nil {
		h.violate("manifest:error:"+cls+rootCls, fmt.Sprintf("traverse=%v pyramid=%v hashes=%v", terr, perr, herr), jc, nil, "no error")
	} else {
		ws, rs := setOf(puts), setOf(rep)
		bad := ""
		for k := range ws {
			if !rs[k] {
				bad = "missing"
			}
		}
		for k := range rs {
			if !ws[k] {
				bad = "extra"
				if len(k) != boson.HashSize {
					bad = "reports-reference-not-address"
				}
			}
		}
		if bad != "" {
			h.violate("manifest:traverse!=written:"+bad+":"+cls, "Traverse reports differ from the Put addresses", jc, shortList(sortedS(rep)), shortList(sortedS(puts)))
		}
		var dl []string
		for _, l := range hashes {
			for _, b := range l {
				dl = append(dl, string(b))
			}
		}
		ps, ds := setOf(pkeys), setOf(dl)
		bad = ""
		for k := range ps {
			if !ws[k] {
				bad = "pyramid-key-not-written"
			}
		}
		for k := range ds {
			if !ws[k] {
				bad = "data-chunk-not-written"
			}
		}
		for k := range ws {
			if !ps[k] && !ds[k] {
				bad = "not-covered"
			}
		}
		if bad != "" {
			h.violate("manifest:pyramid+data!=written:"+bad+":"+cls, "pyramid key set and data chunk lists do not cover exactly the written chunks", jc, shortList(pkeys), shortList(sortedS(puts)))
		}
		// data lists: per path in byte order, paths ending in '/' are directories
		var paths []string
		for p := range fileData {
			if !strings.HasSuffix(p, "/") {
				paths = append(paths, p)
			}
		}
		sort.Strings(paths)
		okLists := len(hashes) == len(paths)
		for i := 0; okLists && i < len(paths); i++ {
			var g []string
			for _, b := range hashes[i] {
				g = append(g, string(b))
			}
			if strings.Join(g, "|") != strings.Join(fileData[paths[i]], "|") {
				okLists = false
			}
		}
		if !okLists {
			h.violate("manifest:data-lists:"+cls, "GetChunkHashes(nil) lists differ from the files' data chunks in path order", jc, len(hashes), len(paths))
		}
	}

	// ---- correspondence: the loaded trie (node reference, value flag, entry) + the store views
	lsr := loadsave.NewReadonly(st, storage.ModeGetLookup)
	var stack []*mnodeInfo
	var rootN *mnodeInfo
	werr := mantaray.NewNodeRef(addr.Bytes()).WalkNode(ctx, []byte{}, lsr, func(path []byte, n *mantaray.Node, err error) error {
		if err != nil {
			return err
		}
		ni := &mnodeInfo{path: append([]byte(nil), path...), ref: append([]byte(nil), n.Reference()...), isValue: n.IsValueType(), entry: append([]byte(nil), n.Entry()...)}
		for len(stack) > 0 && !(len(stack[len(stack)-1].path) < len(path) && bytes.HasPrefix(path, stack[len(stack)-1].path)) {
			stack = stack[:len(stack)-1]
		}
		if len(stack) == 0 {
			if rootN != nil {
				return fmt.Errorf("two roots")
			}
			rootN = ni
		} else {
			p := stack[len(stack)-1]
			p.kids = append(p.kids, ni)
		}
		stack = append(stack, ni)
		return nil
	})
	if werr != nil || rootN == nil {
		run.Note(fmt.Sprintf("manifest walk for the correspondence failed: %v", werr))
		run.AddCase("", jc, fmt.Sprintf("man|%v|%d", jc.Enc, jc.Sub), false)
		return
	}
	x := newIDs()
	seen := map[string]bool{}
	var views []ent
	nodes := 0
	var emit func(n *mnodeInfo) string
	emit = func(n *mnodeInfo) string {
		nodes++
		self := "None"
		if n.ref != nil && len(n.ref) > 0 {
			views = append(views, buildViews(st, x, seen, n.ref)...)
			rf := x.ref(n.ref)
			self = fmt.Sprintf("(Some (%d%%N, %d%%N))", rf[0], rf[1])
		}
		ecls, er := 0, [2]uint64{0, 0}
		switch {
		case len(n.entry) == 0:
		case bytes.Equal(n.entry, make([]byte, len(n.entry))): // all zero: the serialised empty entry
			ecls = 1
		default:
			ecls = 2
			if n.isValue {
				views = append(views, buildViews(st, x, seen, n.entry)...)
			}
			er = x.ref(n.entry)
		}
		ks := make([]string, len(n.kids))
		for i, k := range n.kids {
			ks[i] = emit(k)
		}
		kl := "(@nil mn)"
		if len(ks) > 0 {
			kl = "[" + strings.Join(ks, "; ") + "]"
		}
		return fmt.Sprintf("(MN %s %s %d (%d%%N, %d%%N) %s)", self, hx.CoqBool(n.isValue), ecls, er[0], er[1], kl)
	}
	var sortKids func(n *mnodeInfo)
	sortKids = func(n *mnodeInfo) {
		sort.Slice(n.kids, func(i, j int) bool { return bytes.Compare(n.kids[i].path, n.kids[j].path) < 0 })
		for _, k := range n.kids {
			sortKids(k)
		}
	}
	sortKids(rootN) // ascending fork byte, as the model's fork lists
	mterm := emit(rootN)
	to := classify(terr, sortedU(h.idsOf(x, rep), false))
	po := classify(perr, sortedU(h.idsOf(x, pkeys), true))
	coq := fmt.Sprintf("CMan %s\n    %s\n    %s\n    %s %s", hx.CoqBool(jc.Enc), mterm, coqEnts(views), to.coq(), po.coq())
	run.AddCase("("+coq+")", jc, fmt.Sprintf("man|%v|%v|%d|%s", jc.Enc, jc.Root, jc.Sub, strings.Join(jc.Paths, ",")), len(jc.Paths) >= 2)
	run.Hist(fmt.Sprintf("man.%s.paths=%s.nodes=%s", cls, bucket(len(jc.Paths)), bucket(nodes)))

	// ---- the loader itself: real node payloads into the byte-level model (plain, small manifests)
	if !jc.Enc && len(jc.Paths) <= 4 && terr == nil {
		var tbl, pls []string
		seenRef := map[string]bool{}
		addTbl := func(b []byte) {
			if len(b) > 0 && !seenRef[string(b)] {
				seenRef[string(b)] = true
				tbl = append(tbl, fmt.Sprintf("(%s, %d%%N)", hx.CoqBytes(b), x.ref(b)[0]))
			}
		}
		okLoad := true
		var collect func(n *mnodeInfo)
		collect = func(n *mnodeInfo) {
			addTbl(n.ref)
			if len(n.entry) > 0 && !bytes.Equal(n.entry, make([]byte, len(n.entry))) {
				addTbl(n.entry)
			}
			if len(n.ref) > 0 {
				d, err := lsr.Load(ctx, n.ref)
				if err != nil {
					okLoad = false
				} else {
					pls = append(pls, fmt.Sprintf("(%s, %s)", hx.CoqBytes(n.ref), hx.CoqBytes(d)))
				}
			}
			for _, k := range n.kids {
				collect(k)
			}
		}
		collect(rootN)
		if okLoad {
			coq := fmt.Sprintf("CLoad [%s]\n    [%s]\n    %s\n    %s", strings.Join(tbl, "; "), strings.Join(pls, ";\n     "), hx.CoqBytes(addr.Bytes()), mterm)
			run.AddCase("("+coq+")", jc, fmt.Sprintf("load|%v|%d|%s", jc.Root, jc.Sub, strings.Join(jc.Paths, ",")), len(jc.Paths) >= 2)
			run.Hist("load.nodes=" + bucket(nodes))
		}
	}
}

// ---------------------------------------------------------------- generators

func genPaths(r *hx.Rand, n int) []string {
	segs := []string{"a", "ab", "abc", "b", "img", "index.html", "css", "x", "docs", "readme.md",
		"a-very-long-file-name-that-exceeds-thirty-bytes.txt", "another-quite-long-directory-name-over-30", "z"}
	seen := map[string]bool{}
	var out []string
	for len(out) < n {
		d := 1 + r.Intn(3)
		parts := make([]string, d)
		for i := range parts {
			parts[i] = segs[r.Intn(len(segs))]
			if r.Chance(1, 5) {
				parts[i] += fmt.Sprintf("%d", r.Intn(4))
			}
		}
		p := strings.Join(parts, "/")
		if !seen[p] {
			seen[p] = true
			out = append(out, p)
		}
	}
	return out
}

func main() {
	run := hx.Start("C09", "Aurora.C09.Corr",
		"real pipeline uploads (plain and encrypted; sizes 0, 1, 31..33, chunk±1, k*chunk±1, random up to 12 (quick) / 40 (thorough) chunks; random, all-zero and period-2 contents for duplicate chunks) into a recording store, then Traverse/GetPyramid/GetChunkHashes; fabricated two-level trees (1..3 full 8192-reference nodes + partial node / carried data chunk, duplicates, a missing node) through joiner.IterateChunkAddresses; directory manifests from random path sets (shared prefixes, >30-byte segments, optional '/' index entry). Non-trivial = multi-chunk file, two-level tree, manifest with >= 2 paths; distinct by (kind, enc, size/shape/paths, content seed)")
	if boson.ChunkSize != chunkSize || boson.Branches != plainBranching || boson.HashSize != 32 {
		panic("format constants changed: the oracle's statement of the format must be revisited")
	}
	h := &harness{run: run, ctx: context.Background()}
	do := func(jc jcase) {
		var p bool
		var msg string
		switch jc.Kind {
		case "file":
			p, msg = hx.Guard(func() { h.doFile(jc) })
		case "iter":
			p, msg = hx.Guard(func() { h.doIter(jc) })
		case "man":
			p, msg = hx.Guard(func() { h.doMan(jc) })
		case "lift":
			p, msg = hx.Guard(func() { h.doLift(jc) })
		}
		if p {
			h.violate(jc.Kind+":panic", msg, jc, nil, nil)
		}
	}

	if run.Replay != "" {
		var jc jcase
		if err := run.ReadReplay(&jc); err != nil {
			panic(err)
		}
		do(jc)
		run.Finish()
		return
	}

	r := run.R
	// ---- corpus: witnesses of the repaired defect (encrypted references reported instead of chunk addresses)
	do(jcase{Kind: "file", Enc: true, Size: chunkSize + 1, Mode: "rand", Sub: 11})
	do(jcase{Kind: "file", Enc: true, Size: 3 * chunkSize, Mode: "zeros", Sub: 12})
	do(jcase{Kind: "man", Enc: true, Sub: 13, Paths: []string{"a", "img/b"}, Sizes: []int{10, chunkSize + 5}})
	// witness of the second repaired defect: encrypted manifest with the empty "/" entry (64 zero bytes)
	do(jcase{Kind: "man", Enc: true, Sub: 14, Paths: []string{"index.html", "css/x"}, Sizes: []int{100, 1}, Root: true})
	do(jcase{Kind: "man", Enc: false, Sub: 15, Paths: []string{"index.html", "css/x"}, Sizes: []int{100, 1}, Root: true})

	// witnesses of the seeded change C09-1 (data-chunk test hoisted out of the reference loop):
	// the splitter lifts a lone trailing data chunk next to an intermediate chunk in files of
	// branching+1 chunks (2 GiB + 1..256 KiB plain, 1 GiB + ... encrypted); with controls
	for _, enc := range []bool{false, true} {
		b := plainBranching
		if enc {
			b = plainBranching / 2
		}
		do(jcase{Kind: "lift", Enc: enc, N: b, Tail: 1})     // lifted 1-byte tail
		do(jcase{Kind: "lift", Enc: enc, N: b + 1, Tail: 0}) // lifted full tail
		do(jcase{Kind: "lift", Enc: enc, N: b, Tail: 0})     // balanced: one intermediate chunk = root
		do(jcase{Kind: "lift", Enc: enc, N: b + 1, Tail: 1}) // two intermediate chunks
	}

	// ---- files
	sizes := []int{0, 1, 31, 32, 33, chunkSize - 1, chunkSize, chunkSize + 1, 2*chunkSize - 1, 2 * chunkSize, 2*chunkSize + 1, 3 * chunkSize, 5*chunkSize + 7}
	fr := r.Fork(1)
	for i := 0; i < run.N(4, 20); i++ {
		k := 1 + fr.Intn(run.N(12, 40))
		sizes = append(sizes, k*chunkSize+[]int{-1, 0, 1, fr.Intn(chunkSize)}[fr.Intn(4)])
		sizes = append(sizes, fr.Intn(4096))
	}
	modes := []string{"rand", "rand", "zeros", "period2"}
	for i, sz := range sizes {
		for _, enc := range []bool{false, true} {
			mode := modes[fr.Intn(len(modes))]
			if i < 13 && !enc {
				mode = "rand"
			}
			do(jcase{Kind: "file", Enc: enc, Size: sz, Mode: mode, Sub: fr.U64()})
		}
	}
	// duplicates on purpose
	do(jcase{Kind: "file", Enc: false, Size: 4 * chunkSize, Mode: "zeros", Sub: fr.U64()})
	do(jcase{Kind: "file", Enc: false, Size: 5*chunkSize + 100, Mode: "period2", Sub: fr.U64()})

	// ---- fabricated two-level trees
	ir := r.Fork(2)
	shapes := []jcase{
		{Full: 1, Last: -1}, {Full: 1, Last: 2}, {Full: 1, Last: 1 + ir.Intn(plainBranching)}, {Full: 2, Last: 0},
		{Full: 2, Last: -1, Dup: true}, {Full: 1, Last: plainBranching}, {Full: 2, Last: 3, Drop: true},
	}
	for i := 0; i < run.N(2, 12); i++ {
		shapes = append(shapes, jcase{Full: 1 + ir.Intn(3), Last: []int{-1, 0, 2, 1 + ir.Intn(plainBranching), plainBranching - 1}[ir.Intn(5)], Dup: ir.Chance(1, 4), Drop: ir.Chance(1, 6)})
	}
	for _, s := range shapes {
		if s.Full == 1 && s.Last == 0 {
			s.Last = 2 // a root needs two references
		}
		s.Kind, s.Sub = "iter", ir.U64()
		do(s)
	}

	// ---- manifests
	mr := r.Fork(3)
	for i := 0; i < run.N(14, 60); i++ {
		n := 1 + mr.Intn(run.N(7, 14))
		ps := genPaths(mr, n)
		szs := make([]int, n)
		for j := range szs {
			szs[j] = []int{0, 1, 100, 5000, mr.Intn(70000)}[mr.Intn(5)]
			if mr.Chance(1, 12) {
				szs[j] = chunkSize + 1 + mr.Intn(2*chunkSize)
			}
		}
		do(jcase{Kind: "man", Enc: mr.Chance(1, 3), Sub: mr.U64(), Paths: ps, Sizes: szs, Root: mr.Chance(1, 3)})
	}
	run.Finish()
}
