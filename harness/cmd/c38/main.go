// C38 harness: pkg/multicast group transitions and flooding on the REAL code.
//
// Several multicast.Service instances live in this one process. The package's
// de-duplication cache is a process global (O-multicast-global-cache), so the
// harness — strictly single-threaded — installs the cache of the node whose
// code is about to run through the verif hook VerifSwapCache. Streams, route
// table, topology driver and pub/sub are stubs that record what the code does.
package main

import (
	"bytes"
	"context"
	"encoding/hex"
	"errors"
	"fmt"
	"io"
	"math/big"
	"sort"
	"strings"
	"sync"
	"time"

	"github.com/gauss-project/aurorafs/pkg/aurora"
	"github.com/gauss-project/aurorafs/pkg/boson"
	"github.com/gauss-project/aurorafs/pkg/logging"
	"github.com/gauss-project/aurorafs/pkg/multicast"
	"github.com/gauss-project/aurorafs/pkg/multicast/model"
	"github.com/gauss-project/aurorafs/pkg/multicast/pb"
	"github.com/gauss-project/aurorafs/pkg/p2p"
	"github.com/gauss-project/aurorafs/pkg/p2p/protobuf"
	"github.com/gauss-project/aurorafs/pkg/routetab"
	"github.com/gauss-project/aurorafs/pkg/subscribe"
	"github.com/gauss-project/aurorafs/pkg/topology"
	"github.com/gogf/gf/v2/os/gcache"
	"verifharness/hx"
)

// ------------------------------------------------------------------ stubs

type stubRoute struct {
	routetab.RouteTab
	nbrs map[string]bool
	// after: one-shot callback run right after a neighbour lookup has been answered, on the
	// caller's goroutine ("the link drops immediately after the lookup")
	after func(a boson.Address)
}

func (r *stubRoute) IsNeighbor(a boson.Address) bool {
	has := r.nbrs[a.ByteString()]
	if f := r.after; f != nil {
		r.after = nil
		f(a)
	}
	return has
}
func (r *stubRoute) Connect(ctx context.Context, dest boson.Address) error {
	return errors.New("stub: no connect")
}

type stubKad struct{ topology.Driver }

func (k *stubKad) GetPeersWithLatencyEWMA(list []boson.Address) []boson.Address { return list }
func (k *stubKad) RefreshProtectPeer(peer []boson.Address)                      {}
func (k *stubKad) RecordPeerLatency(a boson.Address, t time.Duration)           {}
func (k *stubKad) SubscribePeerState(n subscribe.INotifier)                     {}

type capStream struct {
	dst  boson.Address
	name string
	rd   *bytes.Reader
	mu   sync.Mutex
	wr   bytes.Buffer
}

func (s *capStream) Read(p []byte) (int, error) {
	if s.rd == nil {
		return 0, io.EOF
	}
	return s.rd.Read(p)
}
func (s *capStream) Write(p []byte) (int, error) {
	s.mu.Lock()
	defer s.mu.Unlock()
	return s.wr.Write(p)
}
func (s *capStream) Close() error                 { return nil }
func (s *capStream) FullClose() error             { return nil }
func (s *capStream) Reset() error                 { return nil }
func (s *capStream) Headers() p2p.Headers         { return nil }
func (s *capStream) ResponseHeaders() p2p.Headers { return nil }

type stubStreamer struct{ sent []*capStream }

func (st *stubStreamer) open(a boson.Address, name string) (p2p.Stream, error) {
	if name != "multicast" {
		return nil, errors.New("stub: peer unreachable for " + name)
	}
	cs := &capStream{dst: a, name: name}
	st.sent = append(st.sent, cs)
	return cs, nil
}
func (st *stubStreamer) NewStream(ctx context.Context, a boson.Address, h p2p.Headers, protocol, version, stream string) (p2p.Stream, error) {
	return st.open(a, stream)
}
func (st *stubStreamer) NewRelayStream(ctx context.Context, a boson.Address, h p2p.Headers, protocol, version, stream string, midCall bool) (p2p.Stream, error) {
	return st.open(a, stream)
}
func (st *stubStreamer) NewConnChainRelayStream(ctx context.Context, a boson.Address, h p2p.Headers, protocol, version, stream string) (p2p.Stream, error) {
	return st.open(a, stream)
}

type published struct {
	kind  string
	param string
	msg   multicast.Message
	event string
}
type stubSubPub struct {
	mu   sync.Mutex
	pubs []published
}

func (s *stubSubPub) Subscribe(n subscribe.INotifier, ns, kind, param string) error { return nil }
func (s *stubSubPub) PublishArray(ns, kind, field string, l []interface{}) error    { return nil }
func (s *stubSubPub) Publish(ns, kind, param string, message interface{}) error {
	p := published{kind: kind, param: param}
	switch m := message.(type) {
	case multicast.Message:
		p.msg = m
	case multicast.LogContent:
		p.event = m.Event
		p.msg = m.Data
	}
	s.mu.Lock()
	s.pubs = append(s.pubs, p)
	s.mu.Unlock()
	return nil
}

// ------------------------------------------------------------------ world

type hnode struct {
	self    boson.Address
	svc     *multicast.Service
	route   *stubRoute
	str     *stubStreamer
	sub     *stubSubPub
	cache   *gcache.Cache
	pending []boson.Address
	handler map[string]p2p.HandlerFunc
}

type jmsg struct {
	Origin string `json:"origin"`
	ID     uint64 `json:"id"`
	Gid    string `json:"gid"`
	Data   string `json:"data"`
}
type jpkt struct {
	Src string `json:"src"`
	Dst string `json:"dst"`
	Msg jmsg   `json:"msg"`
}
type jev struct {
	K    string   `json:"k"`
	N    int      `json:"n,omitempty"`
	Gid  string   `json:"gid,omitempty"`
	P    string   `json:"p,omitempty"`
	B    bool     `json:"b,omitempty"` // keep / intoKnown / join / replace
	T    int      `json:"t,omitempty"`
	Gids []string `json:"gids,omitempty"`
	Msg  *jmsg    `json:"msg,omitempty"`
	Skip []string `json:"skip,omitempty"`
	I    int      `json:"i,omitempty"`
	Pkt  *jpkt    `json:"pkt,omitempty"`
	Dt   int64    `json:"dt,omitempty"`
	Dump bool     `json:"dump,omitempty"` // record a dump observation for this event
}
type jcase struct {
	Selfs []string `json:"selfs"`
	Evs   []jev    `json:"evs"`
}

type pkt struct {
	src, dst boson.Address
	m        jmsg
}

type world struct {
	run    *hx.Run
	nodes  []*hnode
	soup   []pkt
	jc     jcase
	steps  []string // Coq (ev, obs)
	window int64
	// oracle bookkeeping (reset after a sleep longer than the window)
	delivCount map[string]int // node|origin|id -> subscriber deliveries
	fwdCount   map[string]int // node|origin|id -> calls that forwarded
	sendCount  map[string]int // origin|id -> packets written
	gidsSeen   map[string]bool
	slept      bool
	panicked   bool
	lastG      string // Coq text of the gev of the last registry event
	sigSuffix  string // appended to connected:not-neighbour (which scenario family found it)
}

var logger = logging.New(io.Discard, 0)
var poolCaches []*gcache.Cache

func unhex(s string) []byte        { b, _ := hex.DecodeString(s); return b }
func ad(s string) boson.Address    { return boson.NewAddress(unhex(s)) }
func hexOf(a boson.Address) string { return hex.EncodeToString(a.Bytes()) }

func newWorld(run *hx.Run, selfs []string) *world {
	internReset()
	w := &world{run: run, window: multicast.VerifCacheWindowMs(), delivCount: map[string]int{}, fwdCount: map[string]int{}, sendCount: map[string]int{}, gidsSeen: map[string]bool{}}
	w.jc.Selfs = selfs
	for i, s := range selfs {
		for len(poolCaches) <= i {
			poolCaches = append(poolCaches, gcache.New())
		}
		c := poolCaches[i]
		_ = c.Clear(context.Background())
		n := &hnode{self: ad(s), route: &stubRoute{nbrs: map[string]bool{}}, str: &stubStreamer{}, sub: &stubSubPub{}, cache: c, handler: map[string]p2p.HandlerFunc{}}
		n.svc = multicast.NewService(n.self, aurora.NewModel(), nil, n.str, &stubKad{}, n.route, logger, n.sub, multicast.Option{Dev: true})
		for _, sp := range n.svc.Protocol().StreamSpecs {
			n.handler[sp.Name] = sp.Handler
		}
		w.nodes = append(w.nodes, n)
	}
	return w
}

// Byte strings and messages are interned per case: the case term starts with
// `let a0 := B len value in ... let m0 := mkMsg a0 1 a1 a2 in ...` (B n v = the n-byte big-endian
// representation of v) and refers to the names afterwards. Reading long list literals dominates
// the cost of checking a case file in Coq, so the case text is kept small.
var (
	internNames = map[string]string{}
	internDefs  []string
)

func internReset() { internNames = map[string]string{}; internDefs = nil }
func intern(prefix, body string) string {
	if n, ok := internNames[body]; ok {
		return n
	}
	n := fmt.Sprintf("%s%d", prefix, len(internDefs))
	internNames[body] = n
	internDefs = append(internDefs, fmt.Sprintf("let %s := %s in ", n, body))
	return n
}
func coqAddr(a []byte) string {
	if len(a) == 0 {
		return "(@nil N)"
	}
	return intern("a", fmt.Sprintf("B %d %s", len(a), new(big.Int).SetBytes(a).String()))
}
func coqAddrs(as []boson.Address) string {
	el := make([]string, len(as))
	for i, a := range as {
		el[i] = coqAddr(a.Bytes())
	}
	return hx.CoqList(el, "list N")
}
func coqHexes(hs []string) string {
	el := make([]string, len(hs))
	for i, h := range hs {
		el[i] = coqAddr(unhex(h))
	}
	return hx.CoqList(el, "list N")
}
func coqMsg(m jmsg) string {
	return intern("m", "mkMsg "+coqAddr(unhex(m.Origin))+" "+hx.CoqN(m.ID)+" "+coqAddr(unhex(m.Gid))+" "+coqAddr(unhex(m.Data)))
}
func coqGtype(t int) string { return []string{"GJoin", "GObserve", "GKnown"}[t] }

func msgOf(m *pb.MulticastMsg) jmsg {
	return jmsg{Origin: hex.EncodeToString(m.Origin), ID: m.Id, Gid: hex.EncodeToString(m.Gid), Data: hex.EncodeToString(m.Data)}
}
func msgOfPub(m multicast.Message) jmsg {
	return jmsg{Origin: hexOf(m.Origin), ID: m.ID, Gid: hexOf(m.GID), Data: hex.EncodeToString(m.Data)}
}

func frame(m *pb.MulticastMsg) []byte {
	var buf bytes.Buffer
	if err := protobuf.NewWriter(&buf).WriteMsg(m); err != nil {
		panic(err)
	}
	return buf.Bytes()
}

// callHandler runs a registered protocol handler of node n on a stream holding one framed message.
func (w *world) callHandler(n *hnode, name string, from boson.Address, payload []byte) {
	st := &capStream{rd: bytes.NewReader(payload)}
	_ = n.handler[name](context.Background(), p2p.Peer{Address: from}, st)
}

func (w *world) violate(sig, detail string, impl, want interface{}) {
	w.run.Violate(hx.Violation{Sig: sig, Detail: detail, Case: w.jc, Impl: impl, Want: want})
}

// ---- oracle on the group lists of one node (independent of the model)
func (w *world) checkGroups(ni int, afterPrune string) {
	n := w.nodes[ni]
	type lists struct {
		gid     string
		c, k, o []boson.Address
	}
	var all []lists
	for _, gid := range n.svc.VerifGroupIDs() {
		c, k, o, _, ok := n.svc.VerifGroupLists(gid)
		if ok {
			all = append(all, lists{hexOf(gid), c, k, o})
			gp, err := n.svc.GetGroupPeers(hexOf(gid))
			if len(gid.Bytes()) == 32 {
				w.run.OracleChecked(1)
				if err != nil || !sameAddrs(gp.Connected, c) || !sameAddrs(gp.Keep, k) {
					w.violate("getgrouppeers:differs-from-lists", fmt.Sprintf("node %d gid %s", ni, hexOf(gid)), gp, [2][]boson.Address{c, k})
				}
			}
		}
	}
	// group objects still referenced from peerGroups (possibly unregistered by gcGroup)
	seenPeers := map[string]bool{}
	for _, l := range all {
		for _, lst := range [][]boson.Address{l.c, l.k, l.o} {
			for _, p := range lst {
				seenPeers[p.ByteString()] = true
			}
		}
	}
	for ps := range seenPeers {
		gids, ls := n.svc.VerifPeerGroupObjects(boson.NewAddress([]byte(ps)))
		for i := range gids {
			all = append(all, lists{hexOf(gids[i]) + "(via peerGroups)", ls[i][0], ls[i][1], ls[i][2]})
		}
	}
	for _, l := range all {
		w.run.OracleChecked(2)
		where := map[string]string{}
		for name, lst := range map[string][]boson.Address{"connected": l.c, "kept": l.k, "known": l.o} {
			dup := map[string]bool{}
			for _, p := range lst {
				if dup[p.ByteString()] {
					w.violate("partition:duplicate-in-list", fmt.Sprintf("node %d group %s: %s listed twice in %s", ni, l.gid, hexOf(p), name), name, "no duplicates")
				}
				dup[p.ByteString()] = true
				if prev, ok := where[p.ByteString()]; ok && prev != name {
					w.violate("partition:peer-in-two-lists", fmt.Sprintf("node %d group %s: %s is in %s and %s", ni, l.gid, hexOf(p), prev, name), []string{prev, name}, "at most one list")
				}
				where[p.ByteString()] = name
			}
		}
		// a connected peer is a neighbour, or its disconnect notification is still queued. Only for
		// registered groups (what GetGroupPeers can list): an object that was unregistered (gcGroup,
		// newGroup over an existing gid) is no longer visited by the disconnect loop.
		if strings.HasSuffix(l.gid, "(via peerGroups)") {
			continue
		}
		for _, p := range l.c {
			if !n.route.nbrs[p.ByteString()] {
				queued := false
				for _, q := range n.pending {
					if q.Equal(p) {
						queued = true
					}
				}
				if !queued {
					w.violate("connected:not-neighbour"+w.sigSuffix, fmt.Sprintf("node %d group %s: %s connected but not a neighbour, no disconnect pending", ni, l.gid, hexOf(p)), hexOf(p), "neighbour")
				}
			}
		}
		if afterPrune != "" && l.gid == afterPrune {
			w.run.OracleChecked(1)
			if len(l.o) > multicast.VerifMaxKnownPeers() {
				w.violate("prune:known-above-max", fmt.Sprintf("node %d group %s: %d known peers after pruneKnown", ni, l.gid, len(l.o)), len(l.o), multicast.VerifMaxKnownPeers())
			}
		}
	}
}

func sameAddrs(a, b []boson.Address) bool {
	if len(a) != len(b) {
		return false
	}
	for i := range a {
		if !a[i].Equal(b[i]) {
			return false
		}
	}
	return true
}

func (w *world) dump(ni int) string {
	n := w.nodes[ni]
	gids := n.svc.VerifGroupIDs()
	sort.Slice(gids, func(i, j int) bool { return bytes.Compare(gids[i].Bytes(), gids[j].Bytes()) < 0 })
	var el []string
	for _, gid := range gids {
		c, k, o, t, _ := n.svc.VerifGroupLists(gid)
		el = append(el, hx.CoqTuple(coqAddr(gid.Bytes()), hx.CoqN(uint64(t)), coqAddrs(c), coqAddrs(k), coqAddrs(o)))
	}
	return hx.CoqApp("ODump", hx.CoqList(el, "dump_entry"))
}

// collect what a Multicast / onMulticast call at node ni made visible
func (w *world) collect(ni int, ran bool) string {
	n := w.nodes[ni]
	var deliv, fwd, sends []string
	recvlog := false
	for _, p := range n.sub.pubs {
		switch {
		case p.kind == "multicastMsg":
			m := msgOfPub(p.msg)
			deliv = append(deliv, hx.CoqTuple(coqAddr(unhex(p.param)), coqMsg(m), coqAddr(p.msg.From.Bytes())))
			key := fmt.Sprintf("%d|%s|%d", ni, m.Origin, m.ID)
			w.delivCount[key]++
			w.run.OracleChecked(1)
			if w.delivCount[key] > 1 {
				w.violate("deliver:twice-within-window", fmt.Sprintf("node %d delivered (%s,%d) to its subscribers %d times within the window", ni, m.Origin, m.ID, w.delivCount[key]), w.delivCount[key], 1)
			}
		case p.kind == "logContent" && p.event == "multicast_deliver":
			fwd = append(fwd, coqMsg(msgOfPub(p.msg)))
		case p.kind == "logContent" && p.event == "multicast_receive":
			recvlog = true
		}
	}
	n.sub.pubs = nil
	forwardedKeys := map[string]bool{}
	for _, cs := range n.str.sent {
		var m pb.MulticastMsg
		if err := protobuf.NewReader(bytes.NewReader(cs.wr.Bytes())).ReadMsg(&m); err != nil {
			w.violate("send:unparsable", "a written multicast packet does not parse: "+err.Error(), nil, nil)
			continue
		}
		jm := msgOf(&m)
		sends = append(sends, hx.CoqTuple(coqAddr(cs.dst.Bytes()), coqMsg(jm)))
		w.soup = append(w.soup, pkt{src: n.self, dst: cs.dst, m: jm})
		forwardedKeys[fmt.Sprintf("%s|%d", jm.Origin, jm.ID)] = true
		w.sendCount[fmt.Sprintf("%s|%d", jm.Origin, jm.ID)]++
		w.gidsSeen[jm.Gid] = true
	}
	n.str.sent = nil
	for k := range forwardedKeys {
		key := fmt.Sprintf("%d|%s", ni, k)
		w.fwdCount[key]++
		w.run.OracleChecked(1)
		if w.fwdCount[key] > 1 {
			w.violate("forward:twice-within-window", fmt.Sprintf("node %d forwarded (%s) in %d separate calls within the window", ni, k, w.fwdCount[key]), w.fwdCount[key], 1)
		}
	}
	nodeOpt := "None"
	if ran {
		nodeOpt = hx.CoqSome(hx.CoqN(uint64(ni)))
	}
	return hx.CoqApp("OFlood", nodeOpt, hx.CoqList(deliv, "addr * msg * addr"), hx.CoqBool(recvlog), hx.CoqList(fwd, "msg"),
		hx.CoqList(sends, "addr * msg"), hx.CoqN(n.svc.VerifMsgSeq()))
}

func (w *world) findNode(dst boson.Address) int {
	for i, n := range w.nodes {
		if n.self.Equal(dst) {
			return i
		}
	}
	return -1
}

// exec runs one event on the real code and records (event, observation).
func (w *world) exec(e jev) {
	w.jc.Evs = append(w.jc.Evs, e)
	w.run.Hist("ev." + e.K)
	var coqEv, coqObs string
	coqObs = "ONone"
	gev := func(n int, g string) string { w.lastG = g; return hx.CoqApp("EvG", hx.CoqNat(n), g) }
	groupEvent := func(n int, f func(nd *hnode)) {
		if n < 0 || n >= len(w.nodes) {
			return
		}
		nd := w.nodes[n]
		multicast.VerifSwapCache(nd.cache)
		nd.svc.VerifUnthrottle()
		if p, msg := hx.Guard(func() { f(nd) }); p {
			w.panicked = true
			w.violate("panic:group-event:"+e.K, msg, msg, "no panic")
			return
		}
		pr := ""
		if e.K == "prune" {
			pr = e.Gid
		}
		w.checkGroups(n, pr)
		if e.Dump {
			coqObs = w.dump(n)
		}
		nd.sub.pubs = nil
	}
	switch e.K {
	case "new":
		coqEv = gev(e.N, hx.CoqApp("GNew", coqAddr(unhex(e.Gid)), coqGtype(e.T), hx.CoqBool(e.B)))
		groupEvent(e.N, func(nd *hnode) {
			nd.svc.VerifNewGroup(ad(e.Gid), model.ConfigNodeGroup{GType: model.GType(e.T)}, e.B)
		})
	case "add":
		coqEv = gev(e.N, hx.CoqApp("GAdd", coqAddr(unhex(e.Gid)), coqAddr(unhex(e.P)), hx.CoqBool(e.B)))
		groupEvent(e.N, func(nd *hnode) { nd.svc.VerifGroupAdd(ad(e.Gid), ad(e.P), e.B) })
	case "remove":
		coqEv = gev(e.N, hx.CoqApp("GRemove", coqAddr(unhex(e.Gid)), coqAddr(unhex(e.P)), hx.CoqBool(e.B)))
		groupEvent(e.N, func(nd *hnode) { nd.svc.VerifGroupRemove(ad(e.Gid), ad(e.P), e.B) })
	case "prune":
		coqEv = gev(e.N, hx.CoqApp("GPrune", coqAddr(unhex(e.Gid))))
		groupEvent(e.N, func(nd *hnode) { nd.svc.VerifGroupPrune(ad(e.Gid)) })
	case "notify": // through the registered "notify" stream handler
		coqEv = gev(e.N, hx.CoqApp("GNotify", coqAddr(unhex(e.P)), hx.CoqBool(e.B), coqHexes(e.Gids)))
		groupEvent(e.N, func(nd *hnode) {
			st := int32(multicast.NotifyLeaveGroup)
			if e.B {
				st = int32(multicast.NotifyJoinGroup)
			}
			m := &pb.Notify{Status: st}
			for _, g := range e.Gids {
				m.Gids = append(m.Gids, unhex(g))
			}
			var buf bytes.Buffer
			_ = protobuf.NewWriter(&buf).WriteMsg(m)
			w.callHandler(nd, "notify", ad(e.P), buf.Bytes())
		})
	case "handshake": // through the registered "handshake" stream handler (HandshakeIncoming)
		coqEv = gev(e.N, hx.CoqApp("GHandshake", coqAddr(unhex(e.P)), coqHexes(e.Gids)))
		groupEvent(e.N, func(nd *hnode) {
			m := &pb.GIDs{}
			for _, g := range e.Gids {
				m.Gid = append(m.Gid, unhex(g))
			}
			var buf bytes.Buffer
			_ = protobuf.NewWriter(&buf).WriteMsg(m)
			w.callHandler(nd, "handshake", ad(e.P), buf.Bytes())
		})
	case "gc":
		coqEv = gev(e.N, "GGc")
		groupEvent(e.N, func(nd *hnode) { nd.svc.VerifGcGroup() })
	case "obscancel":
		coqEv = gev(e.N, hx.CoqApp("GObserveCancel", coqAddr(unhex(e.Gid))))
		groupEvent(e.N, func(nd *hnode) { _ = nd.svc.RemoveGroup(ad(e.Gid), model.GTypeObserve) })
	case "subscribe":
		coqEv = gev(e.N, hx.CoqApp("GSubscribe", coqAddr(unhex(e.Gid))))
		groupEvent(e.N, func(nd *hnode) { _ = nd.svc.SubscribeMulticastMsg(nil, nil, ad(e.Gid)) })
	case "connect":
		coqEv = gev(e.N, hx.CoqApp("EConnect", coqAddr(unhex(e.P))))
		groupEvent(e.N, func(nd *hnode) { nd.route.nbrs[ad(e.P).ByteString()] = true })
	case "disconnect":
		coqEv = gev(e.N, hx.CoqApp("EDisconnect", coqAddr(unhex(e.P))))
		groupEvent(e.N, func(nd *hnode) {
			delete(nd.route.nbrs, ad(e.P).ByteString())
			nd.pending = append(nd.pending, ad(e.P))
		})
	case "procdisc":
		coqEv = gev(e.N, "GProcDisconnect")
		groupEvent(e.N, func(nd *hnode) {
			if len(nd.pending) > 0 {
				p := nd.pending[0]
				nd.pending = nd.pending[1:]
				nd.svc.VerifPeerDisconnected(p)
			}
		})
	case "multicast":
		var skip []boson.Address
		for _, s := range e.Skip {
			skip = append(skip, ad(s))
		}
		coqEv = hx.CoqApp("EvMulticast", hx.CoqNat(e.N), coqMsg(*e.Msg), coqHexes(e.Skip), "[]")
		if e.N >= 0 && e.N < len(w.nodes) {
			nd := w.nodes[e.N]
			multicast.VerifSwapCache(nd.cache)
			info := &pb.MulticastMsg{Id: e.Msg.ID, Origin: unhex(e.Msg.Origin), Gid: unhex(e.Msg.Gid), Data: unhex(e.Msg.Data)}
			if len(info.Origin) == 0 {
				info.Origin = nil
			}
			w.gidsSeen[e.Msg.Gid] = true
			if p, msg := hx.Guard(func() { _ = nd.svc.Multicast(info, skip...) }); p {
				w.panicked = true
				w.violate("panic:Multicast", msg, msg, "no panic")
			}
			coqObs = w.collect(e.N, true)
		}
	case "deliver":
		coqEv = hx.CoqApp("EvDeliver", hx.CoqNat(e.I), "[]")
		if e.I >= 0 && e.I < len(w.soup) {
			p := w.soup[e.I]
			w.soup = append(append([]pkt{}, w.soup[:e.I]...), w.soup[e.I+1:]...)
			ni := w.findNode(p.dst)
			if ni >= 0 {
				nd := w.nodes[ni]
				multicast.VerifSwapCache(nd.cache)
				info := &pb.MulticastMsg{Id: p.m.ID, Origin: unhex(p.m.Origin), Gid: unhex(p.m.Gid), Data: unhex(p.m.Data)}
				payload := frame(info)
				if pn, msg := hx.Guard(func() { w.callHandler(nd, "multicast", p.src, payload) }); pn {
					w.panicked = true
					w.violate("panic:onMulticast", msg, msg, "no panic")
				}
				coqObs = w.collect(ni, true)
			} else {
				coqObs = hx.CoqApp("OFlood", "None", "(@nil (addr * msg * addr))", "false", "(@nil msg)", "(@nil (addr * msg))", "0%N")
			}
		}
	case "drop":
		coqEv = hx.CoqApp("EvDrop", hx.CoqNat(e.I))
		if e.I >= 0 && e.I < len(w.soup) {
			w.soup = append(append([]pkt{}, w.soup[:e.I]...), w.soup[e.I+1:]...)
		}
	case "inject":
		coqEv = hx.CoqApp("EvInject", hx.CoqApp("mkPkt", coqAddr(unhex(e.Pkt.Src)), coqAddr(unhex(e.Pkt.Dst)), coqMsg(e.Pkt.Msg)))
		w.soup = append(w.soup, pkt{src: ad(e.Pkt.Src), dst: ad(e.Pkt.Dst), m: e.Pkt.Msg})
		w.gidsSeen[e.Pkt.Msg.Gid] = true
	case "tick":
		// the model's clock advances by Dt; the real clock by at least Dt (plus a margin when
		// the tick is meant to cross the window)
		coqEv = hx.CoqApp("EvTick", hx.CoqN(uint64(e.Dt)))
		d := time.Duration(e.Dt) * time.Millisecond
		if e.Dt > w.window {
			d += 1500 * time.Millisecond
			w.delivCount, w.fwdCount, w.sendCount = map[string]int{}, map[string]int{}, map[string]int{}
			w.slept = true
		}
		time.Sleep(d)
	default:
		panic("unknown event kind " + e.K)
	}
	w.steps = append(w.steps, hx.CoqPair(coqEv, coqObs))
}

// fanout bound of node ni for gid: |connected|+|kept| of its group, 4 on the relay path
func (w *world) fanout(ni int, gid string) int {
	c, k, _, _, ok := w.nodes[ni].svc.VerifGroupLists(ad(gid))
	if ok {
		return len(c) + len(k)
	}
	return 4
}

// drain delivers everything in flight (random order) and checks that flooding stops
// and that no key was written more often than the sum of the fan-outs.
func (w *world) drain(r *hx.Rand) {
	bound := 0
	for ni := range w.nodes {
		mx := 0
		for g := range w.gidsSeen {
			if f := w.fanout(ni, g); f > mx {
				mx = f
			}
		}
		bound += mx
	}
	keys := map[string]bool{}
	for _, p := range w.soup {
		keys[fmt.Sprintf("%s|%d", p.m.Origin, p.m.ID)] = true
		if p.m.Origin == "" {
			keys[fmt.Sprintf("fresh-%d", len(keys))] = true
		}
	}
	limit := len(w.soup) + len(keys)*bound + 1
	steps := 0
	for len(w.soup) > 0 && steps <= limit {
		w.exec(jev{K: "deliver", I: r.Intn(len(w.soup))})
		steps++
	}
	w.run.OracleChecked(1)
	if len(w.soup) > 0 {
		w.violate("flood:does-not-terminate", fmt.Sprintf("%d packets still in flight after %d deliveries (bound %d)", len(w.soup), steps, limit), len(w.soup), 0)
	}
	w.run.HistN("drain.steps", steps)
	if !w.slept {
		for k, c := range w.sendCount {
			w.run.OracleChecked(1)
			if c > bound {
				w.violate("flood:sends-exceed-degree-sum", fmt.Sprintf("key %s written %d times, sum of fan-outs is %d", k, c, bound), c, bound)
			}
		}
	}
}

func (w *world) finish(kind string, nontrivial bool) {
	body := hx.CoqApp("CRun", coqHexes(w.jc.Selfs), hx.CoqList(w.steps, "ev * obs"))
	coq := "(" + strings.Join(internDefs, "") + body + ")"
	key := kind + "|" + strings.Join(w.steps, ";")
	w.run.AddCase(coq, w.jc, key, nontrivial)
	w.run.Hist("case." + kind)
}

// ------------------------------------------------------------------ generators

func hexb(b ...byte) string { return hex.EncodeToString(b) }

// group-history scenario on one node
func genGroups(run *hx.Run, r *hx.Rand, nev int, long bool) {
	self := hexb(0xA0, byte(r.Intn(256)))
	if long {
		self = hex.EncodeToString(r.Bytes(32))
	}
	w := newWorld(run, []string{self})
	npeers := 3 + r.Intn(5)
	peers := make([]string, npeers)
	for i := range peers {
		peers[i] = hexb(0x10+byte(i), byte(r.Intn(4)))
		if long {
			peers[i] = hex.EncodeToString(r.Bytes(32))
		}
	}
	ngids := 1 + r.Intn(3)
	gids := make([]string, ngids)
	for i := range gids {
		gids[i] = hex.EncodeToString(r.Bytes(32))
		if !long && r.Chance(3, 4) {
			gids[i] = hexb(0xE0 + byte(i))
		}
	}
	pk := func() string { return peers[r.Intn(len(peers))] }
	gk := func() string { return gids[r.Intn(len(gids))] }
	gsub := func() []string {
		var out []string
		for _, g := range gids {
			if r.Bool() {
				out = append(out, g)
			}
		}
		return out
	}
	// most groups exist before peers are added (a group created inside a handler throttles its first notification for 500 ms)
	for _, g := range gids {
		if r.Chance(4, 5) {
			w.exec(jev{K: "new", Gid: g, T: r.Intn(3), Dump: true})
		}
	}
	for _, p := range peers {
		if r.Bool() {
			w.exec(jev{K: "connect", P: p})
		}
	}
	created := 0
	for i := 0; i < nev; i++ {
		switch x := r.Intn(100); {
		case x < 22:
			w.exec(jev{K: "add", Gid: gk(), P: pk(), B: r.Chance(2, 3), Dump: true})
		case x < 34:
			w.exec(jev{K: "remove", Gid: gk(), P: pk(), B: r.Bool(), Dump: true})
		case x < 46:
			if r.Chance(2, 5) {
				w.exec(jev{K: "connect", P: pk(), Dump: true})
			} else {
				p := pk()
				if w.nodes[0].route.nbrs[ad(p).ByteString()] || r.Chance(1, 3) {
					w.exec(jev{K: "disconnect", P: p, Dump: true})
				}
			}
		case x < 56:
			w.exec(jev{K: "procdisc", Dump: true})
		case x < 68:
			gs := gsub()
			missing := false
			for _, g := range gs {
				if !w.nodes[0].svc.VerifHasGroup(ad(g)) {
					missing = true
				}
			}
			if missing && created >= 1 {
				continue
			}
			if missing {
				created++
			}
			w.exec(jev{K: "handshake", P: pk(), Gids: gs, Dump: true})
		case x < 76:
			gs := gsub()
			join := r.Chance(2, 3)
			missing := false
			for _, g := range gs {
				if !w.nodes[0].svc.VerifHasGroup(ad(g)) {
					missing = true
				}
			}
			if missing && join && created >= 1 {
				continue
			}
			if missing && join {
				created++
			}
			w.exec(jev{K: "notify", P: pk(), B: join, Gids: gs, Dump: true})
		case x < 82:
			w.exec(jev{K: "gc", Dump: true})
		case x < 86:
			w.exec(jev{K: "new", Gid: gk(), T: r.Intn(3), B: r.Chance(1, 4), Dump: true})
		case x < 90:
			w.exec(jev{K: "obscancel", Gid: gk(), Dump: true})
		case x < 94:
			w.exec(jev{K: "prune", Gid: gk(), Dump: true})
		default:
			w.exec(jev{K: "subscribe", Gid: gk(), Dump: true})
		}
	}
	for len(w.nodes[0].pending) > 0 {
		w.exec(jev{K: "procdisc", Dump: true})
	}
	w.finish("groups", nev >= 5)
}

// pruneKnown at and around maxKnownPeers
func genPrune(run *hx.Run, r *hx.Rand, nknown int) {
	w := newWorld(run, []string{hexb(0xA1)})
	g := hexb(0xE7, byte(nknown))
	w.exec(jev{K: "new", Gid: g, T: r.Intn(3)})
	for i := 0; i < nknown; i++ {
		w.exec(jev{K: "add", Gid: g, P: hexb(0x20, byte(i)), B: false})
	}
	// a few peers move out of / into known first
	for i := 0; i < r.Intn(4); i++ {
		p := hexb(0x20, byte(r.Intn(nknown+1)))
		if r.Bool() {
			w.exec(jev{K: "connect", P: p})
		}
		w.exec(jev{K: "add", Gid: g, P: p, B: true})
	}
	w.exec(jev{K: "prune", Gid: g, Dump: true})
	w.exec(jev{K: "prune", Gid: g, Dump: true})
	w.exec(jev{K: "add", Gid: g, P: hexb(0x21, 0xff), B: false})
	w.exec(jev{K: "prune", Gid: g, Dump: true})
	w.run.Hist(fmt.Sprintf("prune.known=%d", nknown))
	w.finish("prune", nknown > multicast.VerifMaxKnownPeers())
}

// flooding over a small topology
func genFlood(run *hx.Run, r *hx.Rand, nn int, expiry, long bool) {
	selfs := make([]string, nn)
	for i := range selfs {
		selfs[i] = hexb(0xB0+byte(i), byte(r.Intn(256)))
	}
	ext := hexb(0xFE, 0x01) // an address with no simulated node behind it
	w := newWorld(run, selfs)
	G, G2, G3 := hexb(0xE1, byte(r.Intn(256))), hexb(0xE2, byte(r.Intn(256))), hexb(0xE3, byte(r.Intn(256)))
	if long {
		G, G2, G3 = hex.EncodeToString(r.Bytes(32)), hex.EncodeToString(r.Bytes(32)), hex.EncodeToString(r.Bytes(32))
	}
	role := make([]int, nn) // 0 member+subscribed, 1 member, 2 observer, 3 relay (not in G)
	for i := range role {
		role[i] = r.Pick([]int{0, 0, 0, 1, 2, 3})
	}
	role[0] = 0
	link := func(a int, gid string, peer string, nbr bool) {
		if nbr {
			w.exec(jev{K: "connect", N: a, P: peer})
		}
		w.exec(jev{K: "add", N: a, Gid: gid, P: peer, B: true})
	}
	for i := 0; i < nn; i++ {
		switch role[i] {
		case 0:
			w.exec(jev{K: "new", N: i, Gid: G, T: 0})
			w.exec(jev{K: "subscribe", N: i, Gid: G})
		case 1:
			w.exec(jev{K: "new", N: i, Gid: G, T: 0})
		case 2:
			w.exec(jev{K: "new", N: i, Gid: G, T: 1})
		case 3:
			// relay: groups other than G, of any type
			w.exec(jev{K: "new", N: i, Gid: G2, T: r.Intn(3)})
			if r.Bool() {
				w.exec(jev{K: "new", N: i, Gid: G3, T: r.Intn(3)})
			}
		}
	}
	// edges: ring + random chords, possibly asymmetric; relays put peers into G2/G3
	for i := 0; i < nn; i++ {
		targets := map[int]bool{(i + 1) % nn: true}
		for k := 0; k < r.Intn(3); k++ {
			targets[r.Intn(nn)] = true
		}
		if role[i] == 3 && r.Chance(1, 2) {
			for k := 0; k < 3; k++ {
				targets[r.Intn(nn)] = true
			}
		}
		var ts []int
		for t := range targets {
			ts = append(ts, t)
		}
		sort.Ints(ts)
		for _, t := range ts {
			if t == i {
				continue
			}
			gid := G
			if role[i] == 3 {
				gid = G2
				if r.Chance(1, 3) {
					gid = G3
				}
			}
			link(i, gid, selfs[t], r.Chance(2, 3))
			if r.Chance(2, 3) && role[t] != 3 {
				link(t, G, selfs[i], r.Chance(2, 3))
			}
		}
		if r.Chance(1, 4) {
			link(i, G, ext, r.Bool())
		}
	}
	for i := 0; i < nn; i++ {
		w.exec(jev{K: "procdisc", N: i, Dump: true}) // no notification queued: a no-op whose dump records the topology for the correspondence
	}
	// traffic
	nmsg := 1 + r.Intn(3)
	var lastPkt *pkt
	for k := 0; k < nmsg; k++ {
		src := r.Intn(nn)
		m := jmsg{Gid: G, Data: hexb(byte(k), byte(r.Intn(256)))}
		if r.Chance(1, 8) {
			m.Origin, m.ID = hexb(0xCC, byte(k)), uint64(r.Intn(5)) // API call with an explicit origin
		}
		var skip []string
		if r.Chance(1, 5) {
			skip = []string{selfs[r.Intn(nn)]}
		}
		w.exec(jev{K: "multicast", N: src, Msg: &m, Skip: skip})
		if r.Chance(1, 4) { // the same message handed to Multicast again (explicit origin and id): must be swallowed
			again := m
			if again.Origin == "" {
				again.Origin, again.ID = selfs[src], w.nodes[src].svc.VerifMsgSeq()
			}
			w.exec(jev{K: "multicast", N: src, Msg: &again})
			w.run.Hist("multicast.repeated")
		}
		for s := 0; s < r.Intn(8) && len(w.soup) > 0; s++ {
			i := r.Intn(len(w.soup))
			p := w.soup[i]
			lastPkt = &p
			switch x := r.Intn(10); {
			case x < 7:
				w.exec(jev{K: "deliver", I: i})
			case x < 8:
				w.exec(jev{K: "drop", I: i})
			default: // duplicate in the network
				w.exec(jev{K: "inject", Pkt: &jpkt{Src: hexOf(p.src), Dst: hexOf(p.dst), Msg: p.m}})
			}
		}
		if r.Chance(1, 4) { // forged: same key, other content / empty origin / a node's own address as origin
			dst := selfs[r.Intn(nn)]
			fm := jmsg{Origin: hexb(0xDD), ID: 7, Gid: G, Data: hexb(1)}
			switch r.Intn(3) {
			case 0:
				fm.Origin = ""
			case 1:
				fm.Origin = dst
			}
			w.exec(jev{K: "inject", Pkt: &jpkt{Src: selfs[r.Intn(nn)], Dst: dst, Msg: fm}})
			w.exec(jev{K: "inject", Pkt: &jpkt{Src: ext, Dst: dst, Msg: fm}})
		}
		if r.Chance(1, 6) {
			w.exec(jev{K: "deliver", I: len(w.soup) + 3}) // out of range: no-op
		}
	}
	w.drain(r)
	if lastPkt != nil { // replay an old packet after everything settled: must be swallowed
		w.exec(jev{K: "inject", Pkt: &jpkt{Src: hexOf(lastPkt.src), Dst: hexOf(lastPkt.dst), Msg: lastPkt.m}})
		w.drain(r)
	}
	if expiry && lastPkt != nil {
		// cross the de-duplication window in real time: the same packet is accepted again
		w.exec(jev{K: "tick", Dt: w.window + 1})
		w.exec(jev{K: "inject", Pkt: &jpkt{Src: hexOf(lastPkt.src), Dst: hexOf(lastPkt.dst), Msg: lastPkt.m}})
		w.drain(r)
		w.run.Hist("expiry.crossed")
	}
	w.run.Hist(fmt.Sprintf("flood.nodes=%d", nn))
	w.finish("flood", true)
}

// malformed payloads on the multicast stream: nothing may be delivered or forwarded, nothing may panic
func genMalformed(run *hx.Run, r *hx.Rand) {
	selfs := []string{hexb(0xB0, 1), hexb(0xB1, 2)}
	w := newWorld(run, selfs)
	G := hexb(0xE1, 7)
	for i := range selfs {
		w.exec(jev{K: "new", N: i, Gid: G, T: 0})
		w.exec(jev{K: "subscribe", N: i, Gid: G})
		w.exec(jev{K: "connect", N: i, P: selfs[1-i]})
		w.exec(jev{K: "add", N: i, Gid: G, P: selfs[1-i], B: true})
	}
	good := frame(&pb.MulticastMsg{Id: 5, Origin: unhex(selfs[1]), Gid: unhex(G), Data: []byte{1, 2, 3}})
	payloads := [][]byte{nil, {0xff}, {0x05, 0x08}, good[:len(good)-1], good[:len(good)/2], append([]byte{0xff, 0xff, 0xff, 0xff, 0x0f}, good...), r.Bytes(1 + r.Intn(20))}
	nd := w.nodes[0]
	for _, pl := range payloads {
		pl := pl
		multicast.VerifSwapCache(nd.cache)
		nd.svc.VerifUnthrottle()
		if p, msg := hx.Guard(func() { w.callHandler(nd, "multicast", ad(selfs[1]), pl) }); p {
			w.violate("panic:onMulticast-malformed", msg, msg, "no panic")
		}
		run.OracleChecked(1)
		delivered := 0
		for _, p := range nd.sub.pubs {
			if p.kind == "multicastMsg" {
				delivered++
			}
		}
		// a random payload may by chance be a well-formed message; only truncations of a good one are decisive
		if (delivered > 0 || len(nd.str.sent) > 0) && (len(pl) < len(good)) && bytes.HasPrefix(good, pl) {
			w.violate("malformed:truncated-packet-had-effect", fmt.Sprintf("payload %x: %d deliveries, %d packets written", pl, delivered, len(nd.str.sent)), delivered, 0)
		}
		nd.sub.pubs, nd.str.sent = nil, nil
		run.Hist("malformed.payload")
	}
	run.AddCase("", w.jc, "malformed", false)
}

// corpus: a group object replaced under its gid while peerGroups still points at the old one; the
// disconnect loop only visits registered objects (an early oracle wrongly demanded more)
func genCorpusStale(run *hx.Run) {
	w := newWorld(run, []string{hexb(0xA0, 0xB5)})
	g, p, q := hexb(0xE0), hexb(0x12, 0x02), hexb(0x10, 0x01)
	for _, e := range []jev{
		{K: "new", Gid: g, Dump: true}, {K: "connect", P: p}, {K: "connect", P: q},
		{K: "handshake", P: p, Gids: []string{g}, Dump: true}, {K: "add", Gid: g, P: q, B: true, Dump: true},
		{K: "new", Gid: g, B: true, T: 2, Dump: true}, {K: "disconnect", P: p, Dump: true}, {K: "procdisc", Dump: true},
		{K: "handshake", P: q, Gids: []string{g}, Dump: true}, {K: "handshake", P: p, Gids: nil, Dump: true},
		{K: "gc", Dump: true}, {K: "notify", P: q, B: false, Gids: []string{g}, Dump: true}, {K: "gc", Dump: true},
	} {
		w.exec(e)
	}
	w.finish("corpus-stale-object", true)
}

// ------------------------------------------------------------------ add ∥ disconnect
//
// The interleaving "neighbour lookup of an add — link drops — disconnect handling — rest of the add",
// made deterministic: the route stub runs a callback right after answering IsNeighbor; the callback
// drops the link, dispatches the disconnect handling (what the loop of Start does) on another
// goroutine and gives it a bounded time to finish. In the code as it is the lookup happens while the
// add holds g.mux, so the handler blocks on that group until the add is done; a lookup made before
// the lock lets the handler finish first. Either order must leave every connected peer a neighbour
// once the add and the handler are both done.
func genConc(run *hx.Run, r *hx.Rand, fixed bool, viaHandshake bool) {
	w := newWorld(run, []string{hexb(0xA7, 0x01)})
	w.sigSuffix = ":after-concurrent-disconnect"
	p := hexb(0x12, 0x34)
	other := hexb(0x13, 0x35)
	ng := 1
	if !fixed {
		ng = 1 + r.Intn(3)
	}
	gids := make([]string, ng)
	var ksteps []string
	at := func(e jev) {
		w.exec(e)
		ksteps = append(ksteps, hx.CoqApp("KAt", w.lastG))
	}
	for i := range gids {
		gids[i] = hexb(0xE8, byte(i))
		at(jev{K: "new", Gid: gids[i], T: r.Intn(3)})
	}
	at(jev{K: "connect", P: p})
	at(jev{K: "connect", P: other})
	target := gids[r.Intn(ng)]
	if !fixed {
		// the peer may already sit in some list of some group; another peer too
		for _, g := range gids {
			switch r.Intn(5) {
			case 0:
				at(jev{K: "add", Gid: g, P: p, B: true}) // connected
			case 1:
				at(jev{K: "add", Gid: g, P: p, B: false}) // known
			}
			if r.Bool() {
				at(jev{K: "add", Gid: g, P: other, B: r.Bool()})
			}
		}
	}
	keep := fixed || viaHandshake || r.Chance(5, 6)
	kind := "conc"
	if fixed {
		kind = "corpus-conc"
	}
	runConc(w, ksteps, target, p, keep, viaHandshake, kind)
}

// runConc performs the add with the disconnect handling dispatched from inside its neighbour lookup.
func runConc(w *world, ksteps []string, target, p string, keep, viaHandshake bool, kind string) {
	run := w.run
	nd := w.nodes[0]
	w.jc.Evs = append(w.jc.Evs, jev{K: "conc", Gid: target, P: p, B: keep, T: map[bool]int{false: 0, true: 1}[viaHandshake]})
	multicast.VerifSwapCache(nd.cache)
	nd.svc.VerifUnthrottle()
	done := make(chan struct{})
	fired, handlerFirst := false, false
	dropLink := func() {
		delete(nd.route.nbrs, ad(p).ByteString())
		go func() {
			defer close(done)
			nd.svc.VerifPeerDisconnected(ad(p))
		}()
	}
	nd.route.after = func(a boson.Address) {
		fired = true
		dropLink()
		select {
		case <-done:
			handlerFirst = true
		case <-time.After(120 * time.Millisecond):
		}
	}
	if pn, msg := hx.Guard(func() {
		if viaHandshake {
			m := &pb.GIDs{Gid: [][]byte{unhex(target)}}
			var buf bytes.Buffer
			_ = protobuf.NewWriter(&buf).WriteMsg(m)
			w.callHandler(nd, "handshake", ad(p), buf.Bytes())
		} else {
			nd.svc.VerifGroupAdd(ad(target), ad(p), keep)
		}
	}); pn {
		w.violate("panic:add-during-disconnect", msg, msg, "no panic")
	}
	nd.route.after = nil
	if !fired { // keep = false asks nothing: the link drops after the add
		dropLink()
	}
	select {
	case <-done:
	case <-time.After(5 * time.Second):
		w.violate("disconnect-handler:stuck", "the disconnect handling did not finish within 5 s of the add returning", nil, "finished")
	}
	// both are done, nothing is queued (nd.pending is empty): the oracle of every registry event
	run.OracleChecked(1)
	w.checkGroups(0, "")
	nd.sub.pubs = nil
	run.Hist(fmt.Sprintf("conc.handlerFirst=%v", handlerFirst))
	run.Hist(fmt.Sprintf("conc.lookupFired=%v", fired))
	if viaHandshake {
		// updatePeerGroupsJoin does more than one add: oracle only
		run.AddCase("", w.jc, kind+"-handshake|"+strings.Join(ksteps, ";"), true)
		run.Hist("case." + kind + "-handshake")
		return
	}
	n := len(nd.svc.VerifGroupIDs()) + 1
	disc := hx.CoqApp("KAt", hx.CoqApp("EDisconnect", coqAddr(unhex(p))))
	start := hx.CoqApp("KAddStart", coqAddr(unhex(target)), coqAddr(unhex(p)), hx.CoqBool(keep))
	visit := hx.CoqApp("KHVisit", hx.CoqNat(n))
	switch {
	case !fired:
		ksteps = append(ksteps, start, "KAddCommit", disc, "KHPop", visit)
	case handlerFirst: // only possible when the lookup is made outside the lock
		ksteps = append(ksteps, start, "KAddRead", disc, "KHPop", visit, "KAddCommit", visit)
	default:
		ksteps = append(ksteps, start, "KAddRead", disc, "KHPop", visit, "KAddCommit", visit)
	}
	dump := strings.TrimSuffix(strings.TrimPrefix(w.dump(0), "(ODump "), ")")
	body := hx.CoqApp("CConc", hx.CoqList(ksteps, "kev"), dump)
	coq := "(" + strings.Join(internDefs, "") + body + ")"
	run.AddCase(coq, w.jc, kind+"|"+strings.Join(ksteps, ";")+"|"+dump, true)
	run.Hist("case." + kind)
}

func main() {
	run := hx.Start("C38", "Aurora.C38.Corr",
		"whole runs on the real multicast.Service: (a) random histories of group add/remove/prune/handshake/notify/gc/connect/disconnect events on one node, dump after every event; (b) pruneKnown around maxKnownPeers; (c) flooding over 2..6 simulated nodes (members, observers, relays; asymmetric connected/kept edges; explicit origins, skip lists, drops, duplicates, forged packets) drained to quiescence; non-trivial = at least 5 events / known list above the maximum / any flooding run; distinct by the full (event, observation) sequence")
	r := run.R
	if run.Replay != "" {
		var jc jcase
		if err := run.ReadReplay(&jc); err != nil {
			panic(err)
		}
		w := newWorld(run, jc.Selfs)
		var ksteps []string
		conc := false
		for _, e := range jc.Evs {
			if e.K == "conc" {
				w.sigSuffix = ":after-concurrent-disconnect"
				runConc(w, ksteps, e.Gid, e.P, e.B, e.T == 1, "replay-conc")
				conc = true
				break
			}
			w.exec(e)
			ksteps = append(ksteps, hx.CoqApp("KAt", w.lastG))
		}
		if !conc {
			w.finish("replay", true)
		}
		run.Finish()
		return
	}
	genCorpusStale(run)
	genConc(run, r.Fork(4242), true, false) // corpus: seeded change C38-3 (IsNeighbor before g.mux)
	genConc(run, r.Fork(4243), true, true)
	for i := 0; i < run.N(14, 120); i++ {
		genConc(run, r.Fork(uint64(5000+i)), false, i%4 == 3)
	}
	for i := 0; i < run.N(40, 400); i++ {
		genGroups(run, r.Fork(uint64(i)), 8+r.Intn(32), i%7 == 3)
	}
	for _, k := range []int{0, 19, 20, 21, 22, 25, 33} {
		genPrune(run, r.Fork(uint64(1000+k)), k)
	}
	for i := 0; i < run.N(56, 600); i++ {
		genFlood(run, r.Fork(uint64(2000+i)), 2+r.Intn(5), false, i%8 == 5)
	}
	genMalformed(run, r.Fork(7777))
	if run.Thorough() {
		genFlood(run, r.Fork(99991), 4, true, false)
	}
	run.Finish()
}
