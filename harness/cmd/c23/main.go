// C23 harness: Kad.ClosestPeer / Kad.ClosestPeers on a real kademlia.Kad.
//
// The Kad is built with kademlia.New on small stubs (p2p, discovery, addressbook,
// subscribe); its connected set is produced by real Connected / Disconnected calls,
// peer reachability by Reachable, own reachability by UpdateReachability.  The oracle
// recomputes the property with big.Int XOR distances over the harness's own record of
// who is connected / reported public; it never looks at the model.
package main

import (
	"context"
	"errors"
	"fmt"
	"io"
	"math/big"
	"sort"
	"strings"
	"sync"
	"time"

	"github.com/gauss-project/aurorafs/pkg/addressbook"
	"github.com/gauss-project/aurorafs/pkg/aurora"
	"github.com/gauss-project/aurorafs/pkg/boson"
	"github.com/gauss-project/aurorafs/pkg/discovery"
	"github.com/gauss-project/aurorafs/pkg/logging"
	"github.com/gauss-project/aurorafs/pkg/p2p"
	"github.com/gauss-project/aurorafs/pkg/shed"
	sldb "github.com/gauss-project/aurorafs/pkg/shed/leveldb"
	"github.com/gauss-project/aurorafs/pkg/subscribe"
	"github.com/gauss-project/aurorafs/pkg/topology"
	"github.com/gauss-project/aurorafs/pkg/topology/kademlia"
	"verifharness/hx"
)

// ---------------------------------------------------------------- stubs

type p2pStub struct{ p2p.Service }

func (p2pStub) Disconnect(boson.Address, string) error                 { return nil }
func (p2pStub) NetworkStatus() p2p.NetworkStatus                       { return p2p.NetworkStatusAvailable }
func (p2pStub) Blocklist(boson.Address, time.Duration, string) error   { return nil }

type discStub struct{ discovery.Driver }

func (discStub) IsStart() bool                                                       { return false }
func (discStub) IsHive2() bool                                                       { return false }
func (discStub) BroadcastPeers(context.Context, boson.Address, ...boson.Address) error { return nil }
func (discStub) NotifyDiscoverWork(...boson.Address)                                 {}

type abStub struct{ addressbook.Interface }

func (abStub) Remove(boson.Address) error { return nil }

type subStub struct{}

func (subStub) Subscribe(subscribe.INotifier, string, string, string) error { return nil }
func (subStub) Publish(string, string, string, interface{}) error            { return nil }
func (subStub) PublishArray(string, string, string, []interface{}) error     { return nil }

var registerOnce sync.Once

// ---------------------------------------------------------------- case format

type jevent struct {
	Kind   string `json:"kind"` // connect disconnect reach
	Addr   string `json:"addr"`
	Status string `json:"status,omitempty"` // public private unknown
}
type jquery struct {
	Many    bool     `json:"many,omitempty"`
	Target  string   `json:"target"`
	Include bool     `json:"include_self,omitempty"`
	Reach   bool     `json:"filter_reachable,omitempty"`
	Limit   int      `json:"limit,omitempty"`
	Skip    []string `json:"skip,omitempty"`
}
type jcase struct {
	Base    string   `json:"base"`
	Self    string   `json:"self"` // "", public, private, unknown : the UpdateReachability call
	Events  []jevent `json:"events"`
	Queries []jquery `json:"queries"`
}

func unhex(s string) []byte {
	b := make([]byte, len(s)/2)
	fmt.Sscanf(s, "%x", &b)
	return b
}

func status(s string) p2p.ReachabilityStatus {
	switch s {
	case "public":
		return p2p.ReachabilityStatusPublic
	case "private":
		return p2p.ReachabilityStatusPrivate
	}
	return p2p.ReachabilityStatusUnknown
}

func fullMode() aurora.Model { return aurora.NewModel().SetMode(aurora.FullNode) }

func dist(a, t []byte) *big.Int {
	x := make([]byte, len(a))
	for i := range a {
		x[i] = a[i] ^ t[i]
	}
	return new(big.Int).SetBytes(x)
}

// addresses are written once per case (`let xN := [...] in`) and referred to by name:
// Coq parses long numeral lists slowly
type names struct {
	idx  map[string]int
	defs []string
}

func (n *names) one(a []byte) string {
	if len(a) == 0 {
		return hx.CoqBytes(a)
	}
	i, ok := n.idx[string(a)]
	if !ok {
		i = len(n.defs)
		n.idx[string(a)] = i
		n.defs = append(n.defs, hx.CoqBytes(a))
	}
	return fmt.Sprintf("x%d", i)
}
func (n *names) list(as [][]byte) string {
	el := make([]string, len(as))
	for i, a := range as {
		el[i] = n.one(a)
	}
	return hx.CoqList(el, "list N")
}
func (n *names) wrap(body string) string {
	var sb strings.Builder
	sb.WriteString("(")
	for i, d := range n.defs {
		fmt.Fprintf(&sb, "let x%d := %s in ", i, d)
	}
	sb.WriteString(body + ")")
	return sb.String()
}

func runCase(run *hx.Run, jc jcase) {
	registerOnce.Do(func() { shed.Register("leveldb", sldb.Driver{}) })
	db, err := shed.NewDB("", &shed.Options{Driver: "leveldb"})
	if err != nil {
		panic(err)
	}
	defer db.Close()
	base := unhex(jc.Base)
	k, err := kademlia.New(boson.NewAddress(base), abStub{}, discStub{}, p2pStub{}, nil, nil, nil, db, logging.New(io.Discard, 0), subStub{},
		kademlia.Options{NodeMode: fullMode()})
	if err != nil {
		panic(err)
	}
	defer k.VerifClosestShutdown()

	// the harness's own record of the world
	connected := map[string]bool{}
	public := map[string]bool{}
	for _, e := range jc.Events {
		a := unhex(e.Addr)
		switch e.Kind {
		case "connect":
			if err := k.Connected(context.Background(), p2p.Peer{Address: boson.NewAddress(a), Mode: fullMode()}, true); err != nil {
				panic(fmt.Sprintf("harness: Connected failed: %v", err))
			}
			connected[string(a)] = true
		case "disconnect":
			k.Disconnected(p2p.Peer{Address: boson.NewAddress(a), Mode: fullMode()}, "verif")
			delete(connected, string(a))
		case "reach":
			k.Reachable(boson.NewAddress(a), status(e.Status))
			public[string(a)] = e.Status == "public"
		}
	}
	selfPublic := false
	if jc.Self != "" {
		k.UpdateReachability(status(jc.Self))
		selfPublic = jc.Self == "public"
	}
	// observed walk order of the peer index
	var conn [][]byte
	_ = k.EachPeerRev(func(a boson.Address, _ uint8) (bool, bool, error) {
		conn = append(conn, append([]byte{}, a.Bytes()...))
		return false, false, nil
	}, topology.Filter{})
	var unreach [][]byte
	for _, a := range conn {
		if !public[string(a)] {
			unreach = append(unreach, a)
		}
	}
	// the peer index and the harness's record must agree on WHO is connected (C24's business,
	// but a disagreement would make everything below meaningless)
	if len(conn) != len(connected) {
		run.Violate(hx.Violation{Sig: "setup:connected-set-differs", Detail: fmt.Sprintf("EachPeerRev walks %d peers, %d were connected", len(conn), len(connected)), Case: jc})
	}
	inDomainKad := !connected[string(base)]
	for a := range connected {
		if len(a) != len(base) || len(a) == 0 {
			inDomainKad = false
		}
	}

	var qs []string
	nm := &names{idx: map[string]int{}}
	coqAddrs := nm.list
	nontrivial := false
	for qi, q := range jc.Queries {
		target := unhex(q.Target)
		var skip []boson.Address
		var skipB [][]byte
		skipSet := map[string]bool{}
		for _, s := range q.Skip {
			b := unhex(s)
			skip = append(skip, boson.NewAddress(b))
			skipB = append(skipB, b)
			skipSet[string(b)] = true
		}
		filter := topology.Filter{Reachable: q.Reach}
		inDomain := inDomainKad && len(target) == len(base)
		// independent view of who is eligible
		var elig [][]byte
		for a := range connected {
			if skipSet[a] || (q.Reach && !public[a]) {
				continue
			}
			elig = append(elig, []byte(a))
		}
		if inDomain {
			sort.Slice(elig, func(i, j int) bool { return dist(elig[i], target).Cmp(dist(elig[j], target)) < 0 })
		}
		viol := func(sig, detail string, impl, want interface{}) {
			one := jc
			one.Queries = []jquery{q}
			run.Violate(hx.Violation{Sig: sig, Detail: fmt.Sprintf("query %d: %s", qi, detail), Case: one, Impl: impl, Want: want})
		}
		if !q.Many {
			var got boson.Address
			var gerr error
			panicked, _ := hx.Guard(func() { got, gerr = k.ClosestPeer(boson.NewAddress(target), q.Include, filter, skip...) })
			obs, okind := "", ""
			switch {
			case panicked:
				obs, okind = "OPanicked", "panic"
			case gerr == nil:
				obs, okind = hx.CoqApp("OFound", nm.one(got.Bytes())), "found"
			case errors.Is(gerr, topology.ErrNotFound):
				obs, okind = "ONotFound", "notfound"
			case errors.Is(gerr, topology.ErrWantSelf):
				obs, okind = "OWantSelf", "wantself"
			default:
				obs, okind = "OOtherError", "error"
			}
			qs = append(qs, hx.CoqApp("QOne", nm.one(target), hx.CoqBool(q.Include), hx.CoqBool(q.Reach), coqAddrs(skipB), obs))
			run.Hist("one." + okind)
			if !inDomain {
				run.Hist("one.outside-domain")
				continue
			}
			run.OracleChecked(1)
			selfElig := q.Include && selfPublic
			switch {
			case len(elig) > 0:
				nontrivial = true
				best := elig[0]
				if selfElig && dist(base, target).Cmp(dist(best, target)) < 0 {
					if okind != "wantself" {
						viol("closest:self-nearer-but-not-want-self", fmt.Sprintf("self is eligible and strictly nearer than every eligible peer; got %s %x", okind, got.Bytes()), okind, "wantself")
					}
				} else if okind == "wantself" {
					viol("closest:want-self-but-peer-nearer-or-self-ineligible", fmt.Sprintf("WantSelf although eligible peer %x is nearer or self is not eligible (include=%v public=%v)", best, q.Include, selfPublic), okind, hx.Hex(best))
				} else if okind != "found" {
					viol("closest:eligible-peer-exists-but-"+okind, fmt.Sprintf("%d eligible peers, nearest %x, got %s", len(elig), best, okind), okind, hx.Hex(best))
				} else {
					g := got.Bytes()
					switch {
					case !connected[string(g)]:
						viol("closest:returned-peer-not-connected", fmt.Sprintf("%x is not connected", g), hx.Hex(g), hx.Hex(best))
					case skipSet[string(g)]:
						viol("closest:returned-skipped-peer", fmt.Sprintf("%x is in the skip list", g), hx.Hex(g), hx.Hex(best))
					case q.Reach && !public[string(g)]:
						viol("closest:returned-unreachable-peer", fmt.Sprintf("%x was not reported public", g), hx.Hex(g), hx.Hex(best))
					case dist(g, target).Cmp(dist(best, target)) != 0:
						viol("closest:not-the-nearest", fmt.Sprintf("got %x, nearer eligible peer %x", g, best), hx.Hex(g), hx.Hex(best))
					}
				}
			case !selfElig:
				if okind != "notfound" {
					viol("closest:nothing-eligible-but-"+okind, "no eligible peer and self not eligible", okind, "notfound")
				}
			default: // no peer eligible, self eligible: both answers accepted (DESIGN 9a)
				if okind != "notfound" && okind != "wantself" {
					viol("closest:only-self-eligible-but-"+okind, "no eligible peer, self eligible", okind, "notfound|wantself")
				}
			}
			continue
		}
		// ClosestPeers
		var gotN []boson.Address
		var gerr error
		panicked, _ := hx.Guard(func() { gotN, gerr = k.ClosestPeers(boson.NewAddress(target), q.Limit, filter, skip...) })
		obs := "None"
		var gb [][]byte
		if !panicked && gerr == nil {
			for _, a := range gotN {
				gb = append(gb, a.Bytes())
			}
			obs = hx.CoqSome(coqAddrs(gb))
		}
		qs = append(qs, hx.CoqApp("QMany", nm.one(target), hx.CoqZ(int64(q.Limit)), hx.CoqBool(q.Reach), coqAddrs(skipB), obs))
		run.Hist(fmt.Sprintf("many.len=%d", len(gb)))
		if !inDomain {
			run.Hist("many.outside-domain")
			continue
		}
		run.OracleChecked(1)
		if panicked || gerr != nil {
			viol("n-closest:error", fmt.Sprintf("panic=%v err=%v", panicked, gerr), "error", "list")
			continue
		}
		want := len(elig)
		if q.Limit < want {
			want = q.Limit
		}
		if want < 0 {
			want = 0
		}
		if want > 1 {
			nontrivial = true
		}
		seen := map[string]bool{}
		for i, g := range gb {
			switch {
			case seen[string(g)]:
				viol("n-closest:duplicate", fmt.Sprintf("%x returned twice", g), hx.Hex(g), "distinct")
			case !connected[string(g)] || skipSet[string(g)] || (q.Reach && !public[string(g)]):
				viol("n-closest:ineligible-peer", fmt.Sprintf("%x is not connected / skipped / not reachable", g), hx.Hex(g), "eligible")
			case i > 0 && dist(gb[i-1], target).Cmp(dist(g, target)) > 0:
				viol("n-closest:not-sorted", fmt.Sprintf("position %d is nearer than position %d", i, i-1), i, "non-decreasing")
			}
			seen[string(g)] = true
		}
		if len(gb) != want {
			viol("n-closest:wrong-length", fmt.Sprintf("%d returned, min(limit=%d, eligible=%d) = %d", len(gb), q.Limit, len(elig), want), len(gb), want)
		} else {
			for i := range gb {
				if dist(gb[i], target).Cmp(dist(elig[i], target)) != 0 {
					viol("n-closest:not-the-nearest", fmt.Sprintf("position %d is %x, the %d-th nearest eligible peer is %x", i, gb[i], i, elig[i]), hx.Hex(gb[i]), hx.Hex(elig[i]))
					break
				}
			}
		}
	}
	coq := nm.wrap(hx.CoqApp("CKad", nm.one(base), hx.CoqBool(selfPublic), coqAddrs(conn), coqAddrs(unreach), hx.CoqList(qs, "query")))
	run.Hist(fmt.Sprintf("kad.connected=%d", len(conn)))
	run.AddCase(coq, jc, fmt.Sprintf("%v", jc), nontrivial)
}

// ---------------------------------------------------------------- generator

// near returns t with bit i (0 = most significant) flipped and a random tail after it:
// an address at proximity order exactly i from t
func near(r *hx.Rand, t []byte, i int) []byte {
	a := append([]byte{}, t...)
	a[i/8] ^= 0x80 >> uint(i%8)
	for j := i + 1; j < 8*len(a); j++ {
		if r.Bool() {
			a[j/8] ^= 0x80 >> uint(j%8)
		}
	}
	return a
}

func genCase(r *hx.Rand, thorough bool) jcase {
	const L = 32
	base := r.Bytes(L)
	jc := jcase{Base: hx.Hex(base), Self: []string{"", "public", "public", "private", "unknown"}[r.Intn(5)]}
	// a focus address around which peers (and later targets) cluster
	focus := r.Bytes(L)
	if r.Chance(1, 3) {
		focus = near(r, base, r.Intn(20))
	}
	n := r.Pick([]int{0, 1, 2, 3, 4, 5, 6, 8, 10, 12, 16, 20})
	var peers [][]byte
	seen := map[string]bool{string(base): true}
	for len(peers) < n {
		var a []byte
		switch r.Intn(4) {
		case 0:
			a = r.Bytes(L)
		case 1:
			a = near(r, focus, r.Intn(40))
		case 2:
			a = near(r, focus, 200+r.Intn(56)) // differs from focus only near the end
		default:
			a = near(r, base, r.Intn(24))
		}
		if seen[string(a)] {
			continue
		}
		seen[string(a)] = true
		peers = append(peers, a)
	}
	stat := []string{"public", "public", "public", "private", "unknown"}
	for _, a := range peers {
		if r.Chance(1, 4) {
			jc.Events = append(jc.Events, jevent{Kind: "reach", Addr: hx.Hex(a), Status: stat[r.Intn(5)]}) // reported before it connects
		}
		jc.Events = append(jc.Events, jevent{Kind: "connect", Addr: hx.Hex(a)})
		if r.Chance(3, 4) {
			jc.Events = append(jc.Events, jevent{Kind: "reach", Addr: hx.Hex(a), Status: stat[r.Intn(5)]})
		}
		if r.Chance(1, 8) {
			jc.Events = append(jc.Events, jevent{Kind: "reach", Addr: hx.Hex(a), Status: stat[r.Intn(5)]}) // status changes
		}
	}
	var live [][]byte
	for _, a := range peers {
		if r.Chance(1, 7) {
			jc.Events = append(jc.Events, jevent{Kind: "disconnect", Addr: hx.Hex(a)})
		} else {
			live = append(live, a)
		}
	}
	if r.Chance(1, 25) { // outside the theorems' domain (a node connected to itself): correspondence only
		jc.Events = append(jc.Events, jevent{Kind: "connect", Addr: hx.Hex(base)})
	}
	nq := 10 + r.Intn(10)
	for i := 0; i < nq; i++ {
		var t []byte
		switch r.Intn(8) {
		case 0:
			t = r.Bytes(L)
		case 1:
			t = append([]byte{}, base...)
		case 2:
			t = near(r, base, r.Intn(256))
		case 3:
			if len(live) > 0 {
				t = append([]byte{}, live[r.Intn(len(live))]...) // a connected peer itself
				break
			}
			fallthrough
		case 4:
			if len(live) > 0 {
				t = near(r, live[r.Intn(len(live))], r.Intn(256))
				break
			}
			fallthrough
		default:
			t = near(r, focus, r.Intn(256))
		}
		if r.Chance(1, 40) { // malformed target length: correspondence only
			t = r.Bytes(r.Pick([]int{0, 1, 31, 33}))
		}
		q := jquery{Target: hx.Hex(t), Reach: r.Chance(2, 5)}
		// skip list: connected peers (often the nearest ones), strangers, duplicates, self
		if len(live) > 0 && len(t) == L {
			order := append([][]byte{}, live...)
			sort.Slice(order, func(i, j int) bool { return dist(order[i], t).Cmp(dist(order[j], t)) < 0 })
			switch r.Intn(6) {
			case 0:
				for j := 0; j < 1+r.Intn(len(order)); j++ {
					q.Skip = append(q.Skip, hx.Hex(order[j])) // the j nearest
				}
			case 1:
				for _, a := range order {
					if r.Bool() {
						q.Skip = append(q.Skip, hx.Hex(a))
					}
				}
			case 2:
				for _, a := range order { // everybody
					q.Skip = append(q.Skip, hx.Hex(a))
				}
			}
		}
		if r.Chance(1, 5) {
			q.Skip = append(q.Skip, hx.Hex(r.Bytes(L)))
		}
		if r.Chance(1, 10) {
			q.Skip = append(q.Skip, hx.Hex(base))
		}
		if len(q.Skip) > 0 && r.Chance(1, 6) {
			q.Skip = append(q.Skip, q.Skip[r.Intn(len(q.Skip))])
		}
		if r.Chance(2, 5) {
			q.Many = true
			q.Limit = r.Pick([]int{-1, 0, 1, 2, 3, len(live), len(live) + 1, len(live) + 3, 1 + r.Intn(6)})
		} else {
			q.Include = r.Bool()
		}
		jc.Queries = append(jc.Queries, q)
	}
	return jc
}

// fixed cases that run on every seed
func corpus() []jcase {
	h := func(b ...byte) string {
		a := make([]byte, 32)
		copy(a, b)
		return hx.Hex(a)
	}
	base, a, b, c := h(0, 0, 0, 1), h(0x80), h(0, 0x40), h(0, 0, 0, 9)
	e := h(0, 0, 0, 3)
	t := h(0, 0, 0, 2)
	return []jcase{
		{Base: base, Self: "public", Events: []jevent{{Kind: "connect", Addr: a}, {Kind: "connect", Addr: b}, {Kind: "connect", Addr: c}, {Kind: "connect", Addr: e},
			{Kind: "reach", Addr: a, Status: "public"}, {Kind: "reach", Addr: b, Status: "public"}, {Kind: "reach", Addr: c, Status: "public"}},
			Queries: []jquery{{Target: t}, {Target: t, Reach: true}, {Target: t, Include: true, Reach: true}, {Target: t, Include: true},
				{Target: t, Reach: true, Skip: []string{a, b, c}}, {Target: t, Include: true, Reach: true, Skip: []string{a, b, c}},
				{Target: t, Many: true, Limit: 3, Skip: []string{b}}, {Target: t, Many: true, Limit: 10}, {Target: t, Many: true, Limit: 10, Reach: true},
				{Target: t, Many: true, Limit: 0}, {Target: t, Many: true, Limit: -1}, {Target: e}, {Target: base, Include: true}}},
		// nothing connected: NotFound even though self is eligible
		{Base: base, Self: "public", Queries: []jquery{{Target: t, Include: true}, {Target: t}, {Target: t, Many: true, Limit: 3}}},
		// everything connected is skipped / unreachable
		{Base: base, Self: "private", Events: []jevent{{Kind: "connect", Addr: a}, {Kind: "connect", Addr: b}, {Kind: "disconnect", Addr: b}},
			Queries: []jquery{{Target: t, Include: true}, {Target: t, Skip: []string{a}}, {Target: t, Reach: true}, {Target: t, Include: true, Skip: []string{a}}}},
	}
}

func main() {
	run := hx.Start("C23", "Aurora.C23.Corr",
		"one real Kad per case (0..20 peers connected through Connected/Disconnected, peer and own reachability reported) with 10..20 ClosestPeer/ClosestPeers calls: targets random / equal to base / equal to a peer / at every proximity order from base, a peer or a cluster centre; skip lists of the j nearest, random subsets, everybody, strangers, duplicates, self; limits -1..n+3; non-trivial = a call with at least one eligible peer (ClosestPeers: at least two expected); distinct by the whole case")
	r := run.R
	if run.Replay != "" {
		var jc jcase
		if err := run.ReadReplay(&jc); err != nil {
			panic(err)
		}
		runCase(run, jc)
		run.Finish()
		return
	}
	for _, jc := range corpus() {
		runCase(run, jc)
	}
	for i := 0; i < run.N(150, 2500); i++ {
		runCase(run, genCase(r.Fork(uint64(i)), run.Thorough()))
	}
	run.Finish()
}
