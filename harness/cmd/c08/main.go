// C08 harness: pkg/encryption (Encrypt/Decrypt/Transcrypt/Reset, EncryptChunk),
// pkg/encryption/store (decryptingStore.Get, the length-recovery loop) and the
// stored lengths of the hashtrie writer used by the encrypted pipeline.
//
// Correspondence cases (evaluated inside Coq against Aurora.C08.Model):
//
//	CEnc     real encryption.New(..., toyHash) driven by op sequences
//	CEncPat  one full-size Encrypt of a deterministic pattern (digest compared)
//	CStrip   real store.New(getter).Get on a fabricated encrypted chunk with a chosen span (real Keccak)
//	CGet     the same through every reference-length / data-length class
//	CTrie    real hashtrie.NewHashTrieWriter with a recording short pipeline
//
// Oracle (independent of the model): the property statement on the implementation:
// round trip, exact padded length, independent Keccak keystream, recovered
// length = 8 + span (leaf) / 8 + 64*refs (intermediate, refs from an
// independent closed-form tree count), end-to-end walk of real encrypted uploads.
package main

import (
	"bufio"
	"bytes"
	"context"
	"encoding/binary"
	"encoding/hex"
	"errors"
	"fmt"
	"hash"
	"io"
	"math/big"
	"os"
	"os/exec"
	"strconv"
	"strings"
	"time"

	"github.com/gauss-project/aurorafs/pkg/boson"
	"github.com/gauss-project/aurorafs/pkg/encryption"
	encstore "github.com/gauss-project/aurorafs/pkg/encryption/store"
	"github.com/gauss-project/aurorafs/pkg/file/pipeline"
	pbmt "github.com/gauss-project/aurorafs/pkg/file/pipeline/bmt"
	"github.com/gauss-project/aurorafs/pkg/file/pipeline/builder"
	penc "github.com/gauss-project/aurorafs/pkg/file/pipeline/encryption"
	"github.com/gauss-project/aurorafs/pkg/file/pipeline/hashtrie"
	pstore "github.com/gauss-project/aurorafs/pkg/file/pipeline/store"
	"github.com/gauss-project/aurorafs/pkg/storage"
	"golang.org/x/crypto/sha3"
	"verifharness/hx"
)

// ---------------------------------------------------------------- toy hash (same as Corr.v toy_hash)

type toyHash struct {
	buf []byte
	n   int
}

func (t *toyHash) Write(p []byte) (int, error) { t.buf = append(t.buf, p...); return len(p), nil }
func (t *toyHash) Sum(b []byte) []byte {
	a := uint32(7)
	for _, x := range t.buf {
		a = a*131 + uint32(x) + 1
	}
	out := make([]byte, t.n)
	for j := range out {
		out[j] = byte(((a + uint32(j)*2654435761) * 1029) >> 16)
	}
	return append(b, out...)
}
func (t *toyHash) Reset()         { t.buf = t.buf[:0] }
func (t *toyHash) Size() int      { return t.n }
func (t *toyHash) BlockSize() int { return 1 }

func toyFn(n int) func() hash.Hash { return func() hash.Hash { return &toyHash{n: n} } }

func pattern(seed uint64, n int) []byte {
	b := make([]byte, n)
	for i := range b {
		u := uint64(i)
		b[i] = byte(seed + u*7 + u>>8)
	}
	return b
}
func digest(b []byte) uint64 {
	a := uint64(0)
	for _, x := range b {
		a = (a*33 + uint64(x) + 1) & (1<<48 - 1)
	}
	return a
}

// ---------------------------------------------------------------- independent reference (oracle side)

const chunkSize = 262144 // the oracle's own statement of the format; compared with boson.ChunkSize at start
const refSize = 64
const encBranches = 4096

// keccak keystream written independently of pkg/encryption
func ksSegment(key []byte, ctr uint32) []byte {
	h := sha3.NewLegacyKeccak256()
	var c [4]byte
	binary.LittleEndian.PutUint32(c[:], ctr)
	h.Write(key)
	h.Write(c[:])
	d1 := h.Sum(nil)
	h2 := sha3.NewLegacyKeccak256()
	h2.Write(d1)
	return h2.Sum(nil)
}
func ksXor(key []byte, initCtr uint32, data []byte) []byte {
	out := make([]byte, len(data))
	for i := 0; i < len(data); i += 32 {
		ks := ksSegment(key, uint32(i/32)+initCtr)
		for j := 0; j < 32 && i+j < len(data); j++ {
			out[i+j] = data[i+j] ^ ks[j]
		}
	}
	return out
}

// closed-form count of the references held by the root of a left-full b-ary
// tree over a file of S bytes with chunk size c: least h with S <= c*b^h,
// refs = ceil(S / (c*b^(h-1))).  S > c.
func rootRefs(c, b uint64, S uint64) uint64 {
	bs := new(big.Int).SetUint64(S)
	cap_ := new(big.Int).SetUint64(c)
	bb := new(big.Int).SetUint64(b)
	prev := new(big.Int).Set(cap_)
	for bs.Cmp(cap_) > 0 {
		prev.Set(cap_)
		cap_.Mul(cap_, bb)
	}
	q, r := new(big.Int).QuoRem(bs, prev, new(big.Int))
	if r.Sign() != 0 {
		q.Add(q, big.NewInt(1))
	}
	return q.Uint64()
}

// ---------------------------------------------------------------- observation helpers

type obs struct {
	Class string `json:"class"` // ok | err | panic | hang
	Data  []byte `json:"-"`
	Hex   string `json:"data,omitempty"`
	Len   uint64 `json:"len,omitempty"`
}

func robsBytes(o obs) string {
	switch o.Class {
	case "ok":
		return hx.CoqApp("ROk", coqHex(o.Data))
	case "err":
		return "RErr"
	case "panic":
		return "RPanic"
	}
	return "RHang"
}
func robsN(o obs) string {
	switch o.Class {
	case "ok":
		return hx.CoqApp("ROk", hx.CoqN(o.Len))
	case "err":
		return "RErr"
	case "panic":
		return "RPanic"
	}
	return "RHang"
}

// watchdog for one call: short for the in-memory encryption ops (one corpus case really hangs),
// long for the store calls (two Keccak passes over 256 KiB under CPU contention)
var callTimeout = 20 * time.Second

// call runs f (returning bytes, error) under panic guard and watchdog
func call(f func() ([]byte, error)) obs {
	var out []byte
	var err error
	var panicked bool
	done := hx.WithTimeout(callTimeout, func() {
		panicked, _ = hx.Guard(func() { out, err = f() })
	})
	switch {
	case !done:
		return obs{Class: "hang"}
	case panicked:
		return obs{Class: "panic"}
	case err != nil:
		return obs{Class: "err"}
	}
	return obs{Class: "ok", Data: out, Hex: hx.Hex(out), Len: uint64(len(out))}
}

// ---------------------------------------------------------------- JSON cases (replayable)

type jop struct {
	Op     string `json:"op"` // enc dec reset trans
	Data   string `json:"data,omitempty"`
	I      int64  `json:"i,omitempty"`
	OutLen int    `json:"outlen,omitempty"`
}
type jcase struct {
	Kind    string      `json:"kind"` // enc encpat strip get trie keccak upload chunk
	HLen    int         `json:"hlen,omitempty"`
	Key     string      `json:"key,omitempty"`
	Padding int64       `json:"padding,omitempty"`
	InitCtr uint32      `json:"initctr,omitempty"`
	Ops     []jop       `json:"ops,omitempty"`
	Seed    uint64      `json:"seed,omitempty"`
	Len     int         `json:"len,omitempty"`
	Span    uint64      `json:"span,omitempty"`
	RefLen  int         `json:"reflen,omitempty"`
	Found   bool        `json:"found,omitempty"`
	DataLen int         `json:"datalen,omitempty"`
	B       int         `json:"b,omitempty"`
	Runs    [][2]uint64 `json:"runs,omitempty"`
	Size    int64       `json:"size,omitempty"`
}

var run *hx.Run

// coqHex renders a byte string as (hex ".."), decoded inside Coq by Corr.hex
func coqHex(b []byte) string { return "(hex \"" + hx.Hex(b) + "\")" }

func unhex(s string) []byte { b, _ := hex.DecodeString(s); return b }

// ---------------------------------------------------------------- CEnc

func doEnc(jc jcase) {
	key := unhex(jc.Key)
	hf := toyFn(jc.HLen)
	callTimeout = 2 * time.Second
	defer func() { callTimeout = 20 * time.Second }()
	e := encryption.New(key, int(jc.Padding), jc.InitCtr, hf)
	var terms []string
	inDomain := len(key) > 0 && len(key) <= jc.HLen
	nontrivial := false
	for _, op := range jc.Ops {
		data := unhex(op.Data)
		switch op.Op {
		case "reset":
			e.Reset()
			terms = append(terms, "OReset")
			continue
		case "enc":
			o := call(func() ([]byte, error) { return e.Encrypt(data) })
			terms = append(terms, hx.CoqApp("OEnc", coqHex(data), robsBytes(o)))
			run.Hist("enc." + o.Class)
			// oracle: the statement on the implementation (toy hash is a legitimate hashFunc)
			if inDomain {
				run.OracleChecked(1)
				fits := jc.Padding <= 0 || int64(len(data)) <= jc.Padding
				if fits {
					nontrivial = nontrivial || len(data) > len(key)
					want := len(data)
					if jc.Padding > 0 {
						want = int(jc.Padding)
					}
					if o.Class != "ok" {
						run.Violate(hx.Violation{Sig: "encrypt:fails-on-payload-within-padding", Detail: "Encrypt returned " + o.Class, Case: jc})
					} else if len(o.Data) != want {
						run.Violate(hx.Violation{Sig: "encrypt:ciphertext-length!=padded-length", Detail: fmt.Sprintf("len %d want %d", len(o.Data), want), Case: jc, Impl: len(o.Data), Want: want})
					}
				} else if o.Class != "err" {
					run.Violate(hx.Violation{Sig: "encrypt:no-error-on-payload-longer-than-padding", Detail: "Encrypt returned " + o.Class, Case: jc})
				}
			}
			if o.Class == "panic" || o.Class == "hang" {
				goto done
			}
		case "dec":
			o := call(func() ([]byte, error) { return e.Decrypt(data) })
			terms = append(terms, hx.CoqApp("ODec", coqHex(data), robsBytes(o)))
			run.Hist("dec." + o.Class)
			if o.Class == "panic" || o.Class == "hang" {
				goto done
			}
		case "trans":
			out := make([]byte, op.OutLen)
			o := call(func() ([]byte, error) {
				err := e.(*encryption.Encryption).Transcrypt(int(op.I), data, out)
				return out, err
			})
			terms = append(terms, hx.CoqApp("OTrans", hx.CoqZ(op.I), coqHex(data), hx.CoqNat(op.OutLen), robsBytes(o)))
			run.Hist("trans." + o.Class)
		}
	}
done:
	coq := hx.CoqApp("CEnc", hx.CoqNat(jc.HLen), coqHex(key), hx.CoqZ(jc.Padding), hx.CoqN(uint64(jc.InitCtr)), hx.CoqList(terms, "opobs"))
	run.AddCase(coq, jc, fmt.Sprintf("enc|%d|%s|%d|%d|%v", jc.HLen, jc.Key, jc.Padding, jc.InitCtr, jc.Ops), inDomain && nontrivial)
}

// round trip through fresh objects: Decrypt(Encrypt(d)) has d as prefix — any hash
func roundTrip(hf func() hash.Hash, hname string, key []byte, padding int, initCtr uint32, data []byte, jc jcase) {
	if padding > 0 && len(data) > padding {
		return // rejection of over-long payloads is checked where the call is observed
	}
	run.OracleChecked(1)
	var ct, pt []byte
	var err1, err2 error
	p, _ := hx.Guard(func() {
		ct, err1 = encryption.New(key, padding, initCtr, hf).Encrypt(data)
		if err1 == nil {
			pt, err2 = encryption.New(key, padding, initCtr, hf).Decrypt(ct)
		}
	})
	if p || err1 != nil || err2 != nil {
		run.Violate(hx.Violation{Sig: "roundtrip:" + hname + ":error-or-panic", Detail: fmt.Sprintf("panic=%v e1=%v e2=%v", p, err1, err2), Case: jc})
		return
	}
	want := len(data)
	if padding > 0 {
		want = padding
	}
	if len(ct) != want {
		run.Violate(hx.Violation{Sig: "encrypt:ciphertext-length!=padded-length", Detail: fmt.Sprintf("len %d want %d", len(ct), want), Case: jc, Impl: len(ct), Want: want})
	}
	if len(pt) < len(data) || !bytes.Equal(pt[:len(data)], data) {
		run.Violate(hx.Violation{Sig: "roundtrip:" + hname + ":payload-not-prefix-of-decryption", Detail: fmt.Sprintf("len(data)=%d len(pt)=%d", len(data), len(pt)), Case: jc})
	}
	if hname == "keccak" && len(key) == 32 {
		// independent keystream
		ref := ksXor(key, initCtr, data)
		if !bytes.Equal(ct[:len(data)], ref) {
			run.Violate(hx.Violation{Sig: "encrypt:keccak-keystream-differs-from-format", Detail: "ciphertext prefix differs from data xor keccak(keccak(key||le32(ctr)))", Case: jc})
		}
	}
}

func doKeccak(jc jcase) {
	key := unhex(jc.Key)
	data := pattern(jc.Seed, jc.Len)
	roundTrip(sha3.NewLegacyKeccak256, "keccak", key, int(jc.Padding), jc.InitCtr, data, jc)
	run.AddCase("", jc, fmt.Sprintf("keccak|%s|%d|%d|%d|%d", jc.Key, jc.Padding, jc.InitCtr, jc.Seed, jc.Len), jc.Len > 32)
	run.Hist("keccak.roundtrip")
}

func doEncPat(jc jcase) {
	key := unhex(jc.Key)
	data := pattern(jc.Seed, jc.Len)
	e := encryption.New(key, int(jc.Padding), jc.InitCtr, toyFn(jc.HLen))
	o := call(func() ([]byte, error) { return e.Encrypt(data) })
	ob := "RErr"
	switch o.Class {
	case "ok":
		n := jc.Len
		if n > len(o.Data) {
			n = len(o.Data)
		}
		ob = hx.CoqApp("ROk", hx.CoqPair(hx.CoqN(uint64(len(o.Data))), hx.CoqN(digest(o.Data[:n]))))
	case "panic":
		ob = "RPanic"
	case "hang":
		ob = "RHang"
	}
	coq := hx.CoqApp("CEncPat", hx.CoqNat(jc.HLen), coqHex(key), hx.CoqZ(jc.Padding), hx.CoqN(uint64(jc.InitCtr)), hx.CoqN(jc.Seed), hx.CoqN(uint64(jc.Len)), ob)
	run.AddCase(coq, jc, fmt.Sprintf("encpat|%d|%s|%d|%d|%d|%d", jc.HLen, jc.Key, jc.Padding, jc.InitCtr, jc.Seed, jc.Len), true)
	run.Hist("encpat." + o.Class)
	roundTrip(toyFn(jc.HLen), "toy", key, int(jc.Padding), jc.InitCtr, data, jc)
}

// ---------------------------------------------------------------- decrypting store

type mapStore struct {
	m     map[string][]byte
	order []string // addresses in order of first Put
}

func (s *mapStore) Get(_ context.Context, _ storage.ModeGet, a boson.Address) (boson.Chunk, error) {
	d, ok := s.m[string(a.Bytes())]
	if !ok {
		return nil, storage.ErrNotFound
	}
	return boson.NewChunk(a, d), nil
}
func (s *mapStore) Put(_ context.Context, _ storage.ModePut, chs ...boson.Chunk) ([]bool, error) {
	ex := make([]bool, len(chs))
	for i, c := range chs {
		k := string(c.Address().Bytes())
		if _, ok := s.m[k]; ok {
			ex[i] = true
			continue
		}
		s.m[k] = append([]byte{}, c.Data()...)
		s.order = append(s.order, k)
	}
	return ex, nil
}

var (
	fixedKey   []byte
	fixedPlain []byte // chunkSize bytes
	fixedEnc   []byte // its encryption under fixedKey with counter 0
)

func initFixed() {
	fixedKey = pattern(99, 32)
	fixedPlain = pattern(5, chunkSize)
	fixedEnc = ksXor(fixedKey, 0, fixedPlain)
}

// fabricate the stored form of a chunk with decrypted span S and the fixed payload
func fabricate(S uint64, dataLen int) []byte {
	var sp [8]byte
	binary.LittleEndian.PutUint64(sp[:], S)
	es := ksXor(fixedKey, encBranches, sp[:])
	out := make([]byte, 0, 8+dataLen)
	out = append(out, es...)
	if dataLen <= len(fixedEnc) {
		out = append(out, fixedEnc[:dataLen]...)
	} else {
		out = append(out, fixedEnc...)
		out = append(out, make([]byte, dataLen-len(fixedEnc))...)
	}
	return out
}

func storeGet(ref []byte, stored []byte, found bool) obs {
	ms := &mapStore{m: map[string][]byte{}}
	if found && len(ref) >= 32 {
		ms.m[string(ref[:32])] = stored
	} else if found {
		ms.m[string(ref)] = stored
	}
	g := encstore.New(ms)
	return call(func() ([]byte, error) {
		ch, err := g.Get(context.Background(), storage.ModeGetRequest, boson.NewAddress(ref))
		if err != nil {
			return nil, err
		}
		return ch.Data(), nil
	})
}

// oracle for a well-formed encrypted chunk with span S: returned data = span ++ payload[:want]
func checkRecovered(S uint64, o obs, jc jcase) {
	if S > ^uint64(0)-chunkSize+1 { // S + chunk > 2^64: not a span of any file (joiner spans are int64)
		return
	}
	run.OracleChecked(1)
	var want uint64
	cls := "leaf"
	if S <= chunkSize {
		want = S
	} else {
		want = refSize * rootRefs(chunkSize, encBranches, S)
		cls = "intermediate"
	}
	if o.Class != "ok" {
		run.Violate(hx.Violation{Sig: "store:" + cls + ":" + o.Class, Detail: fmt.Sprintf("Get on encrypted chunk with span %d -> %s", S, o.Class), Case: jc})
		return
	}
	if uint64(len(o.Data)) != 8+want {
		run.Violate(hx.Violation{Sig: "store:" + cls + ":recovered-length!=stored-length", Detail: fmt.Sprintf("span %d: payload length %d, the writer stores %d", S, len(o.Data)-8, want), Case: jc, Impl: len(o.Data) - 8, Want: want})
		return
	}
	if binary.LittleEndian.Uint64(o.Data[:8]) != S || !bytes.Equal(o.Data[8:], fixedPlain[:want]) {
		run.Violate(hx.Violation{Sig: "store:" + cls + ":decrypted-content-differs", Detail: fmt.Sprintf("span %d", S), Case: jc})
	}
}

// probeStrip runs the store call for one span in a child process: a broken length computation can
// ask for an allocation that kills the process (fatal out-of-memory is not recoverable), and that
// must become an observation, not a dead harness.
var (
	probeCmd *exec.Cmd
	probeIn  io.WriteCloser
	probeOut *bufio.Reader
)

func probeStop() {
	if probeCmd != nil {
		probeIn.Close()
		probeCmd.Process.Kill()
		probeCmd.Wait()
		probeCmd = nil
	}
}

func probeStrip(S uint64) obs {
	if probeCmd == nil {
		exe, err := os.Executable()
		if err != nil {
			return obs{Class: "crash"}
		}
		cmd := exec.Command(exe)
		cmd.Env = append(os.Environ(), "C08_PROBE=1")
		in, e1 := cmd.StdinPipe()
		out, e2 := cmd.StdoutPipe()
		if e1 != nil || e2 != nil || cmd.Start() != nil {
			return obs{Class: "crash"}
		}
		probeCmd, probeIn, probeOut = cmd, in, bufio.NewReader(out)
	}
	fmt.Fprintf(probeIn, "%d\n", S)
	line, err := probeOut.ReadString('\n')
	f := strings.Fields(line)
	if err != nil || len(f) != 3 || f[0] != "C08PROBE" {
		probeStop() // the child died on this span
		return obs{Class: "crash"}
	}
	n, _ := strconv.ParseUint(f[2], 10, 64)
	return obs{Class: f[1], Len: n}
}

// child side of probeStrip: one span per input line; content is verified here, the parent gets
// class and length
func probeMain() {
	initFixed()
	ref := append(append([]byte{}, pattern(1, 32)...), fixedKey...)
	sc := bufio.NewScanner(os.Stdin)
	for sc.Scan() {
		S, _ := strconv.ParseUint(strings.TrimSpace(sc.Text()), 10, 64)
		o := storeGet(ref, fabricate(S, chunkSize), true)
		if o.Class == "ok" && (len(o.Data) < 8 || len(o.Data)-8 > len(fixedPlain) || binary.LittleEndian.Uint64(o.Data[:8]) != S || !bytes.Equal(o.Data[8:], fixedPlain[:len(o.Data)-8])) {
			o.Class = "badcontent"
		}
		fmt.Printf("C08PROBE %s %d\n", o.Class, o.Len)
	}
}

// set when a child-process probe was killed: in-process store calls on spans of height >= 3 are skipped
// from then on (the violation is already recorded)
var bigSpanUnsafe bool

func skipUnsafe(S uint64) bool { return bigSpanUnsafe && S > chunkSize*encBranches*encBranches }

func doStrip(jc jcase) {
	var o obs
	big3 := jc.Span > chunkSize*encBranches*encBranches // a wrong loop can ask for up to 2^52 bytes here
	if big3 {
		o = probeStrip(jc.Span)
	} else {
		ref := append(append([]byte{}, pattern(1, 32)...), fixedKey...)
		o = storeGet(ref, fabricate(jc.Span, chunkSize), true)
	}
	ob := robsN(o)
	if o.Class == "crash" || o.Class == "badcontent" {
		ob = "RPanic"
	}
	if o.Class == "crash" {
		bigSpanUnsafe = true
	}
	coq := hx.CoqApp("CStrip", hx.CoqN(jc.Span), hx.CoqN(chunkSize), ob)
	run.AddCase(coq, jc, fmt.Sprintf("strip|%d", jc.Span), jc.Span > chunkSize)
	run.Hist("strip." + spanClass(jc.Span))
	if big3 {
		checkRecoveredLen(jc.Span, o, jc)
	} else {
		checkRecovered(jc.Span, o, jc)
	}
}

// as checkRecovered, for an observation made in a child process (content already compared there)
func checkRecoveredLen(S uint64, o obs, jc jcase) {
	if S > ^uint64(0)-chunkSize+1 {
		return
	}
	run.OracleChecked(1)
	want := uint64(refSize) * rootRefs(chunkSize, encBranches, S)
	switch {
	case o.Class == "crash":
		run.Violate(hx.Violation{Sig: "store:intermediate:process-killed", Detail: fmt.Sprintf("Get on encrypted chunk with span %d kills the process (allocation of the recovered length)", S), Case: jc})
	case o.Class == "badcontent":
		run.Violate(hx.Violation{Sig: "store:intermediate:decrypted-content-differs", Detail: fmt.Sprintf("span %d", S), Case: jc})
	case o.Class != "ok":
		run.Violate(hx.Violation{Sig: "store:intermediate:" + o.Class, Detail: fmt.Sprintf("Get on encrypted chunk with span %d -> %s", S, o.Class), Case: jc})
	case o.Len != 8+want:
		run.Violate(hx.Violation{Sig: "store:intermediate:recovered-length!=stored-length", Detail: fmt.Sprintf("span %d: payload length %d, the writer stores %d", S, o.Len-8, want), Case: jc, Impl: o.Len - 8, Want: want})
	}
}

func spanClass(S uint64) string {
	switch {
	case S == 0:
		return "0"
	case S <= chunkSize:
		return "leaf"
	case S <= chunkSize*encBranches:
		return "h1"
	case S <= chunkSize*encBranches*encBranches:
		return "h2"
	case S < 1<<63:
		return "h3+"
	case S <= ^uint64(0)-chunkSize+1:
		return ">=2^63"
	}
	return "wrap"
}

func doGet(jc jcase) {
	if skipUnsafe(jc.Span) {
		return
	}
	ref := pattern(3, jc.RefLen)
	if jc.RefLen == 64 {
		copy(ref[32:], fixedKey)
	}
	stored := fabricate(jc.Span, 0)
	if jc.DataLen >= 8 {
		stored = fabricate(jc.Span, jc.DataLen-8)
	} else {
		stored = stored[:jc.DataLen]
		stored = append([]byte{}, stored...) // exact capacity
	}
	o := storeGet(ref, stored, jc.Found)
	coq := hx.CoqApp("CGet", hx.CoqNat(jc.RefLen), hx.CoqBool(jc.Found), hx.CoqN(uint64(jc.DataLen)), hx.CoqN(jc.Span), robsN(o))
	run.AddCase(coq, jc, fmt.Sprintf("get|%d|%v|%d|%d", jc.RefLen, jc.Found, jc.DataLen, jc.Span), jc.RefLen == 64 && jc.Found)
	run.Hist(fmt.Sprintf("get.ref%d.%s", jc.RefLen, o.Class))
	run.OracleChecked(1)
	switch {
	case jc.RefLen != 32 && jc.RefLen != 64:
		if o.Class != "err" {
			run.Violate(hx.Violation{Sig: "store:bad-reference-length-not-rejected", Detail: o.Class, Case: jc})
		}
	case jc.RefLen == 32 && jc.Found:
		if o.Class != "ok" || !bytes.Equal(o.Data, stored) {
			run.Violate(hx.Violation{Sig: "store:plain-reference-not-passed-through", Detail: o.Class, Case: jc})
		}
	case jc.RefLen == 64 && jc.Found && jc.DataLen == 8+chunkSize:
		checkRecovered(jc.Span, o, jc)
	}
}

// ---------------------------------------------------------------- real EncryptChunk -> store

func doChunk(jc jcase) {
	if skipUnsafe(jc.Span) {
		return
	}
	// kind chunk: Span = span, Len = payload length (leaf: Len == Span; intermediate: Len == 64*refs)
	payload := pattern(jc.Seed, jc.Len)
	cd := make([]byte, 8+len(payload))
	binary.LittleEndian.PutUint64(cd[:8], jc.Span)
	copy(cd[8:], payload)
	var key encryption.Key
	var es, ed []byte
	var err error
	p, _ := hx.Guard(func() { key, es, ed, err = encryption.NewChunkEncrypter().EncryptChunk(cd) })
	run.OracleChecked(1)
	run.AddCase("", jc, fmt.Sprintf("chunk|%d|%d|%d", jc.Span, jc.Len, jc.Seed), true)
	run.Hist("chunk." + spanClass(jc.Span))
	if p || err != nil {
		run.Violate(hx.Violation{Sig: "encryptchunk:error-or-panic", Detail: fmt.Sprintf("panic=%v err=%v", p, err), Case: jc})
		return
	}
	if len(es) != 8 || len(ed) != chunkSize {
		run.Violate(hx.Violation{Sig: "encryptchunk:ciphertext-length!=padded-length", Detail: fmt.Sprintf("span part %d, data part %d", len(es), len(ed)), Case: jc, Impl: len(ed), Want: chunkSize})
		return
	}
	// independent keystream check
	if !bytes.Equal(ksXor(key, encBranches, cd[:8]), es) || !bytes.Equal(ksXor(key, 0, payload), ed[:len(payload)]) {
		run.Violate(hx.Violation{Sig: "encrypt:keccak-keystream-differs-from-format", Detail: "EncryptChunk", Case: jc})
	}
	ref := append(append([]byte{}, pattern(1, 32)...), key...)
	o := storeGet(ref, append(append([]byte{}, es...), ed...), true)
	if o.Class != "ok" || !bytes.Equal(o.Data, cd) {
		sig := "store:chunk-not-restored-exactly"
		if o.Class == "ok" && len(o.Data) != len(cd) {
			sig = "store:" + map[bool]string{true: "leaf", false: "intermediate"}[jc.Span <= chunkSize] + ":recovered-length!=stored-length"
		}
		run.Violate(hx.Violation{Sig: sig, Detail: fmt.Sprintf("span %d stored payload %d, Get -> %s len %d", jc.Span, jc.Len, o.Class, len(o.Data)), Case: jc, Impl: len(o.Data), Want: len(cd)})
	}
}

// ---------------------------------------------------------------- hashtrie writer

type recChunk struct {
	span uint64
	refs uint64
}
type recWriter struct {
	refLen int
	spans  map[uint64]uint64 // id -> span
	next   *uint64
	emit   *[]recChunk
}

func (w *recWriter) ChainWrite(p *pipeline.PipeWriteArgs) error {
	sp := binary.LittleEndian.Uint64(p.Span)
	*w.emit = append(*w.emit, recChunk{sp, uint64((len(p.Data) - 8) / w.refLen)})
	id := *w.next
	*w.next = id + 1
	w.spans[id] = sp
	p.Ref, p.Key = mkRef(id, w.refLen)
	// like the encryption writer, hand back PROCESSED data: its first 8 bytes are no longer
	// the plaintext span (Corr.stub_proc); args.Span is left alone
	d := append([]byte{}, p.Data...)
	for i := 0; i < 8 && i < len(d); i++ {
		d[i] ^= 0xA5
	}
	p.Data = d
	return nil
}
func (w *recWriter) Sum() ([]byte, error) { return nil, errors.New("not used") }

func mkRef(id uint64, refLen int) ([]byte, []byte) {
	r := make([]byte, 32)
	binary.LittleEndian.PutUint64(r, id)
	if refLen == 64 {
		return r, bytes.Repeat([]byte{0xEE}, 32)
	}
	return r, nil
}

// runTrie feeds the real writer; returns outcome, root span, emitted chunks
func runTrie(b, refLen int, runs [][2]uint64) (string, uint64, []recChunk) {
	var emit []recChunk
	next := uint64(1) << 40
	spans := map[uint64]uint64{}
	fn := func() pipeline.ChainWriter { return &recWriter{refLen: refLen, spans: spans, next: &next, emit: &emit} }
	class := "ok"
	var root uint64
	done := hx.WithTimeout(120*time.Second, func() {
		p, _ := hx.Guard(func() {
			w := hashtrie.NewHashTrieWriter(chunkSize, b, refLen, fn)
			leaf := uint64(0)
			var sp [8]byte
			keyBuf := bytes.Repeat([]byte{0xEE}, 32)
			if refLen != 64 {
				keyBuf = nil
			}
			refBuf := make([]byte, 32)
			args := pipeline.PipeWriteArgs{}
			for _, r := range runs {
				binary.LittleEndian.PutUint64(sp[:], r[0])
				long := r[1] > 100000 // keep the id map small in the long runs
				for i := uint64(0); i < r[1]; i++ {
					binary.LittleEndian.PutUint64(refBuf, leaf)
					if !long {
						spans[leaf] = r[0]
					}
					leaf++
					args.Span, args.Ref, args.Key = sp[:], refBuf, keyBuf
					if err := w.ChainWrite(&args); err != nil {
						class = "err"
						return
					}
				}
			}
			rr, err := w.Sum()
			if err != nil {
				class = "err"
				return
			}
			id := binary.LittleEndian.Uint64(rr[:8])
			s, ok := spans[id]
			if !ok && id < 1<<40 { // a leaf of a long run
				s = runs[len(runs)-1][0]
			}
			root = s
		})
		if p {
			class = "panic"
		}
	})
	if !done {
		class = "hang"
	}
	return class, root, emit
}

func doTrie(jc jcase, toCoq bool) {
	refLen := jc.RefLen
	class, root, emit := runTrie(jc.B, refLen, jc.Runs)
	nleaves := uint64(0)
	for _, r := range jc.Runs {
		nleaves += r[1]
	}
	if toCoq {
		ob := "RErr"
		switch class {
		case "ok":
			el := make([]string, len(emit))
			for i, e := range emit {
				el[i] = hx.CoqPair(hx.CoqN(e.span), hx.CoqN(e.refs))
			}
			ob = hx.CoqApp("ROk", hx.CoqPair(hx.CoqN(root), hx.CoqList(el, "N * N")))
		case "panic":
			ob = "RPanic"
		case "hang":
			ob = "RHang"
		}
		rl := make([]string, len(jc.Runs))
		for i, r := range jc.Runs {
			rl[i] = hx.CoqPair(hx.CoqN(r[0]), hx.CoqNat(int(r[1])))
		}
		coq := hx.CoqApp("CTrie", hx.CoqNat(jc.B), hx.CoqList(rl, "N * nat"), ob)
		run.AddCase(coq, jc, fmt.Sprintf("trie|%d|%d|%v", jc.B, refLen, jc.Runs), len(emit) >= 1)
	} else {
		run.AddCase("", jc, fmt.Sprintf("trie|%d|%d|%v", jc.B, refLen, jc.Runs), len(emit) >= 1)
	}
	run.Hist(fmt.Sprintf("trie.b%d.%s", jc.B, class))
	run.HistN("trie.chunks-emitted", len(emit))
	if class != "ok" {
		return
	}
	// oracle: every intermediate chunk the writer stores has exactly the number of references
	// that the reader will recover from its span (closed form), the spans add up, root = total
	leafSize := uint64(refLen * jc.B) // the writer's "chunk size" for which chunk = refLen*branching
	wellFormed := true                // leaves as the feeder makes them: full chunks then one remainder
	total := new(big.Int)
	for i, r := range jc.Runs {
		total.Add(total, new(big.Int).Mul(new(big.Int).SetUint64(r[0]), new(big.Int).SetUint64(r[1])))
		last := i == len(jc.Runs)-1 && r[1] == 1
		if r[0] != leafSize && !(last && r[0] <= leafSize && (r[0] > 0 || nleaves == 1)) {
			wellFormed = false
		}
	}
	if !wellFormed || total.BitLen() > 63 {
		return
	}
	run.OracleChecked(1 + len(emit))
	if root != total.Uint64() {
		run.Violate(hx.Violation{Sig: "trie:root-span!=file-size", Detail: fmt.Sprintf("root span %d, file %d", root, total.Uint64()), Case: jc, Impl: root, Want: total.Uint64()})
	}
	for _, e := range emit {
		want := rootRefs(leafSize, uint64(jc.B), e.span)
		if e.span <= leafSize || e.refs != want {
			run.Violate(hx.Violation{Sig: "trie:stored-references!=count-recovered-from-span", Detail: fmt.Sprintf("b=%d chunk span %d stored with %d references; the reader recovers %d", jc.B, e.span, e.refs, want), Case: jc, Impl: e.refs, Want: want})
			break
		}
	}
}

// ---------------------------------------------------------------- hashtrie writer over the REAL encrypted short chain

// doEncTrie wires the writer as builder.newEncryptionPipeline does (production branching and
// reference size; short pipeline = encryption writer -> bmt writer -> store writer), feeds it leaf
// REFERENCES with the given spans (no leaf data is needed), and reads every stored intermediate
// chunk back through the real decrypting store.
func doEncTrie(jc jcase) {
	ctx := context.Background()
	ms := &mapStore{m: map[string][]byte{}}
	pf := func() pipeline.ChainWriter {
		lsw := pstore.NewStoreWriter(ctx, ms, storage.ModePutUpload, nil)
		return penc.NewEncryptionWriter(encryption.NewChunkEncrypter(), pbmt.NewBmtWriter(lsw))
	}
	leafSpan := map[string]uint64{}
	var rootRef []byte
	class := "ok"
	total := new(big.Int)
	nleaves := uint64(0)
	p, _ := hx.Guard(func() {
		w := hashtrie.NewHashTrieWriter(boson.ChunkSize, boson.Branches/2, boson.HashSize+encryption.KeyLength, pf)
		var sp [8]byte
		for _, r := range jc.Runs {
			binary.LittleEndian.PutUint64(sp[:], r[0])
			for i := uint64(0); i < r[1]; i++ {
				ref := make([]byte, 64)
				binary.LittleEndian.PutUint64(ref, nleaves)
				ref[31] = 0x4C
				for k := 32; k < 64; k++ {
					ref[k] = 0xEE
				}
				leafSpan[string(ref)] = r[0]
				nleaves++
				total.Add(total, new(big.Int).SetUint64(r[0]))
				if err := w.ChainWrite(&pipeline.PipeWriteArgs{Span: sp[:], Ref: ref[:32], Key: ref[32:]}); err != nil {
					class = "err"
					return
				}
			}
		}
		rr, err := w.Sum()
		if err != nil {
			class = "err"
			return
		}
		rootRef = append([]byte{}, rr...)
	})
	if p {
		class = "panic"
	}
	// read back through the decrypting store, from the root
	type rb struct{ span, plen uint64 }
	read := map[string]rb{}
	g := encstore.New(ms)
	walkSig := ""
	var rootSpan uint64
	var walk func(ref []byte) uint64
	walk = func(ref []byte) uint64 {
		if s, ok := leafSpan[string(ref)]; ok {
			return s
		}
		if walkSig != "" {
			return 0
		}
		o := storeGetWith(g, ref)
		if o.Class != "ok" || len(o.Data) < 8 {
			walkSig = "enctrie:stored-chunk-not-readable(" + o.Class + ")"
			return 0
		}
		span := binary.LittleEndian.Uint64(o.Data[:8])
		payload := o.Data[8:]
		read[string(ref[:32])] = rb{span, uint64(len(payload))}
		run.OracleChecked(1)
		if len(payload) == 0 || len(payload)%refSize != 0 {
			walkSig = "store:intermediate:recovered-length!=stored-length"
			return 0
		}
		if want := refSize * rootRefs(chunkSize, encBranches, span); span <= chunkSize || uint64(len(payload)) != want {
			walkSig = "store:intermediate:recovered-length!=stored-length"
			return 0
		}
		sum := uint64(0)
		for i := 0; i < len(payload); i += refSize {
			sum += walk(payload[i : i+refSize])
			if walkSig != "" {
				return 0
			}
		}
		if sum != span {
			walkSig = "enctrie:stored-span!=sum-of-child-spans"
		}
		return span
	}
	if class == "ok" {
		rootSpan = walk(rootRef)
	}
	ob := "RErr"
	switch {
	case class == "panic":
		ob = "RPanic"
	case class == "ok" && walkSig == "" && len(read) == len(ms.order):
		el := make([]string, 0, len(ms.order))
		for _, k := range ms.order {
			e := read[k]
			el = append(el, hx.CoqPair(hx.CoqN(e.span), hx.CoqN(e.plen)))
		}
		ob = hx.CoqApp("ROk", hx.CoqPair(hx.CoqN(rootSpan), hx.CoqList(el, "N * N")))
	}
	rl := make([]string, len(jc.Runs))
	for i, r := range jc.Runs {
		rl[i] = hx.CoqPair(hx.CoqN(r[0]), hx.CoqNat(int(r[1])))
	}
	run.AddCase(hx.CoqApp("CTrieEnc", hx.CoqList(rl, "N * nat"), ob), jc, fmt.Sprintf("enctrie|%v", jc.Runs), len(ms.order) >= 1)
	run.Hist(fmt.Sprintf("enctrie.chunks=%d.%s", len(ms.order), class))
	if class != "ok" {
		return
	}
	run.OracleChecked(1)
	if walkSig != "" {
		run.Violate(hx.Violation{Sig: walkSig, Detail: fmt.Sprintf("encrypted trie over %d leaf references: an intermediate chunk stored by the writer is not restored by the decrypting store to the span / 64 bytes per reference it was written with", nleaves), Case: jc})
		return
	}
	if len(read) != len(ms.order) {
		run.Violate(hx.Violation{Sig: "enctrie:stored-chunk-unreachable-from-root", Detail: fmt.Sprintf("%d stored, %d reachable", len(ms.order), len(read)), Case: jc})
	}
	if total.BitLen() <= 63 && rootSpan != total.Uint64() {
		run.Violate(hx.Violation{Sig: "trie:root-span!=file-size", Detail: fmt.Sprintf("root span %d, leaves add up to %d", rootSpan, total.Uint64()), Case: jc, Impl: rootSpan, Want: total.Uint64()})
	}
}

func storeGetWith(g storage.Getter, ref []byte) obs {
	return call(func() ([]byte, error) {
		ch, err := g.Get(context.Background(), storage.ModeGetRequest, boson.NewAddress(ref))
		if err != nil {
			return nil, err
		}
		return ch.Data(), nil
	})
}

// ---------------------------------------------------------------- real encrypted upload, walked through the decrypting store

func doUpload(jc jcase) {
	data := pattern(jc.Seed, int(jc.Size))
	ms := &mapStore{m: map[string][]byte{}}
	ctx := context.Background()
	var addr boson.Address
	var err error
	p, _ := hx.Guard(func() {
		pipe := builder.NewPipelineBuilder(ctx, ms, storage.ModePutUpload, true)
		addr, err = builder.FeedPipeline(ctx, pipe, bytes.NewReader(data))
	})
	run.AddCase("", jc, fmt.Sprintf("upload|%d|%d", jc.Size, jc.Seed), jc.Size > chunkSize)
	run.Hist("upload." + spanClass(uint64(jc.Size)))
	run.OracleChecked(1)
	if p || err != nil {
		run.Violate(hx.Violation{Sig: "upload:error-or-panic", Detail: fmt.Sprintf("panic=%v err=%v", p, err), Case: jc})
		return
	}
	for _, d := range ms.m {
		if len(d) != 8+chunkSize {
			run.Violate(hx.Violation{Sig: "encryptchunk:ciphertext-length!=padded-length", Detail: fmt.Sprintf("stored chunk of %d bytes", len(d)), Case: jc, Impl: len(d), Want: 8 + chunkSize})
			return
		}
	}
	g := encstore.New(ms)
	var out []byte
	var walk func(ref []byte) (uint64, string)
	walk = func(ref []byte) (uint64, string) {
		var ch boson.Chunk
		var e error
		pp, _ := hx.Guard(func() { ch, e = g.Get(ctx, storage.ModeGetRequest, boson.NewAddress(ref)) })
		if pp {
			return 0, "store:panic"
		}
		if e != nil {
			return 0, "store:reference-not-resolvable(length-too-long-or-wrong)"
		}
		d := ch.Data()
		span := binary.LittleEndian.Uint64(d[:8])
		payload := d[8:]
		run.OracleChecked(1)
		if span <= chunkSize {
			if uint64(len(payload)) != span {
				return 0, "store:leaf:recovered-length!=stored-length"
			}
			out = append(out, payload...)
			return span, ""
		}
		if len(payload)%refSize != 0 || len(payload) == 0 {
			return 0, "store:intermediate:recovered-length!=stored-length"
		}
		sum := uint64(0)
		for i := 0; i < len(payload); i += refSize {
			s, sig := walk(payload[i : i+refSize])
			if sig != "" {
				return 0, sig
			}
			sum += s
		}
		if sum != span {
			return 0, "store:intermediate:recovered-length!=stored-length"
		}
		return span, ""
	}
	total, sig := walk(addr.Bytes())
	if sig != "" {
		run.Violate(hx.Violation{Sig: sig, Detail: fmt.Sprintf("file of %d bytes", jc.Size), Case: jc})
		return
	}
	if total != uint64(jc.Size) || !bytes.Equal(out, data) {
		run.Violate(hx.Violation{Sig: "upload:decrypted-leaves!=file", Detail: fmt.Sprintf("file of %d bytes, walked %d", jc.Size, total), Case: jc})
	}
}

// ---------------------------------------------------------------- dispatch + generators

var kindTime = map[string]float64{}

func dispatch(jc jcase) {
	t0 := time.Now()
	defer func() { kindTime[jc.Kind] += time.Since(t0).Seconds() }()
	switch jc.Kind {
	case "enc":
		doEnc(jc)
	case "encpat":
		doEncPat(jc)
	case "keccak":
		doKeccak(jc)
	case "strip":
		doStrip(jc)
	case "get":
		doGet(jc)
	case "chunk":
		doChunk(jc)
	case "trie":
		doTrie(jc, true)
	case "trie-go":
		doTrie(jc, false)
	case "enctrie":
		doEncTrie(jc)
	case "upload":
		doUpload(jc)
	}
}

func genEnc(r *hx.Rand) jcase {
	hlen := 32
	klen := 32
	switch r.Intn(10) {
	case 0:
		klen = 1 + r.Intn(8)
	case 1:
		klen = 16
	case 2:
		klen = 33 // longer than the digest: segmentKey[j] out of range
	case 3:
		hlen, klen = 16, 16
	case 4:
		hlen, klen = 40, 32
	case 5:
		hlen, klen = 8, 12
	}
	key := r.Bytes(klen)
	padding := int64(0)
	switch r.Intn(6) {
	case 0:
		padding = int64(1 + r.Intn(3*klen+2))
	case 1:
		padding = int64(klen * (1 + r.Intn(4)))
	case 2:
		padding = -int64(r.Intn(3))
	case 3:
		padding = int64(40 + r.Intn(120))
	}
	initCtr := uint32(r.Pick([]int{0, 0, 1, 4096, 4096, 0xFFFFFFFF, 0xFFFFFFFE, int(uint32(r.U64()))}))
	jc := jcase{Kind: "enc", HLen: hlen, Key: hx.Hex(key), Padding: padding, InitCtr: initCtr}
	nops := 1 + r.Intn(4)
	pickLen := func() int {
		base := []int{0, 1, klen - 1, klen, klen + 1, 2 * klen, 2*klen + 1, 3*klen - 1, r.Intn(4*klen + 2)}
		if padding > 0 {
			base = append(base, int(padding), int(padding)-1, int(padding)+1, int(padding), r.Intn(int(padding)+1), r.Intn(int(padding)+1))
		}
		n := r.Pick(base)
		if n < 0 {
			n = 0
		}
		return n
	}
	for i := 0; i < nops; i++ {
		switch k := r.Intn(10); {
		case k < 5:
			d := r.Bytes(pickLen())
			jc.Ops = append(jc.Ops, jop{Op: "enc", Data: hx.Hex(d)})
			if r.Chance(1, 3) {
				// decrypt, after Reset, what a private copy of the object produced for the same input
				var ct []byte
				var err error
				p, _ := hx.Guard(func() { ct, err = encryption.New(key, int(padding), initCtr, toyFn(hlen)).Encrypt(d) })
				if !p && err == nil && klen > 0 {
					jc.Ops = append(jc.Ops, jop{Op: "reset"}, jop{Op: "dec", Data: hx.Hex(ct)})
				}
			}
		case k < 7:
			n := pickLen()
			if padding > 0 && r.Chance(2, 3) {
				n = int(padding)
			}
			jc.Ops = append(jc.Ops, jop{Op: "dec", Data: hx.Hex(r.Bytes(n))})
		case k < 8:
			jc.Ops = append(jc.Ops, jop{Op: "reset"})
		default:
			n := r.Intn(klen + 2)
			ol := n + r.Pick([]int{0, 0, 0, 1, 5, -1})
			if ol < 0 {
				ol = 0
			}
			i := int64(r.Pick([]int{0, 1, 2, 4095, -1, -4096, 1 << 32, (1 << 32) - 1, r.Intn(1 << 20)}))
			jc.Ops = append(jc.Ops, jop{Op: "trans", Data: hx.Hex(r.Bytes(n)), I: i, OutLen: ol})
		}
	}
	return jc
}

func spanBoundaries() []uint64 {
	c, b := uint64(chunkSize), uint64(encBranches)
	var v []uint64
	add := func(x uint64) { v = append(v, x-1, x, x+1) }
	v = append(v, 0, 1, 2, 31, 32, 33, c-1, c, c+1, c+2, 2*c-1, 2*c, 2*c+1, 3*c, 3*c+5)
	add((b - 1) * c)
	add(b * c)
	add(b*c + c)
	add(2 * b * c)
	add((b + 1) * b * c / 2)
	add((b - 1) * b * c)
	add(b * b * c)
	add(b*b*c + c)
	add(b*b*c + b*c)
	add(2 * b * b * c)
	add(b * b * b * c) // 2^54
	add(b*b*b*c + c)
	add(3 * b * b * b * c)
	v = append(v, 1<<50, 1<<50+1, 1<<62, 1<<63-1, 1<<63, 1<<63+1)
	v = append(v, ^uint64(0)-c, ^uint64(0)-c+1, ^uint64(0)-c+2, ^uint64(0)-1, ^uint64(0))
	return v
}

func randSpan(r *hx.Rand) uint64 {
	bits := 1 + r.Intn(64)
	x := r.U64()
	if bits < 64 {
		x &= (uint64(1) << uint(bits)) - 1
	}
	switch r.Intn(4) {
	case 0: // multiple of chunk +-1
		x = x/chunkSize*chunkSize + uint64(r.Intn(3)) - 1
	case 1: // multiple of a level capacity
		x = x/(chunkSize*encBranches)*(chunkSize*encBranches) + uint64(r.Intn(3)) - 1
	}
	return x
}

func main() {
	if os.Getenv("C08_PROBE") != "" {
		probeMain()
		return
	}
	defer probeStop()
	run = hx.Start("C08", "Aurora.C08.Corr",
		"op sequences on encryption.New objects with a toy hash (key/digest/padding/counter classes, lengths at segment and padding boundaries); fabricated encrypted chunks with spans at every level boundary +-1, 2^63, the uint64 wrap region and random magnitudes through the real decrypting store; hashtrie writer runs at branching 2..5 and 4096 over a recording stage that processes Data[:8]; the writer at production parameters over the REAL encryption->bmt->store short chain fed up to 3*4096 leaf references (two intermediate levels) with every stored chunk read back through the decrypting store; real EncryptChunk and encrypted uploads walked through the store. non-trivial = payload longer than one key segment / span above ChunkSize (intermediate chunk) / trie run that stores at least one intermediate chunk; distinct by full input")
	if boson.ChunkSize != chunkSize || encryption.ReferenceSize != refSize || boson.Branches/2 != encBranches {
		run.Note("format constants differ from the oracle's statement of the format")
		run.Violate(hx.Violation{Sig: "consts:format-constants-changed", Detail: fmt.Sprintf("ChunkSize=%d ReferenceSize=%d Branches/2=%d", boson.ChunkSize, encryption.ReferenceSize, boson.Branches/2), Case: jcase{Kind: "consts"}})
	}
	initFixed()
	r := run.R

	if run.Replay != "" {
		var jc jcase
		if err := run.ReadReplay(&jc); err != nil {
			panic(err)
		}
		dispatch(jc)
		run.Finish()
		return
	}

	// ---- corpus: fixed cases on every seed
	k32 := hx.Hex(pattern(11, 32))
	dispatch(jcase{Kind: "enc", HLen: 32, Key: "", Padding: 0, InitCtr: 0, Ops: []jop{{Op: "enc", Data: ""}, {Op: "enc", Data: "01"}}}) // keyLen 0: loop never advances
	dispatch(jcase{Kind: "enc", HLen: 32, Key: hx.Hex(pattern(1, 33)), Padding: 0, InitCtr: 0, Ops: []jop{{Op: "enc", Data: hx.Hex(pattern(2, 33))}}})
	dispatch(jcase{Kind: "enc", HLen: 32, Key: k32, Padding: 64, InitCtr: 0xFFFFFFFF, Ops: []jop{{Op: "enc", Data: hx.Hex(pattern(2, 40))}, {Op: "enc", Data: hx.Hex(pattern(3, 65))}, {Op: "reset"}, {Op: "dec", Data: hx.Hex(pattern(4, 64))}, {Op: "dec", Data: hx.Hex(pattern(4, 63))}}})
	dispatch(jcase{Kind: "enc", HLen: 32, Key: k32, Padding: 0, InitCtr: 4096, Ops: []jop{{Op: "trans", Data: hx.Hex(pattern(2, 8)), I: -1, OutLen: 12}, {Op: "trans", Data: hx.Hex(pattern(2, 8)), I: 1 << 32, OutLen: 7}}})
	for _, S := range spanBoundaries() {
		dispatch(jcase{Kind: "strip", Span: S})
	}
	for _, rl := range []int{0, 31, 32, 33, 63, 64, 65, 96} {
		for _, dl := range []int{0, 7, 8, 9, 100, 8 + chunkSize - 1, 8 + chunkSize, 8 + chunkSize + 1} {
			if (rl != 32 && rl != 64) && dl > 9 {
				continue
			}
			dispatch(jcase{Kind: "get", RefLen: rl, Found: true, DataLen: dl, Span: uint64(3*chunkSize + 1)})
		}
		dispatch(jcase{Kind: "get", RefLen: rl, Found: false, DataLen: 8 + chunkSize, Span: 5})
	}
	dispatch(jcase{Kind: "encpat", HLen: 32, Key: k32, Padding: chunkSize, InitCtr: 0, Seed: 4, Len: 3 * 64})
	dispatch(jcase{Kind: "encpat", HLen: 32, Key: k32, Padding: chunkSize, InitCtr: 4096, Seed: 5, Len: 30001})
	if run.Thorough() { // the full-size evaluation inside Coq costs ~10 s
		dispatch(jcase{Kind: "encpat", HLen: 32, Key: k32, Padding: chunkSize, InitCtr: 0, Seed: 3, Len: chunkSize})
	}
	// trie: empty, single leaf, full at branching 2, beyond full
	for _, b := range []int{2, 3, 4, 5} {
		c := uint64(64 * b)
		dispatch(jcase{Kind: "trie", B: b, RefLen: 64, Runs: [][2]uint64{}})
		dispatch(jcase{Kind: "trie", B: b, RefLen: 64, Runs: [][2]uint64{{0, 1}}})
		dispatch(jcase{Kind: "trie", B: b, RefLen: 64, Runs: [][2]uint64{{c, 1}}})
		dispatch(jcase{Kind: "trie", B: b, RefLen: 64, Runs: [][2]uint64{{c, uint64(b)}, {1, 1}}})
	}
	dispatch(jcase{Kind: "trie", B: 2, RefLen: 64, Runs: [][2]uint64{{128, 128}}})
	dispatch(jcase{Kind: "trie", B: 2, RefLen: 64, Runs: [][2]uint64{{128, 129}}})
	dispatch(jcase{Kind: "trie", B: 2, RefLen: 64, Runs: [][2]uint64{{128, 127}, {5, 1}}})

	// encrypted trie over the real short chain: 2 intermediate levels need > 4096 leaf references
	for _, n := range []uint64{1, 2, 4097, 4098} {
		dispatch(jcase{Kind: "enctrie", Runs: [][2]uint64{{chunkSize, n - 1}, {1234, 1}}})
	}
	dispatch(jcase{Kind: "enctrie", Runs: [][2]uint64{{chunkSize, 2*4096 + 3}}})

	// ---- generated
	for i := 0; i < run.N(260, 6000); i++ {
		dispatch(genEnc(r))
	}
	for i := 0; i < run.N(40, 1500); i++ {
		dispatch(jcase{Kind: "strip", Span: randSpan(r)})
	}
	for i := 0; i < run.N(20, 300); i++ {
		dl := r.Pick([]int{8 + chunkSize, 8 + chunkSize, 8 + chunkSize, 8 + chunkSize - 1, 8 + chunkSize + 1, r.Intn(20), r.Intn(8 + chunkSize)})
		dispatch(jcase{Kind: "get", RefLen: r.Pick([]int{32, 64, 64, 64, 64, r.Intn(100)}), Found: !r.Chance(1, 8), DataLen: dl, Span: randSpan(r)})
	}
	for i := 0; i < run.N(1, 4); i++ {
		n := r.Pick([]int{chunkSize, chunkSize - 1, r.Intn(chunkSize)})
		if !run.Thorough() {
			n = r.Intn(40000) // the full-size evaluation inside Coq costs ~10 s; one corpus case does it in the quick tier
		}
		dispatch(jcase{Kind: "encpat", HLen: 32, Key: hx.Hex(r.Bytes(32)), Padding: chunkSize, InitCtr: uint32(r.Pick([]int{0, 4096, 0xFFFFF000})), Seed: uint64(r.Intn(256)), Len: n})
	}
	// keccak round trips (oracle only)
	for i := 0; i < run.N(150, 2000); i++ {
		pad := r.Pick([]int{0, 0, 64, 100, 4096, chunkSize})
		n := r.Pick([]int{0, 1, 31, 32, 33, 64, 65, r.Intn(300)})
		if pad > 0 {
			n = r.Pick([]int{0, 1, 31, 32, 33, pad - 1, pad, r.Intn(pad + 1)})
		}
		if pad == chunkSize && !run.Thorough() && i%10 != 0 {
			pad, n = 4096, r.Intn(4097)
		}
		dispatch(jcase{Kind: "keccak", Key: hx.Hex(r.Bytes(32)), Padding: int64(pad), InitCtr: uint32(r.Pick([]int{0, 4096, 0xFFFFFFFF, int(uint32(r.U64()))})), Seed: uint64(r.Intn(256)), Len: n})
	}
	// real EncryptChunk -> decrypting store: leaves and intermediate chunks of every height
	for i := 0; i < run.N(40, 600); i++ {
		var S uint64
		var n int
		if r.Chance(1, 3) {
			n = r.Pick([]int{0, 1, 31, 32, 33, chunkSize - 1, chunkSize, r.Intn(chunkSize + 1)})
			S = uint64(n)
		} else {
			for {
				S = randSpan(r)
				if S > chunkSize && S < 1<<63 {
					break
				}
			}
			if r.Chance(1, 3) {
				bs := spanBoundaries()
				S = bs[r.Intn(len(bs))]
				if S <= chunkSize || S >= 1<<63 {
					S = chunkSize + 1
				}
			}
			n = int(refSize * rootRefs(chunkSize, encBranches, S))
		}
		dispatch(jcase{Kind: "chunk", Span: S, Len: n, Seed: uint64(r.Intn(256))})
	}
	// trie at small branching (model evaluated in Coq)
	for i := 0; i < run.N(80, 1500); i++ {
		b := 2 + r.Intn(4)
		refLen := r.Pick([]int{64, 64, 32})
		c := uint64(refLen * b)
		maxLeaves := 1
		for k := 0; k < r.Pick([]int{1, 2, 3, 4, 5}); k++ {
			maxLeaves *= b
		}
		n := uint64(r.Intn(maxLeaves+b)) + 1
		if r.Chance(1, 4) { // exact powers +-1
			n = uint64(maxLeaves + r.Intn(3) - 1)
			if n == 0 {
				n = 1
			}
		}
		runs := [][2]uint64{{c, n}}
		if r.Bool() {
			runs = append(runs, [2]uint64{1 + uint64(r.Intn(int(c))), 1})
		}
		if r.Chance(1, 12) { // malformed: arbitrary spans
			runs = [][2]uint64{{r.U64() >> uint(r.Intn(64)), uint64(1 + r.Intn(6))}, {r.U64() >> uint(r.Intn(64)), uint64(1 + r.Intn(6))}}
		}
		dispatch(jcase{Kind: "trie", B: b, RefLen: refLen, Runs: runs})
	}
	for i := 0; i < run.N(2, 12); i++ {
		n := uint64(r.Pick([]int{3, 4096, 4099, 4096 + r.Intn(4096), 2*4096 + 1, 3*4096 - 1, r.Intn(4 * 4096)}))
		runs := [][2]uint64{{chunkSize, n}}
		if r.Bool() {
			runs = append(runs, [2]uint64{uint64(1 + r.Intn(chunkSize)), 1})
		}
		dispatch(jcase{Kind: "enctrie", Runs: runs})
	}
	// trie at the real encrypted branching
	for i, n := range []uint64{1, 2, 4095, 4096, 4097, 8193} {
		if i%2 == 0 {
			dispatch(jcase{Kind: "trie", B: encBranches, RefLen: 64, Runs: [][2]uint64{{chunkSize, n}}})
		} else {
			dispatch(jcase{Kind: "trie", B: encBranches, RefLen: 64, Runs: [][2]uint64{{chunkSize, n}, {uint64(1 + r.Intn(chunkSize)), 1}}})
		}
	}
	deep := []uint64{4096 * 4096, 4096*4096 + 1, 4096*4096 + 4096, 4096*4096 + 4097, 2*4096*4096 - 1}
	if !run.Thorough() {
		deep = deep[1:2]
	}
	for _, n := range deep {
		dispatch(jcase{Kind: "trie-go", B: encBranches, RefLen: 64, Runs: [][2]uint64{{chunkSize, n}, {77, 1}}})
	}
	// real encrypted uploads
	sizes := []int64{0, 1, 32, 33, chunkSize - 1, chunkSize, chunkSize + 1, 2 * chunkSize, 2*chunkSize + 1, int64(r.Intn(4 * chunkSize))}
	if run.Thorough() {
		sizes = append(sizes, 5*chunkSize+17, 16*chunkSize, int64(r.Intn(40*chunkSize)), 4096*chunkSize+1)
	}
	for _, s := range sizes {
		dispatch(jcase{Kind: "upload", Size: s, Seed: uint64(r.Intn(256))})
	}
	run.SetExtra("seconds_per_kind", kindTime)
	run.Finish()
}
