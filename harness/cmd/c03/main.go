// C03 harness: the concurrent BMT hasher (pkg/bmt, pkg/bmtpool).
//
// Two streams:
//   - "toy": bmt.NewConf with a toy 32-byte base hasher (the same function as
//     Aurora.C03.Toy.toy) at small segment counts; these cases go to the Coq
//     correspondence (model run under harness-chosen schedule prefixes).
//   - "keccak": the real Keccak base hasher, compared against
//     pkg/bmt/reference and against an independent bottom-up oracle in this
//     file; not part of the Coq correspondence.
package main

import (
	"bytes"
	"encoding/binary"
	"encoding/hex"
	"fmt"
	"hash"
	"math/big"
	"sync"
	"sync/atomic"
	"time"

	"github.com/gauss-project/aurorafs/pkg/bmt"
	"github.com/gauss-project/aurorafs/pkg/bmt/reference"
	"github.com/gauss-project/aurorafs/pkg/bmtpool"
	"github.com/gauss-project/aurorafs/pkg/boson"
	"github.com/gauss-project/aurorafs/pkg/cac"
	"github.com/gauss-project/aurorafs/pkg/file/pipeline"
	pbmt "github.com/gauss-project/aurorafs/pkg/file/pipeline/bmt"
	"golang.org/x/crypto/sha3"
	"verifharness/hx"
)

// ---------------------------------------------------------------- toy base hash

type toyHash struct{ buf []byte }

func newToy() hash.Hash { return &toyHash{} }

// gate: while armed, every base-hash computation blocks at its very first step (Reset, before any
// input byte is read) until the gate is opened. Lets a case hold the section workers of an earlier
// Write until the caller has overwritten its buffer.
var (
	gateMu sync.Mutex
	gateCh chan struct{}
)

func armGate() {
	gateMu.Lock()
	gateCh = make(chan struct{})
	gateMu.Unlock()
}
func openGate() {
	gateMu.Lock()
	if gateCh != nil {
		close(gateCh)
		gateCh = nil
	}
	gateMu.Unlock()
}
func waitGate() {
	gateMu.Lock()
	ch := gateCh
	gateMu.Unlock()
	if ch != nil {
		<-ch
	}
}

type gatedToy struct{ toyHash }

func newGatedToy() hash.Hash { return &gatedToy{} }
func (t *gatedToy) Reset() {
	waitGate()
	t.toyHash.Reset()
}
func (t *toyHash) Write(p []byte) (int, error) {
	t.buf = append(t.buf, p...)
	return len(p), nil
}
func (t *toyHash) Reset()         { t.buf = t.buf[:0] }
func (t *toyHash) Size() int      { return 32 }
func (t *toyHash) BlockSize() int { return 64 }
func (t *toyHash) Sum(b []byte) []byte {
	return append(b, toySum(t.buf)...)
}
func toySum(d []byte) []byte {
	a := uint32(len(d)) + 2166136261
	for _, b := range d {
		a += uint32(b)
		a += a << 10
		a ^= a >> 6
	}
	return toyOut(uint64(a), 32)
}
func keccak(d ...[]byte) []byte {
	h := sha3.NewLegacyKeccak256()
	for _, x := range d {
		h.Write(x)
	}
	return h.Sum(nil)
}

// ---------------------------------------------------------------- independent oracle
// bottom-up: zero-pad to c segments (c = smallest power of two >= max(2, count)),
// hash adjacent pairs level by level.
func oracleRoot(h func([]byte) []byte, data []byte, segCount int) []byte {
	c := 2
	for c < segCount {
		c *= 2
	}
	level := make([][]byte, c)
	for i := range level {
		seg := make([]byte, 32)
		if i*32 < len(data) {
			copy(seg, data[i*32:])
		}
		level[i] = seg
	}
	for len(level) > 1 {
		next := make([][]byte, len(level)/2)
		for i := range next {
			next[i] = h(append(append([]byte{}, level[2*i]...), level[2*i+1]...))
		}
		level = next
	}
	return level[0]
}
func oracleHash(h func([]byte) []byte, span, data []byte, segCount int) []byte {
	return keccak(span, oracleRoot(h, data, segCount))
}
func keccak1(d []byte) []byte { return keccak(d) }

// ---------------------------------------------------------------- cases

// data of a use = toyOut(dseed, sum wlens) with the last ztail bytes zeroed, cut into writes of lengths wlens
type juse struct {
	Hdr   string   `json:"hdr"`
	DSeed uint64   `json:"dseed"`
	ZTail int      `json:"ztail"`
	WLens []int    `json:"wlens"`
	SSeed uint64   `json:"sseed,omitempty"` // model-side schedule prefix: slen generator bytes from sseed
	SLen  int      `json:"slen,omitempty"`
}

func coqBig(b []byte) string { return "0x" + new(big.Int).SetBytes(b).Text(16) + "%N" }

func (u juse) total() int {
	n := 0
	for _, l := range u.WLens {
		n += l
	}
	return n
}
func (u juse) data() []byte {
	n := u.total()
	d := toyOut(u.DSeed, n)
	for i := n - u.ZTail; i < n; i++ {
		if i >= 0 {
			d[i] = 0
		}
	}
	return d
}
func (u juse) writes() [][]byte {
	d := u.data()
	ws := make([][]byte, len(u.WLens))
	for i, l := range u.WLens {
		ws[i] = d[:l]
		d = d[l:]
	}
	return ws
}
func toyOut(seed uint64, n int) []byte {
	a := uint32(seed)
	out := make([]byte, n)
	for j := range out {
		a += a << 3
		a ^= a >> 11
		a += a << 15
		a += 2654435769
		out[j] = byte(a >> 24)
	}
	return out
}
type jcase struct {
	Kind     string `json:"kind"` // toy | keccak | keccak-reset | concurrent
	SegCount int    `json:"segcount"`
	Uses     []juse `json:"uses"`
	Workers  int    `json:"workers,omitempty"`
	Gated    bool   `json:"gated,omitempty"` // toy: base hasher gated, workers held until the caller's buffer is overwritten
}

func span8(prev, hdr []byte) []byte { // SetHeader: copy(h.span, hdr) onto a zeroed 8-byte span
	s := append([]byte{}, prev...)
	copy(s, hdr)
	return s
}

// scratch is how callers feed a hasher (io.Copy, read loops): ONE buffer, refilled for every
// Write. After Write returns the buffer belongs to the caller again, so it is overwritten with
// garbage right away; whatever the hasher still needs it must have copied.
type scratch struct{ buf []byte }

func (s *scratch) write(h *bmt.Hasher, w []byte) error {
	if cap(s.buf) < len(w) {
		s.buf = make([]byte, len(w), len(w)+64)
	}
	b := s.buf[:len(w)]
	copy(b, w)
	_, err := h.Write(b)
	for i := range b {
		b[i] = ^b[i] + 0x5b
	}
	return err
}

// one user of a pool: Get, SetHeader, Write*, Hash, Put. nil result = no answer within the timeout.
// gated: the section workers of every Write are held at the start of their base hash until the
// caller's buffer has been overwritten.
func useHasher(p *bmt.Pool, hdr []byte, writes [][]byte) (res []byte, capac int) {
	return useHasherG(p, hdr, writes, false)
}
func useHasherG(p *bmt.Pool, hdr []byte, writes [][]byte, gated bool) (res []byte, capac int) {
	ok := hx.WithTimeout(5*time.Second, func() {
		h := p.Get()
		capac = h.Capacity()
		h.SetHeader(hdr)
		var sc scratch
		for _, w := range writes {
			if gated {
				armGate()
			}
			err := sc.write(h, w)
			if gated {
				openGate()
			}
			if err != nil {
				return
			}
		}
		r, err := h.Hash(nil)
		if err == nil {
			res = r
		}
		p.Put(h)
	})
	if !ok {
		hangs++
		return nil, capac
	}
	return res, capac
}

func concat(ws [][]byte) []byte {
	var d []byte
	for _, w := range ws {
		d = append(d, w...)
	}
	return d
}

func capOf(segCount int) int {
	c := 2
	for c < segCount {
		c *= 2
	}
	return c * 32
}

// random split of n bytes into write lengths, with empty writes sprinkled in
func splitLens(r *hx.Rand, n int, style int) []int {
	var ws []int
	switch style {
	case 0: // one write
		ws = []int{n}
	case 1: // section-aligned pieces
		for n > 0 {
			k := 64 * (1 + r.Intn(3))
			if k > n {
				k = n
			}
			ws = append(ws, k)
			n -= k
		}
	case 2: // byte-ish pieces
		for n > 0 {
			k := 1 + r.Intn(70)
			if r.Chance(1, 4) {
				k = 1 + r.Intn(3)
			}
			if k > n {
				k = n
			}
			ws = append(ws, k)
			n -= k
			if r.Chance(1, 6) {
				ws = append(ws, 0)
			}
		}
	default: // few big random cuts
		for n > 0 {
			k := 1 + r.Intn(n)
			ws = append(ws, k)
			n -= k
		}
		if r.Bool() {
			ws = append([]int{0}, ws...)
		}
	}
	if len(ws) == 0 && r.Bool() {
		ws = []int{0}
	}
	return ws
}

func boundaryLen(r *hx.Rand, capac int) int {
	switch r.Intn(10) {
	case 0:
		return 0
	case 1:
		return capac
	case 2:
		return capac - 1 - r.Intn(3)
	case 3, 4: // around a section boundary
		k := 64 * r.Intn(capac/64+1)
		k += r.Intn(5) - 2
		if k < 0 {
			k = 0
		}
		if k > capac {
			k = capac
		}
		return k
	case 5: // around a segment boundary
		k := 32*r.Intn(capac/32+1) + r.Intn(3) - 1
		if k < 0 {
			k = 0
		}
		if k > capac {
			k = capac
		}
		return k
	case 6: // over capacity
		return capac + 1 + r.Intn(70)
	default:
		return r.Intn(capac + 1)
	}
}

func genZTail(r *hx.Rand, n int) int {
	switch r.Intn(6) {
	case 0: // trailing zeros (padding must be indistinguishable only from zeros)
		return r.Intn(n + 1)
	case 1:
		return n
	}
	return 0
}

func mkUse(r *hx.Rand, n int, hdr []byte) juse {
	return juse{Hdr: hx.Hex(hdr), DSeed: r.U64() & 0xffffffff, ZTail: genZTail(r, n), WLens: splitLens(r, n, r.Intn(4))}
}

var run *hx.Run

// a hasher that hangs costs a full timeout per case: after a few, stop exploring (the violations are recorded)
var hangs int

func giveUp() bool { return hangs >= 3 }

// ---------------------------------------------------------------- toy stream (Coq correspondence)

func doToy(jc jcase) {
	if giveUp() {
		return
	}
	factory := newToy
	if jc.Gated {
		factory = newGatedToy
	}
	pool := bmt.NewPool(bmt.NewConf(factory, jc.SegCount, 1))
	var uses []string
	var tab []string
	seen := map[string]bool{}
	nontrivial := false
	key := fmt.Sprintf("toy|%d|%v", jc.SegCount, jc.Gated)
	for ui, u := range jc.Uses {
		hdr, _ := hex.DecodeString(u.Hdr)
		ws := u.writes()
		res, capac := useHasherG(pool, hdr, ws, jc.Gated)
		data := concat(ws)
		if len(data) > capac {
			data = data[:capac]
		}
		sp := span8(make([]byte, 8), hdr)
		root := oracleRoot(toySum, data, jc.SegCount)
		pre := append(append([]byte{}, sp...), root...)
		want := keccak(pre)
		if !seen[string(pre)] {
			seen[string(pre)] = true
			tab = append(tab, hx.CoqPair(coqBig(pre), coqBig(want)))
		}
		run.OracleChecked(1)
		if res == nil {
			run.Violate(hx.Violation{Sig: "toy:no-result", Detail: fmt.Sprintf("use %d: Hash did not return within 5s", ui), Case: jc})
		} else if !bytes.Equal(res, want) {
			cl := "first-use"
			if ui > 0 {
				cl = "reused-tree"
			}
			if jc.Gated {
				cl += ":workers-held-until-caller-buffer-overwritten"
			}
			run.Violate(hx.Violation{Sig: "toy:hash!=definition:" + cl, Detail: fmt.Sprintf("segcount %d use %d len %d writes %d: got %x want %x", jc.SegCount, ui, len(data), len(ws), res, want), Case: jc, Impl: hx.Hex(res), Want: hx.Hex(want)})
		}
		obs := "None"
		if res != nil {
			obs = hx.CoqSome(coqBig(res))
		}
		wl := make([]uint64, len(u.WLens))
		for i, l := range u.WLens {
			wl[i] = uint64(l)
		}
		uses = append(uses, hx.CoqApp("Use", hx.CoqBytes(hdr), hx.CoqN(u.DSeed), hx.CoqN(uint64(u.ZTail)), hx.CoqNList(wl), hx.CoqN(u.SSeed), hx.CoqN(uint64(u.SLen)), obs))
		if len(data) > 64 || ui > 0 {
			nontrivial = true
		}
		key += fmt.Sprintf("|%x/%d/%x", hdr, len(ws), data)
		run.Hist(fmt.Sprintf("toy.seg=%d", jc.SegCount))
		if jc.Gated {
			run.Hist("toy.gated")
		}
		if len(ws) > 1 {
			run.Hist("toy.multi-write-one-scratch-buffer")
		}
		run.Hist(fmt.Sprintf("toy.sections=%d", (len(data)+63)/64))
		if res == nil {
			break // pool is stuck
		}
	}
	coq := hx.CoqApp("CPool", hx.CoqN(uint64(jc.SegCount)), hx.CoqList(uses, "use"), hx.CoqList(tab, "N * N"))
	run.AddCase(coq, jc, key, nontrivial)
}

func genToy(r *hx.Rand, seg int, nuses int) jcase {
	jc := jcase{Kind: "toy", SegCount: seg}
	capac := capOf(seg)
	for u := 0; u < nuses; u++ {
		n := boundaryLen(r, capac)
		hdr := r.Bytes(8)
		switch r.Intn(12) {
		case 0:
			hdr = r.Bytes(r.Intn(8)) // short header: partial copy
		case 1:
			hdr = r.Bytes(9 + r.Intn(4)) // long header: first 8 bytes
		case 2:
			hdr = make([]byte, 8)
			binary.LittleEndian.PutUint64(hdr, uint64(n))
		}
		u := mkUse(r, n, hdr)
		u.SSeed, u.SLen = r.U64()&0xffffffff, r.Intn(120)
		jc.Uses = append(jc.Uses, u)
	}
	return jc
}

// ---------------------------------------------------------------- keccak stream (Go only)

var kpools = map[int]*bmt.Pool{}

func kpool(seg int) *bmt.Pool {
	if p, ok := kpools[seg]; ok {
		return p
	}
	p := bmt.NewPool(bmt.NewConf(boson.NewHasher, seg, 2))
	kpools[seg] = p
	return p
}

func checkKeccak(kind string, seg int, hdr []byte, ws [][]byte, res []byte, jc jcase) {
	capac := capOf(seg)
	data := concat(ws)
	trunc := data
	if len(trunc) > capac {
		trunc = trunc[:capac]
	}
	sp := span8(make([]byte, 8), hdr)
	run.OracleChecked(2)
	rh := reference.NewRefHasher(sha3.NewLegacyKeccak256(), seg)
	rroot, _ := rh.Hash(data)
	wantRef := keccak(sp, rroot)
	wantOr := oracleHash(keccak1, sp, trunc, seg)
	lenClass := "partial"
	switch {
	case len(data) == 0:
		lenClass = "empty"
	case len(data) == capac:
		lenClass = "full"
	case len(data) > capac:
		lenClass = "overlong"
	case len(data)%64 == 0:
		lenClass = "section-aligned"
	}
	if res == nil {
		run.Violate(hx.Violation{Sig: kind + ":no-result:" + lenClass, Detail: "Hash did not return within 5s", Case: jc})
		return
	}
	if !bytes.Equal(res, wantOr) {
		run.Violate(hx.Violation{Sig: kind + ":hash!=definition:" + lenClass, Detail: fmt.Sprintf("segcount %d len %d writes %d: got %x want %x", seg, len(data), len(ws), res, wantOr), Case: jc, Impl: hx.Hex(res), Want: hx.Hex(wantOr)})
	}
	if !bytes.Equal(wantRef, wantOr) {
		run.Violate(hx.Violation{Sig: "reference-pkg!=definition:" + lenClass, Detail: fmt.Sprintf("segcount %d len %d: pkg/bmt/reference %x, oracle %x", seg, len(data), wantRef, wantOr), Case: jc})
	}
}

func doKeccak(jc jcase) {
	if giveUp() {
		return
	}
	p := kpool(jc.SegCount)
	for _, u := range jc.Uses {
		hdr, _ := hex.DecodeString(u.Hdr)
		ws := u.writes()
		res, _ := useHasher(p, hdr, ws)
		one := jcase{Kind: "keccak", SegCount: jc.SegCount, Uses: []juse{u}}
		checkKeccak("keccak", jc.SegCount, hdr, ws, res, one)
		d := concat(ws)
		run.AddCase("", one, fmt.Sprintf("k|%d|%x|%d|%x", jc.SegCount, hdr, len(ws), d), len(d) > 64)
		run.Hist(fmt.Sprintf("keccak.seg<=%d", bucket(jc.SegCount)))
		if res == nil {
			delete(kpools, jc.SegCount)
			return
		}
	}
}

func bucket(n int) int {
	b := 1
	for b < n {
		b *= 2
	}
	return b
}

// the same Hasher used for several chunks with Reset in between (Hasher doc:
// "The same hasher instance is synchronously reuseable")
func doKeccakReset(jc jcase) {
	if giveUp() {
		return
	}
	p := kpool(jc.SegCount)
	var results [][]byte
	ok := hx.WithTimeout(10*time.Second, func() {
		h := p.Get()
		for _, u := range jc.Uses {
			hdr, _ := hex.DecodeString(u.Hdr)
			h.Reset()
			h.SetHeader(hdr)
			var sc scratch
			for _, w := range u.writes() {
				sc.write(h, w)
			}
			r, _ := h.Hash(nil)
			results = append(results, r)
		}
		p.Put(h)
	})
	if !ok {
		hangs++
		delete(kpools, jc.SegCount)
	}
	for i, u := range jc.Uses {
		hdr, _ := hex.DecodeString(u.Hdr)
		var res []byte
		if i < len(results) {
			res = results[i]
		}
		checkKeccak("keccak-reset", jc.SegCount, hdr, u.writes(), res, jc)
	}
	run.AddCase("", jc, fmt.Sprintf("kr|%d|%v", jc.SegCount, jc.Uses), true)
	run.Hist("keccak-reset")
}

// many goroutines hashing at the same time through one pool (bmtpool when segcount == 0)
func doConcurrent(jc jcase) {
	if giveUp() {
		return
	}
	get := bmtpool.Get
	put := bmtpool.Put
	seg := jc.SegCount
	if seg == 0 {
		seg = boson.BmtBranches
	} else {
		p := bmt.NewPool(bmt.NewConf(boson.NewHasher, seg, 3))
		get, put = p.Get, p.Put
	}
	results := make([][]byte, len(jc.Uses))
	var wg sync.WaitGroup
	sem := make(chan struct{}, jc.Workers)
	ok := hx.WithTimeout(60*time.Second, func() {
		for i := range jc.Uses {
			wg.Add(1)
			sem <- struct{}{}
			go func(i int) {
				defer wg.Done()
				defer func() { <-sem }()
				u := jc.Uses[i]
				hdr, _ := hex.DecodeString(u.Hdr)
				h := get()
				h.SetHeader(hdr)
				var sc scratch
				for _, w := range u.writes() {
					sc.write(h, w)
				}
				r, _ := h.Hash(nil)
				put(h)
				results[i] = r
			}(i)
		}
		wg.Wait()
	})
	if !ok {
		hangs += 3
	}
	for i, u := range jc.Uses {
		hdr, _ := hex.DecodeString(u.Hdr)
		one := jcase{Kind: "keccak", SegCount: seg, Uses: []juse{u}}
		checkKeccak("concurrent", seg, hdr, u.writes(), results[i], one)
	}
	run.AddCase("", jcase{Kind: "concurrent", SegCount: jc.SegCount, Workers: jc.Workers}, fmt.Sprintf("conc|%d|%d|%d|%d", jc.SegCount, jc.Workers, len(jc.Uses), run.R.U64()), true)
	run.HistN("concurrent.hashes", len(jc.Uses))
}

// ---------------------------------------------------------------- the repo's own pool users under pressure
// "hashers reused from the shared pool, many hashes at the same time": the users of bmtpool in the
// repo are cac.hasher and the pipeline bmt writer. All but `left` trees are held, so every call
// queues for the same tree(s); each hash is compared with the independent oracle.
type sinkWriter struct{}

func (sinkWriter) ChainWrite(*pipeline.PipeWriteArgs) error { return nil }
func (sinkWriter) Sum() ([]byte, error)                     { return nil, nil }

func doCallers(workers, left int, seed uint64, millis int) bool {
	if giveUp() {
		return false
	}
	r := hx.NewRand(seed)
	sizes := []int{boson.ChunkSize, boson.ChunkSize - 1, boson.ChunkSize / 2, 4096*31 + 7, 4096, 100, boson.ChunkSize - 33, 64, 65, 1}
	type fixed struct{ data, payload, want []byte }
	fx := make([]fixed, workers)
	for i := range fx {
		n := sizes[i%len(sizes)]
		d := toyOut(r.U64()&0xffffffff, n)
		span := make([]byte, 8)
		binary.LittleEndian.PutUint64(span, uint64(n))
		fx[i] = fixed{data: d, payload: append(append([]byte{}, span...), d...), want: oracleHash(keccak1, span, d, boson.BmtBranches)}
	}
	var held []*bmt.Hasher
	got := hx.WithTimeout(10*time.Second, func() {
		for i := 0; i < bmtpool.Capacity-left; i++ {
			held = append(held, bmtpool.Get())
		}
	})
	jc := jcase{Kind: "callers", Workers: workers, SegCount: left}
	if !got {
		run.Violate(hx.Violation{Sig: "pool:trees-missing", Detail: fmt.Sprintf("only %d trees could be taken out of bmtpool", len(held)), Case: jc})
	}
	var wrongNew, wrongPipe, errs, ops int64
	var stop int32
	var wg sync.WaitGroup
	for w := 0; w < workers; w++ {
		wg.Add(1)
		go func(f fixed) {
			defer wg.Done()
			pw := pbmt.NewBmtWriter(sinkWriter{})
			for round := 0; round < 400 && (round < 4 || atomic.LoadInt32(&stop) == 0); round++ {
				ch, err := cac.New(f.data)
				if err != nil {
					atomic.AddInt64(&errs, 1)
				} else if !bytes.Equal(ch.Address().Bytes(), f.want) {
					atomic.AddInt64(&wrongNew, 1)
				}
				args := &pipeline.PipeWriteArgs{Data: f.payload}
				if err := pw.ChainWrite(args); err != nil {
					atomic.AddInt64(&errs, 1)
				} else if !bytes.Equal(args.Ref, f.want) {
					atomic.AddInt64(&wrongPipe, 1)
				}
				atomic.AddInt64(&ops, 2)
			}
		}(fx[w])
	}
	time.AfterFunc(time.Duration(millis)*time.Millisecond, func() { atomic.StoreInt32(&stop, 1) })
	finished := hx.WithTimeout(time.Duration(millis)*time.Millisecond+45*time.Second, wg.Wait)
	atomic.StoreInt32(&stop, 1)
	for _, h := range held {
		bmtpool.Put(h)
	}
	n := atomic.LoadInt64(&ops)
	run.OracleChecked(int(n))
	run.HistN("callers.hashes", int(n))
	if !finished {
		hangs += 3
		run.Violate(hx.Violation{Sig: "pool:hang", Detail: fmt.Sprintf("%d goroutines hashing through cac / pipeline with %d free tree(s) did not finish (%d hashes completed)", workers, left, n), Case: jc})
	}
	if c := atomic.LoadInt64(&wrongNew); c != 0 {
		run.Violate(hx.Violation{Sig: "pool:concurrent-cac-hash!=definition", Detail: fmt.Sprintf("cac.New address differs from the BMT hash in %d of %d concurrent hashes", c, n), Case: jc, Impl: c, Want: 0})
	}
	if c := atomic.LoadInt64(&wrongPipe); c != 0 {
		run.Violate(hx.Violation{Sig: "pool:concurrent-pipeline-hash!=definition", Detail: fmt.Sprintf("pipeline bmt writer reference differs from the BMT hash in %d of %d concurrent hashes", c, n), Case: jc, Impl: c, Want: 0})
	}
	if c := atomic.LoadInt64(&errs); c != 0 {
		run.Violate(hx.Violation{Sig: "pool:concurrent-caller-error", Detail: fmt.Sprintf("%d errors from cac.New / ChainWrite on in-range data", c), Case: jc})
	}
	run.AddCase("", jc, fmt.Sprintf("callers|%d|%d|%d", workers, left, seed), true)
	return finished
}

func genUse(r *hx.Rand, capac int, n int) juse { return mkUse(r, n, r.Bytes(8)) }

func dispatch(jc jcase) {
	switch jc.Kind {
	case "toy":
		doToy(jc)
	case "keccak":
		doKeccak(jc)
	case "keccak-reset":
		doKeccakReset(jc)
	case "concurrent":
		doConcurrent(jc)
	case "callers":
		doCallers(jc.Workers, jc.SegCount, 1, 1500)
	}
}

func main() {
	run = hx.Start("C03", "Aurora.C03.Corr",
		"toy stream (Coq correspondence): pools of capacity 1 over the real bmt code with a toy base hasher, segment counts 1..16, 1..3 consecutive users per tree, lengths boundary-dense (0, section/segment boundaries +-2, capacity, over capacity) and random, four write-split styles incl. empty and over-long writes, each model run under a random schedule prefix; keccak stream (oracle only): segment counts 1..128 and 8192 against pkg/bmt/reference and an independent bottom-up oracle, Reset-reuse of one Hasher, concurrent users of bmtpool; non-trivial = more than one section of data or a reused tree; distinct by (segment count, headers, write splits, data)")
	r := run.R
	if run.Replay != "" {
		var jc jcase
		if err := run.ReadReplay(&jc); err != nil {
			panic(err)
		}
		dispatch(jc)
		run.Finish()
		return
	}

	// ---- toy stream
	segs := []int{1, 2, 3, 4, 5, 7, 8, 9, 16}
	rt := r.Fork(1)
	// fixed corner cases on every seed
	for _, seg := range []int{1, 2, 4, 8} {
		capac := capOf(seg)
		for _, n := range []int{0, 1, 63, 64, 65, capac - 1, capac, capac + 5} {
			if n < 0 {
				continue
			}
			ds := rt.U64() & 0xffffffff
			doToy(jcase{Kind: "toy", SegCount: seg, Uses: []juse{
				{Hdr: "0102030405060708", DSeed: ds, WLens: []int{n}},
				{Hdr: "", DSeed: ds, WLens: splitLens(rt, n, 2), SSeed: 7, SLen: 40},
			}})
		}
	}
	// gated corner cases on every seed: several section-sized writes through one scratch buffer,
	// the workers of each Write held until the buffer has been overwritten
	for _, seg := range []int{4, 8, 16} {
		capac := capOf(seg)
		for _, piece := range []int{64, 128, 100} {
			var wl []int
			for n := capac; n > 0; n -= piece {
				k := piece
				if k > n {
					k = n
				}
				wl = append(wl, k)
			}
			doToy(jcase{Kind: "toy", SegCount: seg, Gated: true, Uses: []juse{
				{Hdr: "0807060504030201", DSeed: rt.U64() & 0xffffffff, WLens: wl, SSeed: 11, SLen: 30},
				{Hdr: "0102030405060708", DSeed: rt.U64() & 0xffffffff, WLens: wl[:len(wl)-1], SSeed: 12, SLen: 60},
			}})
		}
	}
	for i := 0; i < run.N(170, 2500); i++ {
		seg := segs[rt.Intn(len(segs))]
		jc := genToy(rt, seg, 1+rt.Intn(3))
		jc.Gated = rt.Chance(1, 4)
		doToy(jc)
	}

	// ---- keccak stream
	rk := r.Fork(2)
	// every length for small capacities
	smallSegs := []int{1, 2, 3, 4}
	if run.Thorough() {
		smallSegs = []int{1, 2, 3, 4, 5, 6, 7, 8, 11, 16}
	}
	for _, seg := range smallSegs {
		capac := capOf(seg)
		var uses []juse
		for n := 0; n <= capac+2; n++ {
			uses = append(uses, genUse(rk, capac, n))
		}
		doKeccak(jcase{Kind: "keccak", SegCount: seg, Uses: uses})
	}
	for i := 0; i < run.N(120, 2000); i++ {
		seg := 1 + rk.Intn(128)
		capac := capOf(seg)
		var uses []juse
		for u := 0; u < 1+rk.Intn(3); u++ {
			uses = append(uses, genUse(rk, capac, boundaryLen(rk, capac)))
		}
		if rk.Chance(1, 4) {
			doKeccakReset(jcase{Kind: "keccak-reset", SegCount: seg, Uses: uses})
		} else {
			doKeccak(jcase{Kind: "keccak", SegCount: seg, Uses: uses})
		}
	}
	// full size
	for i := 0; i < run.N(12, 100); i++ {
		seg := boson.BmtBranches
		capac := capOf(seg)
		doKeccak(jcase{Kind: "keccak", SegCount: seg, Uses: []juse{genUse(rk, capac, boundaryLen(rk, capac))}})
	}
	// concurrency: many users at the same time
	rc := r.Fork(3)
	for round := 0; round < run.N(2, 8); round++ {
		seg := []int{0, 0, 16, 128}[rc.Intn(4)]
		capac := capOf(seg)
		if seg == 0 {
			capac = boson.ChunkSize
		}
		var uses []juse
		nh := run.N(96, 400)
		for i := 0; i < nh; i++ {
			n := boundaryLen(rc, capac)
			if seg == 0 && rc.Chance(3, 4) {
				n = rc.Intn(4096) // mostly small at full size to keep the oracle cheap
			}
			uses = append(uses, genUse(rc, capac, n))
		}
		doConcurrent(jcase{Kind: "concurrent", SegCount: seg, Uses: uses, Workers: 64})
	}
	// the repo's pool users under pressure, last (a broken caller leaves the shared pool dirty)
	if doCallers(8, 1, r.U64(), run.N(1200, 5000)) {
		doCallers(12, 2, r.U64(), run.N(800, 5000))
	}
	if giveUp() {
		run.Note("exploration stopped early: the hasher did not return in several cases")
	}
	run.Finish()
}
