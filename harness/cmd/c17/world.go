// The node under test for C17: the real chunkinfo.ChunkInfo and netstore.Store over a
// set-of-chunks store, the real traversal, an in-memory leveldb state store, and stubs for the
// network (route table, one pyramid-serving peer, retrieval).
package main

import (
	"context"
	"encoding/json"
	"errors"
	"io"
	"sort"
	"strings"
	"sync"
	"time"

	"github.com/gauss-project/aurorafs/pkg/aurora"
	"github.com/gauss-project/aurorafs/pkg/boson"
	"github.com/gauss-project/aurorafs/pkg/chunkinfo"
	cipb "github.com/gauss-project/aurorafs/pkg/chunkinfo/pb"
	"github.com/gauss-project/aurorafs/pkg/logging"
	"github.com/gauss-project/aurorafs/pkg/netstore"
	"github.com/gauss-project/aurorafs/pkg/p2p"
	"github.com/gauss-project/aurorafs/pkg/p2p/protobuf"
	"github.com/gauss-project/aurorafs/pkg/p2p/streamtest"
	"github.com/gauss-project/aurorafs/pkg/routetab"
	"github.com/gauss-project/aurorafs/pkg/sctx"
	sldb "github.com/gauss-project/aurorafs/pkg/statestore/leveldb"
	"github.com/gauss-project/aurorafs/pkg/storage"
	"github.com/gauss-project/aurorafs/pkg/subscribe"
	"github.com/gauss-project/aurorafs/pkg/traversal"
)

var logger = logging.New(io.Discard, 0)
var errStub = errors.New("stub: refused")

// ---------------------------------------------------------------- chunk store: a set of chunks

type setStore struct {
	mu sync.Mutex
	m  map[string][]byte
}

func newSetStore() *setStore { return &setStore{m: map[string][]byte{}} }

func (s *setStore) Get(_ context.Context, _ storage.ModeGet, addr boson.Address) (boson.Chunk, error) {
	s.mu.Lock()
	defer s.mu.Unlock()
	v, ok := s.m[addr.String()]
	if !ok {
		return nil, storage.ErrNotFound
	}
	return boson.NewChunk(addr, v), nil
}
func (s *setStore) Put(_ context.Context, _ storage.ModePut, chs ...boson.Chunk) ([]bool, error) {
	s.mu.Lock()
	defer s.mu.Unlock()
	ex := make([]bool, len(chs))
	for i, ch := range chs {
		_, ex[i] = s.m[ch.Address().String()]
		s.m[ch.Address().String()] = ch.Data()
	}
	return ex, nil
}
func (s *setStore) GetMulti(context.Context, storage.ModeGet, ...boson.Address) ([]boson.Chunk, error) {
	return nil, errStub
}
func (s *setStore) Has(_ context.Context, _ storage.ModeHas, addr boson.Address) (bool, error) {
	s.mu.Lock()
	defer s.mu.Unlock()
	_, ok := s.m[addr.String()]
	return ok, nil
}
func (s *setStore) HasMulti(context.Context, storage.ModeHas, ...boson.Address) ([]bool, error) {
	return nil, errStub
}
func (s *setStore) Set(_ context.Context, mode storage.ModeSet, addrs ...boson.Address) error {
	s.mu.Lock()
	defer s.mu.Unlock()
	if mode == storage.ModeSetRemove {
		for _, a := range addrs {
			delete(s.m, a.String())
		}
	}
	return nil
}
func (s *setStore) Close() error { return nil }
func (s *setStore) has(hex string) bool {
	s.mu.Lock()
	defer s.mu.Unlock()
	_, ok := s.m[hex]
	return ok
}
func (s *setStore) keys() []string {
	s.mu.Lock()
	defer s.mu.Unlock()
	var ks []string
	for k := range s.m {
		ks = append(ks, k)
	}
	sort.Strings(ks)
	return ks
}

// ---------------------------------------------------------------- network stubs

type routeStub struct{ w *world }

func (r *routeStub) GetRoute(context.Context, boson.Address) ([]*routetab.Path, error) {
	return nil, errStub
}
func (r *routeStub) FindRoute(context.Context, boson.Address, ...time.Duration) ([]*routetab.Path, error) {
	return nil, errStub
}
func (r *routeStub) DelRoute(context.Context, boson.Address) error { return nil }
func (r *routeStub) Connect(context.Context, boson.Address) error {
	if r.w.netOK {
		return nil
	}
	return errStub
}
func (r *routeStub) GetTargetNeighbor(context.Context, boson.Address, int) ([]boson.Address, error) {
	return nil, errStub
}
func (r *routeStub) IsNeighbor(boson.Address) bool { return true }
func (r *routeStub) FindUnderlay(context.Context, boson.Address, ...time.Duration) (*aurora.Address, error) {
	return nil, errStub
}

// pyramidPeer: the remote side of the "chunkpyramid" stream; it serves the honest pyramid of the
// requested root (nothing for a root it does not know).
func pyramidPeer(w *world) p2p.ProtocolSpec {
	return p2p.ProtocolSpec{Name: "chunkinfo", Version: "2.0.0", StreamSpecs: []p2p.StreamSpec{{
		Name: "chunkpyramid",
		Handler: func(ctx context.Context, _ p2p.Peer, stream p2p.Stream) error {
			defer stream.Close()
			wr, rd := protobuf.NewWriterAndReader(stream)
			var req cipb.ChunkPyramidReq
			if err := rd.ReadMsgWithContext(ctx, &req); err != nil {
				return err
			}
			if f := w.uni.file(boson.NewAddress(req.RootCid).String()); f != nil {
				for _, k := range f.trie {
					if err := wr.WriteMsgWithContext(ctx, &cipb.ChunkPyramidResp{Hash: boson.MustParseHexAddress(k).Bytes(), Chunk: w.uni.data[k]}); err != nil {
						return err
					}
				}
			}
			if err := wr.WriteMsgWithContext(ctx, &cipb.ChunkPyramidResp{Ok: true}); err != nil {
				return err
			}
			// keep the stream open until the requester has read everything
			buf := make([]byte, 1)
			_, _ = stream.Read(buf)
			return nil
		},
	}}}
}

// retrStub stands for retrieval.Service.RetrieveChunk: the delivering peer is w.src (zero: no
// peer has the chunk). As retrieval.go does, it reports the chunk to chunkinfo, then stores it.
type retrStub struct{ w *world }

func (r *retrStub) RetrieveChunk(ctx context.Context, root, cid boson.Address) (boson.Chunk, error) {
	w := r.w
	if w.src.IsZero() {
		return nil, errStub
	}
	data, ok := w.uni.data[cid.String()]
	if !ok {
		return nil, errStub
	}
	ch := boson.NewChunk(cid, data)
	if err := w.ci.OnChunkRetrieved(cid, root, w.src); err != nil {
		return nil, err
	}
	if _, err := w.store.Put(sctx.SetRootHash(ctx, root), storage.ModePutRequest, ch); err != nil {
		return nil, err
	}
	return ch, nil
}
func (r *retrStub) GetRouteScore(int64) map[string]int64 { return nil }

// ---------------------------------------------------------------- world

type world struct {
	uni   *universe
	self  boson.Address
	store *setStore
	state storage.StateStorer
	ns    *netstore.Store
	trav  traversal.Traverser
	ci    *chunkinfo.ChunkInfo
	rec   *streamtest.Recorder
	netOK bool
	src   boson.Address
}

var sharedState storage.StateStorer

func newWorld(u *universe) *world {
	if sharedState == nil {
		st, err := sldb.NewInMemoryStateStore(logger)
		if err != nil {
			panic(err)
		}
		sharedState = st
	}
	// wipe the records of the previous case
	var ks []string
	_ = sharedState.Iterate("", func(k, _ []byte) (bool, error) { ks = append(ks, string(k)); return false, nil })
	for _, k := range ks {
		if tableOf(k) >= 0 {
			_ = sharedState.Delete(k)
		}
	}
	w := &world{uni: u, self: boson.MustParseHexAddress(u.self), store: newSetStore(), state: sharedState}
	w.rec = streamtest.New(streamtest.WithProtocols(pyramidPeer(w)), streamtest.WithBaseAddr(w.self))
	w.ns = netstore.New(w.store, &retrStub{w}, logger, w.self)
	w.trav = traversal.New(w.ns)
	w.newNode()
	return w
}

// newNode is what pkg/node does at start-up: chunkinfo.New over the (persisting) state store and
// the netstore, then InitChunkInfo.
func (w *world) newNode() error {
	w.ci = chunkinfo.New(w.self, w.rec, logger, w.trav, w.state, w.ns, &routeStub{w}, nil, nil, subscribe.NewSubPub())
	w.ns.SetChunkInfo(w.ci)
	return w.ci.InitChunkInfo()
}

// ---------------------------------------------------------------- canonical state -> []uint64

var prefixes = []string{"chunk-", "discover-", "sourceChunk-", "sourcePyramid-"}

func tableOf(key string) int {
	for i, p := range prefixes {
		if strings.HasPrefix(key, p) {
			return i
		}
	}
	return -1
}

type kvEntry struct {
	tab           int
	root, overlay string
	raw           []byte
}

func (w *world) kvEntries() []kvEntry {
	var out []kvEntry
	_ = w.state.Iterate("", func(k, v []byte) (bool, error) {
		key := string(k)
		t := tableOf(key)
		if t < 0 {
			return false, nil
		}
		parts := strings.Split(strings.TrimPrefix(key, prefixes[t]), "-")
		if len(parts) != 2 {
			return false, nil
		}
		out = append(out, kvEntry{t, parts[0], parts[1], append([]byte{}, v...)})
		return false, nil
	})
	return out
}

type ser struct {
	u   *universe
	out []uint64
}

func (s *ser) n(v int)       { s.out = append(s.out, uint64(v)) }
func (s *ser) id(hex string) { s.out = append(s.out, uint64(s.u.ids[hex])) }
func (s *ser) bits(b chunkinfo.VerifBits) {
	s.n(b.Len)
	s.n(len(b.B))
	for _, x := range b.B {
		s.n(int(x))
	}
}
func sortedKeys(m map[string]chunkinfo.VerifBits) []string {
	var ks []string
	for k := range m {
		ks = append(ks, k)
	}
	sort.Strings(ks)
	return ks
}
func (s *ser) tab(t map[string]map[string]chunkinfo.VerifBits) {
	var rs []string
	for r := range t {
		rs = append(rs, r)
	}
	sort.Strings(rs)
	s.n(len(rs))
	for _, r := range rs {
		s.id(r)
		s.n(len(t[r]))
		for _, o := range sortedKeys(t[r]) {
			s.id(o)
			s.bits(t[r][o])
		}
	}
}

// serialise: store, the four persisted tables, the in-memory tables, then isDownload per root;
// the same order as [observe] in Coq (Corr.v) = [ser_state] (Model.v) ++ flags.
func (w *world) serialise() []uint64 {
	s := &ser{u: w.uni}
	ks := w.store.keys()
	s.n(len(ks))
	for _, k := range ks {
		s.id(k)
	}
	kv := w.kvEntries()
	for t := 0; t < 3; t++ {
		m := map[string]map[string]chunkinfo.VerifBits{}
		for _, e := range kv {
			if e.tab != t {
				continue
			}
			var bv chunkinfo.BitVector
			if err := json.Unmarshal(e.raw, &bv); err != nil {
				panic(err)
			}
			if m[e.root] == nil {
				m[e.root] = map[string]chunkinfo.VerifBits{}
			}
			m[e.root][e.overlay] = chunkinfo.VerifBits{Len: bv.Len, B: bv.B}
		}
		s.tab(m)
	}
	{
		m := map[string]map[string]string{}
		var rs []string
		for _, e := range kv {
			if e.tab != 3 {
				continue
			}
			var ov string
			if err := json.Unmarshal(e.raw, &ov); err != nil {
				panic(err)
			}
			if m[e.root] == nil {
				m[e.root] = map[string]string{}
				rs = append(rs, e.root)
			}
			m[e.root][e.overlay] = ov
		}
		sort.Strings(rs)
		s.n(len(rs))
		for _, r := range rs {
			s.id(r)
			var os []string
			for o := range m[r] {
				os = append(os, o)
			}
			sort.Strings(os)
			s.n(len(os))
			for _, o := range os {
				s.id(o)
				s.id(m[r][o])
			}
		}
	}
	t := w.ci.VerifDumpTables()
	s.tab(t.Presence)
	{
		var rs []string
		for r := range t.Overlays {
			rs = append(rs, r)
		}
		sort.Strings(rs)
		s.n(len(rs))
		for _, r := range rs {
			s.id(r)
			s.n(len(t.Overlays[r]))
			for _, o := range t.Overlays[r] {
				s.id(o)
			}
		}
	}
	s.tab(t.Discover)
	{
		var rs []string
		for r := range t.Source {
			rs = append(rs, r)
		}
		sort.Strings(rs)
		s.n(len(rs))
		for _, r := range rs {
			s.id(r)
			if t.Source[r].PyramidSource == "" {
				s.n(0)
			} else {
				s.n(1)
				s.id(t.Source[r].PyramidSource)
			}
			cs := t.Source[r].ChunkSource
			s.n(len(cs))
			for _, o := range sortedKeys(cs) {
				s.id(o)
				s.bits(cs[o])
			}
		}
	}
	{
		var rs []string
		for r := range t.HashData {
			rs = append(rs, r)
		}
		sort.Strings(rs)
		s.n(len(rs))
		for _, r := range rs {
			s.id(r)
			s.n(int(t.HashData[r][0]))
			s.n(int(t.HashData[r][1]))
		}
	}
	{
		var cs []string
		for c := range t.Chunk {
			cs = append(cs, c)
		}
		sort.Strings(cs)
		s.n(len(cs))
		for _, c := range cs {
			s.id(c)
			s.n(int(t.Chunk[c]))
		}
	}
	// isDownload of every root of the universe, in universe order
	for _, f := range w.uni.files {
		if w.ci.VerifIsDownload(boson.MustParseHexAddress(f.root)) {
			s.n(1)
		} else {
			s.n(0)
		}
	}
	return s.out
}

// checksum of a serialised state; [cksum] in Coq computes the same value.
func checksum(xs []uint64) uint64 {
	h := uint64(14695981039346656037)
	for _, x := range xs {
		h = h*1099511628211 + x + 1
	}
	return h & (1<<61 - 1)
}
