// Universe of files for the C17 harness: real content uploaded with the real pipeline and
// manifests into a sender store; the real traversal then describes every root (pyramid keys,
// data-chunk lists, single-chunk pieces). Those descriptions are the input shared by the Go
// run and the Coq model; addresses are interned as small numbers in hex order.
package main

import (
	"bytes"
	"context"
	"encoding/json"
	"fmt"
	"sort"

	"github.com/gauss-project/aurorafs/pkg/boson"
	"github.com/gauss-project/aurorafs/pkg/file/loadsave"
	"github.com/gauss-project/aurorafs/pkg/file/pipeline"
	"github.com/gauss-project/aurorafs/pkg/file/pipeline/builder"
	"github.com/gauss-project/aurorafs/pkg/manifest"
	"github.com/gauss-project/aurorafs/pkg/storage"
	smock "github.com/gauss-project/aurorafs/pkg/storage/mock"
	"github.com/gauss-project/aurorafs/pkg/traversal"
)

// fileSpec: content = one full 256 KiB chunk per entry of Blocks (equal tags give equal chunks)
// followed by Tail bytes filled with TailTag.
type fileSpec struct {
	Blocks  []int `json:"blocks,omitempty"`
	Tail    int   `json:"tail"`
	TailTag int   `json:"tt"`
}

// rootSpec: "raw" = the file reference itself; "file" = the manifest the single-file upload
// handler builds (root metadata entry + one named entry); "dir" = a directory manifest.
type rootSpec struct {
	Kind  string `json:"kind"`
	Files []int  `json:"files"`
	Name  string `json:"name,omitempty"`
}

type uniSpec struct {
	Files []fileSpec `json:"files"`
	Roots []rootSpec `json:"roots"`
}

type fileDesc struct {
	root   string     // hex
	trie   []string   // hex, sorted
	hashes [][]string // data chunk lists per file entry
	pieces []string
	uniq   []string // data chunks in first-occurrence order (the oracle's own computation)
	need   []string // chunks the local traversal of the root reads (sorted)
	rcv    bool     // a receiver can walk the root from the pyramid alone
}

type universe struct {
	spec  uniSpec
	files []*fileDesc
	data  map[string][]byte // hex -> chunk data (span + payload) of every chunk of every root + strays
	ids   map[string]int    // hex -> interned id (rank in hex order, from 1); "" (zero address) -> 0
	addrs []string          // id -> hex
	self  string
	peers []string
	stray []string // valid chunks that belong to no file
}

func content(f fileSpec) []byte {
	var out []byte
	for _, t := range f.Blocks {
		b := bytes.Repeat([]byte{byte(t)}, boson.ChunkSize)
		copy(b, []byte(fmt.Sprintf("blk%03d", t)))
		out = append(out, b...)
	}
	out = append(out, bytes.Repeat([]byte{byte(f.TailTag)}, f.Tail)...)
	return out
}

func pipeFactory(s storage.Putter, mode storage.ModePut) func() pipeline.Interface {
	return func() pipeline.Interface { return builder.NewPipelineBuilder(context.Background(), s, mode, false) }
}

func fixedAddr(tag byte, i int) string {
	b := bytes.Repeat([]byte{tag}, 32)
	b[31] = byte(i)
	return fmt.Sprintf("%x", b)
}

var uniCache = map[string]*universe{}

func buildUniverse(spec uniSpec) *universe {
	keyb, _ := json.Marshal(spec)
	if u, ok := uniCache[string(keyb)]; ok {
		return u
	}
	ctx := context.Background()
	st := smock.NewStorer()
	var refs []boson.Address
	for _, f := range spec.Files {
		pipe := builder.NewPipelineBuilder(ctx, st, storage.ModePutUpload, false)
		fr, err := builder.FeedPipeline(ctx, pipe, bytes.NewReader(content(f)))
		if err != nil {
			panic(err)
		}
		refs = append(refs, fr)
	}
	u := &universe{spec: spec, data: map[string][]byte{}, ids: map[string]int{}}
	tr := traversal.New(st)
	seenRoot := map[string]bool{}
	for _, rs := range spec.Roots {
		var root boson.Address
		switch rs.Kind {
		case "raw":
			root = refs[rs.Files[0]]
		case "file":
			ls := loadsave.New(st, pipeFactory(st, storage.ModePutUpload))
			m, err := manifest.NewDefaultManifest(ls, false)
			if err != nil {
				panic(err)
			}
			if err := m.Add(ctx, manifest.RootPath, manifest.NewEntry(boson.ZeroAddress, map[string]string{manifest.WebsiteIndexDocumentSuffixKey: rs.Name})); err != nil {
				panic(err)
			}
			if err := m.Add(ctx, rs.Name, manifest.NewEntry(refs[rs.Files[0]], map[string]string{manifest.EntryMetadataFilenameKey: rs.Name})); err != nil {
				panic(err)
			}
			var err2 error
			if root, err2 = m.Store(ctx); err2 != nil {
				panic(err2)
			}
		case "dir":
			ls := loadsave.New(st, pipeFactory(st, storage.ModePutUpload))
			m, err := manifest.NewDefaultManifest(ls, false)
			if err != nil {
				panic(err)
			}
			if err := m.Add(ctx, manifest.RootPath, manifest.NewEntry(boson.ZeroAddress, map[string]string{manifest.WebsiteIndexDocumentSuffixKey: "index.html"})); err != nil {
				panic(err)
			}
			for i, fi := range rs.Files {
				name := fmt.Sprintf("%s/d%d/f%02d.bin", rs.Name, i%3, i)
				if err := m.Add(ctx, name, manifest.NewEntry(refs[fi], map[string]string{manifest.EntryMetadataFilenameKey: name})); err != nil {
					panic(err)
				}
			}
			var err2 error
			if root, err2 = m.Store(ctx); err2 != nil {
				panic(err2)
			}
		default:
			panic("root kind " + rs.Kind)
		}
		if seenRoot[root.String()] {
			continue // two specs with the same reference: one entry
		}
		seenRoot[root.String()] = true
		pyr, err := tr.GetPyramid(ctx, root)
		if err != nil {
			panic(err)
		}
		hs, _, err := tr.GetChunkHashes(ctx, root, nil)
		if err != nil {
			panic(err)
		}
		// the receiving side of a pyramid exchange: which single-chunk pieces it reports, what it stores
		rcv := smock.NewStorer()
		cp := map[string][]byte{}
		for k, v := range pyr {
			cp[k] = v
		}
		hs2, pieces, rerr := traversal.New(rcv).GetChunkHashes(ctx, root, cp)
		fd := &fileDesc{root: root.String(), rcv: rerr == nil}
		for k, v := range pyr {
			fd.trie = append(fd.trie, k)
			u.data[k] = v
			a, _ := boson.ParseHexAddress(k)
			if ok, _ := rcv.Has(ctx, storage.ModeHasChunk, a); !ok && fd.rcv {
				panic("traversal abstraction: pyramid entry " + k + " not stored by the receiving GetChunkHashes")
			}
		}
		sort.Strings(fd.trie)
		seen := map[string]bool{}
		for fi, l := range hs {
			var hl []string
			for ci, c := range l {
				a := boson.NewAddress(c)
				if fd.rcv && !bytes.Equal(hs2[fi][ci], c) {
					panic("traversal abstraction: uploading and receiving walks disagree")
				}
				hl = append(hl, a.String())
				ch, err := st.Get(ctx, storage.ModeGetLookup, a)
				if err != nil {
					panic(err)
				}
				u.data[a.String()] = ch.Data()
				if !seen[a.String()] {
					seen[a.String()] = true
					fd.uniq = append(fd.uniq, a.String())
				}
			}
			fd.hashes = append(fd.hashes, hl)
		}
		// which chunks the local walk needs: found by leaving one chunk out at a time
		{
			all := u.allOfDesc(fd)
			part := newSetStore()
			for _, k := range all {
				_, _ = part.Put(ctx, storage.ModePutUpload, boson.NewChunk(boson.MustParseHexAddress(k), u.data[k]))
			}
			ptr := traversal.New(part)
			for i, leave := range all {
				la := boson.MustParseHexAddress(leave)
				_ = part.Set(ctx, storage.ModeSetRemove, la)
				_, _, e2 := ptr.GetChunkHashes(ctx, root, nil)
				if i%4 == 0 {
					if _, e1 := ptr.GetPyramid(ctx, root); (e1 == nil) != (e2 == nil) {
						panic("traversal abstraction: GetPyramid and GetChunkHashes differ on a partial store")
					}
				}
				if e2 != nil {
					fd.need = append(fd.need, leave)
				}
				_, _ = part.Put(ctx, storage.ModePutUpload, boson.NewChunk(la, u.data[leave]))
			}
			inTrie := map[string]bool{}
			for _, k := range fd.trie {
				inTrie[k] = true
			}
			nn := map[string]bool{}
			for _, k := range fd.need {
				nn[k] = true
			}
			for _, k := range fd.trie {
				if !nn[k] {
					panic("traversal abstraction: a pyramid entry is not needed by the local walk")
				}
			}
			// well-formedness the theorems assume of a universe (wf_universe in Coq)
			if fd.rcv {
				for _, k := range fd.need {
					if !inTrie[k] {
						panic("traversal abstraction: receivable root whose local walk reads a non-pyramid chunk")
					}
				}
			}
		}
		for _, p := range pieces {
			ph := boson.NewAddress(p).String()
			if _, ok := pyr[ph]; !ok {
				panic("traversal abstraction: a piece is not a pyramid entry")
			}
			fd.pieces = append(fd.pieces, ph)
		}
		u.files = append(u.files, fd)
	}
	// stray chunks, self, peers
	for i := 0; i < 2; i++ {
		pipe := builder.NewPipelineBuilder(ctx, st, storage.ModePutUpload, false)
		fr, err := builder.FeedPipeline(ctx, pipe, bytes.NewReader([]byte(fmt.Sprintf("stray chunk %d", i))))
		if err != nil {
			panic(err)
		}
		ch, _ := st.Get(ctx, storage.ModeGetLookup, fr)
		u.data[fr.String()] = ch.Data()
		u.stray = append(u.stray, fr.String())
	}
	u.self = fixedAddr(0x5e, 0)
	for i := 1; i <= 3; i++ {
		u.peers = append(u.peers, fixedAddr(0xa0+byte(i)*0x10, i))
	}
	all := map[string]bool{u.self: true}
	for _, p := range u.peers {
		all[p] = true
	}
	for k := range u.data {
		all[k] = true
	}
	for k := range all {
		u.addrs = append(u.addrs, k)
	}
	sort.Strings(u.addrs)
	u.addrs = append([]string{""}, u.addrs...)
	for i, k := range u.addrs {
		u.ids[k] = i
	}
	uniCache[string(keyb)] = u
	return u
}

func (u *universe) addr(id int) boson.Address {
	if id <= 0 || id >= len(u.addrs) {
		return boson.ZeroAddress
	}
	return boson.MustParseHexAddress(u.addrs[id])
}

func (u *universe) file(rootHex string) *fileDesc {
	for _, f := range u.files {
		if f.root == rootHex {
			return f
		}
	}
	return nil
}

func (u *universe) idList(hs []string) []uint64 {
	out := make([]uint64, len(hs))
	for i, h := range hs {
		out[i] = uint64(u.ids[h])
	}
	return out
}

// chunks exclusive to root f: in its trie or data, and in no other file of the universe.
func (u *universe) exclusive(f *fileDesc) []string {
	other := map[string]bool{}
	for _, g := range u.files {
		if g == f {
			continue
		}
		for _, k := range g.trie {
			other[k] = true
		}
		for _, k := range g.uniq {
			other[k] = true
		}
	}
	set := map[string]bool{}
	for _, k := range append(append([]string{}, f.trie...), f.uniq...) {
		if !other[k] {
			set[k] = true
		}
	}
	var out []string
	for k := range set {
		out = append(out, k)
	}
	sort.Strings(out)
	return out
}

func (u *universe) allOfDesc(f *fileDesc) []string { return u.allOf(f) }

func (u *universe) allOf(f *fileDesc) []string {
	set := map[string]bool{}
	for _, k := range append(append([]string{}, f.trie...), f.uniq...) {
		set[k] = true
	}
	var out []string
	for k := range set {
		out = append(out, k)
	}
	sort.Strings(out)
	return out
}
