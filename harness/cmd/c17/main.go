// C17 harness: chunk availability records never overclaim.
//
// Drives the real chunkinfo.ChunkInfo + netstore.Store (+ real traversal, real leveldb state
// store) through histories of: chunks being stored, uploads (the API handler's registration
// loop), netstore reads under a file context (local hits of data / intermediate / manifest /
// foreign chunks, misses served by a retrieval stub), OnChunkRetrieved / OnChunkTransferred,
// pyramid responses, discover responses, restart from the state store, DelFile, DelDiscover.
//
// Oracle (independent of the model, API getters + state store + store.Has only):
//   - every bit set in the node's own presence vector (in memory and persisted) denotes a data
//     chunk that is stored;
//   - isDownload implies every data chunk is stored;
//   - after a successful DelFile no getter and no state-store key mentions the root.
//
// Correspondence: after every call the result class and a checksum of the canonical dump of
// all tables (hook VerifDumpTables), the state store and the chunk store; the final dump in full.
package main

import (
	"context"
	"encoding/json"
	"fmt"
	"os"
	"strings"
	"time"

	"github.com/gauss-project/aurorafs/pkg/boson"
	"github.com/gauss-project/aurorafs/pkg/chunkinfo"
	"github.com/gauss-project/aurorafs/pkg/sctx"
	"github.com/gauss-project/aurorafs/pkg/storage"
	"verifharness/hx"
)

// jop: one call. Addresses are interned ids of the case's universe (0 = the zero address).
type jop struct {
	K    string `json:"k"`           // put upload get retrieved transferred pyramid discover reinit del deldiscover
	R    int    `json:"r,omitempty"` // root
	C    int    `json:"c,omitempty"` // chunk
	O    int    `json:"o,omitempty"` // overlay: source of a retrieval / peer / transfer receiver
	T    int    `json:"t,omitempty"` // target of a transfer
	Net  bool   `json:"net,omitempty"`
	L    []int  `json:"l,omitempty"` // chunks: put set / chunks the delete closure removes / pyramid entries withheld
	B    []byte `json:"b,omitempty"` // discover vector
	Fail bool   `json:"fail,omitempty"`
}

type jcase struct {
	Note string  `json:"note,omitempty"`
	Uni  uniSpec `json:"uni"`
	Ops  []jop   `json:"ops"`
}

var debug = os.Getenv("VERIF_C17_DEBUG") != ""

const (
	clsOK       = 0
	clsErr      = 1
	clsNotFound = 2
	clsPanic    = 3
	clsHang     = 4
)

func (w *world) isData(root, cid int) bool {
	f := w.uni.file(w.uni.addrs[clamp(root, len(w.uni.addrs))])
	if f == nil {
		return false
	}
	for _, c := range f.uniq {
		if w.uni.ids[c] == cid {
			return true
		}
	}
	return false
}

func clamp(i, n int) int {
	if i < 0 || i >= n {
		return 0
	}
	return i
}

// exec runs one op on the implementation and returns its result class.
func (w *world) exec(op jop) int {
	u := w.uni
	ctx := context.Background()
	cls := clsOK
	errc := func(err error) {
		if err != nil {
			cls = clsErr
		}
	}
	w.netOK = op.Net
	w.src = boson.ZeroAddress
	run := func() {
		switch op.K {
		case "put":
			for _, id := range op.L {
				a := u.addr(id)
				if d, ok := u.data[a.String()]; ok {
					_, _ = w.store.Put(ctx, storage.ModePutUpload, boson.NewChunk(a, d))
				}
			}
		case "upload":
			// the pipeline has stored every chunk; then the handler's registration loop (api/aurora.go)
			root := u.addr(op.R)
			if f := u.file(root.String()); f != nil {
				for _, k := range u.allOf(f) {
					_, _ = w.store.Put(ctx, storage.ModePutUpload, boson.NewChunk(boson.MustParseHexAddress(k), u.data[k]))
				}
			}
			dataChunks, _, err := w.trav.GetChunkHashes(ctx, root, nil)
			if err != nil {
				cls = clsErr
				return
			}
			for _, li := range dataChunks {
				for _, b := range li {
					if err := w.ci.OnChunkRetrieved(boson.NewAddress(b), root, w.self); err != nil {
						cls = clsErr
						return
					}
				}
			}
		case "get":
			c := ctx
			if op.R != 0 {
				c = sctx.SetRootHash(ctx, u.addr(op.R))
			}
			w.src = u.addr(op.O)
			_, err := w.ns.Get(c, storage.ModeGetRequest, u.addr(op.C))
			if err != nil {
				if err == storage.ErrNotFound {
					cls = clsNotFound
				} else {
					cls = clsErr
				}
			}
		case "retrieved":
			errc(w.ci.OnChunkRetrieved(u.addr(op.C), u.addr(op.R), u.addr(op.O)))
		case "transferred":
			errc(w.ci.OnChunkTransferred(u.addr(op.C), u.addr(op.R), u.addr(op.O), u.addr(op.T)))
		case "pyramid":
			root := u.addr(op.R)
			var hs, cs [][]byte
			if f := u.file(root.String()); f != nil {
				skip := map[int]bool{}
				for _, id := range op.L {
					skip[id] = true
				}
				for _, k := range f.trie {
					if skip[u.ids[k]] {
						continue
					}
					hs = append(hs, boson.MustParseHexAddress(k).Bytes())
					cs = append(cs, u.data[k])
				}
			}
			errc(w.ci.VerifOnChunkPyramidResp(ctx, root, u.addr(op.O), hs, cs))
		case "discover":
			o := u.addr(op.O)
			w.ci.VerifOnFindChunkInfo(ctx, u.addr(op.R), o, map[string][]byte{o.String(): append([]byte{}, op.B...)})
		case "reinit":
			errc(w.newNode())
		case "del":
			del := func() error {
				if op.Fail {
					return errStub
				}
				for _, id := range op.L {
					_ = w.store.Set(ctx, storage.ModeSetRemove, u.addr(id))
				}
				return nil
			}
			errc(w.ci.DelFile(u.addr(op.R), del))
		case "deldiscover":
			w.ci.DelDiscover(u.addr(op.R))
		default:
			panic("op kind " + op.K)
		}
	}
	var panicked bool
	done := hx.WithTimeout(30*time.Second, func() { panicked, _ = hx.Guard(run) })
	if !done {
		return clsHang
	}
	if panicked {
		return clsPanic
	}
	return cls
}

// ---------------------------------------------------------------- oracle

func bitSet(b []byte, i int) bool { return i/8 < len(b) && b[i/8]&(1<<uint(i%8)) != 0 }

type oracle struct {
	run  *hx.Run
	done bool // one report per case
}

func (o *oracle) violate(sig, detail string, jc jcase, impl, want interface{}) {
	if o.done {
		return
	}
	o.done = true
	o.run.Violate(hx.Violation{Sig: sig, Detail: detail, Case: jc, Impl: impl, Want: want})
}

// cause: the kind of the call after which the state is examined, refined by what the call named.
func cause(w *world, op jop) string {
	c := op.K
	switch op.K {
	case "get", "retrieved", "transferred":
		if !w.isData(op.R, op.C) {
			c += "-nondata"
		}
	}
	return c
}

func (o *oracle) check(w *world, jc jcase, upto int, op jop, cls int) {
	u := w.uni
	n := 0
	selfHex := u.self
	for _, f := range u.files {
		root := boson.MustParseHexAddress(f.root)
		// the record the node keeps (and advertises) for itself
		for _, ov := range w.ci.GetChunkInfoServerOverlays(root) {
			if ov.Overlay != selfHex {
				continue
			}
			n++
			for i := 0; i < ov.Bit.Len; i++ {
				if !bitSet(ov.Bit.B, i) {
					continue
				}
				if i >= len(f.uniq) {
					o.violate("overclaim:memory:bit-beyond-file:"+cause(w, op), fmt.Sprintf("after op %d (%s): own vector of root %s has bit %d set, the file has %d data chunks", upto, op.K, f.root[:8], i, len(f.uniq)), jc, ov.Bit, len(f.uniq))
				} else if !w.store.has(f.uniq[i]) {
					o.violate("overclaim:memory:chunk-not-stored:"+cause(w, op), fmt.Sprintf("after op %d (%s): own vector of root %s marks data chunk %d (%s) present, it is not stored", upto, op.K, f.root[:8], i, f.uniq[i][:8]), jc, ov.Bit, "bit clear or chunk stored")
				}
			}
		}
		// the persisted copy
		var bv chunkinfo.BitVector
		if err := w.state.Get("chunk-"+f.root+"-"+selfHex, &bv); err == nil {
			n++
			for i := 0; i < bv.Len; i++ {
				if bitSet(bv.B, i) && (i >= len(f.uniq) || !w.store.has(f.uniq[i])) {
					o.violate("overclaim:persisted:chunk-not-stored:"+cause(w, op), fmt.Sprintf("after op %d (%s): persisted own vector of root %s marks data chunk %d present, it is not stored", upto, op.K, f.root[:8], i), jc, bv, "bit clear or chunk stored")
				}
			}
		}
		// fully-downloaded report
		if w.ci.VerifIsDownload(root) {
			n++
			for i, c := range f.uniq {
				if !w.store.has(c) {
					o.violate("download-flag:chunk-not-stored:"+cause(w, op), fmt.Sprintf("after op %d (%s): root %s reported fully downloaded, data chunk %d (%s) is not stored", upto, op.K, f.root[:8], i, c[:8]), jc, true, false)
				}
			}
		}
	}
	// deletion leaves nothing
	if op.K == "del" && cls == clsOK {
		root := u.addr(op.R)
		rh := root.String()
		n++
		if l := w.ci.GetChunkInfoServerOverlays(root); len(l) > 0 {
			o.violate("delete:record-left:presence", "presence record after DelFile of "+rh[:8], jc, l, "none")
		}
		if l := w.ci.GetChunkInfoDiscoverOverlays(root); len(l) > 0 {
			o.violate("delete:record-left:discover", "discover record after DelFile of "+rh[:8], jc, l, "none")
		}
		if s := w.ci.GetChunkInfoSource(root); s.PyramidSource != "" || len(s.ChunkSource) > 0 {
			o.violate("delete:record-left:source", "source record after DelFile of "+rh[:8], jc, s, "none")
		}
		_, roots := w.ci.GetFileList(w.self)
		for _, r := range roots {
			if r.Equal(root) {
				o.violate("delete:record-left:filelist", "file list still has "+rh[:8], jc, rh, "absent")
			}
		}
		for _, e := range w.kvEntries() {
			if e.root == rh {
				o.violate("delete:record-left:persisted:"+strings.TrimSuffix(prefixes[e.tab], "-"), "state store key of table "+prefixes[e.tab]+" after DelFile of "+rh[:8], jc, prefixes[e.tab]+e.root+"-"+e.overlay, "absent")
			}
		}
	}
	o.run.OracleChecked(n)
}

// ---------------------------------------------------------------- Coq terms

func coqIDs(ids []uint64) string {
	if len(ids) == 0 {
		return "[]"
	}
	el := make([]string, len(ids))
	for i, v := range ids {
		el[i] = fmt.Sprintf("%d", v)
	}
	return "[" + strings.Join(el, ";") + "]"
}

func coqUniverse(u *universe) string {
	var fs []string
	for _, f := range u.files {
		var hs []string
		for _, l := range f.hashes {
			hs = append(hs, coqIDs(u.idList(l)))
		}
		hl := "[]"
		if len(hs) > 0 {
			hl = "[" + strings.Join(hs, ";") + "]"
		}
		fs = append(fs, fmt.Sprintf("(%d, mkf %s %s %s %s %s)", u.ids[f.root], coqIDs(u.idList(f.trie)), hl, coqIDs(u.idList(f.pieces)), coqIDs(u.idList(f.need)), hx.CoqBool(f.rcv)))
	}
	if len(fs) == 0 {
		return "[]"
	}
	return "[" + strings.Join(fs, ";") + "]"
}

func coqInts(l []int) string {
	v := make([]uint64, len(l))
	for i, x := range l {
		v[i] = uint64(x)
	}
	return coqIDs(v)
}

func coqOp(op jop) string {
	switch op.K {
	case "put":
		return "OPut " + coqInts(op.L)
	case "upload":
		return fmt.Sprintf("OUpload %d", op.R)
	case "get":
		return fmt.Sprintf("OGet %d %d %d %s", op.R, op.C, op.O, hx.CoqBool(op.Net))
	case "retrieved":
		return fmt.Sprintf("ORetrieved %d %d %d %s", op.C, op.R, op.O, hx.CoqBool(op.Net))
	case "transferred":
		return fmt.Sprintf("OTransferred %d %d %d %d %s", op.C, op.R, op.O, op.T, hx.CoqBool(op.Net))
	case "pyramid":
		return fmt.Sprintf("OPyramid %d %d %s", op.R, op.O, coqInts(op.L))
	case "discover":
		b := make([]uint64, len(op.B))
		for i, x := range op.B {
			b[i] = uint64(x)
		}
		return fmt.Sprintf("ODiscover %d %d %s", op.R, op.O, coqIDs(b))
	case "reinit":
		return "OReinit"
	case "del":
		return fmt.Sprintf("ODel %d %s %s", op.R, coqInts(op.L), hx.CoqBool(!op.Fail))
	case "deldiscover":
		return fmt.Sprintf("ODelDiscover %d", op.R)
	}
	panic("op kind " + op.K)
}

// ---------------------------------------------------------------- one case

func runCase(run *hx.Run, jc jcase) {
	u := buildUniverse(jc.Uni)
	w := newWorld(u)
	orc := &oracle{run: run}
	var ops, obs []string
	nontrivial := false
	for i, op := range jc.Ops {
		cls := w.exec(op)
		st := w.serialise()
		ops = append(ops, coqOp(op))
		obs = append(obs, fmt.Sprintf("(%d,%d)", cls, checksum(st)))
		if debug {
			fmt.Fprintf(os.Stderr, "op %d %s -> class %d\n  %v\n", i, coqOp(op), cls, st)
		}
		run.Hist("op=" + op.K)
		run.Hist(fmt.Sprintf("op=%s.class=%d", op.K, cls))
		if cls == clsHang {
			orc.violate("hang:"+op.K, "call did not return", jc, nil, nil)
			break
		}
		orc.check(w, jc, i, op, cls)
		if i == len(jc.Ops)-1 {
			t := w.ci.VerifDumpTables()
			for _, m := range t.Presence {
				for o, b := range m {
					if o == u.self {
						for _, x := range b.B {
							if x != 0 {
								nontrivial = true
							}
						}
					}
				}
			}
			coq := fmt.Sprintf("(Case %s %d [%s] [%s] %s)%%N", coqUniverse(u), u.ids[u.self], strings.Join(ops, ";"), strings.Join(obs, ";"), coqIDs(st))
			kb, _ := json.Marshal(jc)
			run.AddCase(coq, jc, string(kb), nontrivial)
		}
	}
	run.Hist(fmt.Sprintf("len=%d", len(jc.Ops)/5*5))
}

// ---------------------------------------------------------------- generators

func tiny(tag int) fileSpec { return fileSpec{Tail: 5 + tag%40, TailTag: tag} }

// universes: a pool of specs, from single-chunk raw files to directories with more than 8 data
// chunks (two-byte vectors), repeated chunks inside a file and chunks shared between roots.
func universePool(r *hx.Rand, thorough bool) []uniSpec {
	pool := []uniSpec{
		// 0: one single-file upload, two data chunks + intermediate root
		{Files: []fileSpec{{Blocks: []int{1}, Tail: 100, TailTag: 7}}, Roots: []rootSpec{{Kind: "file", Files: []int{0}, Name: "a.bin"}}},
		// 1: directory of 5 tiny files (one repeated) and the same tiny file as a raw root
		{Files: []fileSpec{tiny(1), tiny(2), tiny(3), tiny(1), tiny(4)}, Roots: []rootSpec{{Kind: "dir", Files: []int{0, 1, 2, 3, 4}, Name: "site"}, {Kind: "raw", Files: []int{1}}}},
		// 2: 10 tiny files: two-byte vector; plus a second directory sharing three of them
		{Files: []fileSpec{tiny(10), tiny(11), tiny(12), tiny(13), tiny(14), tiny(15), tiny(16), tiny(17), tiny(18), tiny(19), tiny(20)},
			Roots: []rootSpec{{Kind: "dir", Files: []int{0, 1, 2, 3, 4, 5, 6, 7, 8, 9}, Name: "big"}, {Kind: "dir", Files: []int{2, 10, 5, 7}, Name: "other"}}},
		// 3: raw three-chunk file with a repeated block, the same content under a manifest, a one-byte file
		{Files: []fileSpec{{Blocks: []int{3, 4, 3}, Tail: 9, TailTag: 1}, {Tail: 1}}, Roots: []rootSpec{{Kind: "raw", Files: []int{0}}, {Kind: "file", Files: []int{0}, Name: "rep.bin"}, {Kind: "file", Files: []int{1}, Name: "one-byte"}}},
		// 4: a file of exactly one full chunk, raw and in a directory next to a one-chunk file
		{Files: []fileSpec{tiny(30), {Blocks: []int{9}}}, Roots: []rootSpec{{Kind: "raw", Files: []int{1}}, {Kind: "dir", Files: []int{0, 1}, Name: "mix"}, {Kind: "file", Files: []int{0}, Name: "one"}}},
		// 5: exactly eight and exactly nine data chunks
		{Files: []fileSpec{tiny(40), tiny(41), tiny(42), tiny(43), tiny(44), tiny(45), tiny(46), tiny(47), tiny(48)},
			Roots: []rootSpec{{Kind: "dir", Files: []int{0, 1, 2, 3, 4, 5, 6, 7}, Name: "eight"}, {Kind: "dir", Files: []int{0, 1, 2, 3, 4, 5, 6, 7, 8}, Name: "nine"}}},
	}
	n := 4
	if thorough {
		n = 14
	}
	for i := 0; i < n; i++ {
		var s uniSpec
		nf := 1 + r.Intn(7)
		for j := 0; j < nf; j++ {
			switch r.Intn(6) {
			case 0:
				nb := 1 + r.Intn(2)
				var bl []int
				for k := 0; k < nb; k++ {
					bl = append(bl, 50+r.Intn(3))
				}
				s.Files = append(s.Files, fileSpec{Blocks: bl, Tail: r.Intn(3) * 17, TailTag: r.Intn(4)})
			default:
				s.Files = append(s.Files, tiny(60+r.Intn(9)))
			}
		}
		nr := 1 + r.Intn(3)
		for j := 0; j < nr; j++ {
			switch r.Intn(4) {
			case 0:
				s.Roots = append(s.Roots, rootSpec{Kind: "raw", Files: []int{r.Intn(nf)}})
			case 1:
				s.Roots = append(s.Roots, rootSpec{Kind: "file", Files: []int{r.Intn(nf)}, Name: fmt.Sprintf("f%d", r.Intn(2))})
			default:
				k := 1 + r.Intn(nf)
				var fl []int
				for x := 0; x < k; x++ {
					fl = append(fl, r.Intn(nf))
				}
				s.Roots = append(s.Roots, rootSpec{Kind: "dir", Files: fl, Name: fmt.Sprintf("d%d", j)})
			}
		}
		pool = append(pool, s)
	}
	return pool
}

type gen struct {
	r *hx.Rand
	u *universe
}

func (g *gen) root() int {
	// mostly a root of the universe; sometimes an address under which no chunk exists
	switch g.r.Intn(12) {
	case 0:
		return g.u.ids[g.u.peers[2]]
	default:
		return g.u.ids[g.u.files[g.r.Intn(len(g.u.files))].root]
	}
}
func (g *gen) fileOf(root int) *fileDesc { return g.u.file(g.u.addrs[root]) }
func (g *gen) pick(l []string) int       { return g.u.ids[l[g.r.Intn(len(l))]] }
func (g *gen) chunkFor(root int) int {
	f := g.fileOf(root)
	if f == nil {
		return g.pick(g.u.stray)
	}
	switch g.r.Intn(10) {
	case 0, 1, 2:
		return g.pick(f.trie) // root, manifest node, intermediate chunk, or a single-chunk file
	case 3:
		return g.pick(g.u.stray)
	case 4:
		o := g.u.files[g.r.Intn(len(g.u.files))]
		return g.pick(g.u.allOf(o))
	default:
		if len(f.uniq) == 0 {
			return g.pick(f.trie)
		}
		return g.pick(f.uniq)
	}
}
func (g *gen) peer() int { return g.u.ids[g.u.peers[g.r.Intn(len(g.u.peers))]] }
func (g *gen) subset(l []string) []int {
	var out []int
	mode := g.r.Intn(4)
	for _, k := range l {
		if mode == 0 || g.r.Bool() {
			out = append(out, g.u.ids[k])
		}
	}
	return out
}

func (g *gen) op() jop {
	r := g.r
	root := g.root()
	f := g.fileOf(root)
	switch k := r.Intn(100); {
	case k < 14:
		if f == nil {
			return jop{K: "put", L: g.subset(g.u.stray)}
		}
		switch r.Intn(4) {
		case 0:
			return jop{K: "put", L: g.subset(f.trie)}
		case 1:
			return jop{K: "put", L: g.subset(f.uniq)}
		case 2:
			return jop{K: "put", L: g.subset(g.u.allOf(f))}
		default:
			var l []int
			for _, k := range f.trie {
				l = append(l, g.u.ids[k])
			}
			return jop{K: "put", L: l}
		}
	case k < 24:
		return jop{K: "upload", R: root}
	case k < 59:
		op := jop{K: "get", R: root, C: g.chunkFor(root), Net: r.Chance(1, 3)}
		if r.Chance(1, 8) {
			op.R = 0
		}
		switch r.Intn(4) {
		case 0:
		case 1:
			op.O = g.u.ids[g.u.self]
		default:
			op.O = g.peer()
		}
		return op
	case k < 66:
		op := jop{K: "transferred", R: root, C: g.chunkFor(root), O: g.peer(), Net: r.Chance(1, 3)}
		switch r.Intn(3) {
		case 0:
		case 1:
			op.T = g.u.ids[g.u.self]
		default:
			op.T = g.peer()
		}
		return op
	case k < 76:
		op := jop{K: "pyramid", R: root, O: g.peer()}
		if f != nil && r.Chance(1, 5) {
			op.L = []int{g.pick(f.trie)}
		}
		return op
	case k < 84:
		n := 1
		if f != nil {
			n = (len(f.uniq) + 7) / 8
		}
		switch r.Intn(8) {
		case 0:
			n++
		case 1:
			n--
		}
		if n < 0 {
			n = 0
		}
		b := r.Bytes(n)
		if r.Chance(1, 4) {
			for i := range b {
				b[i] = 0xff
			}
		}
		return jop{K: "discover", R: root, O: g.peer(), B: b}
	case k < 90:
		return jop{K: "reinit"}
	case k < 98:
		op := jop{K: "del", R: root, Fail: r.Chance(1, 8)}
		if f != nil && !op.Fail {
			ex := g.u.exclusive(f)
			switch r.Intn(4) {
			case 0:
				op.L = g.subset(ex)
			default:
				for _, k := range ex {
					op.L = append(op.L, g.u.ids[k])
				}
			}
		}
		return op
	default:
		return jop{K: "deldiscover", R: root}
	}
}

// corpus: fixed cases run on every seed.
func corpus(pool []uniSpec) []jcase {
	var out []jcase
	{
		// F-cidsort-default: the pyramid of a two-chunk file is known (peer exchange), none of its
		// data chunks is stored; a local read of the intermediate (file root) chunk under the file
		// context must not mark data chunk 0 present.
		u := buildUniverse(pool[0])
		f := u.files[0]
		root := u.ids[f.root]
		var nondata []int
		for _, k := range f.trie {
			if k != f.root {
				isd := false
				for _, d := range f.uniq {
					if d == k {
						isd = true
					}
				}
				if !isd {
					nondata = append(nondata, u.ids[k])
				}
			}
		}
		ops := []jop{{K: "pyramid", R: root, O: u.ids[u.peers[0]]}}
		for _, c := range nondata {
			ops = append(ops, jop{K: "get", R: root, C: c})
		}
		ops = append(ops, jop{K: "reinit"})
		out = append(out, jcase{Note: "F-cidsort-default: local read of non-data chunks under the file context", Uni: pool[0], Ops: ops})
		// the same through a retrieval of a non-data chunk from a peer; the pyramid exchange happens
		// inside OnChunkRetrieved (unknown root, remote source)
		ops2 := []jop{{K: "put", L: []int{root}}}
		for _, c := range nondata {
			ops2 = append(ops2, jop{K: "get", R: root, C: c, O: u.ids[u.peers[1]], Net: true})
		}
		out = append(out, jcase{Note: "F-cidsort-default: retrieval of non-data chunks under the file context", Uni: pool[0], Ops: ops2})
	}
	{
		// single-chunk file inside a directory: root read, full upload, restart, delete
		u := buildUniverse(pool[1])
		f := u.files[0]
		root := u.ids[f.root]
		var ex []int
		for _, k := range u.exclusive(f) {
			ex = append(ex, u.ids[k])
		}
		out = append(out, jcase{Note: "upload, restart, delete", Uni: pool[1], Ops: []jop{
			{K: "upload", R: root}, {K: "discover", R: root, O: u.ids[u.peers[1]], B: []byte{0x0f}}, {K: "reinit"},
			{K: "get", R: root, C: u.ids[f.uniq[0]]}, {K: "del", R: root, L: ex}, {K: "reinit"}}})
	}
	return out
}

func main() {
	run := hx.Start("C17", "Aurora.C17.Corr",
		"histories (1..20 calls) over universes of real uploaded files (raw/manifest/directory roots, 0..11 data chunks, repeated and shared chunks): put/upload/netstore get under a file context (data, intermediate, manifest, foreign, stray chunks; local hit or retrieval stub)/OnChunkRetrieved/OnChunkTransferred/pyramid response/discover response/restart/DelFile/DelDiscover; non-trivial = the node's own presence vector has a bit set at the end; distinct by (universe, op list)")
	if run.Replay != "" {
		var jc jcase
		if err := run.ReadReplay(&jc); err != nil {
			panic(err)
		}
		runCase(run, jc)
		run.Finish()
		return
	}
	r := run.R
	pool := universePool(r.Fork(1), run.Thorough())
	for _, jc := range corpus(pool) {
		runCase(run, jc)
	}
	gr := r.Fork(2)
	n := run.N(150, 2500)
	for i := 0; i < n; i++ {
		spec := pool[gr.Intn(len(pool))]
		u := buildUniverse(spec)
		if len(u.files) == 0 {
			continue
		}
		g := &gen{r: gr, u: u}
		nops := 1 + gr.Intn(20)
		if gr.Chance(1, 4) {
			nops = 1 + gr.Intn(5)
		}
		jc := jcase{Uni: spec}
		for k := 0; k < nops; k++ {
			jc.Ops = append(jc.Ops, g.op())
		}
		runCase(run, jc)
	}
	run.Finish()
}
