// C40 harness: pkg/subscribe — real subPub (process goroutine, waiter goroutines) driven by
// subscribe / close / wake / publish histories over several keys and notifiers, including
// duplicate subscriptions and closes that happen before process has registered the
// subscription (paused prefix).  Independent oracle: the property statement on a reference
// "who is registered" table; correspondence: every Publish's Notify log and registry
// snapshots against the Coq model.
package main

import (
	"fmt"
	"runtime"
	"sort"
	"strings"
	"sync"
	"time"

	"github.com/gauss-project/aurorafs/pkg/subscribe"
	"verifharness/hx"
)

type jitem struct {
	Shape string `json:"shape"` // a: struct{Key string} | pa: pointer to it | b: struct{Key S} (Stringer) | c: no field Key | d: Key is an int | i: not a struct
	Param string `json:"param"`
	M     int    `json:"m"`
}

type jop struct {
	Op    string  `json:"op"` // sub close wake start pub puba snap
	Items []jitem `json:"items,omitempty"`
	N     int     `json:"n,omitempty"`
	NS    string  `json:"ns,omitempty"`
	Kind  string  `json:"kind,omitempty"`
	Param string  `json:"param,omitempty"`
	J     int     `json:"j,omitempty"` // wake: index among n's blocked waiters
	M     int     `json:"m,omitempty"`
}

type jcase struct {
	Paused bool  `json:"paused"`
	Ops    []jop `json:"ops"`
}

var run *hx.Run

// set when process failed to quiesce once: the remaining generated cases are skipped (each would wait 20 s)
var hungOnce bool

// ---------------------------------------------------------------- notifiers

type delivery struct {
	n   int
	key string
	m   int
}

type world struct {
	mu  sync.Mutex
	log []delivery
}

// notifier: Notify appends to the world's log. Err() returns one shared channel
// (like rpc.Subscription) or, in perWaiter mode, a fresh channel per call so that the
// harness can deliver "one sent value" to a waiter of its choice.
type notifier struct {
	w         *world
	id        int
	perWaiter bool
	shared    chan error
	mu        sync.Mutex
	chans     []chan error // perWaiter: one per Err() call, in call order
	closed    bool
}

// message shapes for PublishArray (the field looked up is "Key")
type strS struct{ str string }

func (k strS) String() string { return k.str }

type itemA struct {
	Key string
	ID  int
}
type itemB struct {
	Key strS
	ID  int
}
type itemC struct {
	Other string
	ID    int
}
type itemD struct {
	Key int
	ID  int
}

func mkItem(it jitem) interface{} {
	switch it.Shape {
	case "a":
		return itemA{it.Param, it.M}
	case "pa":
		return &itemA{it.Param, it.M}
	case "b":
		return itemB{strS{it.Param}, it.M}
	case "c":
		return itemC{it.Param, it.M}
	case "d":
		return itemD{len(it.Param), it.M}
	}
	return it.M
}

// the param PublishArray is documented to find: a string field, or one with a String method
func (it jitem) effParam() string {
	switch it.Shape {
	case "a", "pa", "b":
		return it.Param
	}
	return ""
}

func msgID(data interface{}) int {
	switch v := data.(type) {
	case int:
		return v
	case itemA:
		return v.ID
	case *itemA:
		return v.ID
	case itemB:
		return v.ID
	case itemC:
		return v.ID
	case itemD:
		return v.ID
	}
	return -1
}

func (n *notifier) Notify(key string, data interface{}) error {
	n.w.mu.Lock()
	n.w.log = append(n.w.log, delivery{n.id, key, msgID(data)})
	n.w.mu.Unlock()
	return nil
}

func (n *notifier) Err() <-chan error {
	if !n.perWaiter {
		return n.shared
	}
	n.mu.Lock()
	defer n.mu.Unlock()
	c := make(chan error)
	if n.closed {
		close(c)
	}
	n.chans = append(n.chans, c)
	return c
}

func (n *notifier) errCalls() int {
	n.mu.Lock()
	defer n.mu.Unlock()
	return len(n.chans)
}

// ---------------------------------------------------------------- driving one subPub

type pubsub interface {
	Subscribe(subscribe.INotifier, string, string, string) error
	Publish(string, string, string, interface{}) error
	PublishArray(string, string, string, []interface{}) error
	VerifSnapshot() map[string][]subscribe.INotifier
	VerifQueueLens() (int, int)
	VerifStart()
}

type waiter struct {
	n   int
	key string
	ch  chan error // perWaiter channel (nil for shared notifiers)
}

type driver struct {
	s        pubsub
	w        *world
	nots     map[int]*notifier
	why      string
	waiters  []waiter
	started  bool
	sentinel int
	hung     bool
}

const pollStep = 50 * time.Microsecond

func poll(cond func() bool) bool {
	// the other goroutines need a few scheduler turns, rarely more: yield first, sleep later
	for i := 0; i < 2000; i++ {
		if cond() {
			return true
		}
		runtime.Gosched()
	}
	deadline := time.Now().Add(20 * time.Second)
	for !cond() {
		if time.Now().After(deadline) {
			return false
		}
		time.Sleep(pollStep)
	}
	return true
}

// Goroutine accounting is COMPUTED, never re-measured per case (a measurement could catch a
// transient runtime goroutine, e.g. the finalizer goroutine while it runs): g0 goroutines
// existed when main started, every started subPub adds one process goroutine for ever, and the
// only other goroutines are the waiters that are still blocked.
var g0, processes int

func (d *driver) waitGoroutines() {
	want := g0 + processes + len(d.waiters)
	if !poll(func() bool { return runtime.NumGoroutine() == want }) {
		d.hung = true
		d.why = fmt.Sprintf("goroutines: %d, expected %d (= %d at start + %d process + %d blocked waiters)", runtime.NumGoroutine(), want, g0, processes, len(d.waiters))
	}
}

// barrier: every event queued so far has been handled by process.
// (1) all woken waiters have sent their event (goroutine count), (2) a sentinel
// subscription has been registered (subInfoChan is FIFO, process is sequential),
// (3) the sentinel's unsubscription has been handled (unsubInfoChan is FIFO).
func (d *driver) barrier() {
	d.waitGoroutines()
	if !d.started || d.hung {
		return
	}
	d.sentinel++
	sn := &notifier{w: d.w, id: -d.sentinel, shared: make(chan error)}
	// the sentinel is recognised by identity, not by its key, so that the barrier itself does
	// not depend on how keys are formed
	listed := func() bool {
		for _, l := range d.s.VerifSnapshot() {
			for _, in := range l {
				if in == subscribe.INotifier(sn) {
					return true
				}
			}
		}
		return false
	}
	_ = d.s.Subscribe(sn, "\x00sentinel", "s", fmt.Sprint(d.sentinel))
	if !poll(listed) {
		d.hung = true
		d.why = "a subscription queued after everything else was never registered"
		return
	}
	close(sn.shared)
	if !poll(func() bool { return !listed() }) {
		d.hung = true
		d.why = "an unsubscription queued after everything else was never handled"
		return
	}
	d.waitGoroutines()
}

func subKey(ns, kind, param string) string {
	if param != "" {
		return strings.Join([]string{ns, kind, param}, "_")
	}
	return ns + "_" + kind
}

func coqStr(s string) string { return hx.CoqBytes([]byte(s)) }

// ---------------------------------------------------------------- the property oracle (reference table)

type regKey struct {
	key string
	n   int
}

type oracle struct {
	active    map[regKey]int  // registrations of n under key whose subscription took effect, channel not fired
	uncertain map[regKey]bool // a SENT value reached a waiter of (key, n): outside the property's reading
	closedN   map[int]bool
	early     map[regKey]bool // closed while the subscription had not been registered yet (paused prefix)
	pending   []regKey        // paused prefix: subscriptions queued, not yet effective
	lastSeen  map[regKey]int  // last message id notified to n under key (publication order)
}

func exec(jc jcase) {
	w := &world{}
	d := &driver{w: w, nots: map[int]*notifier{}}
	if jc.Paused {
		d.s = subscribe.VerifNewPaused()
	} else {
		d.s = subscribe.NewSubPub()
		d.started = true
		processes++
	}
	or := &oracle{active: map[regKey]int{}, uncertain: map[regKey]bool{}, closedN: map[int]bool{}, early: map[regKey]bool{}, lastSeen: map[regKey]int{}}
	not := func(id int) *notifier {
		if n, ok := d.nots[id]; ok {
			return n
		}
		n := &notifier{w: w, id: id, perWaiter: id%2 == 1, shared: make(chan error)}
		d.nots[id] = n
		return n
	}
	violate := func(sig, detail string, impl, want interface{}) {
		run.Violate(hx.Violation{Sig: sig, Detail: detail, Case: jc, Impl: impl, Want: want})
	}

	var coq []string
	add := func(op, obs string) { coq = append(coq, hx.CoqApp("St", op, obs)) }
	pubs, subs, fires := 0, 0, 0
	dupSub, earlyClose := false, false

	for _, o := range jc.Ops {
		if d.hung {
			break
		}
		run.Hist("op." + o.Op)
		switch o.Op {
		case "sub":
			n := not(o.N)
			key := subKey(o.NS, o.Kind, o.Param)
			calls := n.errCalls()
			_ = d.s.Subscribe(n, o.NS, o.Kind, o.Param)
			wt := waiter{n: o.N, key: key}
			if n.perWaiter {
				// the waiter goroutine has evaluated Err(): its channel is the newest one
				if !poll(func() bool { return n.errCalls() == calls+1 }) {
					d.hung = true
					break
				}
				n.mu.Lock()
				wt.ch = n.chans[calls]
				n.mu.Unlock()
			}
			rk := regKey{key, o.N}
			if n.closed {
				// subscribing with an already closed channel: the waiter wakes at once, sends its
				// unsubscription and exits (the barrier waits for that): registered, then removed
				if !d.started {
					or.early[rk] = true
				}
			} else {
				d.waiters = append(d.waiters, wt)
				if or.active[rk] > 0 || contains(or.pending, rk) {
					dupSub = true
				}
				if d.started {
					or.active[rk]++
				} else {
					or.pending = append(or.pending, rk)
				}
			}
			subs++
			d.barrier()
			add(hx.CoqApp("HSub", hx.CoqN(uint64(o.N)), coqStr(o.NS), coqStr(o.Kind), coqStr(o.Param)), "ONone")
		case "close":
			n := not(o.N)
			if n.closed {
				continue
			}
			n.mu.Lock()
			n.closed = true
			n.mu.Unlock()
			if n.perWaiter {
				for _, wt := range d.waiters {
					if wt.n == o.N {
						close(wt.ch)
					}
				}
			} else {
				close(n.shared)
			}
			rest := d.waiters[:0]
			for _, wt := range d.waiters {
				if wt.n != o.N {
					rest = append(rest, wt)
				}
			}
			d.waiters = rest
			or.closedN[o.N] = true
			for rk := range or.active {
				if rk.n == o.N {
					delete(or.active, rk)
				}
			}
			for rk := range or.uncertain { // closing wakes every remaining waiter: certain again
				if rk.n == o.N {
					delete(or.uncertain, rk)
				}
			}
			keep := or.pending[:0]
			for _, rk := range or.pending {
				if rk.n == o.N {
					or.early[rk] = true
					earlyClose = true
				} else {
					keep = append(keep, rk)
				}
			}
			or.pending = keep
			fires++
			d.barrier()
			add(hx.CoqApp("HClose", hx.CoqN(uint64(o.N))), "ONone")
		case "wake":
			// o.J-th blocked waiter of notifier o.N (perWaiter notifiers only)
			idx, seen := -1, 0
			for i, wt := range d.waiters {
				if wt.n == o.N {
					if seen == o.J {
						idx = i
						break
					}
					seen++
				}
			}
			if idx < 0 || d.waiters[idx].ch == nil {
				continue
			}
			wt := d.waiters[idx]
			close(wt.ch) // only this waiter receives: the effect of one value sent on a shared channel
			d.waiters = append(d.waiters[:idx:idx], d.waiters[idx+1:]...)
			or.uncertain[regKey{wt.key, wt.n}] = true
			fires++
			d.barrier()
			add(hx.CoqApp("HWake", hx.CoqNat(idx)), "ONone")
		case "start":
			if d.started {
				continue
			}
			d.s.VerifStart()
			d.started = true
			processes++
			for _, rk := range or.pending {
				or.active[rk]++
			}
			or.pending = nil
			d.barrier()
			add("HStart", "ONone")
		case "pub":
			w.mu.Lock()
			w.log = nil
			w.mu.Unlock()
			_ = d.s.Publish(o.NS, o.Kind, o.Param, o.M)
			w.mu.Lock()
			log := append([]delivery{}, w.log...)
			w.mu.Unlock()
			pubs++
			el := make([]string, len(log))
			for i, dl := range log {
				el[i] = hx.CoqApp("D", hx.CoqN(uint64(dl.n)), coqStr(dl.key), hx.CoqN(uint64(dl.m)))
			}
			add(hx.CoqApp("HPub", coqStr(o.NS), coqStr(o.Kind), coqStr(o.Param), hx.CoqN(uint64(o.M))),
				hx.CoqApp("OLog", hx.CoqList(el, "dl")))
			if !d.started {
				break // nothing is registered before process runs; covered by the model
			}
			// ---- oracle: the property statement
			keys := []string{o.NS + "_" + o.Kind}
			if o.Param != "" {
				keys = append(keys, o.NS+"_"+o.Kind+"_"+o.Param)
			}
			got := map[regKey]int{}
			for _, dl := range log {
				rk := regKey{dl.key, dl.n}
				got[rk]++
				isKey := false
				for _, k := range keys {
					isKey = isKey || k == dl.key
				}
				if dl.m != o.M || !isKey {
					violate("delivery:foreign-message", fmt.Sprintf("notifier %d notified of %d under %q by Publish(%q,%q,%q,%d)", dl.n, dl.m, dl.key, o.NS, o.Kind, o.Param, o.M), dl.m, o.M)
				}
				if last, ok := or.lastSeen[rk]; ok && last > dl.m {
					violate("delivery:out-of-publication-order", fmt.Sprintf("notifier %d under %q got %d after %d", dl.n, dl.key, dl.m, last), dl.m, last)
				}
				or.lastSeen[rk] = dl.m
			}
			run.OracleChecked(1)
			for _, k := range keys {
				for rk, c := range or.active {
					if rk.key == k && c > 0 && !or.uncertain[rk] {
						run.OracleChecked(1)
						if got[rk] == 0 {
							violate("delivery:missed-by-registered-subscriber", fmt.Sprintf("notifier %d is registered under %q (%d times) and was not notified of message %d", rk.n, k, c, o.M), 0, c)
						}
					}
				}
			}
			for rk, c := range got {
				if or.uncertain[rk] {
					continue
				}
				if or.closedN[rk.n] {
					run.OracleChecked(1)
					sig := "silent-after-close:notified-after-unsubscription-handled"
					if or.early[rk] {
						sig = "silent-after-close:closed-before-registration-was-handled"
					}
					violate(sig, fmt.Sprintf("notifier %d, whose error channel is closed and whose unsubscriptions have all been handled, was notified %d time(s) of message %d under %q", rk.n, c, o.M, rk.key), c, 0)
				} else if or.active[rk] == 0 {
					violate("delivery:to-unsubscribed-notifier", fmt.Sprintf("notifier %d has no registration under %q and was notified of %d", rk.n, rk.key, o.M), c, 0)
				}
			}
		case "puba":
			w.mu.Lock()
			w.log = nil
			w.mu.Unlock()
			msgs := make([]interface{}, len(o.Items))
			cit := make([]string, len(o.Items))
			for i, it := range o.Items {
				msgs[i] = mkItem(it)
				cit[i] = hx.CoqApp("It", coqStr(it.effParam()), hx.CoqN(uint64(it.M)))
			}
			_ = d.s.PublishArray(o.NS, o.Kind, "Key", msgs)
			w.mu.Lock()
			log := append([]delivery{}, w.log...)
			w.mu.Unlock()
			pubs++
			el := make([]string, len(log))
			for i, dl := range log {
				el[i] = hx.CoqApp("D", hx.CoqN(uint64(dl.n)), coqStr(dl.key), hx.CoqN(uint64(dl.m)))
			}
			add(hx.CoqApp("HPubArr", coqStr(o.NS), coqStr(o.Kind), hx.CoqList(cit, "item")),
				hx.CoqApp("OLogArr", hx.CoqList(el, "dl")))
			if !d.started {
				break
			}
			// ---- oracle: per (key, notifier) the notified ids are >= 1 copies of the ids offered under that key
			all := o.NS + "_" + o.Kind
			offered := map[string][]int{}
			for _, it := range o.Items {
				offered[all] = append(offered[all], it.M)
				if p := it.effParam(); p != "" {
					offered[all+"_"+p] = append(offered[all+"_"+p], it.M)
				}
			}
			gotSeq := map[regKey][]int{}
			for _, dl := range log {
				rk := regKey{dl.key, dl.n}
				gotSeq[rk] = append(gotSeq[rk], dl.m)
				if dl.m > or.lastSeen[rk] {
					or.lastSeen[rk] = dl.m
				}
			}
			run.OracleChecked(1)
			for k, ids := range offered {
				for rk, c := range or.active {
					if rk.key == k && c > 0 && !or.uncertain[rk] {
						run.OracleChecked(1)
						g := gotSeq[rk]
						ok := len(g) > 0 && len(g)%len(ids) == 0
						for i := 0; ok && i < len(g); i++ {
							ok = g[i] == ids[i%len(ids)]
						}
						if !ok {
							sig := "delivery:array-not-in-publication-order"
							if len(g) == 0 {
								sig = "delivery:missed-by-registered-subscriber"
							}
							violate(sig, fmt.Sprintf("notifier %d registered under %q (%d times) was notified of %v by a PublishArray offering %v", rk.n, k, c, g, ids), g, ids)
						}
					}
				}
			}
			for rk, g := range gotSeq {
				if or.uncertain[rk] {
					continue
				}
				if _, isKey := offered[rk.key]; !isKey {
					violate("delivery:foreign-message", fmt.Sprintf("notifier %d notified under %q by PublishArray(%q,%q)", rk.n, rk.key, o.NS, o.Kind), g, nil)
				}
				if or.closedN[rk.n] {
					run.OracleChecked(1)
					sig := "silent-after-close:notified-after-unsubscription-handled"
					if or.early[rk] {
						sig = "silent-after-close:closed-before-registration-was-handled"
					}
					violate(sig, fmt.Sprintf("notifier %d, whose error channel is closed and whose unsubscriptions have all been handled, was notified of %v under %q", rk.n, g, rk.key), g, nil)
				} else if or.active[rk] == 0 {
					violate("delivery:to-unsubscribed-notifier", fmt.Sprintf("notifier %d has no registration under %q and was notified of %v", rk.n, rk.key, g), g, nil)
				}
			}
		case "snap":
			snap := d.s.VerifSnapshot()
			keys := []string{}
			for k := range snap {
				if !strings.HasPrefix(k, "\x00sentinel") {
					keys = append(keys, k)
				}
			}
			sort.Strings(keys)
			el := []string{}
			for _, k := range keys {
				ids := []uint64{}
				for _, in := range snap[k] {
					ids = append(ids, uint64(in.(*notifier).id))
				}
				el = append(el, hx.CoqApp("KR", coqStr(k), hx.CoqNList(ids)))
				// oracle: a closed notifier whose unsubscriptions were handled is in no list
				if d.started {
					for _, in := range snap[k] {
						id := in.(*notifier).id
						rk := regKey{k, id}
						if or.closedN[id] && !or.uncertain[rk] {
							run.OracleChecked(1)
							sig := "removed-after-close:still-registered"
							if or.early[rk] {
								sig = "removed-after-close:closed-before-registration-was-handled"
							}
							violate(sig, fmt.Sprintf("notifier %d still listed under %q after its closed error channel was handled", id, k), "listed", "absent")
						}
					}
				}
			}
			add("HSnap", hx.CoqApp("OSnap", hx.CoqList(el, "kreg")))
		}
	}
	if d.hung {
		hungOnce = true
		violate("hang:process-did-not-quiesce", "process did not handle the queued events within 20 s: "+d.why, "timeout", "quiescent")
	}
	// tidy: wake everything that is still blocked so that goroutines do not pile up
	for _, n := range d.nots {
		if !n.closed {
			n.mu.Lock()
			n.closed = true
			for _, wt := range d.waiters {
				if wt.n == n.id && wt.ch != nil {
					close(wt.ch)
				}
			}
			n.mu.Unlock()
			if !n.perWaiter {
				close(n.shared)
			}
		}
	}
	d.waiters = nil
	if !d.started {
		d.s.VerifStart()
		d.started = true
		processes++
	}
	wasHung := d.hung
	d.waitGoroutines()
	if d.hung && !wasHung {
		hungOnce = true
		violate("hang:process-did-not-quiesce", "goroutines did not settle after the case: "+d.why, "timeout", "quiescent")
	}

	if dupSub {
		run.Hist("case.duplicate-subscription")
	}
	if earlyClose {
		run.Hist("case.closed-before-registered")
	}
	nontrivial := subs > 0 && pubs > 0 && fires > 0
	run.AddCase(hx.CoqApp("Case", hx.CoqBool(jc.Paused), hx.CoqList(coq, "hstep")), jc, fmt.Sprintf("%v", jc), nontrivial)
}

func contains(l []regKey, x regKey) bool {
	for _, y := range l {
		if y == x {
			return true
		}
	}
	return false
}

// ---------------------------------------------------------------- generators

var nss = []string{"a", "a_b", "p2p"}
var kinds = []string{"k", "b_k", "peers"}
var params = []string{"", "", "x", "k", "y_z"}

func genCase(r *hx.Rand, paused bool, n int) jcase {
	jc := jcase{Paused: paused}
	msg := 1
	ns := func() string { return nss[r.Intn(len(nss))] }
	kd := func() string { return kinds[r.Intn(len(kinds))] }
	pm := func() string { return params[r.Intn(len(params))] }
	// a small pool of (ns, kind) so that histories collide on keys
	type nk struct{ ns, kind string }
	pool := []nk{{ns(), kd()}, {ns(), kd()}, {"a", "b_k"}, {"a_b", "k"}} // the last two produce the same key strings
	pick := func() nk { return pool[r.Intn(len(pool))] }
	live := map[int]int{} // blocked waiters per notifier
	closed := map[int]bool{}
	prefix := 0
	if paused {
		prefix = 2 + r.Intn(6)
	}
	startDone := !paused
	for i := 0; i < n; i++ {
		if !startDone && i >= prefix {
			jc.Ops = append(jc.Ops, jop{Op: "start"})
			startDone = true
		}
		c := r.Intn(20)
		switch {
		case c < 7:
			id := 1 + r.Intn(4)
			if closed[id] && r.Chance(3, 4) {
				id = 5 + r.Intn(3)
			}
			p := pick()
			o := jop{Op: "sub", N: id, NS: p.ns, Kind: p.kind, Param: pm()}
			jc.Ops = append(jc.Ops, o)
			if !closed[id] {
				live[id]++
			}
			if r.Chance(1, 4) { // duplicate subscription to the same key
				jc.Ops = append(jc.Ops, o)
				if !closed[id] {
					live[id]++
				}
			}
		case c < 10:
			ids := []int{}
			for id := range live {
				if !closed[id] {
					ids = append(ids, id)
				}
			}
			sort.Ints(ids)
			if len(ids) == 0 {
				continue
			}
			id := ids[r.Intn(len(ids))]
			closed[id] = true
			live[id] = 0
			jc.Ops = append(jc.Ops, jop{Op: "close", N: id})
		case c < 11:
			ids := []int{}
			for id, c := range live {
				if id%2 == 1 && c > 0 && !closed[id] {
					ids = append(ids, id)
				}
			}
			sort.Ints(ids)
			if len(ids) == 0 {
				continue
			}
			id := ids[r.Intn(len(ids))]
			jc.Ops = append(jc.Ops, jop{Op: "wake", N: id, J: r.Intn(live[id])})
			live[id]--
		case c < 16:
			p := pick()
			jc.Ops = append(jc.Ops, jop{Op: "pub", NS: p.ns, Kind: p.kind, Param: pm(), M: msg})
			msg++
		case c < 18:
			p := pick()
			o := jop{Op: "puba", NS: p.ns, Kind: p.kind}
			shapes := []string{"a", "a", "a", "pa", "b", "c", "d", "i"}
			for k := 1 + r.Intn(4); k > 0; k-- {
				o.Items = append(o.Items, jitem{Shape: shapes[r.Intn(len(shapes))], Param: pm(), M: msg})
				msg++
			}
			jc.Ops = append(jc.Ops, o)
		default:
			jc.Ops = append(jc.Ops, jop{Op: "snap"})
		}
	}
	if !startDone {
		jc.Ops = append(jc.Ops, jop{Op: "start"})
	}
	// closing: publish on every key once more and dump the registry
	for _, p := range pool {
		jc.Ops = append(jc.Ops, jop{Op: "pub", NS: p.ns, Kind: p.kind, Param: "x", M: msg})
		msg++
	}
	jc.Ops = append(jc.Ops, jop{Op: "snap"})
	return jc
}

func main() {
	run = hx.Start("C40", "Aurora.C40.Corr",
		"histories of subscribe (1 in 4 duplicated on the same key) / close / one-sent-value wake / Publish / PublishArray (1..4 messages of six field shapes) / registry dump over 4 (namespace, kind) pairs (two of which collide on key strings) x 5 params and up to 7 notifiers (shared error channel or one channel per waiter); normal cases quiesce process after every operation, paused cases queue 2..7 operations before the process goroutine is started (a close can then precede the handling of its own subscription); non-trivial = at least one subscription, one publish and one close/wake; distinct by the operation list")
	r := run.R
	g0 = runtime.NumGoroutine()

	if run.Replay != "" {
		var jc jcase
		if err := run.ReadReplay(&jc); err != nil {
			panic(err)
		}
		exec(jc)
		run.Finish()
		return
	}

	// ---- corpus (every seed)
	early := jcase{Paused: true, Ops: []jop{{Op: "sub", N: 2, NS: "ns", Kind: "k"}, {Op: "close", N: 2}, {Op: "start"}, {Op: "pub", NS: "ns", Kind: "k", M: 1}, {Op: "snap"}}}
	for i := 0; i < run.N(40, 200) && !hungOnce; i++ {
		// F-subpub-early-fire: with the unrepaired process the select takes the unsubscription first
		// in about half of the runs; 40 independent runs make a miss practically impossible
		exec(early)
	}
	early2 := jcase{Paused: true, Ops: []jop{{Op: "sub", N: 2, NS: "ns", Kind: "k", Param: "x"}, {Op: "sub", N: 2, NS: "ns", Kind: "k", Param: "x"}, {Op: "sub", N: 4, NS: "ns", Kind: "k"}, {Op: "close", N: 2}, {Op: "start"}, {Op: "pub", NS: "ns", Kind: "k", Param: "x", M: 1}, {Op: "snap"}}}
	for i := 0; i < run.N(10, 50) && !hungOnce; i++ {
		exec(early2)
	}
	for _, c := range []jcase{
		// duplicates on one key, closed: everything removed (k events for k registrations)
		{Ops: []jop{{Op: "sub", N: 2, NS: "ns", Kind: "k"}, {Op: "sub", N: 2, NS: "ns", Kind: "k"}, {Op: "sub", N: 2, NS: "ns", Kind: "k"}, {Op: "pub", NS: "ns", Kind: "k", M: 1}, {Op: "close", N: 2}, {Op: "snap"}, {Op: "pub", NS: "ns", Kind: "k", M: 2}}},
		// F-subpub-dup: one SENT value, two registrations: one survives (outside the property's reading; model must agree)
		{Ops: []jop{{Op: "sub", N: 1, NS: "ns", Kind: "k"}, {Op: "sub", N: 1, NS: "ns", Kind: "k"}, {Op: "wake", N: 1, J: 0}, {Op: "snap"}, {Op: "pub", NS: "ns", Kind: "k", M: 1}, {Op: "close", N: 1}, {Op: "snap"}, {Op: "pub", NS: "ns", Kind: "k", M: 2}}},
		// interleaved notifiers around the skipped position
		{Ops: []jop{{Op: "sub", N: 1, NS: "ns", Kind: "k"}, {Op: "sub", N: 1, NS: "ns", Kind: "k"}, {Op: "sub", N: 4, NS: "ns", Kind: "k"}, {Op: "sub", N: 1, NS: "ns", Kind: "k"}, {Op: "wake", N: 1, J: 1}, {Op: "snap"}, {Op: "pub", NS: "ns", Kind: "k", M: 1}, {Op: "close", N: 1}, {Op: "snap"}, {Op: "pub", NS: "ns", Kind: "k", M: 2}}},
		// namespace-wide and specific subscribers; key-string collision a|b_k == a_b|k
		{Ops: []jop{{Op: "sub", N: 2, NS: "a", Kind: "b_k"}, {Op: "sub", N: 4, NS: "a_b", Kind: "k", Param: "x"}, {Op: "sub", N: 6, NS: "a", Kind: "b_k", Param: "y"}, {Op: "pub", NS: "a_b", Kind: "k", Param: "x", M: 1}, {Op: "pub", NS: "a", Kind: "b_k", Param: "y", M: 2}, {Op: "pub", NS: "a", Kind: "b_k", M: 3}, {Op: "close", N: 4}, {Op: "pub", NS: "a", Kind: "b_k", Param: "x", M: 4}, {Op: "snap"}}},
		// PublishArray: grouping by key, every field shape
		{Ops: []jop{{Op: "sub", N: 2, NS: "ns", Kind: "k"}, {Op: "sub", N: 4, NS: "ns", Kind: "k", Param: "x"}, {Op: "sub", N: 4, NS: "ns", Kind: "k", Param: "x"}, {Op: "sub", N: 6, NS: "ns", Kind: "k", Param: "y"},
			{Op: "puba", NS: "ns", Kind: "k", Items: []jitem{{"a", "x", 1}, {"pa", "y", 2}, {"b", "x", 3}, {"c", "x", 4}, {"d", "x", 5}, {"i", "x", 6}, {"a", "", 7}}},
			{Op: "close", N: 4}, {Op: "puba", NS: "ns", Kind: "k", Items: []jitem{{"a", "x", 8}, {"a", "y", 9}}}, {Op: "snap"}}},
		// subscribing with an already closed channel
		{Ops: []jop{{Op: "sub", N: 2, NS: "ns", Kind: "k"}, {Op: "close", N: 2}, {Op: "sub", N: 2, NS: "ns", Kind: "k"}, {Op: "snap"}, {Op: "pub", NS: "ns", Kind: "k", M: 1}}},
	} {
		if !hungOnce {
			exec(c)
		}
	}

	// ---- generated histories
	for i := 0; i < run.N(200, 4000) && !hungOnce; i++ {
		exec(genCase(r, false, 6+r.Intn(18)))
	}
	for i := 0; i < run.N(100, 2000) && !hungOnce; i++ {
		exec(genCase(r, true, 6+r.Intn(14)))
	}
	run.Finish()
}
