// C13 harness: gcSize accounting of localstore. Histories of request puts
// under a file context (one chunk per call, rarely batched), gets, pin/unpin of
// whole files chunk by chunk (files with repeated chunks), removals, uploads,
// synchronous collection runs with small capacity (VerifCollectGarbage) with
// accesses injected between candidate selection and eviction, and reopen of
// an on-disk store.
//
//   - correspondence: every step (also the two phases of a collection run and
//     the injected accesses) is compared with the Coq model, observation and
//     full index dump (Aurora.C13.Corr = Aurora.C11.Corr);
//   - oracle (lsx.Counter): outside a run gcSize == sum of GCounter, reopen
//     neither changes it nor finds a different total; after a run that
//     returns done the total is <= capacity.
package main

import (
	"fmt"

	"verifharness/hx"
	"verifharness/lsx"
)

func put1(t int64, mode, root, a int, d string) lsx.Op {
	return lsx.Op{K: "put", T: t, Mode: mode, Root: root, Chs: []lsx.Ch{{A: a, D: d}}}
}
func set1(t int64, mode, root, a int) lsx.Op {
	return lsx.Op{K: "set", T: t, Mode: mode, Root: root, Addrs: []int{a}}
}

func corpus() []*lsx.Hist {
	u := []string{"a10000aa", "a10000bb", "210000cc", "a18000dd", "a14000ee", "e10000ff"}
	base := "a1ffffff"
	pyrA := []lsx.Pyr{{Root: 0, Chunks: []lsx.PyrEnt{{A: 2, N: 1}, {A: 3, N: 1}}}, {Root: 1, Chunks: []lsx.PyrEnt{{A: 4, N: 1}}}}
	cacheA := []lsx.Op{put1(10, 0, 0, 0, "01"), put1(11, 0, 0, 2, "02"), put1(12, 0, 0, 3, "03")}
	cacheB := []lsx.Op{put1(13, 0, 1, 1, "04"), put1(14, 0, 1, 4, "05")}
	cat := func(l ...[]lsx.Op) []lsx.Op {
		var o []lsx.Op
		for _, x := range l {
			o = append(o, x...)
		}
		return o
	}
	return []*lsx.Hist{
		// fixed: F-setpin-gcsize (fix-setpin-gcsize.patch): cache A (3 chunks) and B, pin A twice
		{Kind: "corpus-setpin-twice", Base: base, Cap: 100, Univ: u, Twin: -1, Ops: cat(cacheA, cacheB, []lsx.Op{
			set1(20, 2, 0, 0), set1(21, 2, 0, 2), set1(22, 2, 0, 3),
			set1(23, 2, 0, 0), set1(24, 2, 0, 2), set1(25, 2, 0, 3),
			set1(26, 3, 0, 0), set1(27, 3, 0, 2), set1(28, 3, 0, 3),
		})},
		// known: batched request put under a context counts every new chunk in gcSize but once in GCounter
		{Kind: "corpus-put-batch-context", Base: base, Cap: 100, Univ: u, Twin: -1, Ops: []lsx.Op{
			put1(10, 0, 0, 0, "01"),
			{K: "put", T: 11, Mode: 0, Root: 0, Chs: []lsx.Ch{{A: 2, D: "02"}, {A: 3, D: "03"}}},
		}},
		// known: no candidate recycled (chunkinfo does not know the files) -> gcSize forced to 0, done=true
		{Kind: "corpus-gc-force-clean", Base: base, Cap: 4, Univ: u, Twin: -1, Ops: cat(cacheA, cacheB, []lsx.Op{
			{K: "gc", Root: -1},
			{K: "gc", Root: -1, Pyr: pyrA}, // the counter now says 0: the next run has "nothing to do" with 5 chunks recorded
		})},
		// known: a run that evicts a file whose chunk is pinned elsewhere / missing mis-counts
		{Kind: "corpus-gc-accounting", Base: base, Cap: 4, Univ: u, Twin: -1, Ops: cat(cacheA, cacheB, []lsx.Op{
			set1(20, 1, -1, 2),
			{K: "gc", Root: -1, Pyr: pyrA},
		})},
		// a clean run: everything accounted, evicts the oldest file only
		{Kind: "corpus-gc-clean", Base: base, Cap: 4, Univ: u, Twin: -1, Ops: cat(cacheA, cacheB, []lsx.Op{
			{K: "gc", Root: -1, Pyr: pyrA},
			{K: "gc", Root: -1, Pyr: pyrA},
		})},
		// access to the file being evicted, between candidate selection and eviction: the dirty root survives
		{Kind: "corpus-gc-dirty", Base: base, Cap: 4, Univ: u, Twin: -1, Ops: cat(cacheA, cacheB, []lsx.Op{
			{K: "gc", Root: -1, Pyr: pyrA, Inner: []lsx.Op{{K: "get", T: 30, Mode: 0, Root: 0, A: 2}}},
			{K: "gc", Root: -1, Pyr: pyrA},
		})},
		// known: set sync enters a GCounter-0 entry and counts it
		{Kind: "corpus-set-sync", Base: base, Cap: 100, Univ: u, Twin: -1, Ops: []lsx.Op{
			put1(10, 1, -1, 0, "01"), set1(11, 0, -1, 0),
		}},
		// known: a failing batched pin leaves the direct GCounter decrement behind
		{Kind: "corpus-setpin-abort", Base: base, Cap: 100, Univ: u, Twin: -1, Ops: cat(cacheA, []lsx.Op{
			{K: "set", T: 20, Mode: 2, Root: 0, Addrs: []int{2, 5}},
		})},
		// known: pinned upload under a context drops the gcSize change
		{Kind: "corpus-uploadpin-context", Base: base, Cap: 100, Univ: u, Twin: -1, Ops: cat(cacheA, []lsx.Op{
			put1(20, 2, 0, 4, "09"),
		})},
	}
}

// volumes of the thorough tier; the -race build is an order of magnitude slower
func thoroughHist() int {
	if lsx.RaceEnabled {
		return 2000
	}
	return 6000
}
func thoroughConc() int {
	if lsx.RaceEnabled {
		return 50
	}
	return 60
}

func main() {
	run := hx.Start("C13", "Aurora.C13.Corr",
		"histories of 10..45 operations over 2-3 files (root + 1..5 chunks, shared and repeated chunks) in a 6-8 address universe: single-chunk request puts under the file context, gets, pin/unpin chunk by chunk, removals, uploads, rare batched calls and API-mix operations, collection runs with capacity 4..12 (pyramid table from the generator's files, sometimes incomplete), accesses injected at the interleaving point, reopen of on-disk stores; non-trivial = history with at least one collection run that started or a reopen; distinct by (base key, operations)")

	finish := func(h *lsx.Hist, st *lsx.Store) {
		nontrivial := false
		for _, info := range st.Trace {
			if info.Kind == "gcend" || info.Kind == "reopen" {
				nontrivial = true
			}
			run.Hist("step." + info.Kind)
			if info.Inner {
				run.Hist("step.at-interleaving-point")
			}
		}
		run.AddCase(st.CoqCase(), h, h.Key(), nontrivial)
	}
	replayHist := func(h *lsx.Hist) {
		st, err := lsx.Open(h)
		if err != nil {
			panic(err)
		}
		cn := lsx.NewCounter()
		for _, op := range h.Ops {
			n := len(st.Trace)
			st.Exec(op, false)
			for _, info := range st.Trace[n:] {
				cn.Step(st, info, run, h)
			}
		}
		finish(h, st)
		st.Close()
	}
	if run.Replay != "" {
		var cc lsx.ConcCase
		if err := run.ReadReplay(&cc); err == nil && (cc.Kind == "conc-get" || cc.Kind == "conc-put") {
			if cc.Kind == "conc-get" {
				lsx.ConcGets(run, cc)
			} else {
				lsx.ConcPuts(run, cc)
			}
			run.Finish()
			return
		}
		var h lsx.Hist
		if err := run.ReadReplay(&h); err != nil {
			panic(err)
		}
		replayHist(&h)
		run.Finish()
		return
	}
	for _, h := range corpus() {
		replayHist(h)
	}
	for i := 0; i < run.N(150, thoroughHist()); i++ {
		r := run.R.Fork(uint64(i))
		capacity := uint64(3 + r.Intn(7))
		g, err := lsx.NewGen(r, "cache", capacity, r.Chance(1, 4))
		if err != nil {
			panic(err)
		}
		cn := lsx.NewCounter()
		g.After = func(g *lsx.Gen, info lsx.StepInfo) { cn.Step(g.St, info, run, g.H) }
		g.Steps(10 + g.R.Intn(36))
		if cn.Tainted {
			run.Hist("history.counter-broken")
		} else {
			run.Hist("history.counter-held-throughout")
		}
		finish(g.H, g.St)
		g.St.Close()
	}
	_ = fmt.Sprint
	// concurrency layer: overlapping request-mode Gets of one cached file (their updateGC goroutines
	// queue on batchMu behind a large batched Put), and racing request puts under a file context
	for i := 0; i < run.N(6, thoroughConc()); i++ {
		lsx.ConcGets(run, lsx.ConcCase{Kind: "conc-get", Seed: run.R.U64(), Threads: 2 + run.R.Intn(5), Rounds: run.N(5, 12)})
	}
	for i := 0; i < run.N(2, thoroughConc()/3); i++ {
		lsx.ConcPuts(run, lsx.ConcCase{Kind: "conc-put", Seed: run.R.U64(), Mode: 0, Ctx: true, Threads: 2 + run.R.Intn(4), Rounds: run.N(4, 10)})
	}
	run.Finish()
}
