// C01 harness: uploaded content reads back byte-identical.
//
// The REAL pipeline (builder.NewPipelineBuilder: feeder, BMT, store stage, hash-trie writer) is fed
// a content with a random split of the writes (direct Write calls, or builder.FeedPipeline over a
// reader that returns random-sized pieces), into one of three stores: a copying map, the repo's
// storage/mock storer, a real localstore on in-memory leveldb.  The REAL joiner then opens the
// returned reference from the same store.
//
// Oracle (independent of the Coq model): Size() and the size returned by joiner.New equal the
// content length; file.JoinReadAll returns the content; ReadAt at random offsets into buffers with
// len <= cap returns min(len, size-off) bytes equal to the content (EOF at/after the end) and
// leaves everything beyond untouched; Read/Seek sequences return the bytes at the tracked position.
//
// Coq correspondence: contents of at most 300 bytes — the store dump and the operations are
// replayed on the model joiner (C01/Corr.v).
package main

import (
	"bytes"
	"context"
	"encoding/binary"
	"fmt"
	"hash"
	"io"
	"sort"
	"strings"
	"sync"

	"github.com/gauss-project/aurorafs/pkg/boson"
	"github.com/gauss-project/aurorafs/pkg/encryption"
	"github.com/gauss-project/aurorafs/pkg/file"
	"github.com/gauss-project/aurorafs/pkg/file/joiner"
	"github.com/gauss-project/aurorafs/pkg/file/pipeline"
	pbmt "github.com/gauss-project/aurorafs/pkg/file/pipeline/bmt"
	"github.com/gauss-project/aurorafs/pkg/file/pipeline/builder"
	encw "github.com/gauss-project/aurorafs/pkg/file/pipeline/encryption"
	"github.com/gauss-project/aurorafs/pkg/file/pipeline/feeder"
	"github.com/gauss-project/aurorafs/pkg/file/pipeline/hashtrie"
	"github.com/gauss-project/aurorafs/pkg/file/pipeline/store"
	"github.com/gauss-project/aurorafs/pkg/localstore"
	"github.com/gauss-project/aurorafs/pkg/logging"
	"github.com/gauss-project/aurorafs/pkg/shed"
	sldb "github.com/gauss-project/aurorafs/pkg/shed/leveldb"
	"github.com/gauss-project/aurorafs/pkg/storage"
	smock "github.com/gauss-project/aurorafs/pkg/storage/mock"
	"verifharness/hx"
)

const CS = boson.ChunkSize

type mapStore struct {
	mu    sync.Mutex
	m     map[string][]byte
	order []string
}

func newMapStore() *mapStore { return &mapStore{m: map[string][]byte{}} }
func (s *mapStore) Put(_ context.Context, _ storage.ModePut, chs ...boson.Chunk) ([]bool, error) {
	s.mu.Lock()
	defer s.mu.Unlock()
	ex := make([]bool, len(chs))
	for i, c := range chs {
		k := string(c.Address().Bytes())
		if _, ok := s.m[k]; ok {
			ex[i] = true
			continue
		}
		s.m[k] = append([]byte{}, c.Data()...)
		s.order = append(s.order, k)
	}
	return ex, nil
}
func (s *mapStore) Get(_ context.Context, _ storage.ModeGet, a boson.Address) (boson.Chunk, error) {
	s.mu.Lock()
	defer s.mu.Unlock()
	d, ok := s.m[string(a.Bytes())]
	if !ok {
		return nil, storage.ErrNotFound
	}
	return boson.NewChunk(a, d), nil
}

type putGet interface {
	storage.Putter
	storage.Getter
}

type jop struct {
	Kind   string `json:"kind"` // readat | read | seek
	Len    int    `json:"len,omitempty"`
	Cap    int    `json:"cap,omitempty"`
	Off    int64  `json:"off,omitempty"`
	Whence int    `json:"whence,omitempty"`
}

type jcase struct {
	Kind  string  `json:"kind,omitempty"` // "" (real pipeline) | enctoy
	Chunk int     `json:"chunk,omitempty"`
	Br    int     `json:"br,omitempty"`
	HS    int     `json:"hs,omitempty"`
	KL    int     `json:"kl,omitempty"`
	Segs  [][]int `json:"segs,omitempty"`
	N     int     `json:"n,omitempty"`    // lift: identical full chunks
	Tail  int     `json:"tail,omitempty"` // lift: bytes of the shorter last chunk
	Size  int     `json:"size"`
	DSeed uint64  `json:"dseed"`
	Store string  `json:"store"` // map | mock | localstore
	Feed  bool    `json:"feed"`  // through builder.FeedPipeline instead of direct Write calls
	Enc   bool    `json:"enc"`   // encrypted pipeline (64-byte reference)
	Cuts  []int   `json:"cuts"`
	Ops   []jop   `json:"ops"`
	All   bool    `json:"readall"`
}

// reader that hands out the content in the given piece sizes
type cutReader struct {
	data []byte
	cuts []int
	i    int
}

func (c *cutReader) Read(p []byte) (int, error) {
	if len(c.data) == 0 {
		return 0, io.EOF
	}
	n := len(p)
	if c.i < len(c.cuts) && c.cuts[c.i] > 0 && c.cuts[c.i] < n {
		n = c.cuts[c.i]
	}
	c.i++
	if n > len(c.data) {
		n = len(c.data)
	}
	copy(p, c.data[:n])
	c.data = c.data[n:]
	return n, nil
}

const canary = 0xEE

func dig(l []byte) (uint64, uint64) {
	s1, s2 := uint32(1), uint32(2)
	for _, x := range l {
		s1 = s1*16777619 + uint32(x) + 1
		s2 = s2*2654435761 + uint32(x) + 1
	}
	return uint64(s1), uint64(s2)
}

var regOnce sync.Once

func main() {
	run := hx.Start("C01", "Aurora.C01.Corr",
		"real builder pipeline + real joiner: content sizes 0, 1, 31..33, around 4 KiB, 256 KiB +-1, multiples of 256 KiB +-1 up to 40 chunks (100 thorough), random; write splits: one write, tiny, around the chunk size, several chunks at once, with empty writes, through FeedPipeline; stores: copying map, storage/mock, localstore; lift corpus: plain (8192, 8193, 8193+777 B, 16387 chunks) and encrypted (4096+1 B, 4097, 4097+777 B, 8195 chunks), plus exact multiples of the branching (2x, 3x) files of identical chunks built through the real Encryption/BMT/Store/HashTrie stages without the feeder (1-4 GiB, two and three levels), read around every level boundary; reads: Size, JoinReadAll, ReadAt at boundary-dense offsets with cap >= len, Read/Seek sequences; non-trivial = more than one chunk, or at least two writes, or a read with cap > len; distinct by (size, content seed, store, split, ops)")
	r := run.R
	ctx := context.Background()

	var doLift func(jc jcase)
	runOps := func(jc jcase, j file.Joiner, size int, expect func(at int64, n int) []byte, toCoq bool) ([]string, bool, bool) {
		nontrivial := false
		pos := int64(0)
		var steps []string
		for i, o := range jc.Ops {
			switch o.Kind {
			case "readat", "read":
				buf := make([]byte, o.Len, o.Cap)
				full := buf[:o.Cap]
				for k := range full {
					full[k] = canary
				}
				at := o.Off
				if o.Kind == "read" {
					at = pos
				}
				var n int
				var rerr error
				pk, pm := hx.Guard(func() {
					if o.Kind == "readat" {
						n, rerr = j.ReadAt(buf, o.Off)
					} else {
						n, rerr = j.Read(buf)
					}
				})
				if pk {
					run.Violate(hx.Violation{Sig: o.Kind + ":panic", Detail: pm, Case: jc})
					return steps, nontrivial, false
				}
				ec := uint64(0)
				if rerr == io.EOF {
					ec = 1
				} else if rerr != nil {
					ec = 2
				}
				if toCoq {
					d1, d2 := dig(full)
					fb0 := "None"
					if o.Cap <= 40 {
						fb0 = hx.CoqSome(hx.CoqBytes(full))
					}
					ob := hx.CoqApp("ObsRead", hx.CoqZ(int64(n)), hx.CoqN(ec), hx.CoqPair(hx.CoqN(d1), hx.CoqN(d2)), fb0)
					op := hx.CoqApp("ORead", hx.CoqZ(int64(o.Len)), hx.CoqZ(int64(o.Cap)))
					if o.Kind == "readat" {
						op = hx.CoqApp("OReadAt", hx.CoqZ(int64(o.Len)), hx.CoqZ(int64(o.Cap)), hx.CoqZ(o.Off))
					}
					steps = append(steps, hx.CoqPair(op, ob))
				}
				if o.Cap > o.Len {
					nontrivial = true
				}
				run.OracleChecked(3)
				where := fmt.Sprintf("op %d %s(len=%d,cap=%d) at %d, size %d", i, o.Kind, o.Len, o.Cap, at, size)
				if n > o.Len {
					run.Violate(hx.Violation{Sig: "readat:count>len", Detail: where + fmt.Sprintf(": returned %d", n), Case: jc})
					n = o.Len
				}
				for k := o.Len; k < o.Cap; k++ {
					if full[k] != canary {
						run.Violate(hx.Violation{Sig: "readat:writes-beyond-len", Detail: where, Case: jc})
						break
					}
				}
				if at >= int64(size) {
					if n != 0 || rerr != io.EOF {
						run.Violate(hx.Violation{Sig: "readat:no-eof-at-end", Detail: where + fmt.Sprintf(": n=%d err=%v", n, rerr), Case: jc})
					}
				} else {
					want := o.Len
					if size-int(at) < want {
						want = size - int(at)
					}
					if rerr != nil {
						run.Violate(hx.Violation{Sig: "readat:error-inside-file", Detail: where + ": " + rerr.Error(), Case: jc})
					} else if n != want {
						run.Violate(hx.Violation{Sig: "readat:count!=min(len,size-off)", Detail: where + fmt.Sprintf(": n=%d want %d", n, want), Case: jc})
					} else if !bytes.Equal(full[:n], expect(at, n)) {
						run.Violate(hx.Violation{Sig: "readat:content", Detail: where + ": bytes differ from what was uploaded", Case: jc})
					}
				}
				if o.Kind == "read" && (rerr == nil || rerr == io.EOF) {
					pos += int64(n)
				}
			case "seek":
				var pp int64
				var serr error
				pk, pm := hx.Guard(func() { pp, serr = j.Seek(o.Off, o.Whence) })
				if pk {
					run.Violate(hx.Violation{Sig: "seek:panic", Detail: pm, Case: jc})
					return steps, nontrivial, false
				}
				ec := uint64(0)
				switch {
				case serr == nil:
				case serr == io.EOF:
					ec = 1
				case serr.Error() == "seek: invalid whence":
					ec = 2
				case serr.Error() == "seek: invalid offset":
					ec = 3
				default:
					ec = 9
				}
				if toCoq {
					steps = append(steps, hx.CoqPair(hx.CoqApp("OSeek", hx.CoqZ(o.Off), hx.CoqZ(int64(o.Whence))), hx.CoqApp("ObsSeek", hx.CoqZ(pp), hx.CoqN(ec))))
				}
				run.OracleChecked(1)
				if serr == nil {
					want := o.Off
					switch o.Whence {
					case 1:
						want = pos + o.Off
					case 2:
						want = int64(size) - o.Off
					}
					if o.Whence < 0 || o.Whence > 2 || pp != want || pp < 0 || pp > int64(size) {
						run.Violate(hx.Violation{Sig: "seek:wrong-position", Detail: fmt.Sprintf("op %d Seek(%d,%d) from %d -> %d", i, o.Off, o.Whence, pos, pp), Case: jc})
					}
					pos = pp
				}
			}
		}
		return steps, nontrivial, true
	}

	doCase := func(jc jcase, toCoq bool) {
		data := hx.NewRand(jc.DSeed).Bytes(jc.Size)
		var st putGet
		var ms *mapStore
		switch jc.Store {
		case "mock":
			st = smock.NewStorer()
		case "localstore":
			regOnce.Do(func() { shed.Register("leveldb", sldb.Driver{}) })
			db, err := localstore.New("", make([]byte, 32), &localstore.Options{Capacity: 1000, Driver: "leveldb"}, logging.New(io.Discard, 0))
			if err != nil {
				run.Note("localstore unavailable: " + err.Error())
				return
			}
			defer db.Close()
			st = db
		default:
			ms = newMapStore()
			st = ms
		}
		p := builder.NewPipelineBuilder(ctx, st, storage.ModePutUpload, jc.Enc)
		var root boson.Address
		var err error
		pk, pm := hx.Guard(func() {
			if jc.Feed {
				root, err = builder.FeedPipeline(ctx, p, &cutReader{data: data, cuts: jc.Cuts})
				return
			}
			off := 0
			for _, c := range jc.Cuts {
				var n int
				n, err = p.Write(data[off : off+c])
				if err != nil {
					return
				}
				if n != c {
					err = fmt.Errorf("short write %d of %d", n, c)
					return
				}
				off += c
			}
			var sum []byte
			sum, err = p.Sum()
			root = boson.NewAddress(sum)
		})
		key := fmt.Sprintf("%d|%d|%s|%v|%v|%v|%v", jc.Size, jc.DSeed, jc.Store, jc.Feed, jc.Enc, jc.Cuts, jc.Ops)
		run.OracleChecked(1)
		if pk || err != nil {
			run.AddCase("", jc, key, false)
			run.Violate(hx.Violation{Sig: "upload:error", Detail: fmt.Sprintf("upload failed: panic=%v %s err=%v", pk, pm, err), Case: jc})
			return
		}
		var j file.Joiner
		var size int64
		pk, pm = hx.Guard(func() { j, size, err = joiner.New(ctx, st, storage.ModeGetRequest, root) })
		if pk || err != nil {
			run.AddCase("", jc, key, false)
			run.Violate(hx.Violation{Sig: "open:error", Detail: fmt.Sprintf("joiner.New on the returned reference failed: panic=%v %s err=%v", pk, pm, err), Case: jc})
			return
		}
		run.OracleChecked(1)
		if size != int64(jc.Size) || j.Size() != int64(jc.Size) {
			run.Violate(hx.Violation{Sig: "size:!=content-length", Detail: fmt.Sprintf("Size()=%d New=%d content %d", j.Size(), size, jc.Size), Case: jc, Impl: j.Size(), Want: jc.Size})
		}
		steps, nt, okOps := runOps(jc, j, jc.Size, func(at int64, n int) []byte { return data[at : int(at)+n] }, toCoq)
		if !okOps {
			return
		}
		nontrivial := nt || jc.Size > CS || len(jc.Cuts) > 1
		if jc.All {
			j2, _, _ := joiner.New(ctx, st, storage.ModeGetRequest, root)
			var out bytes.Buffer
			var n int64
			var rerr error
			pk, pm := hx.Guard(func() { n, rerr = file.JoinReadAll(ctx, j2, &out) })
			run.OracleChecked(1)
			if pk || rerr != nil || n != int64(jc.Size) || !bytes.Equal(out.Bytes(), data) {
				run.Violate(hx.Violation{Sig: "readall:differs", Detail: fmt.Sprintf("JoinReadAll: panic=%v %s n=%d err=%v equal=%v", pk, pm, n, rerr, bytes.Equal(out.Bytes(), data)), Case: jc})
			}
		}
		coq := ""
		if jc.Enc && len(root.Bytes()) != 64 {
			run.Violate(hx.Violation{Sig: "enc:reference-length", Detail: fmt.Sprintf("encrypted upload returned a %d-byte reference", len(root.Bytes())), Case: jc})
		}
		if toCoq && ms != nil && !jc.Enc {
			keys := append([]string{}, ms.order...)
			sort.Strings(keys)
			el := make([]string, len(keys))
			for i, k := range keys {
				el[i] = hx.CoqPair(hx.CoqBytes([]byte(k)), hx.CoqBytes(ms.m[k]))
			}
			coq = hx.CoqApp("CReal", hx.CoqList(el, "bytes * bytes"), hx.CoqBytes(root.Bytes()), hx.CoqZ(int64(jc.Size)), hx.CoqList(steps, "op * obs"))
		}
		run.AddCase(coq, jc, key, nontrivial)
		run.Hist(fmt.Sprintf("chunks=%d", bucket((jc.Size+CS-1)/CS)))
		run.Hist("store=" + jc.Store)
		if jc.Enc {
			run.Hist("encrypted")
		}
		run.Hist(fmt.Sprintf("writes~%d", bucket(len(jc.Cuts))))
		if jc.Feed {
			run.Hist("via=FeedPipeline")
		}
	}

	// ---- "lift": files of n identical chunks (+ tail) through the real writer stages with the
	// feeder left out (the repeated chunk passes the stages once; its (span, ref, key) is handed to
	// the hash-trie writer n-1 more times), so that two- and three-level trees above 1 GiB
	// (encrypted, branching 4096) / 2 GiB (plain, 8192) cost milliseconds and a few stored chunks.
	liftByte := func(n, o int64) byte {
		if o < n*int64(CS) {
			return byte(1 + (o%int64(CS)+8)%251)
		}
		return byte(7 + (o-n*int64(CS)+8)%251)
	}
	doLift = func(jc jcase) {
		st := newMapStore()
		var tw, top pipeline.ChainWriter
		if jc.Enc {
			short := func() pipeline.ChainWriter {
				return encw.NewEncryptionWriter(encryption.NewChunkEncrypter(), pbmt.NewBmtWriter(store.NewStoreWriter(ctx, st, storage.ModePutUpload, nil)))
			}
			tw = hashtrie.NewHashTrieWriter(boson.ChunkSize, boson.Branches/2, boson.HashSize+encryption.KeyLength, short)
			top = encw.NewEncryptionWriter(encryption.NewChunkEncrypter(), pbmt.NewBmtWriter(store.NewStoreWriter(ctx, st, storage.ModePutUpload, tw)))
		} else {
			short := func() pipeline.ChainWriter {
				return pbmt.NewBmtWriter(store.NewStoreWriter(ctx, st, storage.ModePutUpload, nil))
			}
			tw = hashtrie.NewHashTrieWriter(boson.ChunkSize, boson.Branches, boson.HashSize, short)
			top = pbmt.NewBmtWriter(store.NewStoreWriter(ctx, st, storage.ModePutUpload, tw))
		}
		chunkOf := func(size int, fill byte) *pipeline.PipeWriteArgs {
			d := make([]byte, 8+size)
			binary.LittleEndian.PutUint64(d[:8], uint64(size))
			for i := 8; i < len(d); i++ {
				d[i] = fill + byte(i%251)
			}
			return &pipeline.PipeWriteArgs{Data: d, Span: append([]byte(nil), d[:8]...)}
		}
		var ref []byte
		var err error
		pk, pm := hx.Guard(func() {
			f := chunkOf(CS, 1)
			if err = top.ChainWrite(f); err != nil {
				return
			}
			for i := 1; i < jc.N; i++ {
				if err = tw.ChainWrite(&pipeline.PipeWriteArgs{Ref: f.Ref, Span: f.Span, Key: f.Key}); err != nil {
					return
				}
			}
			if jc.Tail > 0 {
				if err = top.ChainWrite(chunkOf(jc.Tail, 7)); err != nil {
					return
				}
			}
			ref, err = top.Sum()
		})
		key := fmt.Sprintf("lift|%v|%d|%d|%v", jc.Enc, jc.N, jc.Tail, jc.Ops)
		size := jc.N*CS + jc.Tail
		run.OracleChecked(1)
		if pk || err != nil {
			run.AddCase("", jc, key, false)
			run.Violate(hx.Violation{Sig: "lift:upload-error", Detail: fmt.Sprintf("panic=%v %s err=%v", pk, pm, err), Case: jc})
			return
		}
		var j file.Joiner
		var sz int64
		pk, pm = hx.Guard(func() { j, sz, err = joiner.New(ctx, st, storage.ModeGetRequest, boson.NewAddress(ref)) })
		if pk || err != nil {
			run.AddCase("", jc, key, false)
			run.Violate(hx.Violation{Sig: "open:error", Detail: fmt.Sprintf("joiner.New failed: panic=%v %s err=%v", pk, pm, err), Case: jc})
			return
		}
		run.OracleChecked(1)
		if sz != int64(size) || j.Size() != int64(size) {
			run.Violate(hx.Violation{Sig: "size:!=content-length", Detail: fmt.Sprintf("Size()=%d New=%d content %d", j.Size(), sz, size), Case: jc, Impl: j.Size(), Want: size})
		}
		expect := func(at int64, n int) []byte {
			out := make([]byte, n)
			for i := range out {
				out[i] = liftByte(int64(jc.N), at+int64(i))
			}
			return out
		}
		steps, _, ok := runOps(jc, j, size, expect, true)
		if !ok {
			return
		}
		e := "false"
		if jc.Enc {
			e = "true"
		}
		run.AddCase(hx.CoqApp("CLiftUp", e, hx.CoqZ(int64(jc.N)), hx.CoqZ(int64(jc.Tail)), hx.CoqList(steps, "op * obs")), jc, key, true)
		run.Hist(fmt.Sprintf("lift.enc=%v.n=%d.tail=%d", jc.Enc, jc.N, jc.Tail))
	}

	if run.Replay != "" {
		var jc jcase
		if err := run.ReadReplay(&jc); err != nil {
			panic(err)
		}
		if jc.Kind == "enctoy" {
			doEncToy(run, jc)
		} else if jc.Kind == "lift" {
			doLift(jc)
		} else {
			doCase(jc, jc.Size <= 300 && jc.Store == "map" && !jc.Enc)
		}
		run.Finish()
		return
	}

	genOff := func(size int) int64 {
		switch r.Intn(7) {
		case 0:
			return 0
		case 1:
			return int64(size - r.Intn(40))
		case 2:
			return int64(size + r.Intn(3))
		case 3:
			if size > CS {
				return int64(r.Intn(size/CS+1)*CS - r.Intn(30))
			}
		case 4:
			if size > 0 {
				return int64(r.Intn(size))
			}
		}
		if size > 0 {
			return int64(r.Intn(size + 5))
		}
		return 0
	}
	genOps := func(size, nops int, big bool) []jop {
		var ops []jop
		for k := 0; k < nops; k++ {
			l := r.Pick([]int{0, 1, 2, 7, 16, 31, 32, 33, 40, 64, 100})
			if big && r.Chance(1, 2) {
				l = r.Pick([]int{CS - 1, CS, CS + 1, 2*CS + 5, 4096, 70000})
			}
			c := l
			switch r.Intn(5) {
			case 0:
				c = l + 1
			case 1:
				c = 2 * l
			case 2:
				c = l + 64
			}
			switch r.Intn(10) {
			case 0, 1, 2, 3, 4:
				off := genOff(size)
				if off < 0 {
					off = 0
				}
				ops = append(ops, jop{Kind: "readat", Len: l, Cap: c, Off: off})
			case 5, 6, 7:
				ops = append(ops, jop{Kind: "read", Len: l, Cap: c})
			default:
				w := r.Intn(3)
				o := genOff(size)
				if o < 0 {
					o = 0
				}
				switch w {
				case 1:
					o = int64(r.Intn(200)) - 100
				case 2:
					o = int64(size) - o
				}
				if r.Chance(1, 8) {
					o = -int64(r.Intn(9))
				}
				ops = append(ops, jop{Kind: "seek", Off: o, Whence: w})
			}
		}
		return ops
	}
	genCuts := func(n int) []int {
		var cuts []int
		style := r.Intn(6)
		if style == 0 {
			return []int{n}
		}
		left := n
		for left > 0 {
			var c int
			switch style {
			case 1:
				c = 1 + r.Intn(2000)
			case 2:
				c = CS - 1 + r.Intn(3)
			case 3:
				c = CS*(1+r.Intn(4)) + r.Intn(CS+1)
			case 4:
				c = r.Intn(2*CS + 2)
			default:
				c = 1 + r.Intn(left)
			}
			if c > left {
				c = left
			}
			cuts = append(cuts, c)
			left -= c
		}
		if r.Chance(1, 4) {
			cuts = append(cuts, 0)
		}
		return cuts
	}

	// ---- corpus
	doCase(jcase{Size: 100, DSeed: 1, Store: "map", Cuts: []int{100}, All: true, Ops: []jop{{Kind: "readat", Len: 10, Cap: 64, Off: 0}, {Kind: "readat", Len: 10, Cap: 64, Off: 95}, {Kind: "read", Len: 7, Cap: 9}, {Kind: "seek", Off: 3, Whence: 2}, {Kind: "read", Len: 10, Cap: 10}}}, true)
	doCase(jcase{Size: 0, DSeed: 2, Store: "map", Cuts: []int{}, All: true, Ops: []jop{{Kind: "readat", Len: 4, Cap: 8, Off: 0}, {Kind: "read", Len: 4, Cap: 4}, {Kind: "seek", Off: 0, Whence: 2}}}, true)
	doCase(jcase{Size: 0, DSeed: 2, Store: "map", Cuts: []int{0, 0}, All: true}, true)

	// ---- small contents: also replayed on the Coq model
	for i := 0; i < run.N(30, 250); i++ {
		size := r.Pick([]int{0, 1, 2, 7, 8, 9, 31, 32, 33, 64, 100, 255, 256, 257, 300})
		var cuts []int
		left := size
		for left > 0 {
			c := 1 + r.Intn(left)
			if r.Chance(1, 3) {
				c = 1 + r.Intn(8)
			}
			if c > left {
				c = left
			}
			cuts = append(cuts, c)
			left -= c
		}
		doCase(jcase{Size: size, DSeed: r.U64(), Store: "map", Feed: r.Chance(1, 4), Cuts: cuts, Ops: genOps(size, 3+r.Intn(4), false), All: true}, true)
	}

	// ---- lift corpus (every seed): the level boundaries of two- and three-level trees, plain and encrypted
	for _, enc := range []bool{true, false} {
		br := boson.Branches
		if enc {
			br = boson.Branches / 2
		}
		for _, sh := range []struct{ n, tail int }{{br, 1}, {br + 1, 0}, {br + 1, 777}, {2*br + 3, 0}, {2 * br, 0}, {3 * br, 0}} {
			size := int64(sh.n)*int64(CS) + int64(sh.tail)
			bd := int64(br) * int64(CS)
			var ops []jop
			for _, o := range []int64{bd - 100, bd - 1, bd, bd + 1, bd - int64(CS) - 3, bd + int64(CS) - 5, 2*bd - 7, size - 50, size, size + 1} {
				if o < 0 {
					continue
				}
				l := r.Pick([]int{1, 16, 64, 200})
				if o == bd-100 {
					l = 4096
				}
				c := l
				if r.Chance(1, 3) {
					c = l + 1 + r.Intn(40)
				}
				ops = append(ops, jop{Kind: "readat", Len: l, Cap: c, Off: o})
			}
			ops = append(ops, jop{Kind: "seek", Off: bd - 10, Whence: 0}, jop{Kind: "read", Len: 30, Cap: 30}, jop{Kind: "read", Len: 40, Cap: 64},
				jop{Kind: "seek", Off: 5, Whence: 2}, jop{Kind: "read", Len: 10, Cap: 10}, jop{Kind: "seek", Off: int64(CS) - 3, Whence: 1}, jop{Kind: "read", Len: 8, Cap: 8})
			for k := 0; k < 3; k++ {
				ops = append(ops, jop{Kind: "readat", Len: 32, Cap: 32, Off: int64(r.U64()>>1) % size})
			}
			doLift(jcase{Kind: "lift", Enc: enc, N: sh.n, Tail: sh.tail, Ops: ops})
		}
	}

	// ---- real sizes
	sizes := []int{1, 4095, 4096, 4097, CS - 1, CS, CS + 1, 2*CS - 1, 2 * CS, 2*CS + 1, 3*CS + 17, 7 * CS, 9*CS + 5}
	if run.Thorough() {
		sizes = append(sizes, 40*CS-1, 40*CS, 40*CS+1, 100*CS+12345)
	} else {
		sizes = append(sizes, 40*CS+1)
	}
	stores := []string{"map", "mock", "localstore"}
	for _, sz := range sizes {
		for rep := 0; rep < run.N(2, 5); rep++ {
			stn := stores[r.Intn(3)]
			if sz > 12*CS && stn == "localstore" && !run.Thorough() {
				stn = "map"
			}
			doCase(jcase{Size: sz, DSeed: r.U64(), Store: stn, Feed: r.Chance(1, 3), Enc: rep%2 == 1 && (sz <= 10*CS || run.Thorough()), Cuts: genCuts(sz), Ops: genOps(sz, 6+r.Intn(6), true), All: rep == 0 || r.Chance(1, 3)}, false)
		}
	}
	// encrypted, small and boundary sizes
	for _, sz := range []int{0, 1, 31, 32, 33, 4096, CS - 1, CS, CS + 1, 2*CS + 1} {
		doCase(jcase{Size: sz, DSeed: r.U64(), Store: stores[r.Intn(3)], Feed: r.Chance(1, 3), Enc: true, Cuts: genCuts(sz), Ops: genOps(sz, 5+r.Intn(5), sz > CS), All: true}, false)
	}
	// ---- encrypted uploads at toy parameters (Coq correspondence)
	for i := 0; i < run.N(60, 600); i++ {
		hs := 1 + r.Intn(3)
		kl := 1 + r.Intn(3)
		br := 2 + r.Intn(3)
		chunk := (hs + kl) * br
		var chunks int
		switch r.Intn(4) {
		case 0:
			chunks = r.Intn(6)
		case 1:
			k := 1 + r.Intn(3)
			chunks = pow(br, k) + r.Intn(3) - 1
		case 2:
			k := 1 + r.Intn(2)
			chunks = pow(br, k)*(1+r.Intn(br)) + r.Intn(br+1)
		default:
			chunks = r.Intn(40)
		}
		if chunks > 70 {
			chunks = 70
		}
		n := chunks * chunk
		if chunks > 0 {
			switch r.Intn(3) {
			case 0:
				n -= r.Intn(chunk)
			case 1:
				n += r.Intn(2)
			}
		}
		jc := jcase{Kind: "enctoy", Chunk: chunk, Br: br, HS: hs, KL: kl, Size: n, DSeed: r.U64() & 0xffffffff}
		jc.Segs = append(jc.Segs, []int{n})
		for k := 1; k < run.N(2, 4); k++ {
			jc.Segs = append(jc.Segs, genCutsToy(r, n, chunk))
		}
		doEncToy(run, jc)
	}
	for i := 0; i < run.N(12, 150); i++ {
		sz := r.Intn(6 * CS)
		doCase(jcase{Size: sz, DSeed: r.U64(), Store: stores[r.Intn(3)], Feed: r.Chance(1, 3), Cuts: genCuts(sz), Ops: genOps(sz, 6+r.Intn(6), true), All: r.Chance(1, 3)}, false)
	}
	run.Finish()
}

// ---------------------------------------------------------------- encrypted toy pipeline

func pow(b, k int) int {
	p := 1
	for i := 0; i < k; i++ {
		p *= b
	}
	return p
}

func genCutsToy(r *hx.Rand, n, cs int) []int {
	var cuts []int
	left := n
	style := r.Intn(4)
	for left > 0 {
		var c int
		switch style {
		case 0:
			c = 1 + r.Intn(3)
		case 1:
			c = cs - 1 + r.Intn(3)
		case 2:
			c = cs*(1+r.Intn(3)) + r.Intn(cs+1)
		default:
			c = r.Intn(2*cs + 2)
		}
		if c > left {
			c = left
		}
		if c < 0 {
			c = 0
		}
		cuts = append(cuts, c)
		left -= c
	}
	if r.Chance(1, 4) {
		cuts = append(cuts, 0)
	}
	return cuts
}

// keystream toy hash (mirrors ktoy_hash in C01/Corr.v; same function as harness c08)
type ktoy struct {
	buf []byte
	n   int
}

func (t *ktoy) Write(p []byte) (int, error) { t.buf = append(t.buf, p...); return len(p), nil }
func (t *ktoy) Sum(b []byte) []byte {
	a := uint32(7)
	for _, x := range t.buf {
		a = a*131 + uint32(x) + 1
	}
	out := make([]byte, t.n)
	for j := range out {
		out[j] = byte(((a + uint32(j)*2654435761) * 1029) >> 16)
	}
	return append(b, out...)
}
func (t *ktoy) Reset()         { t.buf = t.buf[:0] }
func (t *ktoy) Size() int      { return t.n }
func (t *ktoy) BlockSize() int { return 1 }

// chunk toy hash (mirrors toy_hash in C02/Corr.v)
func toyChunkHash(refLen int, data []byte) []byte {
	s := uint32(2166136261)
	for _, x := range data {
		s = s*16777619 + uint32(x) + 1
	}
	out := make([]byte, refLen)
	for i := range out {
		s = s*1103515245 + 12345
		out[i] = byte(s >> 16)
	}
	return out
}

type toyHashStage struct {
	n    int
	next pipeline.ChainWriter
}

func (t *toyHashStage) ChainWrite(p *pipeline.PipeWriteArgs) error {
	if len(p.Data) < boson.SpanSize {
		return fmt.Errorf("toy: invalid data")
	}
	p.Ref = toyChunkHash(t.n, p.Data)
	return t.next.ChainWrite(p)
}
func (t *toyHashStage) Sum() ([]byte, error) { return t.next.Sum() }

// chunk_encryption.go's EncryptChunk at a toy chunk size, on the REAL encryption.New
type toyEncrypter struct {
	chunk, refsize, kl int
	fn                 func() hash.Hash
	r                  *hx.Rand
	keys, pads         [][]byte
}

func (e *toyEncrypter) EncryptChunk(chunkData []byte) (encryption.Key, []byte, []byte, error) {
	key := e.r.Bytes(e.kl)
	es, err := encryption.New(key, 0, uint32(e.chunk/e.refsize), e.fn).Encrypt(chunkData[:8])
	if err != nil {
		return nil, nil, nil, err
	}
	ed, err := encryption.New(key, e.chunk, 0, e.fn).Encrypt(chunkData[8:])
	if err != nil {
		return nil, nil, nil, err
	}
	e.keys = append(e.keys, key)
	e.pads = append(e.pads, append([]byte{}, ed[len(chunkData)-8:]...)) // the random padding lies unencrypted after the payload
	return key, es, ed, nil
}

type recPut struct {
	mu    sync.Mutex
	datas [][]byte
}

func (r *recPut) Put(_ context.Context, _ storage.ModePut, chs ...boson.Chunk) ([]bool, error) {
	r.mu.Lock()
	defer r.mu.Unlock()
	for _, c := range chs {
		r.datas = append(r.datas, append([]byte{}, c.Data()...))
	}
	return make([]bool, len(chs)), nil
}

func lcgData(n int, seed uint32) []byte {
	out := make([]byte, n)
	x := seed
	for i := range out {
		x = x*1664525 + 1013904223
		out[i] = byte(x >> 24)
	}
	return out
}

func digStep(mul uint32, s uint32, chunk []byte) uint32 {
	s = s*31 + uint32(len(chunk)) + 7
	for _, x := range chunk {
		s = s*mul + uint32(x) + 1
	}
	return s
}

func coqNs(vs []int) string {
	if len(vs) == 0 {
		return "(@nil N)"
	}
	el := make([]string, len(vs))
	for i, v := range vs {
		el[i] = fmt.Sprint(v)
	}
	return "[" + strings.Join(el, ";") + "]%N"
}

func doEncToy(run *hx.Run, jc jcase) {
	ctx := context.Background()
	data := lcgData(jc.Size, uint32(jc.DSeed))
	refsize := jc.HS + jc.KL
	var obs []string
	for si, cuts := range jc.Segs {
		put := &recPut{}
		te := &toyEncrypter{chunk: jc.Chunk, refsize: refsize, kl: jc.KL, fn: func() hash.Hash { return &ktoy{n: jc.KL + 1} }, r: hx.NewRand(jc.DSeed*31 + uint64(si))}
		short := func() pipeline.ChainWriter {
			return encw.NewEncryptionWriter(te, &toyHashStage{n: jc.HS, next: store.NewStoreWriter(ctx, put, storage.ModePutUpload, nil)})
		}
		tw := hashtrie.NewHashTrieWriter(jc.Chunk, jc.Br, refsize, short)
		main := encw.NewEncryptionWriter(te, &toyHashStage{n: jc.HS, next: store.NewStoreWriter(ctx, put, storage.ModePutUpload, tw)})
		f := feeder.NewChunkFeederWriter(jc.Chunk, main)
		var rets []int64
		var root []byte
		var err error
		one := jcase{Kind: "enctoy", Chunk: jc.Chunk, Br: jc.Br, HS: jc.HS, KL: jc.KL, Size: jc.Size, DSeed: jc.DSeed, Segs: [][]int{cuts}}
		pk, pm := hx.Guard(func() {
			off := 0
			for _, c := range cuts {
				var n int
				n, err = f.Write(data[off : off+c])
				if err != nil {
					return
				}
				rets = append(rets, int64(n))
				off += c
			}
			root, err = f.Sum()
		})
		if pk {
			run.Violate(hx.Violation{Sig: "enctoy:panic", Detail: pm, Case: one})
			continue
		}
		ec := uint64(0)
		if err != nil {
			switch err.Error() {
			case "inconsistent references":
				ec = 1
			case "trie full":
				ec = 2
			default:
				ec = 99
			}
		}
		res := "(inr " + hx.CoqBytes(root) + ")"
		if ec != 0 {
			res = "(inl " + hx.CoqN(ec) + ")"
		}
		retsEq := len(rets) == len(cuts)
		for i := range cuts {
			if retsEq && rets[i] != int64(cuts[i]) {
				retsEq = false
			}
		}
		rs := "None"
		if !retsEq {
			rs = hx.CoqSome(hx.CoqZList(rets))
		}
		s1, s2 := uint32(1), uint32(2)
		for _, c := range put.datas {
			s1 = digStep(16777619, s1, c)
			s2 = digStep(2654435761, s2, c)
		}
		obs = append(obs, hx.CoqApp("mkEO", coqNs(cuts), hx.CoqBytesList(te.keys), hx.CoqBytesList(te.pads), rs,
			hx.CoqTuple(hx.CoqN(uint64(len(put.datas))), hx.CoqN(uint64(s1)), hx.CoqN(uint64(s2))), res))
		// oracle: within capacity the upload succeeds, returns a reference of hs+kl bytes, every stored chunk has 8+chunk bytes
		nchunks := (jc.Size + jc.Chunk - 1) / jc.Chunk
		if nchunks <= pow(jc.Br, 7) {
			run.OracleChecked(2)
			if ec != 0 {
				run.Violate(hx.Violation{Sig: "enctoy:error-within-capacity", Detail: err.Error(), Case: one})
			} else if len(root) != refsize {
				run.Violate(hx.Violation{Sig: "enctoy:reference-length", Detail: fmt.Sprintf("reference of %d bytes, want %d", len(root), refsize), Case: one})
			}
			for _, c := range put.datas {
				if len(c) != 8+jc.Chunk {
					run.Violate(hx.Violation{Sig: "enctoy:stored-chunk-length", Detail: fmt.Sprintf("stored chunk of %d bytes, want %d", len(c), 8+jc.Chunk), Case: one})
					break
				}
			}
		}
		run.Hist(fmt.Sprintf("enctoy.br=%d", jc.Br))
	}
	coq := hx.CoqApp("CEncUp", hx.CoqN(uint64(jc.Chunk)), hx.CoqN(uint64(refsize)), hx.CoqNat(jc.HS), hx.CoqNat(jc.KL+1), hx.CoqN(jc.DSeed), hx.CoqNat(jc.Size), hx.CoqList(obs, "enc_obs"))
	run.AddCase(coq, jc, fmt.Sprintf("enctoy|%d|%d|%d|%d|%d|%d|%v", jc.Chunk, jc.Br, jc.HS, jc.KL, jc.Size, jc.DSeed, jc.Segs), jc.Size > jc.Chunk)
}

func bucket(n int) int {
	b := 1
	for b < n {
		b *= 4
	}
	if n == 0 {
		return 0
	}
	return b
}
