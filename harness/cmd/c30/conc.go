// Concurrent deliveries for C30: 2-4 goroutines deliver cheques of the same issuer(s) through the real
// Service.ReceiveCheque over a state store whose Get/Put of the last-received-cheque entry are GATED: a
// controller grants them one at a time in a seeded order that prefers reads over writes, i.e. it lets every
// goroutine that can reach the read do so before any write is granted. With the locks of the code the
// check-and-store of one issuer is one region and the gate order is a linearisation; without them two
// deliveries read the same stored cheque and both are credited.
package main

import (
	"context"
	"fmt"
	"math/big"
	"runtime"
	"strconv"
	"strings"
	"sync"
	"time"

	"github.com/ethereum/go-ethereum/common"
	chequePkg "github.com/gauss-project/aurorafs/pkg/settlement/traffic/cheque"
	"github.com/gauss-project/aurorafs/pkg/storage"
	"verifharness/hx"
	"verifharness/pay"
)

const gatedPrefix = "traffic_last_received_cheque_"

func goid() int64 {
	var buf [64]byte
	n := runtime.Stack(buf[:], false)
	f := strings.Fields(string(buf[:n]))
	id, _ := strconv.ParseInt(f[1], 10, 64)
	return id
}

type greq struct {
	tid   int
	put   bool
	grant chan struct{}
}

type gate struct {
	storage.StateStorer
	mu     sync.Mutex
	active bool
	tids   map[int64]int
	reqs   chan *greq
}

func (g *gate) pass(key string, put bool) {
	if !strings.HasPrefix(key, gatedPrefix) {
		return
	}
	g.mu.Lock()
	tid, ok := g.tids[goid()]
	act := g.active
	g.mu.Unlock()
	if !act || !ok {
		return
	}
	r := &greq{tid: tid, put: put, grant: make(chan struct{})}
	g.reqs <- r
	<-r.grant
}
func (g *gate) Get(key string, i interface{}) error {
	g.pass(key, false)
	return g.StateStorer.Get(key, i)
}
func (g *gate) Put(key string, i interface{}) error {
	g.pass(key, true)
	return g.StateStorer.Put(key, i)
}

type jconc struct {
	Kind  string  `json:"kind"` // "conc"
	Pre   []jop   `json:"pre"`
	Progs [][]jop `json:"progs"`
	Post  []jop   `json:"post"`
	Seed  uint64  `json:"sched_seed"`
}

type jevent struct {
	Tid int  `json:"tid"`
	Put bool `json:"put"`
}

const settle = 3 * time.Millisecond

func runConc(jc jconc) {
	var gt *gate
	e := pay.NewEnvWith(pay.Key(0), func(st storage.StateStorer) storage.StateStorer {
		gt = &gate{StateStorer: st, tids: map[int64]int{}, reqs: make(chan *greq, 64)}
		return gt
	})
	if err := e.Svc.Init(); err != nil {
		panic(err)
	}
	enc := pay.NewEnc(addrs, peers)
	ctx := context.Background()
	var coqPre []string
	for _, o := range jc.Pre {
		if err := e.Svc.Handshake(peers[o.Peer], addrs[o.Addr], chequePkg.SignedCheque{}); err != nil {
			panic(err) // the generator only produces accepted registrations here
		}
		coqPre = append(coqPre, hx.CoqApp("OHandshake", enc.Overlay(peers[o.Peer]), enc.Addr(addrs[o.Addr])))
	}
	// build all cheques (and their observed recovery results) before the race
	n := len(jc.Progs)
	type deliv struct {
		o      jop
		sc     *chequePkg.SignedCheque
		valid  bool
		coq    string
		err    error
		payout *big.Int
	}
	progs := make([][]*deliv, n)
	var coqProgs []string
	for t, ops := range jc.Progs {
		var cs []string
		for _, o := range ops {
			sc, valid := build(o)
			d := &deliv{o: o, sc: sc, valid: valid, coq: coqSC(enc, sc), payout: new(big.Int).Set(sc.CumulativePayout)}
			progs[t] = append(progs[t], d)
			cs = append(cs, hx.CoqPair(enc.Overlay(peers[o.Peer]), d.coq))
		}
		coqProgs = append(coqProgs, hx.CoqList(cs, "delivery"))
	}
	// ---- the race
	fin := make(chan int, n)
	start := make(chan struct{})
	var ready sync.WaitGroup
	ready.Add(n)
	for t := 0; t < n; t++ {
		go func(t int) {
			gt.mu.Lock()
			gt.tids[goid()] = t
			gt.mu.Unlock()
			ready.Done()
			<-start
			for _, d := range progs[t] {
				d.err = e.Svc.ReceiveCheque(ctx, peers[d.o.Peer], d.sc)
			}
			fin <- t
		}(t)
	}
	ready.Wait()
	gt.mu.Lock()
	gt.active = true
	gt.mu.Unlock()
	close(start)
	sr := hx.NewRand(jc.Seed)
	pending := map[int]*greq{}
	finished := 0
	var events []jevent
	deadline := time.Now().Add(20 * time.Second)
	hung := false
	for finished < n {
		// let every goroutine that can move reach the gate (or finish); goroutines waiting for a lock never arrive
	collect:
		for len(pending)+finished < n {
			select {
			case r := <-gt.reqs:
				pending[r.tid] = r
			case <-fin:
				finished++
			case <-time.After(settle):
				break collect
			}
		}
		if len(pending) == 0 {
			if time.Now().After(deadline) {
				hung = true
				break
			}
			continue
		}
		// policy: reads before writes (3 of 4 decisions), else any; ties by seeded choice among sorted tids
		var cand []int
		preferReads := sr.Intn(4) != 0
		for t := 0; t < n; t++ {
			if r, ok := pending[t]; ok && (!preferReads || !r.put) {
				cand = append(cand, t)
			}
		}
		if len(cand) == 0 {
			for t := 0; t < n; t++ {
				if _, ok := pending[t]; ok {
					cand = append(cand, t)
				}
			}
		}
		t := cand[sr.Intn(len(cand))]
		r := pending[t]
		delete(pending, t)
		events = append(events, jevent{Tid: t, Put: r.put})
		close(r.grant)
	}
	gt.mu.Lock()
	gt.active = false
	gt.mu.Unlock()
	jcOut := struct {
		jconc
		Events []jevent `json:"observed_gate_order"`
	}{jc, events}
	if hung {
		run.Violate(hx.Violation{Sig: "conc:deliveries-did-not-finish", Detail: "concurrent deliveries did not finish within 20 s", Case: jcOut})
		return
	}
	// ---- oracle on the race: per issuer, credited == stored == highest accepted; no cheque accepted twice;
	// accepted payouts increase in the order their writes were granted
	maxAcc := map[common.Address]*big.Int{}
	seen := map[string]bool{}
	putIdx := make([]int, n) // per goroutine: index of the next delivery whose write is being granted
	// map write events to deliveries: the k-th Put event of goroutine t belongs to its k-th delivery that reached a Put;
	// deliveries that reached a Put are exactly the accepted ones (Put is the last fallible step)
	accepted := make([][]*deliv, n)
	for t := 0; t < n; t++ {
		for _, d := range progs[t] {
			if d.err == nil {
				accepted[t] = append(accepted[t], d)
				key := d.sc.Beneficiary.Hex() + "/" + d.payout.String()
				run.OracleChecked(1)
				if seen[key] {
					run.Violate(hx.Violation{Sig: "conc:same-cheque-accepted-twice", Detail: fmt.Sprintf("cheque of %s over %v was accepted by two concurrent deliveries", d.sc.Beneficiary.Hex(), d.payout), Case: jcOut})
				}
				seen[key] = true
				if m, ok := maxAcc[d.sc.Beneficiary]; !ok || d.payout.Cmp(m) > 0 {
					maxAcc[d.sc.Beneficiary] = d.payout
				}
			}
		}
	}
	lastPut := map[common.Address]*big.Int{}
	for _, ev := range events {
		if !ev.Put {
			continue
		}
		if putIdx[ev.Tid] >= len(accepted[ev.Tid]) {
			continue // a write whose delivery then failed: cannot happen with this store; ignored
		}
		d := accepted[ev.Tid][putIdx[ev.Tid]]
		putIdx[ev.Tid]++
		run.OracleChecked(1)
		if lp, ok := lastPut[d.sc.Beneficiary]; ok && d.payout.Cmp(lp) <= 0 {
			run.Violate(hx.Violation{Sig: "conc:accepted-out-of-order", Detail: fmt.Sprintf("a cheque of %s over %v was stored after one over %v", d.sc.Beneficiary.Hex(), d.payout, lp), Case: jcOut})
		}
		lastPut[d.sc.Beneficiary] = d.payout
	}
	getMax := func(a common.Address) *big.Int {
		if m, ok := maxAcc[a]; ok {
			return m
		}
		return big.NewInt(0)
	}
	checkTotals := func(when string) {
		cred := map[common.Address]*big.Int{}
		for _, d := range e.Svc.VerifDump() {
			cred[common.HexToAddress(d.Key)] = d.Vals[4]
		}
		for _, a := range addrs {
			run.OracleChecked(2)
			c := cred[a]
			if c == nil {
				c = big.NewInt(0)
			}
			if c.Cmp(getMax(a)) != 0 {
				run.Violate(hx.Violation{Sig: "conc:credited!=highest-accepted", Detail: fmt.Sprintf("%s: credited record of %s = %v, highest accepted payout = %v", when, a.Hex(), c, getMax(a)), Case: jcOut, Impl: c.String(), Want: getMax(a).String()})
			}
			last, lerr := e.CS.LastReceivedCheque(a)
			if lerr != nil && lerr != chequePkg.ErrNoCheque {
				panic(lerr)
			}
			if last.CumulativePayout.Cmp(getMax(a)) != 0 {
				run.Violate(hx.Violation{Sig: "conc:stored!=highest-accepted", Detail: fmt.Sprintf("%s: stored last cheque of %s = %v, highest accepted payout = %v", when, a.Hex(), last.CumulativePayout, getMax(a)), Case: jcOut, Impl: last.CumulativePayout.String(), Want: getMax(a).String()})
			}
		}
	}
	checkTotals("after the race")
	// ---- sequential tail: replays of everything delivered (never credited again) and one higher cheque
	var coqPost []string
	for i, o := range jc.Post {
		sc, validSig := build(o)
		coqsc := coqSC(enc, sc)
		reg, known := e.Book.Beneficiary(peers[o.Peer])
		payout := new(big.Int).Set(sc.CumulativePayout)
		err := e.Svc.ReceiveCheque(ctx, peers[o.Peer], sc)
		coqPost = append(coqPost, hx.CoqPair(hx.CoqApp("OReceive", enc.Overlay(peers[o.Peer]), coqsc), hx.CoqN(classOf(err))))
		want := sc.Recipient == e.Self && validSig && payout.Cmp(getMax(sc.Beneficiary)) > 0 && known && reg == sc.Beneficiary
		run.OracleChecked(1)
		if (err == nil) != want {
			sig := "conc:replay-accepted-after-race"
			if err != nil {
				sig = "conc:valid-cheque-rejected-after-race"
			}
			run.Violate(hx.Violation{Sig: sig, Detail: fmt.Sprintf("tail op %d (%s): err=%v, payout %v, highest accepted %v", i, o.Kind, err, payout, getMax(sc.Beneficiary)), Case: jcOut})
		}
		if err == nil {
			maxAcc[sc.Beneficiary] = payout
		}
	}
	checkTotals("after the tail")
	// ---- correspondence case
	var coqEv, coqObs []string
	for _, ev := range events {
		coqEv = append(coqEv, hx.CoqPair(hx.CoqNat(ev.Tid), hx.CoqBool(ev.Put)))
	}
	sameIssuer := map[common.Address]map[int]bool{}
	for t := 0; t < n; t++ {
		var cl []uint64
		for _, d := range progs[t] {
			cl = append(cl, classOf(d.err))
			run.Hist(fmt.Sprintf("conc.class=%d", classOf(d.err)))
			if d.valid {
				if sameIssuer[d.sc.Beneficiary] == nil {
					sameIssuer[d.sc.Beneficiary] = map[int]bool{}
				}
				sameIssuer[d.sc.Beneficiary][t] = true
			}
		}
		coqObs = append(coqObs, hx.CoqNList(cl))
	}
	nontrivial := false
	for _, m := range sameIssuer {
		if len(m) >= 2 {
			nontrivial = true
		}
	}
	recs := map[common.Address]*big.Int{}
	for _, d := range e.Svc.VerifDump() {
		recs[common.HexToAddress(d.Key)] = d.Vals[4]
	}
	var dump []string
	for _, a := range addrs {
		var last *big.Int
		if lc, err := e.CS.LastReceivedCheque(a); err == nil {
			last = lc.CumulativePayout
		}
		c, exists := recs[a]
		if !exists {
			c = big.NewInt(0)
		}
		dump = append(dump, hx.CoqPair(enc.Addr(a), hx.CoqTuple(optZ(last), hx.CoqBool(exists), pay.CoqZBig(c))))
	}
	term := hx.CoqApp("CConc", enc.Addr(e.Self), hx.CoqList(coqPre, "op"), hx.CoqList(coqProgs, "list delivery"), hx.CoqList(coqEv, "nat * bool"),
		hx.CoqList(coqObs, "list N"), hx.CoqList(coqPost, "op * N"), hx.CoqList(dump, "addr * (option Z * bool * Z)"))
	key := fmt.Sprintf("conc|%v|%v|%v", jc.Progs, jc.Post, events)
	run.Hist(fmt.Sprintf("conc.goroutines=%d", n))
	run.AddCase(term, jcOut, key, nontrivial)
}

// ---------------------------------------------------------------- generator

func genConc(r *hx.Rand) jconc {
	jc := jconc{Kind: "conc", Seed: r.U64()}
	for p := 1; p <= 3; p++ {
		jc.Pre = append(jc.Pre, jop{Op: "hs", Peer: p, Addr: p})
	}
	n := 2 + r.Intn(3)
	iss := 1 + r.Intn(3)
	base := int64(10 + r.Intn(90))
	pattern := r.Intn(5)
	jc.Progs = make([][]jop, n)
	var all []jop
	for t := 0; t < n; t++ {
		k := 1 + r.Intn(2)
		for j := 0; j < k; j++ {
			var o jop
			switch pattern {
			case 0: // the very same cheque on every stream
				o = valid(iss, iss, big.NewInt(base), "same")
			case 1: // increasing with the goroutine index
				o = valid(iss, iss, big.NewInt(base+int64(10*t+j)), "increasing")
			case 2: // decreasing with the goroutine index
				o = valid(iss, iss, big.NewInt(base+int64(10*(n-t)-j)), "decreasing")
			case 3: // two issuers interleaved
				i2 := 1 + (iss+t)%3
				o = valid(i2, i2, big.NewInt(base+int64(r.Intn(3))), "two-issuers")
			default: // mostly the same issuer, some defects
				o = valid(iss, iss, big.NewInt(base+int64(r.Intn(4))), "mixed")
				switch r.Intn(6) {
				case 0:
					o.Peer = 1 + iss%3 // relayed by another registered peer
					o.Kind = "mixed-foreign"
				case 1:
					o.SigMode = "flip"
					o.Kind = "mixed-badsig"
				}
			}
			jc.Progs[t] = append(jc.Progs[t], o)
			all = append(all, o)
		}
	}
	for _, o := range all {
		o.Kind = "replay-after-race"
		jc.Post = append(jc.Post, o)
	}
	jc.Post = append(jc.Post, valid(iss, iss, big.NewInt(base+1000), "raise-after-race"))
	return jc
}

// corpus: the seeded-change witnesses (same cheque on two streams; a higher and a lower cheque racing)
func concCorpus() []jconc {
	mk := func(progs [][]jop, seed uint64) jconc {
		jc := jconc{Kind: "conc", Seed: seed, Pre: []jop{{Op: "hs", Peer: 1, Addr: 1}, {Op: "hs", Peer: 2, Addr: 2}}, Progs: progs}
		for _, ops := range progs {
			for _, o := range ops {
				o.Kind = "replay-after-race"
				jc.Post = append(jc.Post, o)
			}
		}
		return jc
	}
	c100, c60 := valid(1, 1, big.NewInt(100), "same"), valid(1, 1, big.NewInt(60), "lower")
	return []jconc{
		mk([][]jop{{c100}, {c100}}, 1),
		mk([][]jop{{c100}, {c60}}, 2),
		mk([][]jop{{c60}, {c100}}, 3),
		mk([][]jop{{c100}, {c100}, {c100}, {c60}}, 4),
	}
}
