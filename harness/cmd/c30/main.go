// C30 harness: cheque acceptance and crediting on the REAL cheque store
// (chequePkg.NewChequeStore, real EIP-712 signing/recovery, four issuer keys)
// and the REAL traffic service (traffic.New with stub chain / cash-out /
// protocol / p2p, real address book) over an in-memory leveldb state store.
package main

import (
	"context"
	"errors"
	"fmt"
	"math/big"
	"sort"
	"strings"

	"github.com/ethereum/go-ethereum/common"
	"github.com/gauss-project/aurorafs/pkg/boson"
	chequePkg "github.com/gauss-project/aurorafs/pkg/settlement/traffic/cheque"
	"github.com/gauss-project/aurorafs/pkg/statestore/leveldb"
	"github.com/gauss-project/aurorafs/pkg/storage"
	"verifharness/hx"
	"verifharness/pay"
)

// ---- the address / peer universe (indices are what a JSON case stores) ----
// addresses: 0 = this node (key 0), 1..4 = issuers (keys 1..4), 5 = zero address, 6 = some other node
// peers:     0..5 fixed 32-byte overlays; peer i (1..4) is the "natural" peer of issuer i
const nKeys = 5

var addrs []common.Address
var peers []boson.Address

func initUniverse() {
	for i := 0; i < nKeys; i++ {
		addrs = append(addrs, pay.AddrOf(pay.Key(i)))
	}
	addrs = append(addrs, common.Address{}, common.HexToAddress("0x00000000000000000000000000000000000000ff"))
	for i := 0; i < 6; i++ {
		b := make([]byte, 32)
		b[0], b[31] = 0xa0, byte(i+1)
		peers = append(peers, boson.NewAddress(b))
	}
}

type jop struct {
	Op   string `json:"op"` // "hs" | "rx"
	Peer int    `json:"peer"`
	Addr int    `json:"addr,omitempty"` // hs: announced chain address
	// rx: the cheque as delivered ...
	Rcpt   int    `json:"rcpt,omitempty"`
	Iss    int    `json:"iss,omitempty"`
	Payout string `json:"payout,omitempty"`
	// ... and how its signature was made: key index (-1: none), the fields that were signed, post-processing
	Signer  int    `json:"signer,omitempty"`
	SRcpt   int    `json:"srcpt,omitempty"`
	SIss    int    `json:"siss,omitempty"`
	SPayout string `json:"spayout,omitempty"`
	SigMode string `json:"sigmode,omitempty"` // ok | trunc | flip | random | empty
	Kind    string `json:"kind,omitempty"`    // generator label (histogram only)
}

type jchain struct {
	Addr int    `json:"addr"`
	Val  string `json:"val"`
}

type jcase struct {
	Kind string `json:"kind"` // svc | store | svcr
	Ops  []jop  `json:"ops"`
	// svcr: after Ops the process restarts: the chain reports Chain (TransAmount(issuer, self)) and lists Lists, Init(), then Ops2
	Chain []jchain `json:"chain,omitempty"`
	Lists []int    `json:"lists,omitempty"`
	Ops2  []jop    `json:"ops2,omitempty"`
	// storef: indices of Ops during which every state-store read fails (transient store fault)
	Faults []int `json:"faults,omitempty"`
}

// faultStore fails every Get while armed (a transient read fault of the state store).
type faultStore struct {
	storage.StateStorer
	armed bool
	hits  int
}

func (f *faultStore) Get(key string, i interface{}) error {
	if f.armed {
		f.hits++
		return errors.New("verif: injected state-store read fault")
	}
	return f.StateStorer.Get(key, i)
}

func bigOf(s string) *big.Int {
	x, ok := new(big.Int).SetString(s, 10)
	if !ok {
		panic("bad number " + s)
	}
	return x
}

// build makes the signed cheque an op describes; validSig = it carries a signature made with the key of its
// stated issuer over exactly its fields (ground truth by construction, independent of RecoverCheque).
func build(o jop) (sc *chequePkg.SignedCheque, validSig bool) {
	c := chequePkg.Cheque{Recipient: addrs[o.Rcpt], Beneficiary: addrs[o.Iss], CumulativePayout: bigOf(o.Payout)}
	var sig []byte
	signedOK := false
	if o.Signer >= 0 {
		signed := chequePkg.Cheque{Recipient: addrs[o.SRcpt], Beneficiary: addrs[o.SIss], CumulativePayout: bigOf(o.SPayout)}
		s, err := pay.ChequeSigner(pay.Key(o.Signer)).Sign(&signed)
		if err == nil {
			sig, signedOK = s, true
		}
	}
	switch o.SigMode {
	case "trunc":
		if len(sig) > 0 {
			sig = sig[:len(sig)-1]
		}
		signedOK = false
	case "flip":
		if len(sig) > 10 {
			sig = append([]byte{}, sig...)
			sig[7] ^= 0x40
		}
		signedOK = false
	case "random":
		sig = make([]byte, 65)
		for i := range sig {
			sig[i] = byte(37*i + 11*o.Peer + len(o.Payout))
		}
		sig[64] = 27
		signedOK = false
	case "empty":
		sig = []byte{}
		signedOK = false
	}
	if sig == nil {
		sig = []byte{}
	}
	validSig = signedOK && o.Signer >= 0 && o.Signer < nKeys && addrs[o.Signer] == c.Beneficiary &&
		o.SRcpt == o.Rcpt && o.SIss == o.Iss && o.SPayout == o.Payout
	return &chequePkg.SignedCheque{Cheque: c, Signature: sig}, validSig
}

func classOf(err error) uint64 {
	switch {
	case err == nil:
		return 0
	case errors.Is(err, chequePkg.ErrWrongBeneficiary):
		return 2
	case errors.Is(err, chequePkg.ErrChequeInvalid):
		return 4
	case errors.Is(err, chequePkg.ErrChequeNotIncreasing):
		return 5
	case strings.HasPrefix(err.Error(), "account information error"):
		// the two guards of Service.ReceiveCheque create their errors inline (no sentinel); their texts differ
		// only by a trailing blank and are reported as one class
		return 1
	default:
		return 3
	}
}

func coqSC(enc *pay.Enc, sc *chequePkg.SignedCheque) string {
	rec := "None"
	if a, err := chequePkg.RecoverCheque(sc, pay.ChainID); err == nil {
		rec = hx.CoqSome(enc.Addr(a))
	}
	return hx.CoqApp("SC", enc.Addr(sc.Recipient), enc.Addr(sc.Beneficiary), pay.CoqZBig(sc.CumulativePayout), rec)
}

func optZ(x *big.Int) string {
	if x == nil {
		return "None"
	}
	return hx.CoqSome(pay.CoqZBig(x))
}

var run *hx.Run

// ---------------------------------------------------------------- service history

func runSvc(jc jcase) {
	e := pay.NewEnv(pay.Key(0))
	if err := e.Svc.Init(); err != nil {
		panic(err)
	}
	ctx := context.Background()
	enc := pay.NewEnc(addrs, peers)
	maxAcc := map[common.Address]*big.Int{}
	getMax := func(a common.Address) *big.Int {
		if m, ok := maxAcc[a]; ok {
			return m
		}
		return big.NewInt(0)
	}
	var coqOps []string
	nontrivial := false
	accepted := 0
	var coqOps2 []string
	restored := false
	touched := map[common.Address]bool{} // after a restart: issuers with an accepted cheque since
	cur := &coqOps
	doOps := func(ops []jop) {
		for i, o := range ops {
			switch o.Op {
			case "hs":
				err := e.Svc.Handshake(peers[o.Peer], addrs[o.Addr], chequePkg.SignedCheque{})
				cl := uint64(0)
				if err != nil {
					cl = 6
				}
				*cur = append(*cur, hx.CoqPair(hx.CoqApp("OHandshake", enc.Overlay(peers[o.Peer]), enc.Addr(addrs[o.Addr])), hx.CoqN(cl)))
				run.Hist(fmt.Sprintf("hs.class=%d", cl))
			case "rx":
				sc, validSig := build(o)
				coqsc := coqSC(enc, sc) // before the call: the observation table entry of the real recovery function
				reg, known := e.Book.Beneficiary(peers[o.Peer])
				payout := new(big.Int).Set(sc.CumulativePayout)
				err := e.Svc.ReceiveCheque(ctx, peers[o.Peer], sc)
				cl := classOf(err)
				*cur = append(*cur, hx.CoqPair(hx.CoqApp("OReceive", enc.Overlay(peers[o.Peer]), coqsc), hx.CoqN(cl)))
				run.Hist("rx." + o.Kind)
				run.Hist(fmt.Sprintf("rx.class=%d", cl))
				// ---- oracle 1: accepted iff the four conditions of the property
				cRcpt := sc.Recipient == e.Self
				cInc := payout.Cmp(getMax(sc.Beneficiary)) > 0
				cPeer := known && reg == sc.Beneficiary
				want := cRcpt && validSig && cInc && cPeer
				run.OracleChecked(1)
				if (err == nil) != want {
					sig := "reject:valid-cheque"
					if err == nil {
						switch {
						case !known:
							sig = "accept:unregistered-peer"
						case !cPeer:
							sig = "accept:foreign-issuer"
						case !cRcpt:
							sig = "accept:wrong-recipient"
						case !validSig:
							sig = "accept:bad-signature"
						default:
							sig = "accept:not-increasing"
						}
					}
					run.Violate(hx.Violation{Sig: sig, Detail: fmt.Sprintf("op %d (%s): ReceiveCheque err=%v; recipient-ok=%v valid-signature=%v increasing=%v from-registered-peer-of-issuer=%v",
						i, o.Kind, err, cRcpt, validSig, cInc, cPeer), Case: jc, Impl: err == nil, Want: want})
				}
				if err == nil {
					maxAcc[sc.Beneficiary] = payout
					if restored {
						touched[sc.Beneficiary] = true
					}
					accepted++
					if accepted >= 2 {
						nontrivial = true
					}
				}
			}
			// ---- oracle 2: after every op, per issuer: credited record == highest accepted payout == stored last cheque
			cred := map[common.Address]*big.Int{}
			for _, d := range e.Svc.VerifDump() {
				cred[common.HexToAddress(d.Key)] = d.Vals[4]
			}
			for _, a := range addrs {
				run.OracleChecked(2)
				c := cred[a]
				if c == nil {
					c = big.NewInt(0)
				}
				// after a restart the record of an issuer starts as max(chain, stored cheque); from its first accepted cheque
				// on it must be that cheque's cumulative payout = the highest accepted
				if restored && !touched[a] {
					// nothing accepted since the restart: not constrained here
				} else if c.Cmp(getMax(a)) != 0 {
					sig := "credit:record!=max-accepted"
					if restored {
						sig = "credit:record!=cheque-payout-after-restore"
					}
					run.Violate(hx.Violation{Sig: sig, Detail: fmt.Sprintf("after op %d: credited record of %s = %v, highest accepted payout = %v", i, a.Hex(), c, getMax(a)),
						Case: jc, Impl: c.String(), Want: getMax(a).String()})
				}
				last, lerr := e.CS.LastReceivedCheque(a)
				if lerr != nil && lerr != chequePkg.ErrNoCheque {
					panic(lerr)
				}
				if last.CumulativePayout.Cmp(getMax(a)) != 0 {
					run.Violate(hx.Violation{Sig: "credit:last-cheque!=max-accepted", Detail: fmt.Sprintf("after op %d: stored last cheque of %s = %v, highest accepted payout = %v", i, a.Hex(), last.CumulativePayout, getMax(a)),
						Case: jc, Impl: last.CumulativePayout.String(), Want: getMax(a).String()})
				}
			}
			// public API view for registered peers
			for _, p := range peers {
				if a, known := e.Book.Beneficiary(p); known {
					lc, err := e.Svc.LastReceivedCheque(p)
					if err == nil || err == chequePkg.ErrNoCheque {
						if lc.CumulativePayout.Cmp(getMax(a)) != 0 {
							run.Violate(hx.Violation{Sig: "credit:last-cheque!=max-accepted", Detail: fmt.Sprintf("after op %d: Service.LastReceivedCheque of a registered peer = %v, want %v", i, lc.CumulativePayout, getMax(a)), Case: jc})
						}
					}
				}
			}
			tcs, _ := e.Svc.TrafficCheques()
			for _, tc := range tcs {
				if a, known := e.Book.Beneficiary(tc.Peer); known {
					run.OracleChecked(1)
					if restored && !touched[a] {
						continue
					}
					if tc.ReceivedSettlements.Cmp(getMax(a)) != 0 {
						run.Violate(hx.Violation{Sig: "credit:record!=max-accepted", Detail: fmt.Sprintf("after op %d: TrafficCheques.ReceivedSettlements = %v, want %v", i, tc.ReceivedSettlements, getMax(a)), Case: jc})
					}
				}
			}
		}
	}
	doOps(jc.Ops)
	if jc.Kind == "svcr" {
		// restart: the chain now reports what each issuer has been cashed for; new process, Init, address book reload
		var coqChain, coqLists []string
		e.Chain.Set(func() {
			for _, c := range jc.Chain {
				e.Chain.Trans[[2]common.Address{addrs[c.Addr], e.Self}] = bigOf(c.Val)
				coqChain = append(coqChain, hx.CoqPair(enc.Addr(addrs[c.Addr]), pay.CoqZBig(bigOf(c.Val))))
			}
			e.Chain.Transferred = nil
			for _, a := range jc.Lists {
				e.Chain.Transferred = append(e.Chain.Transferred, addrs[a])
				coqLists = append(coqLists, enc.Addr(addrs[a]))
			}
		})
		e.Boot()
		if err := e.Svc.Init(); err != nil {
			panic(err)
		}
		restored, cur = true, &coqOps2
		run.Hist("svcr.restart")
		doOps(jc.Ops2)
		dump, ok := finalDump(e, enc, jc)
		_ = ok
		term := hx.CoqApp("CSvcR", enc.Addr(e.Self), hx.CoqList(coqOps, "op * N"), hx.CoqList(coqChain, "addr * Z"), hx.CoqList(coqLists, "addr"),
			hx.CoqList(coqOps2, "op * N"), hx.CoqList(dump, "addr * (option Z * bool * Z)"))
		run.AddCase(term, jc, keyOf(jc), len(touched) > 0)
		return
	}
	// ---- final dump for the correspondence
	dump, _ := finalDump(e, enc, jc)
	term := hx.CoqApp("CSvc", enc.Addr(e.Self), hx.CoqList(coqOps, "op * N"), hx.CoqList(dump, "addr * (option Z * bool * Z)"))
	run.AddCase(term, jc, keyOf(jc), nontrivial)
}

func finalDump(e *pay.Env, enc *pay.Enc, jc jcase) ([]string, bool) {
	dumpRecs := e.Svc.VerifDump()
	recs := map[common.Address]*big.Int{}
	for _, d := range dumpRecs {
		recs[common.HexToAddress(d.Key)] = d.Vals[4]
	}
	inUniverse := 0
	var dump []string
	for _, a := range addrs {
		var last *big.Int
		if lc, err := e.CS.LastReceivedCheque(a); err == nil {
			last = lc.CumulativePayout
		}
		c, exists := recs[a]
		if !exists {
			c = big.NewInt(0)
		} else {
			inUniverse++
		}
		dump = append(dump, hx.CoqPair(enc.Addr(a), hx.CoqTuple(optZ(last), hx.CoqBool(exists), pay.CoqZBig(c))))
	}
	if inUniverse != len(dumpRecs) {
		run.Violate(hx.Violation{Sig: "record:for-address-never-registered", Detail: "a Traffic record exists for an address outside the universe of the run", Case: jc})
	}
	return dump, true
}

// ---------------------------------------------------------------- store-only history

func runStore(jc jcase) {
	lg := pay.NewEnv(pay.Key(0)).Logger
	st, err := leveldb.NewInMemoryStateStore(lg)
	if err != nil {
		panic(err)
	}
	self := addrs[0]
	enc := pay.NewEnc(addrs, peers)
	fst := &faultStore{StateStorer: st}
	faultAt := map[int]bool{}
	for _, f := range jc.Faults {
		faultAt[f] = true
	}
	cs := chequePkg.NewChequeStore(fst, self, chequePkg.RecoverCheque, pay.ChainID)
	maxAcc := map[common.Address]*big.Int{}
	sum := map[common.Address]*big.Int{}
	getMax := func(a common.Address) *big.Int {
		if m, ok := maxAcc[a]; ok {
			return m
		}
		return big.NewInt(0)
	}
	var coqOps []string
	accepted := 0
	for i, o := range jc.Ops {
		sc, validSig := build(o)
		coqsc := coqSC(enc, sc)
		payout := new(big.Int).Set(sc.CumulativePayout)
		fst.armed, fst.hits = faultAt[i], 0
		amount, err := cs.ReceiveCheque(context.Background(), sc)
		fst.armed = false
		faulted := fst.hits > 0
		cl := classOf(err)
		am := big.NewInt(0)
		if err == nil {
			am = amount
		}
		coqOps = append(coqOps, hx.CoqPair(coqsc, hx.CoqPair(hx.CoqN(cl), pay.CoqZBig(am))))
		run.Hist("store." + o.Kind)
		want := sc.Recipient == self && validSig && payout.Cmp(getMax(sc.Beneficiary)) > 0
		run.OracleChecked(1)
		if faulted && err != nil {
			// the store could not be read: refusing the cheque (nothing credited, nothing stored) is correct
			run.Hist("store.refused-under-read-fault")
			continue
		}
		if (err == nil) != want {
			sig := "store-reject:valid-cheque"
			if err == nil {
				switch {
				case sc.Recipient != self:
					sig = "store-accept:wrong-recipient"
				case !validSig:
					sig = "store-accept:bad-signature"
				default:
					sig = "store-accept:not-increasing"
				}
			}
			if faulted {
				sig += ":under-store-read-fault"
			}
			run.Violate(hx.Violation{Sig: sig, Detail: fmt.Sprintf("op %d (%s): chequeStore.ReceiveCheque err=%v (store read fault injected: %v)", i, o.Kind, err, faulted), Case: jc, Impl: err == nil, Want: want})
		}
		if err == nil {
			accepted++
			wantAm := new(big.Int).Sub(payout, getMax(sc.Beneficiary))
			if amount.Cmp(wantAm) != 0 {
				run.Violate(hx.Violation{Sig: "store-amount:not-increment", Detail: fmt.Sprintf("op %d: returned amount %v, increment over the highest accepted payout is %v", i, amount, wantAm), Case: jc})
			}
			maxAcc[sc.Beneficiary] = payout
			if sum[sc.Beneficiary] == nil {
				sum[sc.Beneficiary] = big.NewInt(0)
			}
			sum[sc.Beneficiary].Add(sum[sc.Beneficiary], amount)
		}
	}
	var dump []string
	for _, a := range addrs {
		var last *big.Int
		if lc, err := cs.LastReceivedCheque(a); err == nil {
			last = lc.CumulativePayout
		}
		run.OracleChecked(1)
		l := last
		if l == nil {
			l = big.NewInt(0)
		}
		s := sum[a]
		if s == nil {
			s = big.NewInt(0)
		}
		if l.Cmp(getMax(a)) != 0 || s.Cmp(getMax(a)) != 0 {
			run.Violate(hx.Violation{Sig: "store-credit:total!=max-accepted", Detail: fmt.Sprintf("issuer %s: stored %v, sum of returned amounts %v, highest accepted %v", a.Hex(), l, s, getMax(a)), Case: jc})
		}
		dump = append(dump, hx.CoqPair(enc.Addr(a), optZ(last)))
	}
	if len(jc.Faults) > 0 {
		// fault layer: oracle on the implementation only (the model has no failing read; a refused
		// delivery is a no-op there, so the remaining history is the case without the refused ops)
		return
	}
	term := hx.CoqApp("CStore", enc.Addr(self), hx.CoqList(coqOps, "signed * (N * Z)"), hx.CoqList(dump, "addr * option Z"))
	run.AddCase(term, jc, keyOf(jc), accepted >= 2)
}

func keyOf(jc jcase) string {
	var sb strings.Builder
	sb.WriteString(jc.Kind)
	fmt.Fprintf(&sb, "%v%v", jc.Chain, jc.Lists)
	for _, o := range append(append([]jop{}, jc.Ops...), jc.Ops2...) {
		fmt.Fprintf(&sb, "|%s,%d,%d,%d,%d,%s,%d,%d,%d,%s,%s", o.Op, o.Peer, o.Addr, o.Rcpt, o.Iss, o.Payout, o.Signer, o.SRcpt, o.SIss, o.SPayout, o.SigMode)
	}
	return sb.String()
}

// ---------------------------------------------------------------- generator

type gen struct {
	r     *hx.Rand
	reg   map[int]int // peer index -> registered address index (reference bookkeeping of the generator only)
	taken map[int]bool
	last  map[int]*big.Int // issuer index -> highest payout generated as valid so far
	sent  []jop
	store bool
}

func (g *gen) delta() *big.Int {
	switch g.r.Intn(8) {
	case 0:
		return big.NewInt(1)
	case 1:
		return new(big.Int).Lsh(big.NewInt(1), uint(60+g.r.Intn(70)))
	default:
		return big.NewInt(int64(1 + g.r.Intn(1000)))
	}
}

func (g *gen) lastOf(i int) *big.Int {
	if x, ok := g.last[i]; ok {
		return x
	}
	return big.NewInt(0)
}

func valid(peer, iss int, payout *big.Int, kind string) jop {
	p := payout.String()
	return jop{Op: "rx", Peer: peer, Rcpt: 0, Iss: iss, Payout: p, Signer: iss, SRcpt: 0, SIss: iss, SPayout: p, SigMode: "ok", Kind: kind}
}

func (g *gen) peerOf(iss int) int {
	for p, a := range g.reg {
		if a == iss {
			return p
		}
	}
	return -1
}

func (g *gen) rx() jop {
	r := g.r
	iss := 1 + r.Intn(4)
	peer := g.peerOf(iss)
	if peer < 0 || g.store {
		peer = r.Intn(6)
	}
	next := new(big.Int).Add(g.lastOf(iss), g.delta())
	k := r.Intn(100)
	switch {
	case k < 34: // valid, from the registered peer when there is one
		o := valid(peer, iss, next, "valid")
		if g.peerOf(iss) == peer || g.store {
			g.last[iss] = next
		}
		g.sent = append(g.sent, o)
		return o
	case k < 46 && len(g.sent) > 0: // replay of an earlier cheque (same or other peer)
		o := g.sent[r.Intn(len(g.sent))]
		o.Kind = "replay"
		if r.Chance(1, 4) {
			o.Peer = r.Intn(6)
			o.Kind = "replay-other-peer"
		}
		return o
	case k < 56: // not increasing: equal, lower, zero, negative
		var p *big.Int
		switch r.Intn(4) {
		case 0:
			p = new(big.Int).Set(g.lastOf(iss))
		case 1:
			p = new(big.Int).Sub(g.lastOf(iss), big.NewInt(int64(1+r.Intn(5))))
		case 2:
			p = big.NewInt(0)
		default:
			p = big.NewInt(-int64(1 + r.Intn(9)))
		}
		if p.Sign() < 0 {
			o := valid(peer, iss, p, "negative")
			return o
		}
		return valid(peer, iss, p, "not-increasing")
	case k < 64: // mis-addressed: made out to somebody else (validly signed as such)
		o := valid(peer, iss, next, "mis-addressed")
		o.Rcpt = r.Pick([]int{5, 6, iss, 1 + r.Intn(4)})
		o.SRcpt = o.Rcpt
		return o
	case k < 78: // wrongly signed
		o := valid(peer, iss, next, "")
		switch r.Intn(7) {
		case 0:
			o.Signer = 1 + (iss+r.Intn(3))%4 // another issuer's key
			if o.Signer == iss {
				o.Signer = 0
			}
			o.Kind = "sig-other-key"
		case 1:
			o.Signer = 0 // this node's own key
			o.Kind = "sig-own-key"
		case 2:
			o.SPayout = new(big.Int).Sub(next, big.NewInt(1)).String() // payout raised after signing
			o.Kind = "sig-payout-tampered"
		case 3:
			o.SRcpt = 6 // signed for another recipient, re-addressed to us
			o.Kind = "sig-recipient-tampered"
		case 4:
			o.SigMode = "trunc"
			o.Kind = "sig-truncated"
		case 5:
			o.SigMode = "flip"
			o.Kind = "sig-bit-flipped"
		default:
			o.SigMode = []string{"random", "empty"}[r.Intn(2)]
			o.Kind = "sig-" + o.SigMode
		}
		return o
	case k < 90: // foreign issuer: a valid cheque of issuer j relayed by the registered peer of issuer i
		var regPeers []int
		for p, a := range g.reg {
			if a != iss {
				regPeers = append(regPeers, p)
			}
		}
		sort.Ints(regPeers)
		if len(regPeers) > 0 {
			peer = regPeers[r.Intn(len(regPeers))]
		} else {
			peer = r.Intn(6)
		}
		o := valid(peer, iss, next, "foreign-issuer")
		g.sent = append(g.sent, o)
		return o
	case k < 96: // from a peer that is not registered at all
		var unreg []int
		for p := 0; p < 6; p++ {
			if _, ok := g.reg[p]; !ok {
				unreg = append(unreg, p)
			}
		}
		if len(unreg) > 0 {
			peer = unreg[r.Intn(len(unreg))]
		}
		o := valid(peer, iss, next, "unregistered-peer")
		g.sent = append(g.sent, o)
		return o
	default: // issuer field is not one of the issuers: this node itself, zero address
		o := valid(peer, iss, next, "odd-issuer")
		o.Iss = r.Pick([]int{0, 5, 6})
		o.SIss = o.Iss
		if o.Iss == 0 {
			o.Signer = 0
		}
		return o
	}
}

func (g *gen) hs() jop {
	r := g.r
	p := r.Intn(6)
	a := 1 + r.Intn(4)
	if r.Chance(1, 10) {
		a = r.Pick([]int{0, 5, 6})
	}
	// reference bookkeeping (what a correct address book would hold); only steers generation
	if _, known := g.reg[p]; !known && !g.taken[a] {
		g.reg[p] = a
		g.taken[a] = true
	}
	return jop{Op: "hs", Peer: p, Addr: a}
}

func genSvc(r *hx.Rand, n int) jcase {
	g := &gen{r: r, reg: map[int]int{}, taken: map[int]bool{}, last: map[int]*big.Int{}}
	jc := jcase{Kind: "svc"}
	// mostly: register a few peers first
	for i := 0; i < 1+r.Intn(5); i++ {
		if r.Chance(4, 5) {
			p := 1 + r.Intn(4)
			if _, known := g.reg[p]; !known && !g.taken[p] {
				g.reg[p], g.taken[p] = p, true
			}
			jc.Ops = append(jc.Ops, jop{Op: "hs", Peer: p, Addr: p})
		} else {
			jc.Ops = append(jc.Ops, g.hs())
		}
	}
	for len(jc.Ops) < n {
		if r.Chance(1, 9) {
			jc.Ops = append(jc.Ops, g.hs())
		} else {
			jc.Ops = append(jc.Ops, g.rx())
		}
	}
	return jc
}

// genSvcR: registrations and some cheques, then a restart with chain totals above / equal to / below the stored
// cheques (or with nothing stored), then cheque sequences (increasing, replay, lower, higher, defective)
func genSvcR(r *hx.Rand, n int) jcase {
	g := &gen{r: r, reg: map[int]int{}, taken: map[int]bool{}, last: map[int]*big.Int{}}
	jc := jcase{Kind: "svcr"}
	for p := 1; p <= 3; p++ {
		if r.Chance(5, 6) {
			g.reg[p], g.taken[p] = p, true
			jc.Ops = append(jc.Ops, jop{Op: "hs", Peer: p, Addr: p})
		}
	}
	for k := r.Intn(6); k > 0; k-- {
		jc.Ops = append(jc.Ops, g.rx())
	}
	for a := 1; a <= 4; a++ {
		st := g.lastOf(a)
		var v *big.Int
		switch r.Intn(6) {
		case 0:
			continue // the chain knows nothing about this issuer
		case 1:
			v = new(big.Int).Set(st)
		case 2:
			v = new(big.Int).Sub(st, big.NewInt(int64(1+r.Intn(20))))
			if v.Sign() < 0 {
				v = big.NewInt(0)
			}
		case 3:
			v = new(big.Int).Add(st, big.NewInt(1))
		default:
			v = new(big.Int).Add(st, g.delta())
		}
		jc.Chain = append(jc.Chain, jchain{Addr: a, Val: v.String()})
		if r.Chance(2, 3) {
			jc.Lists = append(jc.Lists, a)
		}
	}
	for len(jc.Ops2) < n {
		if r.Chance(1, 12) {
			jc.Ops2 = append(jc.Ops2, g.hs())
		} else {
			jc.Ops2 = append(jc.Ops2, g.rx())
		}
	}
	return jc
}

func genStore(r *hx.Rand, n int) jcase {
	g := &gen{r: r, reg: map[int]int{}, taken: map[int]bool{}, last: map[int]*big.Int{}, store: true}
	jc := jcase{Kind: "store"}
	for len(jc.Ops) < n {
		jc.Ops = append(jc.Ops, g.rx())
	}
	return jc
}

// corpus: the F-cheque-and-or witness (register peer 1 for issuer 1, accept 100 from it, then a valid cheque of
// issuer 2 over 5 relayed by peer 1) and its variants; run on every seed.
func corpus() []jcase {
	return []jcase{
		{Kind: "svc", Ops: []jop{{Op: "hs", Peer: 1, Addr: 1}, valid(1, 1, big.NewInt(100), "valid"), valid(1, 2, big.NewInt(5), "foreign-issuer")}},
		{Kind: "svc", Ops: []jop{{Op: "hs", Peer: 1, Addr: 1}, {Op: "hs", Peer: 2, Addr: 2}, valid(2, 2, big.NewInt(50), "valid"), valid(1, 2, big.NewInt(70), "foreign-issuer"),
			valid(1, 1, big.NewInt(10), "valid"), valid(2, 2, big.NewInt(50), "replay"), valid(2, 2, big.NewInt(60), "valid"), valid(2, 2, big.NewInt(55), "not-increasing")}},
		{Kind: "svc", Ops: []jop{valid(3, 3, big.NewInt(9), "unregistered-peer"), {Op: "hs", Peer: 3, Addr: 3}, valid(3, 3, big.NewInt(9), "valid"), {Op: "hs", Peer: 4, Addr: 3}, {Op: "hs", Peer: 3, Addr: 4},
			valid(3, 4, big.NewInt(9), "foreign-issuer"), valid(4, 3, big.NewInt(10), "unregistered-peer")}},
		// seeded change C30-3: nothing stored, the chain says issuer 1 was cashed for 100, Init, then 150, 150, 120, 180
		{Kind: "svcr", Ops: []jop{{Op: "hs", Peer: 1, Addr: 1}}, Chain: []jchain{{Addr: 1, Val: "100"}}, Lists: []int{1},
			Ops2: []jop{valid(1, 1, big.NewInt(150), "valid"), valid(1, 1, big.NewInt(150), "replay"), valid(1, 1, big.NewInt(120), "not-increasing"), valid(1, 1, big.NewInt(180), "valid")}},
		// stored 40, chain 100: a cheque of 60 is above the stored one and accepted; the record becomes 60
		{Kind: "svcr", Ops: []jop{{Op: "hs", Peer: 1, Addr: 1}, valid(1, 1, big.NewInt(40), "valid")}, Chain: []jchain{{Addr: 1, Val: "100"}},
			Ops2: []jop{valid(1, 1, big.NewInt(40), "replay"), valid(1, 1, big.NewInt(60), "valid"), valid(1, 1, big.NewInt(100), "valid")}},
		{Kind: "store", Ops: []jop{valid(0, 1, big.NewInt(3), "valid"), valid(0, 1, big.NewInt(3), "replay"), valid(0, 1, big.NewInt(2), "not-increasing"), valid(0, 2, big.NewInt(1), "valid"), valid(0, 1, big.NewInt(8), "valid")}},
	}
}

// faultCorpus: 10, 30, then a replay of 10 while the store cannot be read, then 30 again.
func faultCorpus() []jcase {
	ops := []jop{valid(1, 1, big.NewInt(10), "valid"), valid(1, 1, big.NewInt(30), "valid"),
		valid(1, 1, big.NewInt(10), "replay-lower"), valid(1, 1, big.NewInt(30), "replay")}
	return []jcase{{Kind: "storef", Ops: ops, Faults: []int{2}}, {Kind: "storef", Ops: ops, Faults: []int{2, 3}}, {Kind: "storef", Ops: ops, Faults: []int{1}}}
}

func main() {
	run = hx.Start("C30", "Aurora.C30.Corr",
		"concurrent deliveries (2-4 goroutines, same/increasing/decreasing/two-issuer/defective cheques) through the real service over a gated state store (the controller grants the store's reads before its writes), followed by sequential replays; histories restarted (Init) with chain totals above/equal/below the stored cheques before further cheques; and histories (6..24 ops) of registrations (Handshake with empty signature) and cheques delivered to the real traffic service, and store-only cheque sequences; cheques are valid / replayed / not increasing / negative / mis-addressed / wrongly signed (7 ways) / foreign-issuer / from unregistered peers / odd issuer, signed with real EIP-712 keys; addresses are encoded injectively as small numbers (universe index, others numbered from 100 in order of appearance); non-trivial = at least two cheques accepted; distinct by the full op list")
	initUniverse()
	if run.Replay != "" {
		var jc jcase
		if err := run.ReadReplay(&jc); err != nil {
			panic(err)
		}
		if jc.Kind == "conc" {
			var cc jconc
			if err := run.ReadReplay(&cc); err != nil {
				panic(err)
			}
			runConc(cc)
		} else if jc.Kind == "store" || jc.Kind == "storef" {
			runStore(jc)
		} else {
			runSvc(jc)
		}
		run.Finish()
		return
	}
	for _, jc := range corpus() {
		if jc.Kind == "store" {
			runStore(jc)
		} else {
			runSvc(jc)
		}
	}
	for _, cc := range concCorpus() {
		runConc(cc)
	}
	for i := 0; i < run.N(36, 400); i++ {
		runConc(genConc(run.R.Fork(uint64(2000000 + i))))
	}
	for i := 0; i < run.N(40, 500); i++ {
		runSvc(genSvcR(run.R.Fork(uint64(3000000+i)), 3+run.R.Intn(10)))
	}
	nSvc, nStore := run.N(110, 1200), run.N(35, 300)
	for i := 0; i < nSvc; i++ {
		runSvc(genSvc(run.R.Fork(uint64(i)), 6+run.R.Intn(19)))
	}
	for i := 0; i < nStore; i++ {
		runStore(genStore(run.R.Fork(uint64(1000000+i)), 4+run.R.Intn(16)))
	}
	// store-only sequences with transient read faults of the state store during some deliveries
	// (replays and decreasing cheques among them): a delivery under a fault is refused or correct
	for _, jc := range faultCorpus() {
		runStore(jc)
	}
	for i := 0; i < run.N(30, 300); i++ {
		r := run.R.Fork(uint64(4000000 + i))
		jc := genStore(r, 6+r.Intn(14))
		jc.Kind = "storef"
		for k := range jc.Ops {
			if k > 0 && r.Intn(3) == 0 {
				jc.Faults = append(jc.Faults, k)
			}
		}
		if len(jc.Faults) == 0 {
			jc.Faults = []int{len(jc.Ops) - 1}
		}
		runStore(jc)
	}
	run.Finish()
}
