// C16 harness: deleting one file (DELETE /aurora/{root} or cache eviction) never
// breaks another locally known file and leaves no unpinned orphan.  Same
// histories and correspondence as C12 (harness/gcx, Aurora.C16.Corr =
// Aurora.C12.Corr); oracle gcx.C16Oracle: around every delete and every
// collection run, every other file registered with chunkinfo that could be read
// back completely (traversal + every chunk + joiner bytes) still can, and no
// chunk used only by the deleted file remains stored without a pin.
package main

import (
	"verifharness/gcx"
	"verifharness/hx"
)

func main() {
	run := hx.Start("C16", "Aurora.C16.Corr",
		"histories of 5..15 node operations over 2..4 files of 1..4 chunks (256 KiB blocks from a pool of 5: identical chunks, repeated chunks, chunk-aligned prefix files, the bare /bytes reference of a manifest's content): uploads, pyramid exchange + chunk retrieval into the cache, reads, root pins/unpins, DELETE /aurora/{root}, chunk-transfer registrations, collection runs with capacity 2..10; non-trivial = a DELETE answered 200 or a run recycled a file; distinct by (capacity, files, operations)")
	gcx.Main(run, &gcx.C16Oracle{}, 20, 900)
}
