// C18 harness: the two state stores (pkg/statestore/leveldb, pkg/statestore/mock)
// driven by the same histories of put/get/delete/iterate(/reopen).
package main

import (
	"bytes"
	"encoding/hex"
	"errors"
	"fmt"
	"io"
	"os"
	"path/filepath"
	"sort"
	"strconv"
	"strings"

	"github.com/gauss-project/aurorafs/pkg/logging"
	ldbstore "github.com/gauss-project/aurorafs/pkg/statestore/leveldb"
	"github.com/gauss-project/aurorafs/pkg/statestore/mock"
	"github.com/gauss-project/aurorafs/pkg/storage"
	"verifharness/hx"
)

// raw is the BinaryMarshaler value type: the stored bytes are the value.
type raw struct{ b []byte }

func (r *raw) MarshalBinary() ([]byte, error) { return r.b, nil }
func (r *raw) UnmarshalBinary(d []byte) error  { r.b = append([]byte{}, d...); return nil }

type jcb struct {
	Kind string `json:"kind"` // never | at | key
	N    int    `json:"n,omitempty"`
	K    string `json:"k,omitempty"`
	Stop bool   `json:"stop,omitempty"`
	Err  int    `json:"err,omitempty"` // 0 = nil, else error code
}
type jop struct {
	Op string `json:"op"`           // put get del iter reopen
	K  string `json:"k,omitempty"`  // key / prefix (hex)
	T  string `json:"t,omitempty"`  // raw | u64 (value type of put, target type of get)
	V  string `json:"v,omitempty"`  // raw: hex ; u64: decimal
	Cb *jcb   `json:"cb,omitempty"` // iter
}
type jcase struct {
	Store string `json:"store"` // ldbmem | ldbdisk | mock | all
	Ops   []jop  `json:"ops"`
}

type cbErr struct{ code int }

func (e *cbErr) Error() string { return fmt.Sprintf("callback error %d", e.code) }

var logger = logging.New(io.Discard, 0)
var dirSeq int

type visit struct{ k, v []byte }

// observation of one operation, rendered both as Coq term and as a comparable string
type obsT struct {
	coq string
	cmp string
}

func coqKV(vis []visit) string {
	el := make([]string, len(vis))
	for i, x := range vis {
		el[i] = hx.CoqPair(hx.CoqBytes(x.k), hx.CoqBytes(x.v))
	}
	return hx.CoqList(el, "kv")
}
func coqOptN(code int) string {
	if code == 0 {
		return "None"
	}
	return hx.CoqSome(hx.CoqN(uint64(code)))
}

func coqOp(o jop) string {
	k := hx.CoqBytes(unhex(o.K))
	switch o.Op {
	case "put":
		if o.T == "u64" {
			n, _ := strconv.ParseUint(o.V, 10, 64)
			return hx.CoqApp("OPut", k, hx.CoqApp("VU64", hx.CoqN(n)))
		}
		return hx.CoqApp("OPut", k, hx.CoqApp("VRaw", hx.CoqBytes(unhex(o.V))))
	case "get":
		if o.T == "u64" {
			return hx.CoqApp("OGet", k, "TU64")
		}
		return hx.CoqApp("OGet", k, "TRaw")
	case "del":
		return hx.CoqApp("ODel", k)
	case "iter":
		cb := "CbNever"
		switch o.Cb.Kind {
		case "at":
			cb = hx.CoqApp("CbAt", hx.CoqNat(o.Cb.N), hx.CoqBool(o.Cb.Stop), coqOptN(o.Cb.Err))
		case "key":
			cb = hx.CoqApp("CbKey", hx.CoqBytes(unhex(o.Cb.K)), hx.CoqBool(o.Cb.Stop), coqOptN(o.Cb.Err))
		}
		return hx.CoqApp("OIter", k, cb)
	}
	return "OReopen"
}

// ---------------------------------------------------------------- running a history on a real store

type storeRun struct {
	kind   string
	s      storage.StateStorer
	dir    string
	closed bool
}

func openStore(kind string, workdir string) *storeRun {
	sr := &storeRun{kind: kind}
	var err error
	switch kind {
	case "ldbmem":
		sr.s, err = ldbstore.NewInMemoryStateStore(logger)
	case "ldbdisk":
		dirSeq++
		sr.dir = filepath.Join(workdir, fmt.Sprintf("c18-store-%d", dirSeq))
		_ = os.RemoveAll(sr.dir)
		sr.s, err = ldbstore.NewStateStore(sr.dir, logger)
	case "mock":
		sr.s = mock.NewStateStore()
	}
	if err != nil {
		panic(err)
	}
	return sr
}

func (sr *storeRun) close() {
	if !sr.closed && sr.s != nil {
		_ = sr.s.Close()
	}
	if sr.dir != "" {
		_ = os.RemoveAll(sr.dir)
	}
}

// iterate runs Iterate with the described callback; returns what the callback saw,
// the error code returned (0 nil, -1 foreign error), and how often the callback ran.
func (sr *storeRun) iterate(prefix []byte, cb *jcb) (vis []visit, code int) {
	calls := 0
	err := sr.s.Iterate(string(prefix), func(k, v []byte) (bool, error) {
		i := calls
		calls++
		vis = append(vis, visit{append([]byte{}, k...), append([]byte{}, v...)})
		hit := false
		switch cb.Kind {
		case "at":
			hit = i == cb.N
		case "key":
			hit = bytes.Equal(k, unhex(cb.K))
		}
		if hit {
			var e error
			if cb.Err != 0 {
				e = &cbErr{cb.Err}
			}
			return cb.Stop, e
		}
		return false, nil
	})
	if err != nil {
		var ce *cbErr
		if errors.As(err, &ce) {
			code = ce.code
		} else {
			code = -1
		}
	}
	return
}

func (sr *storeRun) apply(o jop) obsT {
	if sr.closed {
		return obsT{"BClosed", "closed"}
	}
	k := unhex(o.K)
	switch o.Op {
	case "put":
		var err error
		if o.T == "u64" {
			n, _ := strconv.ParseUint(o.V, 10, 64)
			err = sr.s.Put(string(k), n)
		} else {
			err = sr.s.Put(string(k), &raw{unhex(o.V)})
		}
		if err != nil {
			return obsT{"BStuck", "put-error"}
		}
		return obsT{"BOk", "ok"}
	case "del":
		if err := sr.s.Delete(string(k)); err != nil {
			return obsT{"BStuck", "del-error"}
		}
		return obsT{"BOk", "ok"}
	case "get":
		if o.T == "u64" {
			const sentinel = 0xdeadbeefcafef00d
			u := uint64(sentinel)
			err := sr.s.Get(string(k), &u)
			switch {
			case errors.Is(err, storage.ErrNotFound):
				return obsT{"(BGet GNotFound)", "notfound"}
			case err != nil:
				return obsT{"(BGet GErr)", "err"}
			case u == sentinel:
				// untouched target (a stored 0xdeadbeefcafef00d is never generated)
				return obsT{"(BGet GUnchanged)", "unchanged"}
			}
			return obsT{hx.CoqApp("BGet", hx.CoqApp("GVal", hx.CoqApp("VU64", hx.CoqN(u)))), fmt.Sprintf("u64:%d", u)}
		}
		var r raw
		err := sr.s.Get(string(k), &r)
		switch {
		case errors.Is(err, storage.ErrNotFound):
			return obsT{"(BGet GNotFound)", "notfound"}
		case err != nil:
			return obsT{"(BGet GErr)", "err"}
		}
		return obsT{hx.CoqApp("BGet", hx.CoqApp("GVal", hx.CoqApp("VRaw", hx.CoqBytes(r.b)))), fmt.Sprintf("raw:%x", r.b)}
	case "iter":
		vis, code := sr.iterate(k, o.Cb)
		if code < 0 {
			return obsT{"BStuck", "iter-foreign-error"}
		}
		var sb strings.Builder
		for _, x := range vis {
			fmt.Fprintf(&sb, "%x=%x,", x.k, x.v)
		}
		return obsT{hx.CoqApp("BIter", coqKV(vis), coqOptN(code)), fmt.Sprintf("iter:%s err=%d", sb.String(), code)}
	case "reopen":
		if sr.kind != "ldbdisk" {
			panic("reopen on a non-persistent store")
		}
		if err := sr.s.Close(); err != nil {
			return obsT{"BStuck", "close-error"}
		}
		s, err := ldbstore.NewStateStore(sr.dir, logger)
		if err != nil {
			sr.closed = true
			return obsT{"(BReopen false)", "reopen-failed"}
		}
		sr.s = s
		return obsT{"(BReopen true)", "reopen-ok"}
	}
	panic("unknown op " + o.Op)
}

// ---------------------------------------------------------------- independent oracle (reference Go map)

type refVal struct {
	t string // raw | u64
	b []byte // raw bytes
	n uint64
}

func (v refVal) encoded() []byte {
	if v.t == "u64" {
		return []byte(strconv.FormatUint(v.n, 10))
	}
	return v.b
}

var reservedKeys = []string{"statestore_schema", "schema_name"}

func isReserved(k []byte) bool {
	for _, r := range reservedKeys {
		if string(k) == r {
			return true
		}
	}
	return false
}

// prefixTouchesReserved: would an iteration over prefix p visit a reserved key?
func prefixTouchesReserved(p []byte) bool {
	for _, r := range reservedKeys {
		if strings.HasPrefix(r, string(p)) {
			return true
		}
	}
	return false
}

type oracle struct {
	run      *hx.Run
	kind     string
	jc       jcase
	ref      map[string]refVal // user-written keys
	initial  map[string][]byte // content of the fresh store (its schema entry), observed
	tainted  bool              // a reserved key was written: reopen/migration semantics are not part of the oracle
	closed   bool
}

func (o *oracle) violate(sig, detail string, impl, want interface{}) {
	o.run.Violate(hx.Violation{Sig: sig, Detail: o.kind + ": " + detail, Case: jcase{Store: o.kind, Ops: o.jc.Ops}, Impl: impl, Want: want})
}

// expected entries (sorted) with the given prefix
func (o *oracle) matching(p []byte) []visit {
	var out []visit
	for k, v := range o.ref {
		if strings.HasPrefix(k, string(p)) {
			out = append(out, visit{[]byte(k), v.encoded()})
		}
	}
	for k, v := range o.initial {
		if _, over := o.ref[k]; !over && strings.HasPrefix(k, string(p)) {
			out = append(out, visit{[]byte(k), v})
		}
	}
	sort.Slice(out, func(i, j int) bool { return bytes.Compare(out[i].k, out[j].k) < 0 })
	return out
}

func (o *oracle) check(sr *storeRun, op jop, idx int) {
	if o.closed {
		return
	}
	k := unhex(op.K)
	switch op.Op {
	case "put":
		if isReserved(k) {
			o.tainted = true
		}
		v := refVal{t: op.T}
		if op.T == "u64" {
			v.n, _ = strconv.ParseUint(op.V, 10, 64)
		} else {
			v.b = unhex(op.V)
		}
		o.ref[string(k)] = v
		delete(o.initial, string(k))
	case "del":
		if isReserved(k) {
			o.tainted = true
		}
		delete(o.ref, string(k))
		delete(o.initial, string(k))
	case "get":
		// read back with the type it was written with
		want, ok := o.ref[string(k)]
		_, isInit := o.initial[string(k)]
		if !ok && !isInit {
			o.run.OracleChecked(1)
			var r raw
			if err := sr.s.Get(string(k), &r); !errors.Is(err, storage.ErrNotFound) {
				o.violate("get:absent-key-not-reported-notfound", fmt.Sprintf("op %d: Get(%x) on an absent/deleted key: err=%v", idx, k, err), fmt.Sprint(err), "storage.ErrNotFound")
			}
			return
		}
		if ok && want.t == op.T {
			o.run.OracleChecked(1)
			if want.t == "u64" {
				var u uint64
				err := sr.s.Get(string(k), &u)
				if err != nil || u != want.n {
					o.violate("get:value-differs-from-last-put", fmt.Sprintf("op %d: Get(%x) = %d, %v; last put %d", idx, k, u, err, want.n), u, want.n)
				}
			} else {
				var r raw
				err := sr.s.Get(string(k), &r)
				if err != nil || !bytes.Equal(r.b, want.b) {
					o.violate("get:value-differs-from-last-put", fmt.Sprintf("op %d: Get(%x) = %x, %v; last put %x", idx, k, r.b, err, want.b), hx.Hex(r.b), hx.Hex(want.b))
				}
			}
		}
	case "iter":
		o.run.OracleChecked(1)
		exp := o.matching(k)
		// where the callback asks to end
		end, wantCode := len(exp), 0
		for i, e := range exp {
			hit := (op.Cb.Kind == "at" && i == op.Cb.N) || (op.Cb.Kind == "key" && bytes.Equal(e.k, unhex(op.Cb.K)))
			if hit && (op.Cb.Stop || op.Cb.Err != 0) {
				end, wantCode = i+1, op.Cb.Err
				break
			}
		}
		vis, code := sr.iterate(k, op.Cb)
		class := "plain"
		if op.Cb.Kind != "never" {
			class = "stop"
			if op.Cb.Err != 0 {
				class = "error"
			}
		}
		// 1. the callback's error is what Iterate returns; nil otherwise
		if wantCode != 0 && code != wantCode {
			o.violate("iterate:callback-error-not-returned", fmt.Sprintf("op %d: Iterate(%x) callback returned error %d on visit %d, Iterate returned code %d", idx, k, wantCode, end-1, code), code, wantCode)
		} else if wantCode == 0 && code != 0 {
			o.violate("iterate:error-without-callback-error", fmt.Sprintf("op %d: Iterate(%x) returned error code %d, callback returned none", idx, k, code), code, 0)
		}
		// 2. exactly the matching keys, ascending, cut where asked
		okKeys := len(vis) == end
		for i := 0; okKeys && i < end; i++ {
			okKeys = bytes.Equal(vis[i].k, exp[i].k)
		}
		if !okKeys {
			sig := "iterate:" + class + ":visited-keys-differ"
			if len(vis) > end && end < len(exp) {
				sig = "iterate:" + class + ":continued-after-stop-or-error"
			} else if sameKeySet(vis, exp[:minInt(end, len(exp))]) {
				sig = "iterate:" + class + ":not-ascending"
			}
			o.violate(sig, fmt.Sprintf("op %d: Iterate(%x) visited %s, reference map says %s", idx, k, keysOf(vis), keysOf(exp[:end])), keysOf(vis), keysOf(exp[:end]))
			return
		}
		for i := 0; i < end; i++ {
			if !bytes.Equal(vis[i].v, exp[i].v) {
				o.violate("iterate:value-differs-from-last-put", fmt.Sprintf("op %d: Iterate(%x) key %x value %x, last put encodes as %x", idx, k, vis[i].k, vis[i].v, exp[i].v), hx.Hex(vis[i].v), hx.Hex(exp[i].v))
				break
			}
		}
	case "reopen":
		if o.tainted {
			// the schema entry was overwritten by the history: what reopen does then is migration
			// logic, compared with the model only
			o.closed = true
			return
		}
		o.run.OracleChecked(1)
		if sr.closed {
			o.closed = true
			o.violate("reopen:store-does-not-reopen", fmt.Sprintf("op %d: NewStateStore on the closed directory failed", idx), "error", "store")
			return
		}
		vis, _ := sr.iterate(nil, &jcb{Kind: "never"})
		exp := o.matching(nil)
		same := len(vis) == len(exp)
		for i := 0; same && i < len(exp); i++ {
			same = bytes.Equal(vis[i].k, exp[i].k) && bytes.Equal(vis[i].v, exp[i].v)
		}
		if !same {
			o.violate("reopen:content-differs-after-reopen", fmt.Sprintf("op %d: after reopen the store holds %s, before %s", idx, keysOf(vis), keysOf(exp)), keysOf(vis), keysOf(exp))
		}
	}
}

func minInt(a, b int) int {
	if a < b {
		return a
	}
	return b
}
func keysOf(v []visit) string {
	s := make([]string, len(v))
	for i, x := range v {
		s[i] = fmt.Sprintf("%q", x.k)
	}
	return "[" + strings.Join(s, " ") + "]"
}
func sameKeySet(a, b []visit) bool {
	if len(a) != len(b) {
		return false
	}
	m := map[string]int{}
	for _, x := range a {
		m[string(x.k)]++
	}
	for _, x := range b {
		m[string(x.k)]--
	}
	for _, c := range m {
		if c != 0 {
			return false
		}
	}
	return true
}

// ---------------------------------------------------------------- one history on one store

func runHistory(run *hx.Run, kind string, ops []jop, tag string) []obsT {
	// the mock and the in-memory store have no reopen
	var eff []jop
	for _, o := range ops {
		if o.Op == "reopen" && kind != "ldbdisk" {
			continue
		}
		eff = append(eff, o)
	}
	sr := openStore(kind, os.Getenv("VERIF_WORKDIR"))
	defer sr.close()
	or := &oracle{run: run, kind: kind, jc: jcase{Store: kind, Ops: eff}, ref: map[string]refVal{}, initial: map[string][]byte{}}
	// the fresh store's own content (schema entry): observed, then part of the reference map
	init, _ := sr.iterate(nil, &jcb{Kind: "never"})
	for _, e := range init {
		or.initial[string(e.k)] = e.v
	}
	if len(init) != 1 {
		or.violate("init:fresh-store-content", fmt.Sprintf("fresh store holds %d entries", len(init)), len(init), 1)
	}
	obs := make([]obsT, 0, len(eff))
	coqOps := make([]string, 0, len(eff))
	nontrivial := false
	for i, o := range eff {
		var ob obsT
		hung := !hx.WithTimeout(20e9, func() { ob = sr.apply(o) })
		if hung {
			or.violate("hang:"+o.Op, fmt.Sprintf("op %d did not return within 20s", i), "hang", "return")
			break
		}
		if ob.coq == "BStuck" {
			or.violate("unexpected-error:"+ob.cmp, fmt.Sprintf("op %d (%s) returned an unexpected error", i, o.Op), ob.cmp, "nil")
		}
		or.check(sr, o, i)
		obs = append(obs, ob)
		coqOps = append(coqOps, coqOp(o))
		run.Hist(kind + "." + o.Op)
		if o.Op == "iter" {
			run.Hist("iter.cb=" + o.Cb.Kind)
			if strings.Count(ob.cmp, "=") >= 2 {
				nontrivial = true
			}
		}
	}
	ctor := "CaseLdb"
	if kind == "mock" {
		ctor = "CaseMock"
	}
	coqObs := make([]string, len(obs))
	for i, ob := range obs {
		coqObs[i] = ob.coq
	}
	jc := jcase{Store: kind, Ops: eff}
	key := kind + "|" + strings.Join(coqOps, ";")
	run.AddCase(hx.CoqApp(ctor, hx.CoqList(coqOps[:len(obs)], "op"), hx.CoqList(coqObs, "obs")), jc, key, nontrivial)
	return obs
}

// same history on all stores + cross comparison mock vs leveldb
func runAll(run *hx.Run, ops []jop, tag string) {
	om := runHistory(run, "mock", ops, tag)
	ol := runHistory(run, "ldbmem", ops, tag)
	runHistory(run, "ldbdisk", ops, tag)
	// "both implementations behave as the same map": identical observations whenever the history
	// stays away from the two stores' own schema entries
	clean := true
	for _, o := range ops {
		k := unhex(o.K)
		switch o.Op {
		case "iter":
			if prefixTouchesReserved(k) {
				clean = false
			}
		case "reopen":
		default:
			if isReserved(k) {
				clean = false
			}
		}
	}
	if clean {
		run.OracleChecked(1)
		for i := range om {
			if i < len(ol) && om[i].cmp != ol[i].cmp {
				var eff []jop
				for _, o := range ops {
					if o.Op != "reopen" {
						eff = append(eff, o)
					}
				}
				sig := "same-map:mock-and-leveldb-differ:" + eff[i].Op
				run.Violate(hx.Violation{Sig: sig, Detail: fmt.Sprintf("op %d (%s): mock observed %s, leveldb observed %s", i, eff[i].Op, om[i].cmp, ol[i].cmp),
					Case: jcase{Store: "all", Ops: ops}, Impl: om[i].cmp, Want: ol[i].cmp})
				break
			}
		}
	}
}

// ---------------------------------------------------------------- generators

var keyPool = []string{"", "a", "ab", "abc", "abd", "b", "ba", "a\x00", "a\xff", "a\xffb", "\xff", "\xff\xff", "\xff\xff\x01", "\xfe\xff",
	"s", "t", "peer-last-seen-timestamp", "peer-last-seen-timestamp-x", "peer-total-connection-duration_1", "peer", "statestore_schemb", "schema_namf"}
var prefixPool = []string{"", "a", "ab", "abc", "b", "a\xff", "\xff", "\xff\xff", "\xfe", "\xfe\xff", "p", "peer-", "t", "x", "a\x00", "statestore_schemb", "sb"}
var rawShapes = []string{"", "0", "7", " 12 ", "null", " null\n", "01", "-0", "1e2", "\"12\"", "18446744073709551615", "18446744073709551616", "12x", "\n7\t", "nul", "00", "1.0", "\x00", "\xff\xfe"}

func genKey(r *hx.Rand) []byte {
	if r.Chance(3, 4) {
		return []byte(keyPool[r.Intn(len(keyPool))])
	}
	al := []byte{'a', 'b', 0x00, 0xff, 's'}
	k := make([]byte, r.Intn(4))
	for i := range k {
		k[i] = al[r.Intn(len(al))]
	}
	return k
}

func genCb(r *hx.Rand) *jcb {
	cb := &jcb{Kind: "never"}
	switch r.Intn(10) {
	case 0, 1, 2:
	case 3, 4, 5, 6, 7:
		cb = &jcb{Kind: "at", N: r.Intn(4)}
	default:
		cb = &jcb{Kind: "key", K: hx.Hex(genKey(r))}
	}
	if cb.Kind != "never" {
		switch r.Intn(5) {
		case 0, 1:
			cb.Stop = true
		case 2, 3:
			cb.Err = 1 + r.Intn(3)
		default:
			cb.Stop, cb.Err = true, 1+r.Intn(3)
		}
	}
	return cb
}

func genOp(r *hx.Rand, live *[]string, allowReserved bool) jop {
	pickLive := func() []byte {
		if len(*live) > 0 && r.Chance(2, 3) {
			return []byte((*live)[r.Intn(len(*live))])
		}
		return genKey(r)
	}
	switch x := r.Intn(20); {
	case x < 7:
		k := genKey(r)
		if allowReserved && r.Chance(1, 12) {
			k = []byte(reservedKeys[r.Intn(2)])
		}
		*live = append(*live, string(k))
		if r.Chance(1, 3) {
			n := []uint64{0, 1, 9, 10, 255, 18446744073709551615, 18446744073709551614, 1 << 63, r.U64()}[r.Intn(9)]
			return jop{Op: "put", K: hx.Hex(k), T: "u64", V: strconv.FormatUint(n, 10)}
		}
		v := []byte(rawShapes[r.Intn(len(rawShapes))])
		if r.Bool() {
			v = r.Bytes(r.Intn(6))
		}
		return jop{Op: "put", K: hx.Hex(k), T: "raw", V: hx.Hex(v)}
	case x < 11:
		t := "raw"
		if r.Chance(2, 5) {
			t = "u64"
		}
		k := pickLive()
		if allowReserved && r.Chance(1, 15) {
			k = []byte(reservedKeys[r.Intn(2)])
		}
		return jop{Op: "get", K: hx.Hex(k), T: t}
	case x < 13:
		return jop{Op: "del", K: hx.Hex(pickLive())}
	case x < 19:
		p := []byte(prefixPool[r.Intn(len(prefixPool))])
		if r.Chance(1, 5) {
			p = genKey(r)
		}
		if !allowReserved && prefixTouchesReserved(p) {
			p = []byte("a")
		}
		return jop{Op: "iter", K: hx.Hex(p), Cb: genCb(r)}
	default:
		return jop{Op: "reopen"}
	}
}

func put(k, v string) jop   { return jop{Op: "put", K: hx.Hex([]byte(k)), T: "raw", V: hx.Hex([]byte(v))} }
func iter(p string, cb *jcb) jop { return jop{Op: "iter", K: hx.Hex([]byte(p)), Cb: cb} }

// fixed cases that run on every seed: witnesses of the two repaired defects and the migration paths
func corpus() [][]jop {
	never := &jcb{Kind: "never"}
	var many []jop
	for _, k := range []string{"k7", "k3", "k9", "k1", "k5", "k2", "k8", "k4", "k6", "k0", "j", "l"} {
		many = append(many, put(k, "v"+k))
	}
	return [][]jop{
		// F-state-iter-err: a failing callback must surface from Iterate
		{put("a1", "x"), put("a2", "y"), iter("a", &jcb{Kind: "at", N: 0, Err: 7}), iter("a", &jcb{Kind: "at", N: 1, Err: 2}), iter("a", &jcb{Kind: "at", N: 1, Stop: true, Err: 3})},
		// F-mock-order: twelve keys inserted out of order must be visited ascending
		append(append([]jop{}, many...), iter("k", never), iter("", never), iter("k", &jcb{Kind: "at", N: 3, Stop: true})),
		// schema entry rewritten to the previous schema name: reopen runs the kademlia-metrics migration
		{put("peer-last-seen-timestamp-1", "a"), put("peer-total-connection-duration-2", "b"), put("peer-x", "c"), put("statestore_schema", "grace"),
			jop{Op: "reopen"}, iter("", never), jop{Op: "get", K: hx.Hex([]byte("statestore_schema")), T: "raw"}},
		// unknown schema name: the store refuses to open
		{put("a", "1"), put("statestore_schema", "bogus"), jop{Op: "reopen"}, jop{Op: "get", K: hx.Hex([]byte("a")), T: "raw"}},
		// schema entry deleted: reopen writes the current name again
		{put("a", "1"), jop{Op: "del", K: hx.Hex([]byte("statestore_schema"))}, iter("", never), jop{Op: "reopen"}, iter("", never)},
		// JSON read of raw bytes
		{put("j", " 12 "), jop{Op: "get", K: hx.Hex([]byte("j")), T: "u64"}, put("j", "null"), jop{Op: "get", K: hx.Hex([]byte("j")), T: "u64"},
			put("j", "18446744073709551616"), jop{Op: "get", K: hx.Hex([]byte("j")), T: "u64"}, jop{Op: "put", K: hx.Hex([]byte("n")), T: "u64", V: "18446744073709551615"},
			jop{Op: "get", K: hx.Hex([]byte("n")), T: "u64"}, jop{Op: "get", K: hx.Hex([]byte("n")), T: "raw"}, jop{Op: "reopen"}, jop{Op: "get", K: hx.Hex([]byte("n")), T: "u64"}},
		// prefixes made of 0xff bytes (BytesPrefix has no upper limit)
		{put("\xff", "1"), put("\xff\xff", "2"), put("\xff\xff\x01", "3"), put("\xfe\xff", "4"), put("\xfe\xff\x00", "5"), iter("\xff", never), iter("\xff\xff", never), iter("\xfe\xff", never), iter("\xfe", never)},
	}
}

func main() {
	run := hx.Start("C18", "Aurora.C18.Corr",
		"histories of put/get/delete/iterate(/reopen) over a pool of keys sharing prefixes (incl. empty, 0x00/0xff bytes, the kademlia-metrics migration prefixes), raw and uint64(JSON) values, callbacks that never halt / stop / fail / stop+fail at the n-th visit or at a given key; each history runs on the mock, the in-memory leveldb store and a leveldb store on disk (with close+reopen); non-trivial = some iteration visited at least two entries; distinct by (store, operation list)")
	r := run.R

	if run.Replay != "" {
		var jc jcase
		if err := run.ReadReplay(&jc); err != nil {
			panic(err)
		}
		if jc.Store == "all" || jc.Store == "" {
			runAll(run, jc.Ops, "replay")
		} else {
			runHistory(run, jc.Store, jc.Ops, "replay")
		}
		run.Finish()
		return
	}

	for _, h := range corpus() {
		runAll(run, h, "corpus")
	}
	// corpus files (minimised past disagreements)
	for _, f := range hx.CorpusFiles("C18") {
		var jc jcase
		run.Replay = f
		if err := run.ReadReplay(&jc); err == nil {
			runAll(run, jc.Ops, "corpus-file")
		}
		run.Replay = ""
	}
	nh := run.N(60, 900)
	for i := 0; i < nh; i++ {
		g := r.Fork(uint64(i))
		allowReserved := i%6 == 5
		n := 8 + g.Intn(run.N(22, 40))
		var live []string
		ops := make([]jop, 0, n)
		for j := 0; j < n; j++ {
			ops = append(ops, genOp(g, &live, allowReserved))
		}
		runAll(run, ops, "random")
	}
	run.Finish()
}

func unhex(s string) []byte {
	b, _ := hex.DecodeString(s)
	return b
}
