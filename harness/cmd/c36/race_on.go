//go:build race

package main

// raceEnabled: the binary was built with -race (thorough tier, props "race": true); scrypt is
// ~40x slower (about 9 s per call) under the race detector, so the scrypt-bound parts are scaled down.
const raceEnabled = true
