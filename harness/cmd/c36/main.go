// C36 harness: pkg/keystore/file and pkg/keystore/mem.
//
// One case = one history of Key/Exists/ExportKey/ImportKey/ImportPrivateKey against a
// fresh keystore. Per operation the harness records the outcome (error CLASS) and the
// decoded key file afterwards; the implementation's random choices (new key, salt, iv)
// are read off those observations and handed to the Coq model as inputs. The results
// of the real scrypt / AES-CTR / SHA3 / Keccak are supplied to the model as tables.
//
// The oracle is a reference map slot -> (key, password) maintained in Go from the
// implementation's own answers, on which the four sentences of the property are
// evaluated (written without reference to the model).
package main

import (
	"bytes"
	"crypto/aes"
	"crypto/cipher"
	"crypto/ecdsa"
	"crypto/sha256"
	"encoding/hex"
	"encoding/json"
	"errors"
	"fmt"
	"math/big"
	"os"
	"path/filepath"
	"sort"
	"strings"
	"sync"
	"time"

	"github.com/gauss-project/aurorafs/pkg/crypto"
	"github.com/gauss-project/aurorafs/pkg/keystore"
	"github.com/gauss-project/aurorafs/pkg/keystore/file"
	"github.com/gauss-project/aurorafs/pkg/keystore/mem"
	"golang.org/x/crypto/scrypt"
	"golang.org/x/crypto/sha3"
	"verifharness/hx"
)

// ---------------------------------------------------------------- case format (JSON, replayable)

type jop struct {
	Kind string `json:"kind"` // key exists export import importpriv
	Name string `json:"name"` // hex
	Pw   string `json:"pw,omitempty"`
	Blob string `json:"blob,omitempty"` // hex of the keyJson argument
	Priv string `json:"priv,omitempty"` // hex of the 32-byte private key
	// what the generator knows about Blob (for the oracle): it is a well-formed key
	// file holding BlobKey under BlobPw
	BlobValid bool   `json:"blob_valid,omitempty"`
	BlobPw    string `json:"blob_pw,omitempty"`
	BlobKey   string `json:"blob_key,omitempty"`
	Tag       string `json:"tag,omitempty"`
}
type jcase struct {
	Store string `json:"store"` // file | mem
	Ops   []jop  `json:"ops"`
}

func unhex(s string) []byte { b, _ := hex.DecodeString(s); return b }

// ---------------------------------------------------------------- decoded key file

type hexf struct {
	ok bool
	b  []byte
}
type pfile struct {
	notJSON      bool
	version      int
	cipher, kdf  string
	ct, iv       hexf
	salt, mac    hexf
	n, r, p, dkl int
}

type v3 struct {
	Address string `json:"address"`
	Crypto  struct {
		Cipher       string `json:"cipher"`
		CipherText   string `json:"ciphertext"`
		CipherParams struct {
			IV string `json:"iv"`
		} `json:"cipherparams"`
		KDF       string `json:"kdf"`
		KDFParams struct {
			N     int    `json:"n"`
			R     int    `json:"r"`
			P     int    `json:"p"`
			DKLen int    `json:"dklen"`
			Salt  string `json:"salt"`
		} `json:"kdfparams"`
		MAC string `json:"mac"`
	} `json:"crypto"`
	Version int    `json:"version"`
	Id      string `json:"id"`
}

func dehex(s string) hexf {
	b, err := hex.DecodeString(s)
	if err != nil {
		return hexf{}
	}
	return hexf{true, b}
}

func parse(data []byte) *pfile {
	var k v3
	if err := json.Unmarshal(data, &k); err != nil {
		return &pfile{notJSON: true}
	}
	return &pfile{version: k.Version, cipher: k.Crypto.Cipher, kdf: k.Crypto.KDF,
		ct: dehex(k.Crypto.CipherText), iv: dehex(k.Crypto.CipherParams.IV),
		salt: dehex(k.Crypto.KDFParams.Salt), mac: dehex(k.Crypto.MAC),
		n: k.Crypto.KDFParams.N, r: k.Crypto.KDFParams.R, p: k.Crypto.KDFParams.P, dkl: k.Crypto.KDFParams.DKLen}
}

// coqScalar renders the scalar of a 32-byte key encoding as an N literal
func coqScalar(b []byte) string { return new(big.Int).SetBytes(b).String() + "%N" }

// boundary private keys (32-byte encodings): D = 1, D = 5, D = N-1 (secp256k1 group order - 1),
// and scalars with exactly 1, 2 and 3 leading zero bytes
func boundaryKeys(r *hx.Rand) [][]byte {
	one := make([]byte, 32)
	one[31] = 1
	five := make([]byte, 32)
	five[31] = 5
	nm1, _ := hex.DecodeString("fffffffffffffffffffffffffffffffebaaedce6af48a03bbfd25e8cd0364140")
	out := [][]byte{one, five, nm1}
	for z := 1; z <= 3; z++ {
		k := r.Bytes(32)
		for i := 0; i < z; i++ {
			k[i] = 0
		}
		k[z] |= 1
		out = append(out, k)
	}
	return out
}

func coqHexf(h hexf) string {
	if !h.ok {
		return "BadHex"
	}
	return "(Hex " + hx.CoqBytes(h.b) + ")"
}
func coqFile(f *pfile) string {
	if f.notJSON {
		return "NotJson"
	}
	return hx.CoqApp("J", hx.CoqZ(int64(f.version)), hx.CoqBytes([]byte(f.cipher)), coqHexf(f.ct), coqHexf(f.iv),
		hx.CoqBytes([]byte(f.kdf)), hx.CoqZ(int64(f.n)), hx.CoqZ(int64(f.r)), hx.CoqZ(int64(f.p)), hx.CoqZ(int64(f.dkl)),
		coqHexf(f.salt), coqHexf(f.mac))
}
func coqOptFile(f *pfile) string {
	if f == nil {
		return "None"
	}
	return hx.CoqSome(coqFile(f))
}

func readParsed(path string) (*pfile, []byte) {
	st, err := os.Lstat(path)
	if err != nil || !st.Mode().IsRegular() {
		return nil, nil
	}
	data, err := os.ReadFile(path)
	if err != nil {
		return nil, nil
	}
	return parse(data), data
}

// ---------------------------------------------------------------- primitive tables

type tables struct {
	kdf          map[string]string // coq entries keyed for de-dup
	ctr, s3, kec map[string]string
	memo         map[string][]byte
	memoErr      map[string]bool
}

func newTables() *tables {
	return &tables{kdf: map[string]string{}, ctr: map[string]string{}, s3: map[string]string{}, kec: map[string]string{},
		memo: map[string][]byte{}, memoErr: map[string]bool{}}
}

var scryptCalls int
var globalMemo = map[string][]byte{}
var globalMemoErr = map[string]bool{}

func (t *tables) kdfQuery(pw, salt []byte, n, r, p, dkl int) ([]byte, bool) {
	key := fmt.Sprintf("%x|%x|%d|%d|%d|%d", pw, salt, n, r, p, dkl)
	dk, have := globalMemo[key]
	failed := globalMemoErr[key]
	if !have && !failed {
		// keep the real primitive inside sane bounds (the generator never leaves them)
		if n > 1<<15 || r > 8 || p > 2 || r <= 0 || p <= 0 || dkl < 0 || dkl > 128 {
			failed = true
		} else {
			scryptCalls++
			var err error
			dk, err = scrypt.Key(pw, salt, n, r, p, dkl)
			if err != nil {
				failed = true
			}
		}
		if failed {
			globalMemoErr[key] = true
		} else {
			globalMemo[key] = dk
		}
	}
	res := "None"
	if !failed {
		res = hx.CoqSome(hx.CoqBytes(dk))
	}
	t.kdf[key] = hx.CoqTuple(hx.CoqBytes(pw), hx.CoqBytes(salt),
		hx.CoqApp("KP", hx.CoqZ(int64(n)), hx.CoqZ(int64(r)), hx.CoqZ(int64(p)), hx.CoqZ(int64(dkl))), res)
	return dk, !failed
}

func aesCTR(key, iv, in []byte) []byte {
	blk, err := aes.NewCipher(key)
	if err != nil {
		panic(err)
	}
	out := make([]byte, len(in))
	cipher.NewCTR(blk, iv).XORKeyStream(out, in)
	return out
}
func keccak(b []byte) []byte { h := sha3.NewLegacyKeccak256(); h.Write(b); return h.Sum(nil) }
func sha3sum(b []byte) []byte { s := sha3.Sum256(b); return s[:] }

func (t *tables) ctrQuery(key, iv, data []byte) []byte {
	k := fmt.Sprintf("%x|%x|%x", key, iv, data)
	out := aesCTR(key, iv, data)
	t.ctr[k] = hx.CoqTuple(hx.CoqBytes(key), hx.CoqBytes(iv), hx.CoqBytes(data), hx.CoqBytes(out))
	return out
}
func (t *tables) hashQuery(x []byte) {
	k := fmt.Sprintf("%x", x)
	t.s3[k] = hx.CoqPair(hx.CoqBytes(x), hx.CoqBytes(sha3sum(x)))
	t.kec[k] = hx.CoqPair(hx.CoqBytes(x), hx.CoqBytes(keccak(x)))
}

// collect supplies a superset of what the model can ask for one operation: the password
// against every blob in sight (file before, file after, import argument, export result):
// opening that blob, and sealing every plaintext in sight with that blob's salt and iv.
func (t *tables) collect(pw []byte, blobs []*pfile, plains [][]byte) {
	type bk struct {
		b  *pfile
		dk []byte
	}
	var open []bk
	datas := map[string][]byte{}
	for _, p := range plains {
		datas[string(p)] = p
	}
	for _, b := range blobs {
		if b == nil || b.notJSON || !b.salt.ok {
			continue
		}
		dk, ok := t.kdfQuery(pw, b.salt.b, b.n, b.r, b.p, b.dkl)
		if !ok || len(dk) < 32 {
			continue
		}
		open = append(open, bk{b, dk})
		if b.ct.ok {
			t.hashQuery(append(append([]byte{}, dk[16:32]...), b.ct.b...))
			if b.iv.ok && len(b.iv.b) == 16 {
				pt := t.ctrQuery(dk[:16], b.iv.b, b.ct.b)
				datas[string(pt)] = pt
			}
		}
	}
	for _, o := range open {
		if !o.b.iv.ok || len(o.b.iv.b) != 16 {
			continue
		}
		for _, d := range datas {
			ct := t.ctrQuery(o.dk[:16], o.b.iv.b, d)
			t.hashQuery(append(append([]byte{}, o.dk[16:32]...), ct...))
		}
	}
}

func sortedVals(m map[string]string) []string {
	ks := make([]string, 0, len(m))
	for k := range m {
		ks = append(ks, k)
	}
	sort.Strings(ks)
	out := make([]string, len(ks))
	for i, k := range ks {
		out[i] = m[k]
	}
	return out
}
func (t *tables) coq() string {
	return hx.CoqApp("T",
		hx.CoqList(sortedVals(t.kdf), "bytes * bytes * kparams * option bytes"),
		hx.CoqList(sortedVals(t.ctr), "bytes * bytes * bytes * bytes"),
		hx.CoqList(sortedVals(t.s3), "bytes * bytes"),
		hx.CoqList(sortedVals(t.kec), "bytes * bytes"))
}

// ---------------------------------------------------------------- crafting key files (independent of key.go)

type craftOpt struct {
	n, r, p, dkl int
	sha3mac      bool
	iv           []byte
	version      int
	cipher, kdf  string
	mutate       func(*v3)
	plain        []byte
}

func craft(r *hx.Rand, key, pw []byte, o craftOpt) []byte {
	if o.n == 0 {
		o.n, o.r, o.p, o.dkl = 2, 8, 1, 32
	}
	if o.version == 0 {
		o.version = 3
	}
	if o.cipher == "" {
		o.cipher = "aes-128-ctr"
	}
	if o.kdf == "" {
		o.kdf = "scrypt"
	}
	salt := r.Bytes(32)
	dkl := o.dkl
	if dkl < 32 {
		dkl = 32
	}
	dk, err := scrypt.Key(pw, salt, o.n, o.r, o.p, dkl)
	if err != nil {
		panic(err)
	}
	iv := r.Bytes(16)
	plain := key
	if o.plain != nil {
		plain = o.plain
	}
	ct := aesCTR(dk[:16], iv, plain)
	macin := append(append([]byte{}, dk[16:32]...), ct...)
	mac := keccak(macin)
	if o.sha3mac {
		mac = sha3sum(macin)
	}
	if o.iv != nil {
		iv = o.iv
	}
	var k v3
	k.Address = "00"
	k.Version = o.version
	k.Id = "verif"
	k.Crypto.Cipher = o.cipher
	k.Crypto.CipherText = hex.EncodeToString(ct)
	k.Crypto.CipherParams.IV = hex.EncodeToString(iv)
	k.Crypto.KDF = o.kdf
	k.Crypto.KDFParams.N, k.Crypto.KDFParams.R, k.Crypto.KDFParams.P, k.Crypto.KDFParams.DKLen = o.n, o.r, o.p, o.dkl
	k.Crypto.KDFParams.Salt = hex.EncodeToString(salt)
	k.Crypto.MAC = hex.EncodeToString(mac)
	if o.mutate != nil {
		o.mutate(&k)
	}
	b, _ := json.Marshal(k)
	return b
}

var craftKinds = []string{"ok-n2", "ok-dklen64", "ok-sha3mac", "bad-iv17", "bad-iv0", "bad-iv-hex", "bad-mac", "bad-version",
	"bad-cipher", "bad-kdf", "bad-salt-hex", "bad-ct-hex", "bad-mac-hex", "bad-n3", "dklen0", "short-key", "garbage", "null", "empty-object", "trunc"}

// returns blob, valid
func craftKind(r *hx.Rand, kind string, key, pw []byte) ([]byte, bool) {
	switch kind {
	case "ok-n2":
		return craft(r, key, pw, craftOpt{}), true
	case "ok-dklen64":
		return craft(r, key, pw, craftOpt{n: 4, r: 1, p: 1, dkl: 64}), true
	case "ok-sha3mac":
		return craft(r, key, pw, craftOpt{sha3mac: true}), true
	case "bad-iv17":
		return craft(r, key, pw, craftOpt{iv: r.Bytes(17)}), false
	case "bad-iv0":
		return craft(r, key, pw, craftOpt{iv: []byte{}}), false
	case "bad-iv-hex":
		return craft(r, key, pw, craftOpt{mutate: func(k *v3) { k.Crypto.CipherParams.IV = "zz" }}), false
	case "bad-mac":
		return craft(r, key, pw, craftOpt{mutate: func(k *v3) {
			m := unhex(k.Crypto.MAC)
			m[r.Intn(32)] ^= 1 << uint(r.Intn(8))
			k.Crypto.MAC = hex.EncodeToString(m)
		}}), false
	case "bad-version":
		return craft(r, key, pw, craftOpt{version: 2 + 2*r.Intn(2)}), false
	case "bad-cipher":
		return craft(r, key, pw, craftOpt{cipher: "aes-256-ctr"}), false
	case "bad-kdf":
		return craft(r, key, pw, craftOpt{kdf: "pbkdf2"}), false
	case "bad-salt-hex":
		return craft(r, key, pw, craftOpt{mutate: func(k *v3) { k.Crypto.KDFParams.Salt = "0g" }}), false
	case "bad-ct-hex":
		return craft(r, key, pw, craftOpt{mutate: func(k *v3) { k.Crypto.CipherText = k.Crypto.CipherText[1:] }}), false
	case "bad-mac-hex":
		return craft(r, key, pw, craftOpt{mutate: func(k *v3) { k.Crypto.MAC = "xy" + k.Crypto.MAC[2:] }}), false
	case "bad-n3":
		return craft(r, key, pw, craftOpt{mutate: func(k *v3) { k.Crypto.KDFParams.N = 3 }}), false
	case "dklen0":
		return craft(r, key, pw, craftOpt{mutate: func(k *v3) { k.Crypto.KDFParams.DKLen = 0 }}), false
	case "short-key":
		return craft(r, key, pw, craftOpt{plain: key[:31]}), false
	case "garbage":
		return r.Bytes(1 + r.Intn(40)), false
	case "null":
		return []byte("null"), false
	case "empty-object":
		return []byte("{}"), false
	default: // trunc
		b := craft(r, key, pw, craftOpt{})
		return b[:len(b)/2], false
	}
}

// ---------------------------------------------------------------- password equivalence under HMAC key preparation

func hmacKey(pw []byte) string {
	k := pw
	if len(k) > 64 {
		s := sha256.Sum256(k)
		k = s[:]
	}
	out := make([]byte, 64)
	copy(out, k)
	return string(out)
}

// ---------------------------------------------------------------- running a history

type refEntry struct {
	key []byte
	pw  string
}

type outcome struct {
	kind    string // key exists export done invalid other panic
	key     []byte
	created bool
	exists  bool
	blob    []byte
}

func classifyErr(err error) string {
	if errors.Is(err, keystore.ErrInvalidPassword) {
		return "invalid"
	}
	return "other"
}

func coqOut(o outcome) string {
	switch o.kind {
	case "key":
		return hx.CoqApp("OKeyR", hx.CoqBytes(o.key), hx.CoqBool(o.created))
	case "exists":
		return hx.CoqApp("OExistsR", hx.CoqBool(o.exists))
	case "export":
		return hx.CoqApp("OExportR", coqFile(parse(o.blob)))
	case "done":
		return "ODone"
	case "invalid":
		return "OInvalidPassword"
	case "other":
		return "OOtherError"
	default:
		return "OPanicked"
	}
}

// name classes the reference map can speak about: no NUL, every component <= 255 bytes
func slotOf(dir, name string) (string, bool) {
	if strings.IndexByte(name, 0) >= 0 {
		return "", false
	}
	p := filepath.Join(dir, name+".key")
	for _, c := range strings.Split(p, "/") {
		if len(c) > 255 {
			return "", false
		}
	}
	return p, true
}

// a regular file on the way to p, or p is a directory
func conflicted(p string) bool {
	if st, err := os.Lstat(p); err == nil && st.IsDir() {
		return true
	}
	for d := filepath.Dir(p); d != "/" && d != "."; d = filepath.Dir(d) {
		if st, err := os.Lstat(d); err == nil && !st.IsDir() {
			return true
		}
	}
	return false
}

var dircNames = []string{"d1", "d2"}

func runFile(run *hx.Run, jc *jcase, next func(st *genState) *jop) {
	sandbox, err := os.MkdirTemp(os.Getenv("VERIF_WORKDIR"), "ks")
	if err != nil {
		panic(err)
	}
	defer os.RemoveAll(sandbox)
	dir := filepath.Join(append([]string{sandbox}, dircNames...)...)
	svc := file.New(dir)
	ref := map[string]refEntry{}
	tab := newTables()
	var steps []string
	st := &genState{ref: ref, dir: dir}
	nontrivial := false
	for i := 0; ; i++ {
		var op *jop
		if next != nil {
			op = next(st)
			if op == nil {
				break
			}
			jc.Ops = append(jc.Ops, *op)
		} else {
			if i >= len(jc.Ops) {
				break
			}
			op = &jc.Ops[i]
		}
		if op.Kind == "import" && op.Tag == "last-export" && op.Blob == "" && len(st.exports) > 0 {
			x := st.exports[len(st.exports)-1] // fixed histories: import what the previous ExportKey returned
			op.Blob, op.BlobValid, op.BlobPw, op.BlobKey = hx.Hex(x.blob), true, hx.Hex([]byte(x.pw)), hx.Hex(x.key)
		}
		name, pw := string(unhex(op.Name)), string(unhex(op.Pw))
		path := filepath.Join(dir, name+".key")
		slot, usable := slotOf(dir, name)
		usable = usable && !conflicted(slot)
		before, beforeRaw := readParsed(path)
		var out outcome
		panicked, _ := hx.Guard(func() {
			switch op.Kind {
			case "key":
				k, created, err := svc.Key(name, pw)
				if err != nil {
					out = outcome{kind: classifyErr(err)}
				} else {
					out = outcome{kind: "key", key: crypto.EncodeSecp256k1PrivateKey(k), created: created}
				}
			case "exists":
				ex, err := svc.Exists(name)
				if err != nil {
					out = outcome{kind: classifyErr(err)}
				} else {
					out = outcome{kind: "exists", exists: ex}
				}
			case "export":
				b, err := svc.ExportKey(name, pw)
				if err != nil {
					out = outcome{kind: classifyErr(err)}
				} else {
					out = outcome{kind: "export", blob: b}
				}
			case "import":
				err := svc.ImportKey(name, pw, unhex(op.Blob))
				if err != nil {
					out = outcome{kind: classifyErr(err)}
				} else {
					out = outcome{kind: "done"}
				}
			case "importpriv":
				pk, derr := crypto.DecodeSecp256k1PrivateKey(unhex(op.Priv))
				if derr != nil {
					panic("harness: bad private key in case")
				}
				err := svc.ImportPrivateKey(name, pw, pk)
				if err != nil {
					out = outcome{kind: classifyErr(err)}
				} else {
					out = outcome{kind: "done"}
				}
			}
		})
		if panicked {
			out = outcome{kind: "panic"}
		}
		after, afterRaw := readParsed(path)
		run.Hist("file." + op.Kind + "->" + out.kind)
		if op.Tag != "" {
			run.Hist("file.tag." + op.Tag)
		}

		// ---- Coq step: feed the observed random choices
		var salt, iv, newkey []byte
		fed := after
		if op.Kind == "export" && out.kind == "export" {
			fed = parse(out.blob)
		}
		if fed != nil && !fed.notJSON && fed.salt.ok && fed.iv.ok {
			salt, iv = fed.salt.b, fed.iv.b
		}
		var coqOp string
		blobs := []*pfile{before, after}
		var plains [][]byte
		switch op.Kind {
		case "key":
			if out.kind == "key" && out.created {
				newkey = out.key
				plains = append(plains, newkey)
			}
			coqOp = hx.CoqApp("OKey", hx.CoqBytes([]byte(name)), hx.CoqBytes([]byte(pw)), coqScalar(newkey), hx.CoqBytes(salt), hx.CoqBytes(iv))
		case "exists":
			coqOp = hx.CoqApp("OExists", hx.CoqBytes([]byte(name)))
		case "export":
			if out.kind == "export" {
				blobs = append(blobs, parse(out.blob))
			}
			coqOp = hx.CoqApp("OExport", hx.CoqBytes([]byte(name)), hx.CoqBytes([]byte(pw)), hx.CoqBytes(salt), hx.CoqBytes(iv))
		case "import":
			pj := parse(unhex(op.Blob))
			blobs = append(blobs, pj)
			coqOp = hx.CoqApp("OImport", hx.CoqBytes([]byte(name)), hx.CoqBytes([]byte(pw)), coqFile(pj), hx.CoqBytes(salt), hx.CoqBytes(iv))
		case "importpriv":
			plains = append(plains, unhex(op.Priv))
			coqOp = hx.CoqApp("OImportPriv", hx.CoqBytes([]byte(name)), hx.CoqBytes([]byte(pw)), coqScalar(unhex(op.Priv)), hx.CoqBytes(salt), hx.CoqBytes(iv))
		}
		if op.Kind != "exists" {
			tab.collect([]byte(pw), blobs, plains)
		}
		steps = append(steps, hx.CoqTuple(coqOp, coqOut(out), coqOptFile(after)))

		// ---- oracle: the property's sentences on the implementation's answers
		viol := func(sig, detail string, impl, want interface{}) {
			snap := *jc
			snap.Ops = append([]jop{}, jc.Ops[:min(i+1, len(jc.Ops))]...)
			run.Violate(hx.Violation{Sig: sig, Detail: fmt.Sprintf("op %d %s(%q): %s", i, op.Kind, name, detail), Case: snap, Impl: impl, Want: want})
		}
		if usable {
			e, have := ref[slot]
			switch op.Kind {
			case "key":
				run.OracleChecked(1)
				switch {
				case !have:
					if out.kind != "key" || !out.created {
						viol("file:absent-key-not-created", "no key under this name, but Key did not create one", out.kind, "created")
					} else {
						ref[slot] = refEntry{key: out.key, pw: pw}
					}
				case e.pw == pw:
					nontrivial = true
					if out.kind == "key" && out.created {
						viol("file:existing-key-recreated", "a key existed under this name and password, Key created a new one", "created", "stored key")
						ref[slot] = refEntry{key: out.key, pw: pw}
					} else if out.kind != "key" {
						viol("file:same-password-rejected", "correct password, Key failed: "+out.kind, out.kind, "stored key")
					} else if !bytes.Equal(out.key, e.key) {
						viol("file:same-password-different-key", "correct password, a different key came back", hx.Hex(out.key), hx.Hex(e.key))
					}
				default:
					nontrivial = true
					if out.kind == "key" {
						sig := "file:wrong-password-accepted"
						if hmacKey([]byte(pw)) == hmacKey([]byte(e.pw)) {
							sig += ":hmac-equivalent-password"
						}
						viol(sig, fmt.Sprintf("stored under password %q, Key accepted %q (created=%v)", e.pw, pw, out.created), "accepted", "invalid password")
						if out.created {
							ref[slot] = refEntry{key: out.key, pw: pw}
						}
					} else if out.kind != "invalid" {
						viol("file:wrong-password-not-invalid", "wrong password: outcome "+out.kind+" instead of ErrInvalidPassword", out.kind, "invalid")
					}
				}
			case "exists":
				run.OracleChecked(1)
				if out.kind != "exists" || out.exists != have {
					viol("file:exists-mismatch", fmt.Sprintf("Exists=%v (%s), reference says %v", out.exists, out.kind, have), out.exists, have)
				}
			case "export":
				run.OracleChecked(1)
				okPw := have && (e.pw == pw)
				if out.kind == "export" && !okPw && !(have && hmacKey([]byte(pw)) == hmacKey([]byte(e.pw))) {
					viol("file:wrong-password-accepted:export", "ExportKey succeeded without the stored password", "exported", "rejected")
				}
				if okPw && out.kind != "export" {
					viol("file:export-failed", "ExportKey failed with the correct password: "+out.kind, out.kind, "export")
				}
				if out.kind == "export" && okPw {
					st.exports = append(st.exports, exported{blob: out.blob, pw: pw, key: e.key})
				}
			case "import", "importpriv":
				run.OracleChecked(1)
				okPw := have && e.pw == pw
				equiv := have && hmacKey([]byte(pw)) == hmacKey([]byte(e.pw))
				// Service.bak renames to <file>.bak.<unix seconds>: needs 15 more bytes within NAME_MAX
				wantOK := okPw && len(filepath.Base(slot))+15 <= 255
				var newKey []byte
				if op.Kind == "import" {
					wantOK = wantOK && op.BlobValid && op.BlobPw == op.Pw
					newKey = unhex(op.BlobKey)
				} else {
					newKey = unhex(op.Priv)
				}
				if out.kind == "done" {
					nontrivial = true
					if !okPw && !equiv {
						viol("file:wrong-password-accepted:import", "import succeeded without the stored password", "done", "rejected")
					}
					if op.Kind == "import" && !op.BlobValid {
						if strings.HasPrefix(op.Tag, "mac-") {
							viol("file:tampered-mac-accepted:xor-cancelling", "a key file with a tampered MAC ("+op.Tag+") was accepted", "done", "invalid password")
						} else {
							viol("file:import-accepted-malformed", "a malformed key file was imported", "done", "rejected")
						}
					}
					// "exporting then importing reproduces the key": from now on this is the key of the slot
					ref[slot] = refEntry{key: newKey, pw: pw}
				} else if okPw && strings.HasPrefix(op.Tag, "mac-") && out.kind != "invalid" {
					viol("file:tampered-mac-not-invalid", "tampered MAC ("+op.Tag+"): outcome "+out.kind+" instead of ErrInvalidPassword", out.kind, "invalid")
				} else if wantOK {
					viol("file:export-import-rejected", "import of a well-formed key file with the stored password failed: "+out.kind, out.kind, "done")
				}
			}
			// a failed operation must leave an existing key file exactly as it was
			if have && before != nil && (out.kind == "invalid" || out.kind == "other" || out.kind == "panic") {
				run.OracleChecked(1)
				if !bytes.Equal(beforeRaw, afterRaw) {
					viol("file:failed-op-changed-key-file", "operation ended with "+out.kind+" but the key file changed or vanished", after != nil, "unchanged")
				}
			}
		}
		st.lastOut = out
	}
	key := fmt.Sprintf("file|%v", jc.Ops)
	coq := hx.CoqApp("CFile", hx.CoqBytesList([][]byte{[]byte(dircNames[0]), []byte(dircNames[1])}), tab.coq(),
		hx.CoqList(steps, "fstepobs"))
	run.AddCase(coq, *jc, key, nontrivial)
}

func min(a, b int) int {
	if a < b {
		return a
	}
	return b
}

// ---------------------------------------------------------------- generator (state-aware, interleaved with execution)

type exported struct {
	blob []byte
	pw   string
	key  []byte
}
type genState struct {
	ref     map[string]refEntry
	dir     string
	exports []exported
	names   []string // names used so far
	lastOut outcome
}

var pwPool = []string{"", "pw", "pass123456", "pässwörd✓", "\xff\xfe", " ", "a b", "pw\x00", "\x00"}

func genName(r *hx.Rand, st *genState) string {
	base := []string{"a", "b", "", "boson", "ключ", "a b", "sub/k", "sub/deep/k", ".", "..x", "\xff\xfe", "k.key"}
	if len(st.names) > 0 && r.Chance(6, 10) {
		n := st.names[r.Intn(len(st.names))]
		switch r.Intn(8) {
		case 0:
			return "./" + n
		case 1:
			return "x/../" + n
		case 2:
			return "../" + dircNames[1] + "/" + n // leaves the keystore directory and comes back
		case 3:
			return strings.Replace(n, "/", "//", 1)
		default:
			return n
		}
	}
	switch r.Intn(24) {
	case 0:
		return "a\x00b" // EINVAL
	case 1:
		return strings.Repeat("z", 251) // component of exactly NAME_MAX bytes
	case 2:
		return strings.Repeat("z", 252) // ENAMETOOLONG
	case 3:
		return "../up" // sibling of the keystore directory (still inside the sandbox)
	case 4:
		return "a.key/inner" // a.key is the key file of "a": ENOTDIR once "a" exists
	case 5:
		return "sub" // sub.key; and "sub.key/x" below makes it a directory
	case 6:
		return "sub.key/x"
	case 7:
		return string(r.Bytes(1 + r.Intn(6)))
	}
	return base[r.Intn(len(base))]
}

func genPw(r *hx.Rand, st *genState, stored string, have bool) string {
	if have {
		switch r.Intn(10) {
		case 0, 1, 2, 3, 4:
			return stored
		case 5:
			return stored + "\x00" // equal under HMAC key preparation when short
		case 6:
			return stored + "x"
		case 7:
			if len(stored) > 0 {
				return stored[:len(stored)-1]
			}
			return "y"
		}
	}
	if r.Chance(1, 6) {
		return string(r.Bytes(r.Intn(80)))
	}
	return pwPool[r.Intn(len(pwPool))]
}

func genOp(r *hx.Rand, st *genState) *jop {
	name := genName(r, st)
	st.names = append(st.names, name)
	slot, ok := slotOf(st.dir, name)
	e, have := st.ref[slot]
	have = have && ok
	pw := genPw(r, st, e.pw, have)
	op := &jop{Name: hx.Hex([]byte(name)), Pw: hx.Hex([]byte(pw))}
	k := r.Intn(100)
	switch {
	case k < 40 || !have && k < 70:
		op.Kind = "key"
	case k < 50:
		op.Kind = "exists"
		op.Pw = ""
	case k < 64:
		op.Kind = "export"
	case k < 90:
		op.Kind = "import"
		if len(st.exports) > 0 && r.Chance(1, 2) {
			x := st.exports[r.Intn(len(st.exports))]
			op.Blob, op.BlobValid, op.BlobPw, op.BlobKey, op.Tag = hx.Hex(x.blob), true, hx.Hex([]byte(x.pw)), hx.Hex(x.key), "own-export"
			if r.Chance(2, 3) && have {
				op.Pw = hx.Hex([]byte(x.pw)) // may or may not be the slot's password
			}
		} else {
			kind := craftKinds[r.Intn(len(craftKinds))]
			key := r.Bytes(32)
			bpw := []byte(pw)
			if r.Chance(1, 8) {
				bpw = []byte(pw + "!")
			}
			blob, valid := craftKind(r, kind, key, bpw)
			op.Blob, op.BlobValid, op.BlobPw, op.BlobKey, op.Tag = hx.Hex(blob), valid, hx.Hex(bpw), hx.Hex(key), kind
		}
	default:
		op.Kind = "importpriv"
		key := r.Bytes(32)
		key[0] &= 0x7f // below the group order
		if r.Chance(1, 2) { // boundary scalars: leading zero bytes, 1, N-1
			bk := boundaryKeys(r)
			key = bk[r.Intn(len(bk))]
		}
		op.Priv = hx.Hex(key)
		op.Tag = fmt.Sprintf("priv-leading-zero-bytes=%d", leadingZeros(key))
	}
	return op
}

func leadingZeros(k []byte) int {
	n := 0
	for n < len(k) && k[n] == 0 {
		n++
	}
	return n
}

// ---------------------------------------------------------------- mem store

func runMem(run *hx.Run, jc *jcase, r *hx.Rand, n int) {
	svc := mem.New()
	type ent struct {
		key []byte
		pw  string
	}
	ref := map[string]ent{}
	var steps []string
	names := []string{"a", "b", "", "boson", "ключ", "a/../a", "a\x00"}
	gen := jc.Ops == nil
	nontrivial := false
	for i := 0; ; i++ {
		var op jop
		if gen {
			if i >= n {
				break
			}
			name := names[r.Intn(len(names))]
			e, have := ref[name]
			pw := genPw(r, nil, e.pw, have)
			op = jop{Kind: "key", Name: hx.Hex([]byte(name)), Pw: hx.Hex([]byte(pw))}
			switch r.Intn(12) {
			case 0, 1:
				op.Kind = "exists"
			case 2:
				op.Kind = "export"
			case 3:
				op.Kind = "import"
			}
			jc.Ops = append(jc.Ops, op)
		} else {
			if i >= len(jc.Ops) {
				break
			}
			op = jc.Ops[i]
		}
		name, pw := string(unhex(op.Name)), string(unhex(op.Pw))
		var out outcome
		panicked, _ := hx.Guard(func() {
			switch op.Kind {
			case "key":
				k, created, err := svc.Key(name, pw)
				if err != nil {
					out = outcome{kind: classifyErr(err)}
				} else {
					out = outcome{kind: "key", key: crypto.EncodeSecp256k1PrivateKey(k), created: created}
				}
			case "exists":
				ex, err := svc.Exists(name)
				if err != nil {
					out = outcome{kind: classifyErr(err)}
				} else {
					out = outcome{kind: "exists", exists: ex}
				}
			case "export":
				_, err := svc.ExportKey(name, pw)
				out = outcome{kind: "other"}
				_ = err
			default:
				err := svc.ImportKey(name, pw, nil)
				out = outcome{kind: "other"}
				_ = err
			}
		})
		if panicked {
			out = outcome{kind: "panic"}
		}
		run.Hist("mem." + op.Kind + "->" + out.kind)
		var coqOp string
		switch op.Kind {
		case "key":
			var nk []byte
			if out.kind == "key" && out.created {
				nk = out.key
			}
			coqOp = hx.CoqApp("MKey", hx.CoqBytes([]byte(name)), hx.CoqBytes([]byte(pw)), hx.CoqBytes(nk))
		case "exists":
			coqOp = hx.CoqApp("MExists", hx.CoqBytes([]byte(name)))
		case "export":
			coqOp = hx.CoqApp("MExport", hx.CoqBytes([]byte(name)), hx.CoqBytes([]byte(pw)))
		default:
			coqOp = hx.CoqApp("MImport", hx.CoqBytes([]byte(name)), hx.CoqBytes([]byte(pw)))
		}
		steps = append(steps, hx.CoqPair(coqOp, coqOut(out)))
		viol := func(sig, detail string, impl, want interface{}) {
			snap := *jc
			snap.Ops = append([]jop{}, jc.Ops[:i+1]...)
			run.Violate(hx.Violation{Sig: sig, Detail: fmt.Sprintf("op %d %s(%q): %s", i, op.Kind, name, detail), Case: snap, Impl: impl, Want: want})
		}
		e, have := ref[name]
		switch op.Kind {
		case "key":
			run.OracleChecked(1)
			switch {
			case !have:
				if out.kind != "key" || !out.created {
					viol("mem:absent-key-not-created", "no key under this name, but Key did not create one", out.kind, "created")
				} else {
					ref[name] = ent{out.key, pw}
				}
			case e.pw == pw:
				nontrivial = true
				if out.kind != "key" || out.created || !bytes.Equal(out.key, e.key) {
					viol("mem:same-password-different-answer", "correct password: not the stored key with created=false", out.kind, "stored key")
				}
			default:
				nontrivial = true
				if out.kind != "invalid" {
					viol("mem:wrong-password-not-invalid", "wrong password: outcome "+out.kind, out.kind, "invalid")
				}
			}
		case "exists":
			run.OracleChecked(1)
			if out.kind != "exists" || out.exists != have {
				viol("mem:exists-mismatch", "Exists disagrees with the reference map", out.exists, have)
			}
		}
	}
	run.AddCase(hx.CoqApp("CMem", hx.CoqList(steps, "mop * oout")), *jc, fmt.Sprintf("mem|%v", jc.Ops), nontrivial)
}

// ---------------------------------------------------------------- corpus (runs on every seed)

func hs(s string) string { return hx.Hex([]byte(s)) }

func corpus(r *hx.Rand) []jcase {
	key := bytes.Repeat([]byte{0x11}, 32)
	long := strings.Repeat("0123456789", 7) // 70 bytes: HMAC replaces it by its SHA-256 digest
	dg := sha256.Sum256([]byte(long))
	badIV, _ := craftKind(r, "bad-iv17", key, []byte("pw"))
	dk0, _ := craftKind(r, "dklen0", key, []byte("pw"))
	good, _ := craftKind(r, "ok-n2", key, []byte("pw"))
	goodP, _ := craftKind(r, "ok-n2", key, []byte("p"))
	return []jcase{
		// F-keystore-hmac-equivalent-password: "" and "\x00" (known finding)
		{Store: "file", Ops: []jop{{Kind: "key", Name: hs("n"), Pw: hs("")}, {Kind: "key", Name: hs("n"), Pw: hs("\x00")},
			{Kind: "key", Name: hs("n"), Pw: hs("x")}, {Kind: "key", Name: hs("n"), Pw: hs("")}}},
		// ... and a 70-byte password versus its SHA-256 digest
		{Store: "file", Ops: []jop{{Kind: "key", Name: hs("m"), Pw: hs(long)}, {Kind: "key", Name: hs("m"), Pw: hx.Hex(dg[:])},
			{Kind: "key", Name: hs("m"), Pw: hs(long[:69])}}},
		// ImportKey of a key file whose IV has 17 bytes (cipher.NewCTR panics), then of one with dklen 0
		// (slice bounds panic): before fix-import-before-backup the key file stayed renamed to *.bak.<t>
		// and the next Key call silently created a NEW key
		{Store: "file", Ops: []jop{{Kind: "key", Name: hs("boson"), Pw: hs("pw")},
			{Kind: "import", Name: hs("boson"), Pw: hs("pw"), Blob: hx.Hex(badIV), BlobPw: hs("pw"), BlobKey: hx.Hex(key), Tag: "bad-iv17"},
			{Kind: "exists", Name: hs("boson")}, {Kind: "key", Name: hs("boson"), Pw: hs("pw")},
			{Kind: "import", Name: hs("boson"), Pw: hs("pw"), Blob: hx.Hex(dk0), BlobPw: hs("pw"), BlobKey: hx.Hex(key), Tag: "dklen0"},
			{Kind: "key", Name: hs("boson"), Pw: hs("pw")},
			{Kind: "import", Name: hs("boson"), Pw: hs("pw"), Blob: hx.Hex(good), BlobValid: true, BlobPw: hs("pw"), BlobKey: hx.Hex(key), Tag: "ok-n2"},
			{Kind: "key", Name: hs("boson"), Pw: hs("pw")}, {Kind: "export", Name: hs("boson"), Pw: hs("pw")}}},
		// path aliases and directory/file conflicts
		{Store: "file", Ops: []jop{{Kind: "key", Name: hs("a"), Pw: hs("1")}, {Kind: "key", Name: hs("./a"), Pw: hs("1")},
			{Kind: "key", Name: hs("../d2/a"), Pw: hs("2")}, {Kind: "key", Name: hs("a.key/in"), Pw: hs("1")},
			{Kind: "exists", Name: hs("a.key/in")}, {Kind: "key", Name: hs("s.key/x"), Pw: hs("1")}, {Kind: "key", Name: hs("s"), Pw: hs("1")},
			{Kind: "exists", Name: hs("s")}, {Kind: "key", Name: hs("a\x00"), Pw: hs("1")}, {Kind: "key", Name: hs(""), Pw: hs("")},
			{Kind: "exists", Name: hs("")}, {Kind: "key", Name: hs(strings.Repeat("z", 252)), Pw: hs("")},
			{Kind: "key", Name: hs(strings.Repeat("z", 251)), Pw: hs("")}}},
		// the backup name <file>.bak.<unix seconds> must fit NAME_MAX: 236+4+15 = 255 fits, 237 does not
		{Store: "file", Ops: []jop{{Kind: "key", Name: hs(strings.Repeat("y", 236)), Pw: hs("p")}, {Kind: "key", Name: hs(strings.Repeat("y", 237)), Pw: hs("p")},
			{Kind: "importpriv", Name: hs(strings.Repeat("y", 236)), Pw: hs("p"), Priv: hx.Hex(key)},
			{Kind: "importpriv", Name: hs(strings.Repeat("y", 237)), Pw: hs("p"), Priv: hx.Hex(key)},
			{Kind: "import", Name: hs(strings.Repeat("y", 237)), Pw: hs("p"), Blob: hx.Hex(goodP), BlobValid: true, BlobPw: hs("p"), BlobKey: hx.Hex(key), Tag: "ok-n2"},
			{Kind: "key", Name: hs(strings.Repeat("y", 236)), Pw: hs("p")}, {Kind: "key", Name: hs(strings.Repeat("y", 237)), Pw: hs("p")}}},
		boundaryCase(r),
		tamperCase(r),
		{Store: "mem", Ops: []jop{{Kind: "key", Name: hs("n"), Pw: hs("")}, {Kind: "key", Name: hs("n"), Pw: hs("\x00")},
			{Kind: "key", Name: hs("n"), Pw: hs("")}, {Kind: "export", Name: hs("n"), Pw: hs("")}, {Kind: "import", Name: hs("n"), Pw: hs("")},
			{Kind: "exists", Name: hs("n")}, {Kind: "exists", Name: hs("N")}}},
	}
}

// every boundary scalar goes in through ImportPrivateKey and must come back unchanged through
// Key, ExportKey + ImportKey into another slot, and Key there (C36-1: a variable-width
// encoding loses keys whose scalar has leading zero bytes)
func boundaryCase(r *hx.Rand) jcase {
	jc := jcase{Store: "file", Ops: []jop{{Kind: "key", Name: hs("src"), Pw: hs("pw")}, {Kind: "key", Name: hs("dst"), Pw: hs("pw")}}}
	for _, k := range boundaryKeys(r) {
		tag := fmt.Sprintf("priv-leading-zero-bytes=%d", leadingZeros(k))
		jc.Ops = append(jc.Ops,
			jop{Kind: "importpriv", Name: hs("src"), Pw: hs("pw"), Priv: hx.Hex(k), Tag: tag},
			jop{Kind: "key", Name: hs("src"), Pw: hs("pw")},
			jop{Kind: "export", Name: hs("src"), Pw: hs("pw")},
			jop{Kind: "import", Name: hs("dst"), Pw: hs("pw"), Tag: "last-export"},
			jop{Kind: "key", Name: hs("dst"), Pw: hs("pw")},
			jop{Kind: "key", Name: hs("dst"), Pw: hs("wrong")})
	}
	return jc
}

// ---------------------------------------------------------------- concurrent first use

type concRes struct {
	pw  string
	out outcome
}

// concRound: n goroutines released together call Key(name, pw_i) on a name nobody has used;
// then one more Key with the winner's password. Oracle: every caller that got a key got the
// SAME key, at most one saw created=true, callers with another password than the stored one
// are rejected as invalid, and the later call returns that key.
func concRound(run *hx.Run, store string, keyFn func(name, pw string) outcome, name string, pws []string) {
	n := len(pws)
	res := make([]concRes, n)
	start := make(chan struct{})
	var wg sync.WaitGroup
	for i := 0; i < n; i++ {
		wg.Add(1)
		go func(i int) {
			defer wg.Done()
			<-start
			res[i] = concRes{pws[i], keyFn(name, pws[i])}
		}(i)
	}
	close(start)
	done := make(chan struct{})
	go func() { wg.Wait(); close(done) }()
	select {
	case <-done:
	case <-time.After(60 * time.Second):
		run.Violate(hx.Violation{Sig: store + ":concurrent-first-use:hang", Detail: "8 concurrent Key calls did not return within 60 s", Case: jcase{Store: store + "-conc"}})
		return
	}
	jc := jcase{Store: store + "-conc"}
	for _, p := range pws {
		jc.Ops = append(jc.Ops, jop{Kind: "key", Name: hs(name), Pw: hs(p)})
	}
	viol := func(sig, detail string) {
		run.Violate(hx.Violation{Sig: store + ":concurrent-first-use:" + sig, Detail: detail, Case: jc})
	}
	run.OracleChecked(1)
	var winKey []byte
	winPw := ""
	created := 0
	var steps []string
	for _, r := range res {
		run.Hist(store + ".conc." + r.out.kind)
		var nk []byte
		if r.out.kind == "key" {
			if r.out.created {
				created++
				nk = r.out.key
			}
			if winKey == nil {
				winKey, winPw = r.out.key, r.pw
			} else if !bytes.Equal(winKey, r.out.key) {
				viol("different-keys", fmt.Sprintf("two callers of Key(%q) were handed different keys %x.. and %x..", name, winKey[:4], r.out.key[:4]))
			}
		}
		steps = append(steps, hx.CoqTuple(hx.CoqBytes([]byte(r.pw)), coqScalar(nk), coqOut(r.out)))
	}
	if created > 1 {
		viol("more-than-one-created", fmt.Sprintf("%d callers saw created=true", created))
	}
	if winKey == nil {
		viol("nobody-got-a-key", "no caller of a first-time Key succeeded")
		return
	}
	if created == 0 {
		viol("nobody-created", "callers got a key but none saw created=true")
	}
	// the stored password is the one under which the later call succeeds
	later := keyFn(name, winPw)
	if later.kind != "key" || later.created || !bytes.Equal(later.key, winKey) {
		viol("later-key-differs", fmt.Sprintf("a later Key(%q) with the winner's password: %s created=%v, not the key handed out before", name, later.kind, later.created))
	}
	for _, r := range res {
		if r.pw != winPw && r.out.kind != "invalid" && r.out.kind != "key" {
			viol("other-password-not-invalid", "caller with another password: "+r.out.kind)
		}
		if r.pw == winPw && r.out.kind != "key" {
			viol("same-password-rejected", "caller with the stored password: "+r.out.kind)
		}
	}
	// callers with the other password that were ALSO handed a key are covered by different-keys /
	// more-than-one-created, except when they got the very same key: accepted with a wrong password
	for _, r := range res {
		if r.pw != winPw && r.out.kind == "key" && bytes.Equal(r.out.key, winKey) {
			viol("other-password-accepted", fmt.Sprintf("caller with password %q got the key stored under %q", r.pw, winPw))
		}
	}
	run.AddCase(hx.CoqApp("CConc", hx.CoqList(steps, "bytes * N * oout"), coqOut(later)), jc,
		fmt.Sprintf("%s-conc|%s|%v", store, name, pws), true)
}

func concPws(i int) []string {
	pws := make([]string, 8)
	for j := range pws {
		pws[j] = "pw"
		if i%2 == 1 && j%2 == 1 {
			pws[j] = "other"
		}
	}
	return pws
}

// tamperMAC: deterministic tamper classes of the stored MAC whose byte differences cancel
// under XOR (C36-3: a comparator that accumulates differences with ^= instead of |=)
func tamperMAC(kind string, mac []byte) []byte {
	m := append([]byte{}, mac...)
	var cnt int
	var mask byte
	switch {
	case strings.HasPrefix(kind, "mac-xor"):
		fmt.Sscanf(kind, "mac-xor%02x-n%d", &mask, &cnt)
		step := 32 / cnt
		for i := 0; i < cnt; i++ {
			m[(i*step+i%2*3)%32] ^= mask // spread positions (distinct: step >= 8 or all bytes)
		}
		if cnt == 32 {
			m = append([]byte{}, mac...)
			for i := range m {
				m[i] ^= mask
			}
		}
	case kind == "mac-swap":
		for j := 1; j < 32; j++ {
			if m[0] != m[j] {
				m[0], m[j] = m[j], m[0]
				break
			}
		}
	case kind == "mac-reversed":
		for i, j := 0, 31; i < j; i, j = i+1, j-1 {
			m[i], m[j] = m[j], m[i]
		}
	}
	return m
}

var tamperKinds = []string{"mac-xor01-n2", "mac-xor01-n4", "mac-xor01-n32", "mac-xor80-n2", "mac-xor80-n4", "mac-xor80-n32",
	"mac-xorff-n2", "mac-xorff-n4", "mac-xorff-n32", "mac-swap", "mac-reversed"}

// every tamper class goes through ImportKey with the right password, for a Keccak-MAC'd and a
// SHA3-MAC'd key file; each must be refused as invalid and the stored key must stay
func tamperCase(r *hx.Rand) jcase {
	key := bytes.Repeat([]byte{0x22}, 32)
	jc := jcase{Store: "file", Ops: []jop{{Kind: "key", Name: hs("t"), Pw: hs("pw")}}}
	for i, kind := range tamperKinds {
		kind := kind
		blob := craft(r, key, []byte("pw"), craftOpt{sha3mac: i%2 == 1, mutate: func(k *v3) {
			k.Crypto.MAC = hex.EncodeToString(tamperMAC(kind, unhex(k.Crypto.MAC)))
		}})
		jc.Ops = append(jc.Ops, jop{Kind: "import", Name: hs("t"), Pw: hs("pw"), Blob: hx.Hex(blob), BlobPw: hs("pw"), BlobKey: hx.Hex(key), Tag: kind})
	}
	jc.Ops = append(jc.Ops, jop{Kind: "key", Name: hs("t"), Pw: hs("pw")})
	return jc
}

// wrongPasswordSweep: a key file with the lightest scrypt parameters the loader accepts (one
// attempt ~ tens of microseconds) is placed in a fresh keystore directory, then n distinct
// wrong passwords are tried through Service.Key. None may yield a key. The passwords are
// short printable strings without NUL, so the known HMAC-equivalent class cannot occur.
func wrongPasswordSweep(run *hx.Run, r *hx.Rand, n int) {
	sandbox, err := os.MkdirTemp(os.Getenv("VERIF_WORKDIR"), "kss")
	if err != nil {
		panic(err)
	}
	defer os.RemoveAll(sandbox)
	key := r.Bytes(32)
	key[0] &= 0x7f
	const right = "sweep-right-password"
	if err := os.WriteFile(filepath.Join(sandbox, "light.key"), craft(r, key, []byte(right), craftOpt{n: 2, r: 1, p: 1, dkl: 32}), 0o600); err != nil {
		panic(err)
	}
	svc := file.New(sandbox)
	jc := jcase{Store: "file-sweep"}
	if k, created, err := svc.Key("light", right); err != nil || created || !bytes.Equal(crypto.EncodeSecp256k1PrivateKey(k), key) {
		run.Violate(hx.Violation{Sig: "file:light-kdf-key-file-not-read", Detail: fmt.Sprintf("a V3 key file with scrypt n=2,r=1,p=1 and the right password: err=%v created=%v", err, created), Case: jc})
		return
	}
	salt := r.U64()
	accepted := 0
	for i := 0; i < n; i++ {
		wrong := fmt.Sprintf("w%x-%d", salt, i)
		run.OracleChecked(1)
		k, _, err := svc.Key("light", wrong)
		if err == nil {
			accepted++
			if accepted <= 3 {
				run.Violate(hx.Violation{Sig: "file:wrong-password-accepted:sweep",
					Detail: fmt.Sprintf("attempt %d: password %q opened a key stored under %q (same key: %v)", i, wrong, right, bytes.Equal(crypto.EncodeSecp256k1PrivateKey(k), key)),
					Case: jc, Impl: "key", Want: "invalid password"})
			}
		} else if !errors.Is(err, keystore.ErrInvalidPassword) {
			run.Violate(hx.Violation{Sig: "file:wrong-password-not-invalid:sweep", Detail: fmt.Sprintf("attempt %d: %v", i, err), Case: jc})
			return
		}
	}
	run.HistN("file.sweep.wrong-passwords", n)
	run.HistN("file.sweep.accepted", accepted)
	run.AddCase("", jc, fmt.Sprintf("sweep|%d", n), true)
}

func runConcurrent(run *hx.Run) {
	toOutcome := func(k interface{ Key(string, string) (*ecdsa.PrivateKey, bool, error) }) func(string, string) outcome {
		return func(name, pw string) (out outcome) {
			panicked, _ := hx.Guard(func() {
				pk, created, err := k.Key(name, pw)
				if err != nil {
					out = outcome{kind: classifyErr(err)}
				} else {
					out = outcome{kind: "key", key: crypto.EncodeSecp256k1PrivateKey(pk), created: created}
				}
			})
			if panicked {
				out = outcome{kind: "panic"}
			}
			return
		}
	}
	// mem: 200 rounds, bounded time
	ms := mem.New()
	deadline := time.Now().Add(20 * time.Second)
	for i := 0; i < run.N(200, 2000) && time.Now().Before(deadline); i++ {
		concRound(run, "mem", toOutcome(ms), fmt.Sprintf("c%d", i), concPws(i))
	}
	// file: every Key costs one scrypt (~80 ms); fewer rounds
	sandbox, err := os.MkdirTemp(os.Getenv("VERIF_WORKDIR"), "ksc")
	if err != nil {
		panic(err)
	}
	defer os.RemoveAll(sandbox)
	fsvc := file.New(filepath.Join(sandbox, "keys"))
	deadline = time.Now().Add(time.Duration(run.N(25, 300)) * time.Second)
	fileRounds := run.N(10, 60)
	if raceEnabled {
		fileRounds = 2
	}
	for i := 0; i < fileRounds && time.Now().Before(deadline); i++ {
		concRound(run, "file", toOutcome(fsvc), fmt.Sprintf("c%d", i), concPws(i))
	}
}

func main() {
	run := hx.Start("C36", "Aurora.C36.Corr",
		"histories of Key/Exists/ExportKey/ImportKey/ImportPrivateKey on a fresh keystore (file: temp dir; mem): names incl. empty, unicode, path aliases, NUL, NAME_MAX boundary, file/directory conflicts; passwords incl. empty, unicode, non-UTF-8, trailing NUL, >64 bytes; imports of own exports and of 20 kinds of crafted key files; non-trivial = history in which an existing key is asked for again (right or wrong password) or an import succeeds; distinct by the op list")
	r := run.R

	if run.Replay != "" {
		var jc jcase
		if err := run.ReadReplay(&jc); err != nil {
			panic(err)
		}
		if jc.Store == "file-sweep" {
			wrongPasswordSweep(run, r.Fork(77), run.N(3000, 30000))
		} else if strings.HasSuffix(jc.Store, "-conc") {
			runConcurrent(run)
		} else if jc.Store == "mem" {
			runMem(run, &jc, r, 0)
		} else {
			runFile(run, &jc, nil)
		}
		run.Finish()
		return
	}
	for ci, jc := range corpus(r.Fork(1)) {
		jc := jc
		if raceEnabled && jc.Store == "file" && ci > 0 {
			continue // one scrypt costs ~9 s under the race detector: keep the first (known-finding) history only
		}
		if jc.Store == "mem" {
			runMem(run, &jc, r, 0)
		} else {
			runFile(run, &jc, nil)
		}
	}
	nh := run.N(6, 40)
	if raceEnabled {
		nh = 0
	}
	for h := 0; h < nh; h++ {
		rr := r.Fork(uint64(h))
		n := 6 + rr.Intn(run.N(9, 20))
		jc := jcase{Store: "file"}
		cnt := 0
		runFile(run, &jc, func(st *genState) *jop {
			if cnt >= n {
				return nil
			}
			cnt++
			return genOp(rr, st)
		})
	}
	for h := 0; h < run.N(20, 200); h++ {
		jc := jcase{Store: "mem"}
		runMem(run, &jc, r.Fork(uint64(1000+h)), 5+r.Intn(25))
	}
	runConcurrent(run)
	wrongPasswordSweep(run, r.Fork(77), run.N(3000, 30000))
	run.SetExtra("scrypt_calls_by_harness", scryptCalls)
	run.Finish()
}
