// C04 harness: pkg/cac New / NewWithDataSpan / Valid.
//
// Oracle: the property statement evaluated with an independent BMT implementation (recursive,
// zero-subtree cache, Keccak from x/crypto) — never with pkg/bmt. The Coq correspondence gets
// the oracle's hash as a table and checks the structure of cac.go (bounds, span cut, compare).
package main

import (
	"bytes"
	"encoding/binary"
	"encoding/hex"
	"fmt"
	"math/big"
	"sync"
	"sync/atomic"
	"time"

	"github.com/gauss-project/aurorafs/pkg/bmt"
	"github.com/gauss-project/aurorafs/pkg/bmtpool"
	"github.com/gauss-project/aurorafs/pkg/boson"
	"github.com/gauss-project/aurorafs/pkg/cac"
	"golang.org/x/crypto/sha3"
	"verifharness/hx"
)

const (
	chunkSize = 262144 // the property's "256 KiB"; compared with boson.ChunkSize at start
	segCount  = 8192
)

func keccak(d ...[]byte) []byte {
	h := sha3.NewLegacyKeccak256()
	for _, x := range d {
		h.Write(x)
	}
	return h.Sum(nil)
}

var zeroRoot [][]byte // zeroRoot[l] = root of an all-zero subtree of 2^l segments

func init() {
	zeroRoot = append(zeroRoot, make([]byte, 32))
	for l := 1; l <= 13; l++ {
		zeroRoot = append(zeroRoot, keccak(zeroRoot[l-1], zeroRoot[l-1]))
	}
}

// root of the subtree of 2^l segments starting at byte offset off, data zero-padded
func subRoot(data []byte, off, l int) []byte {
	if off >= len(data) {
		return zeroRoot[l]
	}
	if l == 0 {
		seg := make([]byte, 32)
		copy(seg, data[off:])
		return seg
	}
	half := 32 << uint(l-1)
	return keccak(subRoot(data, off, l-1), subRoot(data, off+half, l-1))
}

// keccak(span || root of data zero-padded to 8192 segments); data longer than that is outside the definition
func oracleBMT(span, data []byte) []byte {
	return keccak(span, subRoot(data, 0, 13))
}

// ---------------------------------------------------------------- byte strings of the cases

type patch struct {
	Pos int  `json:"pos"`
	Val byte `json:"val"`
}
type jpl struct {
	Prefix  string  `json:"prefix"`
	Seed    uint64  `json:"seed"`
	N       int     `json:"n"`
	ZTail   int     `json:"ztail"`
	Patches []patch `json:"patches,omitempty"`
}

func toyOut(seed uint64, n int) []byte {
	a := uint32(seed)
	out := make([]byte, n)
	for j := range out {
		a += a << 3
		a ^= a >> 11
		a += a << 15
		a += 2654435769
		out[j] = byte(a >> 24)
	}
	return out
}
func (p jpl) bytes() []byte {
	pre, _ := hex.DecodeString(p.Prefix)
	b := toyOut(p.Seed, p.N)
	zt := p.ZTail
	if zt > p.N {
		zt = p.N
	}
	for i := p.N - zt; i < p.N; i++ {
		b[i] = 0
	}
	for _, q := range p.Patches {
		if q.Pos < len(b) {
			b[q.Pos] = q.Val
		}
	}
	return append(pre, b...)
}
func (p jpl) coq() string {
	pre, _ := hex.DecodeString(p.Prefix)
	ps := make([]string, len(p.Patches))
	for i, q := range p.Patches {
		ps[i] = hx.CoqPair(hx.CoqN(uint64(q.Pos)), hx.CoqN(uint64(q.Val)))
	}
	return hx.CoqApp("PGen", hx.CoqBytes(pre), hx.CoqN(p.Seed), hx.CoqN(uint64(p.N)), hx.CoqN(uint64(p.ZTail)), hx.CoqList(ps, "N * N"))
}
func fp(d []byte) uint32 {
	a := uint32(2166136261)
	for _, b := range d {
		a += uint32(b)
		a += a << 10
		a ^= a >> 6
	}
	return a
}
func coqBig(b []byte) string { return "0x" + new(big.Int).SetBytes(b).Text(16) + "%N" }

// table entry for the hash the model will ask for
func tabEntry(span, data []byte) string {
	return hx.CoqTuple(coqBig(span), hx.CoqN(uint64(len(data))), hx.CoqN(uint64(fp(data))), coqBig(oracleBMT(span, data)))
}

type jcase struct {
	Kind string `json:"kind"` // new | newds | valid
	P    jpl    `json:"p"`
	Addr string `json:"addr,omitempty"`
	Coq  bool   `json:"coq"`
}

var run *hx.Run

func lenClass(n int, withSpan bool) string {
	lo, hi := 1, chunkSize
	if withSpan {
		lo, hi = 8, chunkSize+8
	}
	switch {
	case n < lo:
		return "too-short"
	case n > hi:
		return "too-long"
	case n == lo:
		return "min"
	case n == hi:
		return "max"
	}
	return "in-range"
}

func errClass(err error) uint64 {
	switch {
	case err == nil:
		return 99
	case err.Error() == "data too large":
		return 0
	case err.Error() == "short chunk data":
		return 1
	}
	return 2
}

func obsNew(ch boson.Chunk, err error) string {
	if err != nil {
		return hx.CoqApp("ONErr", hx.CoqN(errClass(err)))
	}
	return hx.CoqApp("ONOk", coqBig(ch.Address().Bytes()), hx.CoqN(uint64(len(ch.Data()))), hx.CoqN(uint64(fp(ch.Data()))))
}

// cac.Valid with a panic turned into an observable
func safeValid(ch boson.Chunk, jc jcase, cl string) bool {
	var v bool
	if pan, msg := hx.Guard(func() { v = cac.Valid(ch) }); pan {
		run.Violate(hx.Violation{Sig: "valid:panic:" + cl, Detail: "cac.Valid panicked: " + msg, Case: jc})
		return true // reported once as a panic, not again as a wrong answer
	}
	return v
}

func doNew(jc jcase) {
	data := jc.P.bytes()
	var ch boson.Chunk
	var err error
	pan, _ := hx.Guard(func() { ch, err = cac.New(data) })
	cl := lenClass(len(data), false)
	run.Hist("new." + cl)
	run.OracleChecked(1)
	inRange := len(data) >= 1 && len(data) <= chunkSize
	switch {
	case pan:
		run.Violate(hx.Violation{Sig: "new:panic:" + cl, Detail: "cac.New panicked", Case: jc})
		return
	case inRange && err != nil:
		run.Violate(hx.Violation{Sig: "new:rejects-in-range:" + cl, Detail: fmt.Sprintf("New(%d bytes) = %v", len(data), err), Case: jc})
	case !inRange && err == nil:
		run.Violate(hx.Violation{Sig: "new:accepts-out-of-range:" + cl, Detail: fmt.Sprintf("New(%d bytes) succeeded", len(data)), Case: jc})
	case inRange:
		span := make([]byte, 8)
		binary.LittleEndian.PutUint64(span, uint64(len(data)))
		want := oracleBMT(span, data)
		if !bytes.Equal(ch.Data(), append(append([]byte{}, span...), data...)) {
			run.Violate(hx.Violation{Sig: "new:payload!=le64(len)||data:" + cl, Detail: "chunk data is not span||data", Case: jc})
		}
		if !bytes.Equal(ch.Address().Bytes(), want) {
			run.Violate(hx.Violation{Sig: "new:address!=bmt:" + cl, Detail: fmt.Sprintf("got %x want %x", ch.Address().Bytes(), want), Case: jc, Impl: hx.Hex(ch.Address().Bytes()), Want: hx.Hex(want)})
		}
		if !safeValid(ch, jc, cl) {
			run.Violate(hx.Violation{Sig: "new:result-not-valid:" + cl, Detail: "Valid(New(data)) = false", Case: jc})
		}
	}
	coq := ""
	if jc.Coq {
		tab := "(@nil (N * N * N * N))"
		if inRange {
			span := make([]byte, 8)
			binary.LittleEndian.PutUint64(span, uint64(len(data)))
			tab = "[" + tabEntry(span, data) + "]"
		}
		coq = hx.CoqApp("CNew", tab, jc.P.coq(), obsNew(ch, err))
	}
	run.AddCase(coq, jc, fmt.Sprintf("new|%d|%d|%d|%v", jc.P.Seed, jc.P.N, jc.P.ZTail, jc.P.Patches), inRange)
}

func doNewDS(jc jcase) {
	d := jc.P.bytes()
	var ch boson.Chunk
	var err error
	pan, _ := hx.Guard(func() { ch, err = cac.NewWithDataSpan(d) })
	cl := lenClass(len(d), true)
	run.Hist("newds." + cl)
	run.OracleChecked(1)
	inRange := len(d) >= 8 && len(d) <= chunkSize+8
	switch {
	case pan:
		run.Violate(hx.Violation{Sig: "newds:panic:" + cl, Detail: "cac.NewWithDataSpan panicked", Case: jc})
		return
	case inRange && err != nil:
		run.Violate(hx.Violation{Sig: "newds:rejects-in-range:" + cl, Detail: fmt.Sprintf("NewWithDataSpan(%d bytes) = %v", len(d), err), Case: jc})
	case !inRange && err == nil:
		run.Violate(hx.Violation{Sig: "newds:accepts-out-of-range:" + cl, Detail: fmt.Sprintf("NewWithDataSpan(%d bytes) succeeded", len(d)), Case: jc})
	case inRange:
		want := oracleBMT(d[:8], d[8:])
		if !bytes.Equal(ch.Data(), d) {
			run.Violate(hx.Violation{Sig: "newds:payload-changed:" + cl, Detail: "chunk data differs from the input", Case: jc})
		}
		if !bytes.Equal(ch.Address().Bytes(), want) {
			run.Violate(hx.Violation{Sig: "newds:address!=bmt:" + cl, Detail: fmt.Sprintf("got %x want %x", ch.Address().Bytes(), want), Case: jc})
		}
		if !safeValid(ch, jc, cl) {
			run.Violate(hx.Violation{Sig: "newds:result-not-valid:" + cl, Detail: "Valid(NewWithDataSpan(d)) = false", Case: jc})
		}
	}
	coq := ""
	if jc.Coq {
		tab := "(@nil (N * N * N * N))"
		if inRange {
			tab = "[" + tabEntry(d[:8], d[8:]) + "]"
		}
		coq = hx.CoqApp("CNewDS", tab, jc.P.coq(), obsNew(ch, err))
	}
	run.AddCase(coq, jc, fmt.Sprintf("newds|%s|%d|%d|%d|%v", jc.P.Prefix, jc.P.Seed, jc.P.N, jc.P.ZTail, jc.P.Patches), inRange)
}

// what: how the (addr, payload) pair was produced, for the signature only
func doValid(jc jcase, what string) {
	d := jc.P.bytes()
	addr, _ := hex.DecodeString(jc.Addr)
	var got bool
	pan, _ := hx.Guard(func() { got = cac.Valid(boson.NewChunk(boson.NewAddress(addr), d)) })
	cl := lenClass(len(d), true)
	run.Hist("valid." + what + "." + cl)
	run.OracleChecked(1)
	inRange := len(d) >= 8 && len(d) <= chunkSize+8
	want := false
	if inRange {
		want = bytes.Equal(addr, oracleBMT(d[:8], d[8:]))
	}
	if pan {
		run.Violate(hx.Violation{Sig: "valid:panic:" + cl, Detail: "cac.Valid panicked", Case: jc})
		return
	}
	if got != want {
		sig := "valid:rejects-correct-chunk:" + cl
		if got {
			sig = "valid:accepts:" + what + ":" + cl
		}
		run.Violate(hx.Violation{Sig: sig, Detail: fmt.Sprintf("Valid = %v, definition says %v (payload %d bytes, %s)", got, want, len(d), what), Case: jc, Impl: got, Want: want})
	}
	coq := ""
	if jc.Coq {
		tab := "(@nil (N * N * N * N))"
		if inRange {
			tab = "[" + tabEntry(d[:8], d[8:]) + "]"
		}
		coq = hx.CoqApp("CValid", tab, hx.CoqBytes(addr), jc.P.coq(), hx.CoqBool(got))
	}
	run.AddCase(coq, jc, fmt.Sprintf("valid|%s|%s|%d|%d|%d|%v", jc.Addr, jc.P.Prefix, jc.P.Seed, jc.P.N, jc.P.ZTail, jc.P.Patches), inRange)
}

// ---------------------------------------------------------------- pool pressure
// Many goroutines create and validate chunks while all but `left` trees of the shared bmtpool are
// held by "other users": every hasher call of cac then queues for the same one or two trees, so
// a tree that is handed back before its hash is complete is immediately reused by someone else.
// Every answer is compared with the independent oracle; a goroutine that does not come back is a
// hang. The held trees are returned afterwards. Runs last: a broken caller leaves the pool dirty.
type jpressure struct {
	Workers int    `json:"workers"`
	Left    int    `json:"left"`
	Seed    uint64 `json:"seed"`
	Millis  int    `json:"millis"`
}

func doPressure(jp jpressure) (finished bool) {
	r := hx.NewRand(jp.Seed)
	sizes := []int{chunkSize, chunkSize - 1, chunkSize / 2, chunkSize - 64, 4096*31 + 7, 4096, 100, chunkSize - 33, 64, 65, 1, chunkSize}
	type fixed struct {
		data    []byte
		payload []byte
		addr    []byte
		bad     []byte
	}
	fx := make([]fixed, jp.Workers)
	for i := range fx {
		n := sizes[i%len(sizes)]
		d := toyOut(r.U64(), n)
		span := make([]byte, 8)
		binary.LittleEndian.PutUint64(span, uint64(n))
		a := oracleBMT(span, d)
		b := append([]byte{}, a...)
		b[r.Intn(32)] ^= 0x10
		fx[i] = fixed{data: d, payload: append(span, d...), addr: a, bad: b}
	}
	// other users of the pool hold all but `left` trees
	var held []*bmt.Hasher
	got := hx.WithTimeout(10*time.Second, func() {
		for i := 0; i < bmtpool.Capacity-jp.Left; i++ {
			held = append(held, bmtpool.Get())
		}
	})
	jc := map[string]interface{}{"kind": "pressure", "p": jp}
	if !got {
		run.Violate(hx.Violation{Sig: "pool:trees-missing", Detail: fmt.Sprintf("could only take %d of %d trees out of bmtpool: trees were not returned by earlier users", len(held), bmtpool.Capacity-jp.Left), Case: jc})
	}
	var rejected, accepted, wrongAddr, newErr, newInvalid, ops int64
	var stop int32
	var wg sync.WaitGroup
	for w := 0; w < jp.Workers; w++ {
		wg.Add(1)
		go func(f fixed) {
			defer wg.Done()
			good := boson.NewChunk(boson.NewAddress(f.addr), f.payload)
			bad := boson.NewChunk(boson.NewAddress(f.bad), f.payload)
			for round := 0; round < 400 && (round < 4 || atomic.LoadInt32(&stop) == 0); round++ {
				if !cac.Valid(good) {
					atomic.AddInt64(&rejected, 1)
				}
				if cac.Valid(bad) {
					atomic.AddInt64(&accepted, 1)
				}
				ch, err := cac.New(f.data)
				switch {
				case err != nil:
					atomic.AddInt64(&newErr, 1)
				case !bytes.Equal(ch.Address().Bytes(), f.addr):
					atomic.AddInt64(&wrongAddr, 1)
				case !cac.Valid(ch):
					atomic.AddInt64(&newInvalid, 1)
				}
				atomic.AddInt64(&ops, 4)
			}
		}(fx[w])
	}
	time.AfterFunc(time.Duration(jp.Millis)*time.Millisecond, func() { atomic.StoreInt32(&stop, 1) })
	finished = hx.WithTimeout(time.Duration(jp.Millis)*time.Millisecond+45*time.Second, wg.Wait)
	atomic.StoreInt32(&stop, 1)
	for _, h := range held {
		bmtpool.Put(h)
	}
	n := atomic.LoadInt64(&ops)
	run.OracleChecked(int(n))
	run.HistN("pressure.ops", int(n))
	allOK := finished
	if !finished {
		run.Violate(hx.Violation{Sig: "pool:hang", Detail: fmt.Sprintf("%d goroutines creating/validating chunks with %d free tree(s) did not finish (%d operations completed)", jp.Workers, jp.Left, n), Case: jc})
	}
	report := func(cnt int64, sig, what string) {
		if cnt != 0 {
			allOK = false
			run.Violate(hx.Violation{Sig: sig, Detail: fmt.Sprintf("%s: %d of %d concurrent operations (%d goroutines, %d free tree(s))", what, cnt, n, jp.Workers, jp.Left), Case: jc, Impl: cnt, Want: 0})
		}
	}
	report(atomic.LoadInt64(&rejected), "pool:concurrent-valid-chunk-rejected", "cac.Valid returned false for a chunk whose address is the BMT hash of its payload")
	report(atomic.LoadInt64(&accepted), "pool:concurrent-invalid-chunk-accepted", "cac.Valid returned true for a chunk with an altered address")
	report(atomic.LoadInt64(&wrongAddr), "pool:concurrent-new-wrong-address", "cac.New returned an address different from the BMT hash")
	report(atomic.LoadInt64(&newErr), "pool:concurrent-new-error", "cac.New failed on in-range data")
	report(atomic.LoadInt64(&newInvalid), "pool:concurrent-new-result-not-valid", "Valid(New(data)) = false")
	run.AddCase(hx.CoqApp("CPressure", hx.CoqN(uint64(jp.Workers)), hx.CoqN(uint64(jp.Left)), hx.CoqBool(allOK)), jc,
		fmt.Sprintf("pressure|%d|%d|%d", jp.Workers, jp.Left, jp.Seed), true)
	return finished
}

func genLen(r *hx.Rand) int {
	switch r.Intn(12) {
	case 0:
		return r.Intn(12)
	case 1:
		return chunkSize - r.Intn(3)
	case 2:
		return chunkSize + 1 + r.Intn(12)
	case 3:
		return chunkSize + 40
	case 4:
		return 32*r.Intn(40) + r.Intn(3) - 1 + 1
	case 5:
		return 4096 + r.Intn(3) - 1
	case 6:
		return r.Intn(chunkSize + 1)
	default:
		return 1 + r.Intn(300)
	}
}

func spanFor(r *hx.Rand, n int) []byte {
	s := make([]byte, 8)
	switch r.Intn(8) {
	case 0: // zero
	case 1:
		binary.LittleEndian.PutUint64(s, ^uint64(0))
	case 2:
		binary.LittleEndian.PutUint64(s, uint64(n)+1)
	case 3:
		binary.LittleEndian.PutUint64(s, uint64(chunkSize)*128)
	case 4:
		copy(s, r.Bytes(8))
	case 5:
		binary.BigEndian.PutUint64(s, uint64(n))
	default:
		binary.LittleEndian.PutUint64(s, uint64(n))
	}
	return s
}

func main() {
	run = hx.Start("C04", "Aurora.C04.Corr",
		"cac.New / NewWithDataSpan / Valid: payload lengths 0..12, around 32-byte and 4 KiB boundaries, 256 KiB -2..+12, +40 and random; 8 span classes (true length, 0, max, length+1, huge, random, big-endian); for every valid chunk: every payload-byte and address-byte mutation when the payload is <= 120 bytes, 64 random positions otherwise, plus truncated/extended addresses and payloads and zero-padding extension; non-trivial = payload length inside the accepted range; distinct by (kind, address, payload)")
	if boson.ChunkSize != chunkSize || boson.SpanSize != 8 || boson.BmtBranches != segCount {
		// the property text fixes 256 KiB and an 8-byte span; a changed constant is a violation of the property
		run.Violate(hx.Violation{Sig: "constants:chunk-size-or-span-changed", Detail: fmt.Sprintf("ChunkSize=%d SpanSize=%d BmtBranches=%d", boson.ChunkSize, boson.SpanSize, boson.BmtBranches)})
	}
	r := run.R
	if run.Replay != "" {
		var jc jcase
		var probe struct {
			Kind string    `json:"kind"`
			P    jpressure `json:"p"`
		}
		if err := run.ReadReplay(&probe); err == nil && probe.Kind == "pressure" {
			doPressure(probe.P)
			run.Finish()
			return
		}
		if err := run.ReadReplay(&jc); err != nil {
			panic(err)
		}
		switch jc.Kind {
		case "new":
			doNew(jc)
		case "newds":
			doNewDS(jc)
		default:
			doValid(jc, "replay")
		}
		run.Finish()
		return
	}

	// keep the Coq cases small, plus the full-size boundary cases: kind 'n' = New on n data bytes,
	// 'd' / 'p' = NewWithDataSpan / Valid on an n-byte payload
	seenBig := map[string]bool{}
	coqOK := func(kind byte, n int) bool {
		if n <= 400 {
			return true
		}
		ok := false
		switch kind {
		case 'n':
			ok = n == chunkSize || run.Thorough() && n == chunkSize+1
		case 'p':
			ok = n == chunkSize+8 || n == chunkSize+9
		case 'd':
			ok = run.Thorough() && (n == chunkSize+8 || n == chunkSize+9)
		}
		k := fmt.Sprintf("%c%d", kind, n)
		if ok && !seenBig[k] {
			seenBig[k] = true
			return true
		}
		return false
	}
	mkp := func(prefix []byte, n int) jpl {
		zt := 0
		switch r.Intn(6) {
		case 0:
			zt = r.Intn(n + 1)
		case 1:
			zt = n
		}
		return jpl{Prefix: hx.Hex(prefix), Seed: r.U64() & 0xffffffff, N: n, ZTail: zt}
	}

	// fixed boundary lengths on every seed
	fixed := []int{0, 1, 2, 7, 8, 9, 31, 32, 33, 63, 64, 65, 4095, 4096, 4097, chunkSize - 1, chunkSize, chunkSize + 1, chunkSize + 7, chunkSize + 8, chunkSize + 9, chunkSize + 40}
	lens := append([]int{}, fixed...)
	for i := 0; i < run.N(60, 600); i++ {
		lens = append(lens, genLen(r))
	}
	for _, n := range lens {
		// New on n bytes of data
		p := mkp(nil, n)
		doNew(jcase{Kind: "new", P: p, Coq: coqOK('n', n)})
		// NewWithDataSpan / Valid on payloads of n bytes in all (span ++ data of n-8)
		if n >= 8 {
			span := spanFor(r, n-8)
			p = mkp(span, n-8)
		}
		doNewDS(jcase{Kind: "newds", P: p, Coq: coqOK('d', n)})
		d := p.bytes()
		if len(d) < 8 {
			doValid(jcase{Kind: "valid", P: p, Addr: hx.Hex(r.Bytes(32)), Coq: true}, "short-payload")
			doValid(jcase{Kind: "valid", P: p, Addr: "", Coq: true}, "short-payload-empty-address")
			continue
		}
		addr := oracleBMT(d[:8], d[8:]) // for over-long payloads: the hash of what Write keeps
		if len(d) > chunkSize+8 {
			addr = oracleBMT(d[:8], d[8:chunkSize+8])
		}
		doValid(jcase{Kind: "valid", P: p, Addr: hx.Hex(addr), Coq: coqOK('p', n)}, "bmt-address")
		if len(d) > chunkSize+8 {
			continue
		}
		// address mutations
		for k := 0; k < 32; k++ {
			if len(d) > 128 && k%8 != r.Intn(8) {
				continue
			}
			a2 := append([]byte{}, addr...)
			a2[k] ^= 1 << uint(r.Intn(8))
			doValid(jcase{Kind: "valid", P: p, Addr: hx.Hex(a2), Coq: len(d) <= 128 && k%4 == 0}, "address-byte-changed")
		}
		doValid(jcase{Kind: "valid", P: p, Addr: hx.Hex(addr[:31]), Coq: n <= 400}, "address-truncated")
		doValid(jcase{Kind: "valid", P: p, Addr: hx.Hex(append(append([]byte{}, addr...), 0)), Coq: n <= 400}, "address-extended")
		// payload mutations (span bytes included)
		var positions []int
		if len(d) <= 120 {
			for k := range d {
				positions = append(positions, k)
			}
		} else {
			for k := 0; k < 8; k++ {
				positions = append(positions, k)
			}
			for k := 0; k < run.N(20, 56); k++ {
				positions = append(positions, 8+r.Intn(len(d)-8))
			}
			positions = append(positions, len(d)-1)
		}
		for i, k := range positions {
			q := p
			v := d[k] ^ byte(1<<uint(r.Intn(8)))
			what := "payload-byte-changed"
			if k < 8 {
				q.Prefix = hx.Hex(append(append(append([]byte{}, d[:k]...), v), d[k+1:8]...))
				what = "span-byte-changed"
			} else {
				q.Patches = append(append([]patch{}, p.Patches...), patch{Pos: k - 8, Val: v})
			}
			doValid(jcase{Kind: "valid", P: q, Addr: hx.Hex(addr), Coq: len(d) <= 120 && i%3 == 0}, what)
		}
		// payload shortened / extended by one byte, extension by a zero byte (BMT pads with zeros:
		// valid by definition when still within the bound — the oracle decides)
		if p.N > 0 {
			q := p
			q.N--
			if q.ZTail > q.N {
				q.ZTail = q.N
			}
			doValid(jcase{Kind: "valid", P: q, Addr: hx.Hex(addr), Coq: n <= 400}, "payload-shortened")
		}
		q := p
		q.N++
		q.ZTail++ // the added byte is zero
		if q.ZTail > 1 && p.ZTail == 0 {
			q.ZTail = 1
		}
		qb := q.bytes()
		if bytes.Equal(qb[:len(d)], d) && qb[len(d)] == 0 {
			doValid(jcase{Kind: "valid", P: q, Addr: hx.Hex(addr), Coq: n <= 400}, "payload-zero-extended")
		}
	}
	// pool pressure, last: one free tree, then two
	if doPressure(jpressure{Workers: 8, Left: 1, Seed: r.U64(), Millis: run.N(1500, 6000)}) {
		doPressure(jpressure{Workers: 12, Left: 2, Seed: r.U64(), Millis: run.N(1000, 6000)})
	}
	run.Finish()
}
