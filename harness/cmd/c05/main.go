// C05 harness: single-owner chunks — soc.New/Sign/FromChunk/Valid/CreateAddress,
// cac.New/NewWithDataSpan, crypto.Sign/Recover and the EIP-191 prefix.
//
// The real primitives (Keccak, BMT hasher, btcec sign/recover) are called
// through harness/sigtab, which records their outputs as the table the Coq
// model is evaluated with.
package main

import (
	"bytes"
	"crypto/ecdsa"
	"encoding/binary"
	"encoding/hex"
	"errors"
	"fmt"
	"math/big"

	"github.com/btcsuite/btcd/btcec"
	"github.com/gauss-project/aurorafs/pkg/boson"
	"github.com/gauss-project/aurorafs/pkg/cac"
	"github.com/gauss-project/aurorafs/pkg/crypto"
	"github.com/gauss-project/aurorafs/pkg/soc"

	"verifharness/hx"
	"verifharness/sigtab"
)

const (
	idSize   = 32
	sigSize  = 65
	spanSize = 8
	minSize  = idSize + sigSize + spanSize
)

type jmut struct {
	T   string `json:"t"` // data | addr | append | trunc
	Pos int    `json:"pos,omitempty"`
	Hex string `json:"hex,omitempty"`
	N   int    `json:"n,omitempty"`
	Tag string `json:"tag,omitempty"`
}

type jcase struct {
	Kind    string `json:"kind"` // sign | chunk | mutgroup | recover | prefix | secp
	Key     string `json:"key,omitempty"`
	ID      string `json:"id,omitempty"`
	Payload string `json:"payload,omitempty"`
	Addr    string `json:"addr,omitempty"`
	Data    string `json:"data,omitempty"`
	Sig     string `json:"sig,omitempty"`
	Muts    []jmut `json:"muts,omitempty"`
	Name    string `json:"name,omitempty"`
}

var run *hx.Run
var nchunk int

func unhex(s string) []byte { b, _ := hex.DecodeString(s); return b }

func cat(bs ...[]byte) []byte {
	var o []byte
	for _, b := range bs {
		o = append(o, b...)
	}
	return o
}

// error class by sentinel identity (0 = ok). 5 = crypto.Recover rejected the
// signature (non-canonical encoding or btcec failure).
func classify(err error) uint64 {
	switch {
	case err == nil:
		return 0
	case errors.Is(err, soc.VerifErrWrongChunkSize):
		return 1
	case errors.Is(err, cac.VerifSocErrTooLarge):
		return 2
	case errors.Is(err, cac.VerifSocErrTooShort):
		return 3
	case errors.Is(err, crypto.ErrInvalidLength):
		return 4
	case errors.Is(err, soc.VerifErrInvalidAddress):
		return 7
	default:
		return 5
	}
}

func keyOf(b []byte) *ecdsa.PrivateKey { return crypto.Secp256k1PrivateKeyFromBytes(b) }

// chunkFlow records what FromChunk/Valid ask of the primitives on `data`.
func chunkFlow(t *sigtab.Tab, data []byte, decoys bool) {
	if len(data) < minSize {
		return
	}
	id, sig, w := data[:idSize], data[idSize:idSize+sigSize], data[idSize+sigSize:]
	if len(w) > boson.ChunkSize+spanSize {
		return
	}
	a := t.Bmt(w[:spanSize], w[spanSize:])
	d := t.K(cat(id, a))
	if decoys {
		t.K(cat(a, id))
		t.Bmt(w[spanSize:], w[:spanSize])
	}
	pk := t.RecoverFlow(sig, d, decoys)
	if pk == nil {
		return
	}
	owner := t.K(pk)[12:]
	t.K(cat(id, owner))
	if decoys {
		t.K(cat(owner, id))
		t.K(cat([]byte{4}, pk))
	}
}

type parsed struct {
	panicked       bool
	class          uint64
	id, owner, sig []byte
	caddr, cdata   []byte
	addr           []byte // Chunk().Address() of the parsed SOC
	valid          bool
	vpanic         bool
}

func parse(addr, data []byte) parsed {
	var p parsed
	ch := boson.NewChunk(boson.NewAddress(addr), data)
	p.panicked, _ = hx.Guard(func() {
		s, err := soc.FromChunk(ch)
		p.class = classify(err)
		if err == nil {
			p.id, p.owner, p.sig = s.VerifID(), s.VerifOwner(), s.VerifSignature()
			p.caddr, p.cdata = s.WrappedChunk().Address().Bytes(), s.WrappedChunk().Data()
			if c2, err2 := s.Chunk(); err2 == nil {
				p.addr = c2.Address().Bytes()
			}
		}
	})
	p.vpanic, _ = hx.Guard(func() { p.valid = soc.Valid(ch) })
	return p
}

func (p parsed) osoc() string {
	if p.panicked {
		return "OSPanic"
	}
	if p.class != 0 {
		return hx.CoqApp("OSErr", hx.CoqN(p.class))
	}
	return hx.CoqApp("OS", sigtab.B(p.id), sigtab.B(p.owner), sigtab.B(p.sig), sigtab.B(p.caddr), sigtab.B(p.cdata))
}
func (p parsed) osum() string {
	if p.panicked {
		return "OSumPanic"
	}
	if p.class != 0 {
		return hx.CoqApp("OSumErr", hx.CoqN(p.class))
	}
	return hx.CoqApp("OSum", sigtab.B(p.owner), sigtab.B(p.caddr))
}
func (p parsed) obool() string {
	if p.vpanic {
		return "OBPanic"
	}
	return hx.CoqApp("OB", hx.CoqBool(p.valid))
}
func optBytes(b []byte) string {
	if b == nil {
		return "None"
	}
	return hx.CoqSome(sigtab.B(b))
}

// expectValid is the statement's own definition of an acceptable single-owner
// chunk, computed without pkg/soc: the signature over keccak(id || BMT address
// of the wrapped chunk) recovers a key whose Ethereum address, hashed with the
// id, is the chunk's address.
func expectValid(addr, data []byte) bool {
	if len(data) < minSize {
		return false
	}
	id, sig, w := data[:idSize], data[idSize:idSize+sigSize], data[idSize+sigSize:]
	if len(w) > boson.ChunkSize+spanSize {
		return false
	}
	a := sigtab.New().Bmt(w[:spanSize], w[spanSize:])
	pk, err := crypto.Recover(sig, sigtab.Keccak(cat(id, a)))
	if err != nil {
		return false
	}
	owner := sigtab.Keccak(sigtab.Pub64(pk))[12:]
	return bytes.Equal(addr, sigtab.Keccak(cat(id, owner)))
}

func doChunk(name string, addr, data []byte, withCoq bool) parsed {
	jc := jcase{Kind: "chunk", Addr: hx.Hex(addr), Data: hx.Hex(data), Name: name}
	p := parse(addr, data)
	coq := ""
	if withCoq {
		t := sigtab.New()
		nchunk++
		chunkFlow(t, data, name != "signed" || nchunk%4 == 0)
		coq = hx.CoqApp("CChunk", t.Coq(), sigtab.B(addr), sigtab.B(data), p.osoc(), optBytes(p.addr), p.obool())
	}
	run.AddCase(coq, jc, "chunk|"+hx.Hex(addr)+"|"+hx.Hex(data), len(data) >= minSize)
	run.Hist("chunk." + name)
	// oracle: acceptance is exactly the statement's definition
	run.OracleChecked(1)
	want := expectValid(addr, data)
	if p.vpanic || p.panicked {
		run.Violate(hx.Violation{Sig: "total:panic-in-FromChunk-or-Valid", Detail: fmt.Sprintf("panic on %d-byte chunk", len(data)), Case: jc})
	} else if p.valid && !want {
		run.Violate(hx.Violation{Sig: "valid:accepts-without-matching-owner-signature", Detail: "Valid is true but the signature over keccak(id||wrapped address) does not recover the owner the address commits to", Case: jc, Impl: true, Want: false})
	} else if !p.valid && want {
		run.Violate(hx.Violation{Sig: "valid:rejects-well-formed-chunk", Detail: "Valid is false on a chunk that meets the definition", Case: jc, Impl: false, Want: true})
	}
	if len(data) < minSize {
		run.OracleChecked(1)
		if !p.panicked && p.class != 1 {
			run.Violate(hx.Violation{Sig: "short:not-rejected-as-too-short", Detail: fmt.Sprintf("FromChunk on %d bytes: class %d", len(data), p.class), Case: jc, Impl: p.class, Want: 1})
		}
	}
	return p
}

// doSign: cac.New(payload); soc.New(id, ch).Sign(signer); round trip.
func doSign(keyb, id, payload []byte, withCoq bool) (boson.Chunk, boson.Chunk) {
	jc := jcase{Kind: "sign", Key: hx.Hex(keyb), ID: hx.Hex(id), Payload: hx.Hex(payload)}
	key := keyOf(keyb)
	signer := crypto.NewDefaultSigner(key)
	t := sigtab.New()
	ch, err := cac.New(payload)
	if withCoq {
		span := make([]byte, spanSize)
		binary.LittleEndian.PutUint64(span, uint64(len(payload)))
		oc := ""
		if err != nil {
			oc = hx.CoqApp("OCErr", hx.CoqN(classify(err)))
		} else {
			t.Bmt(span, payload)
			oc = hx.CoqApp("OC", sigtab.B(ch.Address().Bytes()), sigtab.B(ch.Data()))
		}
		run.AddCase(hx.CoqApp("CCacNew", t.Coq(), sigtab.B(payload), oc), jc, "cacnew|"+hx.Hex(payload), err == nil)
	}
	if err != nil {
		return nil, nil
	}
	var sch boson.Chunk
	var serr error
	panicked, _ := hx.Guard(func() { sch, serr = soc.New(id, ch).Sign(signer) })
	pub := t.Pub(key)
	owner := t.K(pub)[12:]
	digest := t.K(cat(id, ch.Address().Bytes()))
	sig := t.SignFlow(key, digest)
	wantAddr := t.K(cat(id, owner))
	if withCoq {
		oc := "OCPanic"
		if !panicked {
			if serr != nil {
				oc = hx.CoqApp("OCErr", hx.CoqN(classify(serr)))
			} else {
				oc = hx.CoqApp("OC", sigtab.B(sch.Address().Bytes()), sigtab.B(sch.Data()))
			}
		}
		run.AddCase(hx.CoqApp("CSocSign", t.Coq(), sigtab.B(keyb), sigtab.B(id), sigtab.B(ch.Address().Bytes()), sigtab.B(ch.Data()), oc),
			jc, "sign|"+hx.Hex(keyb)+"|"+hx.Hex(id)+"|"+hx.Hex(payload), len(id) == idSize)
		rs, _ := signer.Sign(digest)
		run.AddCase(hx.CoqApp("CSignData", t.Coq(), sigtab.B(keyb), sigtab.B(digest), sigtab.B(rs)), jc, "signdata|"+hx.Hex(keyb)+"|"+hx.Hex(digest), true)
	} else {
		run.AddCase("", jc, "sign|"+hx.Hex(keyb)+"|"+hx.Hex(id)+"|"+hx.Hex(payload), len(id) == idSize)
	}
	run.Hist(fmt.Sprintf("sign.payload<=%d", bucket(len(payload))))
	if panicked || serr != nil {
		if len(id) == idSize {
			run.OracleChecked(1)
			run.Violate(hx.Violation{Sig: "roundtrip:sign-fails", Detail: fmt.Sprintf("Sign failed: panic=%v err=%v", panicked, serr), Case: jc})
		}
		return ch, nil
	}
	if len(id) != idSize {
		// ids are 32 bytes (soc.IdSize); other lengths are only compared with the model
		doChunk("signed-odd-id", sch.Address().Bytes(), sch.Data(), withCoq)
		return ch, sch
	}
	// oracle: the first sentence of the property
	run.OracleChecked(5)
	if !bytes.Equal(sch.Address().Bytes(), wantAddr) {
		run.Violate(hx.Violation{Sig: "address:not-keccak(id||owner)", Detail: "address of the signed chunk differs from keccak256(id || ethereum address of the key)", Case: jc, Impl: hx.Hex(sch.Address().Bytes()), Want: hx.Hex(wantAddr)})
	}
	if !bytes.Equal(sch.Data(), cat(id, sig, ch.Data())) {
		run.Violate(hx.Violation{Sig: "roundtrip:serialization-not-id||sig||wrapped", Detail: "serialized chunk is not id || signature || span || payload", Case: jc})
	}
	p := doChunk("signed", sch.Address().Bytes(), sch.Data(), withCoq)
	if !p.valid {
		run.Violate(hx.Violation{Sig: "roundtrip:signed-chunk-invalid", Detail: "a chunk signed with a key is not Valid", Case: jc, Impl: false, Want: true})
	}
	if p.class != 0 || p.panicked {
		run.Violate(hx.Violation{Sig: "roundtrip:signed-chunk-does-not-parse", Detail: fmt.Sprintf("FromChunk class %d panic %v", p.class, p.panicked), Case: jc})
	} else {
		eth, _ := crypto.NewEthereumAddress(key.PublicKey)
		if !bytes.Equal(p.id, id) {
			run.Violate(hx.Violation{Sig: "roundtrip:id-differs", Detail: "parsed id differs", Case: jc, Impl: hx.Hex(p.id), Want: hx.Hex(id)})
		}
		if !bytes.Equal(p.owner, eth) || !bytes.Equal(p.owner, owner) {
			run.Violate(hx.Violation{Sig: "roundtrip:owner-differs", Detail: "parsed owner is not the key's ethereum address", Case: jc, Impl: hx.Hex(p.owner), Want: hx.Hex(eth)})
		}
		if !bytes.Equal(p.caddr, ch.Address().Bytes()) || !bytes.Equal(p.cdata, ch.Data()) {
			run.Violate(hx.Violation{Sig: "roundtrip:wrapped-chunk-differs", Detail: "parsed wrapped chunk differs", Case: jc})
		}
	}
	return ch, sch
}

func bucket(n int) int {
	for _, b := range []int{0, 1, 31, 32, 64, 128, 4096, 262144} {
		if n <= b {
			return b
		}
	}
	return 1 << 30
}

func field(pos int) string {
	switch {
	case pos < idSize:
		return "id"
	case pos < idSize+sigSize:
		return "signature"
	case pos < minSize:
		return "span"
	default:
		return "payload"
	}
}

func applyMut(m jmut, addr, data []byte) ([]byte, []byte, string) {
	a := append([]byte{}, addr...)
	d := append([]byte{}, data...)
	bs := unhex(m.Hex)
	switch m.T {
	case "data":
		copy(d[m.Pos:], bs)
		return a, d, hx.CoqApp("MData", hx.CoqNat(m.Pos), sigtab.B(bs))
	case "addr":
		copy(a[m.Pos:], bs)
		return a, d, hx.CoqApp("MAddr", hx.CoqNat(m.Pos), sigtab.B(bs))
	case "append":
		return a, append(d, bs...), hx.CoqApp("MAppend", sigtab.B(bs))
	default:
		if m.N > len(d) {
			m.N = len(d)
		}
		return a, d[:m.N], hx.CoqApp("MTrunc", hx.CoqNat(m.N))
	}
}

func allZero(b []byte) bool {
	for _, x := range b {
		if x != 0 {
			return false
		}
	}
	return true
}

// highSTwin returns (r, N-s, v^1) of a 65-byte r||s||v signature.
func highSTwin(sig []byte) []byte {
	o := append([]byte{}, sig...)
	s := new(big.Int).SetBytes(sig[32:64])
	s.Sub(btcec.S256().N, s)
	b := s.Bytes()
	for i := 32; i < 64; i++ {
		o[i] = 0
	}
	copy(o[64-len(b):64], b)
	o[64] = 27 + ((sig[64] - 27) ^ 1)
	return o
}

// Every alteration is run on the implementation and oracle-checked; the Coq
// correspondence gets the tagged ones, the field boundaries and every
// coqEvery-th position (offset drawn from the seed), to bound the size of the
// generated Coq file.
func doMutGroup(keyb, id, payload []byte, muts []jmut, coqEvery int) {
	key := keyOf(keyb)
	ch, err := cac.New(payload)
	if err != nil {
		return
	}
	sch, err := soc.New(id, ch).Sign(crypto.NewDefaultSigner(key))
	if err != nil {
		return
	}
	addr, data := sch.Address().Bytes(), sch.Data()
	t0 := sigtab.New()
	chunkFlow(t0, data, false)
	var ms []string
	var kept []jmut
	off := 0
	if coqEvery > 1 {
		off = run.R.Intn(coqEvery)
	}
	boundary := map[int]bool{0: true, 31: true, 32: true, 63: true, 64: true, 95: true, 96: true, 97: true, 104: true, 105: true, len(data) - 1: true}
	for i, m := range muts {
		one := jcase{Kind: "mutgroup", Key: hx.Hex(keyb), ID: hx.Hex(id), Payload: hx.Hex(payload), Muts: []jmut{m}}
		if (m.T == "data" || m.T == "addr") && m.Pos+len(unhex(m.Hex)) > map[string]int{"data": len(data), "addr": len(addr)}[m.T] {
			continue
		}
		a2, d2, mc := applyMut(m, addr, data)
		tm := sigtab.New()
		chunkFlow(tm, d2, false)
		p := parse(a2, d2)
		if coqEvery <= 1 || m.Tag != "" || (m.T != "data" && m.T != "addr") || (i+off)%coqEvery == 0 || (m.T == "data" && boundary[m.Pos]) {
			ms = append(ms, hx.CoqTuple(mc, tm.Coq(), p.osum(), p.obool()))
			kept = append(kept, m)
		}
		run.AddCase("", one, fmt.Sprintf("mut|%x|%x", a2, d2), len(d2) >= minSize)
		// oracle: altering the id, signature, wrapped payload or address makes it invalid
		changed := !bytes.Equal(a2, addr) || !bytes.Equal(d2, data)
		what := m.Tag
		if what == "" {
			switch m.T {
			case "data":
				what = field(m.Pos)
			case "addr":
				what = "address"
			case "append":
				what = "payload-appended"
			default:
				what = "truncated"
			}
		}
		run.Hist("mut." + what)
		exempt := false
		if m.T == "append" && allZero(unhex(m.Hex)) {
			exempt = true // BMT pads with zeros: same wrapped address by definition (DESIGN 9a, C06)
		}
		if m.T == "trunc" && m.N >= minSize && allZero(data[m.N:]) {
			exempt = true
		}
		if exempt {
			if p.valid {
				run.Hist("observation.zero-padding-keeps-validity")
			}
			continue
		}
		if !changed {
			continue
		}
		run.OracleChecked(1)
		if p.vpanic || p.panicked {
			run.Violate(hx.Violation{Sig: "total:panic-in-FromChunk-or-Valid", Detail: "panic on altered chunk", Case: one})
		} else if p.valid {
			run.Violate(hx.Violation{Sig: "mutation:still-valid-after-altering-" + what, Detail: fmt.Sprintf("chunk altered (%s at %d -> %s) is still Valid", m.T, m.Pos, m.Hex), Case: one, Impl: true, Want: false})
		}
	}
	gj := jcase{Kind: "mutgroup", Key: hx.Hex(keyb), ID: hx.Hex(id), Payload: hx.Hex(payload), Muts: kept}
	run.HistN("mut.in-coq-correspondence", len(kept))
	run.AddCase(hx.CoqApp("CMutGroup", t0.Coq(), sigtab.B(addr), sigtab.B(data), hx.CoqList(ms, "mut_obs")),
		gj, fmt.Sprintf("mutgroup|%x|%x|%x|%d", keyb, id, payload, len(muts)), true)
}

func genMuts(keyb, id, payload []byte, perPos int) []jmut {
	r := run.R
	key := keyOf(keyb)
	ch, err := cac.New(payload)
	if err != nil {
		return nil
	}
	sch, err := soc.New(id, ch).Sign(crypto.NewDefaultSigner(key))
	if err != nil {
		return nil
	}
	data := sch.Data()
	sig := data[idSize : idSize+sigSize]
	var ms []jmut
	one := func(b byte) string { return hx.Hex([]byte{b}) }
	for pos := range data {
		for k := 0; k < perPos; k++ {
			x := byte(1 + r.Intn(255))
			if k == 1 {
				x = 1 << uint(r.Intn(8))
			}
			ms = append(ms, jmut{T: "data", Pos: pos, Hex: one(data[pos] ^ x)})
		}
	}
	for pos := 0; pos < 32; pos++ {
		ms = append(ms, jmut{T: "addr", Pos: pos, Hex: one(sch.Address().Bytes()[pos] ^ byte(1+r.Intn(255)))})
	}
	v := sig[64]
	// re-encodings of the same signature
	ms = append(ms,
		jmut{T: "data", Pos: 96, Hex: one(v + 4), Tag: "signature-recovery-byte-plus-4"},
		jmut{T: "data", Pos: 96, Hex: one(27 + ((v - 27) ^ 1))},
		jmut{T: "data", Pos: 96, Hex: one(v + 2)},
		jmut{T: "data", Pos: 96, Hex: one(v - 27)},
		jmut{T: "data", Pos: 32, Hex: hx.Hex(highSTwin(sig)), Tag: "signature-high-s-twin"},
	)
	// signature of another key over the same digest; of the same key over another digest
	digest := sigtab.Keccak(cat(id, ch.Address().Bytes()))
	other := keyOf(r.Bytes(32))
	s2, _ := crypto.NewDefaultSigner(other).Sign(digest)
	s3, _ := crypto.NewDefaultSigner(key).Sign(sigtab.Keccak(cat(ch.Address().Bytes(), id)))
	ms = append(ms, jmut{T: "data", Pos: 32, Hex: hx.Hex(s2), Tag: "signature-of-another-key"},
		jmut{T: "data", Pos: 32, Hex: hx.Hex(s3), Tag: "signature-over-another-digest"},
		jmut{T: "data", Pos: 32, Hex: hx.Hex(r.Bytes(65)), Tag: "signature-random"})
	// whole id, whole payload
	ms = append(ms, jmut{T: "data", Pos: 0, Hex: hx.Hex(r.Bytes(32)), Tag: "id-replaced"})
	np := r.Bytes(len(payload))
	np[0] = payload[0] ^ 1
	ms = append(ms, jmut{T: "data", Pos: minSize, Hex: hx.Hex(np), Tag: "payload-replaced"})
	// another honest chunk's data under this address
	if _, sch2 := signQuiet(keyb, r.Bytes(32), payload); sch2 != nil && len(sch2.Data()) == len(data) {
		ms = append(ms, jmut{T: "data", Pos: 0, Hex: hx.Hex(sch2.Data()), Tag: "data-of-another-soc"})
	}
	// length changes
	ms = append(ms, jmut{T: "append", Hex: "00"}, jmut{T: "append", Hex: "000000"}, jmut{T: "append", Hex: "01"}, jmut{T: "append", Hex: "0080"},
		jmut{T: "trunc", N: len(data) - 1}, jmut{T: "trunc", N: minSize}, jmut{T: "trunc", N: minSize - 1}, jmut{T: "trunc", N: 0})
	return ms
}

func signQuiet(keyb, id, payload []byte) (boson.Chunk, boson.Chunk) {
	ch, err := cac.New(payload)
	if err != nil {
		return nil, nil
	}
	sch, err := soc.New(id, ch).Sign(crypto.NewDefaultSigner(keyOf(keyb)))
	if err != nil {
		return ch, nil
	}
	return ch, sch
}

func doRecover(sig, data []byte, honestKey *ecdsa.PrivateKey, reencoded bool) {
	jc := jcase{Kind: "recover", Sig: hx.Hex(sig), Data: hx.Hex(data)}
	t := sigtab.New()
	t.RecoverFlow(sig, data, true)
	var pk *ecdsa.PublicKey
	var err error
	panicked, _ := hx.Guard(func() { pk, err = crypto.Recover(sig, data) })
	obs := ""
	switch {
	case panicked:
		obs = hx.CoqApp("ORErr", hx.CoqN(99))
	case errors.Is(err, crypto.ErrInvalidLength):
		obs = hx.CoqApp("ORErr", hx.CoqN(1))
	case err != nil:
		obs = hx.CoqApp("ORErr", hx.CoqN(2))
	default:
		obs = hx.CoqApp("OR", sigtab.B(sigtab.Pub64(pk)))
	}
	run.AddCase(hx.CoqApp("CRecover", t.Coq(), sigtab.B(sig), sigtab.B(data), obs), jc, "recover|"+hx.Hex(sig)+"|"+hx.Hex(data), len(sig) == 65)
	run.Hist(fmt.Sprintf("recover.len=%d", len(sig)))
	if honestKey != nil {
		run.OracleChecked(1)
		same := err == nil && !panicked && pk.X.Cmp(honestKey.PublicKey.X) == 0 && pk.Y.Cmp(honestKey.PublicKey.Y) == 0
		if !reencoded && !same {
			run.Violate(hx.Violation{Sig: "recover:own-signature-not-recovered", Detail: "Recover(Sign(data), data) is not the signer's key", Case: jc})
		}
		if reencoded && same {
			run.Violate(hx.Violation{Sig: "recover:noncanonical-encoding-accepted", Detail: "a re-encoding of a signature (recovery byte + 4, or (r, N-s) with flipped parity) recovers the same key: one signed message has several accepted signatures", Case: jc, Impl: "accepted", Want: "rejected"})
		}
	}
}

func doPrefix(data []byte) {
	jc := jcase{Kind: "prefix", Data: hx.Hex(data)}
	obs := crypto.VerifAddEthereumPrefix(data)
	run.AddCase(hx.CoqApp("CPrefix", sigtab.B(data), sigtab.B(obs)), jc, "prefix|"+hx.Hex(data), true)
}

func replay() {
	var jc jcase
	if err := run.ReadReplay(&jc); err != nil {
		panic(err)
	}
	switch jc.Kind {
	case "sign":
		doSign(unhex(jc.Key), unhex(jc.ID), unhex(jc.Payload), true)
	case "chunk":
		doChunk(jc.Name, unhex(jc.Addr), unhex(jc.Data), true)
	case "mutgroup":
		doMutGroup(unhex(jc.Key), unhex(jc.ID), unhex(jc.Payload), jc.Muts, 1)
	case "recover":
		doRecover(unhex(jc.Sig), unhex(jc.Data), nil, false)
	case "prefix":
		doPrefix(unhex(jc.Data))
	}
}

func main() {
	run = hx.Start("C05", "Aurora.C05.Corr",
		"random secp256k1 keys x ids (random, all-zero, all-ff) x payload lengths at 1/31/32/33/64/100 and span/size boundaries: sign and parse back; every byte position of the serialized chunk and of its address altered (plus signature re-encodings, foreign signatures, replaced id/payload, length changes); hand-made malformed chunks. Non-trivial = chunk of at least minChunkSize bytes that reaches the signature check, or a 65-byte signature; distinct by (address, data)")
	r := run.R
	if run.Replay != "" {
		replay()
		run.Finish()
		return
	}

	// 0. constants and the EIP-191 prefix
	run.AddCase(hx.CoqApp("CSecp", btcec.S256().N.String()+"%N"), jcase{Kind: "secp"}, "secp", true)
	for _, n := range []int{0, 1, 9, 10, 11, 32, 99, 100, 101, 999, 1000, 1001, 4999} {
		doPrefix(r.Bytes(n))
	}

	// 1. corpus: the witness of the fixed finding (re-encoded signatures) on a fixed key
	{
		keyb := bytes.Repeat([]byte{0x11}, 32)
		msg := []byte("aurorafs-verif-c05")
		sig, _ := crypto.NewDefaultSigner(keyOf(keyb)).Sign(msg)
		doRecover(sig, msg, keyOf(keyb), false)
		plus4 := append([]byte{}, sig...)
		plus4[64] += 4
		doRecover(plus4, msg, keyOf(keyb), true)
		doRecover(highSTwin(sig), msg, keyOf(keyb), true)
		id := make([]byte, 32)
		doSign(keyb, id, []byte("foo"), true)
		doMutGroup(keyb, id, []byte("foo"), []jmut{
			{T: "data", Pos: 96, Hex: hx.Hex([]byte{sigOf(keyb, id, []byte("foo"))[64] + 4}), Tag: "signature-recovery-byte-plus-4"},
			{T: "data", Pos: 32, Hex: hx.Hex(highSTwin(sigOf(keyb, id, []byte("foo")))), Tag: "signature-high-s-twin"},
		}, 1)
	}

	// 2. sign / parse round trips
	nkeys := run.N(6, 32)
	keys := make([][]byte, nkeys)
	for i := range keys {
		keys[i] = r.Bytes(32)
	}
	lens := []int{1, 2, 31, 32, 33, 63, 64, 65, 100}
	if run.Thorough() {
		lens = append(lens, 127, 128, 129, 1000, 4095, 4096, 4097)
	}
	// sign tasks and alteration groups are interleaved so that the (large)
	// alteration cases spread over the Coq shards
	var signTasks, mutTasks []func()
	for i, kb := range keys {
		for j, n := range lens {
			id := r.Bytes(32)
			switch (i + j) % 7 {
			case 0:
				id = make([]byte, 32)
			case 1:
				id = bytes.Repeat([]byte{0xff}, 32)
			}
			if !run.Thorough() && (i+j)%2 == 1 {
				continue
			}
			if n >= 1000 && i >= 3 {
				continue
			}
			kb, id, pl := kb, id, r.Bytes(n)
			signTasks = append(signTasks, func() { doSign(kb, id, pl, true) })
		}
	}
	ngroups := run.N(5, 24)
	per := run.N(1, 3)
	for g := 0; g < ngroups; g++ {
		kb := keys[g%len(keys)]
		id := r.Bytes(32)
		payload := r.Bytes([]int{1, 32, 47, 5, 64, 33}[g%6])
		mutTasks = append(mutTasks, func() { doMutGroup(kb, id, payload, genMuts(kb, id, payload, per), run.N(12, 6)) })
	}
	for i, mi := 0, 0; i < len(signTasks) || mi < len(mutTasks); i++ {
		if i < len(signTasks) {
			signTasks[i]()
		}
		if mi < len(mutTasks) && (i >= len(signTasks) || (i+1)*len(mutTasks)/len(signTasks) > mi) {
			mutTasks[mi]()
			mi++
		}
	}
	// payload boundaries of cac.New (oracle only for the very large ones)
	doSign(keys[0], r.Bytes(32), nil, true)
	if run.Thorough() {
		doSign(keys[0], r.Bytes(32), r.Bytes(boson.ChunkSize), false)
		doSign(keys[0], r.Bytes(32), r.Bytes(boson.ChunkSize+1), false)
	}
	// ids that are not 32 bytes (compared with the model only)
	for _, n := range []int{0, 31, 33} {
		doSign(keys[0], r.Bytes(n), r.Bytes(20), true)
	}
	// a SOC wrapping an empty-payload chunk: exactly minChunkSize bytes
	{
		span := make([]byte, 8)
		a := sigtab.New().Bmt(span, nil)
		id := r.Bytes(32)
		sch, err := soc.New(id, boson.NewChunk(boson.NewAddress(a), span)).Sign(crypto.NewDefaultSigner(keyOf(keys[0])))
		if err == nil {
			p := doChunk("min-size", sch.Address().Bytes(), sch.Data(), true)
			run.OracleChecked(1)
			if !p.valid {
				run.Violate(hx.Violation{Sig: "valid:rejects-well-formed-chunk", Detail: "minimum-size SOC rejected", Case: jcase{Kind: "chunk", Addr: hx.Hex(sch.Address().Bytes()), Data: hx.Hex(sch.Data())}})
			}
			// inconsistent wrapped chunk (address not the BMT hash of its data): Sign succeeds, result invalid
			bad, err := soc.New(id, boson.NewChunk(boson.NewAddress(r.Bytes(32)), cat(span, []byte("x")))).Sign(crypto.NewDefaultSigner(keyOf(keys[0])))
			if err == nil {
				doChunk("inconsistent-wrapped", bad.Address().Bytes(), bad.Data(), true)
			}
		}
	}

	// 4. malformed stream
	for _, n := range []int{0, 1, 32, 96, 97, 104, 105, 106, 113, 200} {
		doChunk("random", r.Bytes(32), r.Bytes(n), true)
	}
	for i := 0; i < run.N(20, 200); i++ {
		// random bytes with a plausible recovery byte so that recovery is reached
		d := r.Bytes(minSize + r.Intn(40))
		d[96] = byte(27 + r.Intn(4))
		d[64] &= 0x7f // low s most of the time
		doChunk("random-recoverable", r.Bytes(32), d, true)
	}
	if run.Thorough() {
		big1 := r.Bytes(minSize + boson.ChunkSize + 1)
		doChunk("too-large", r.Bytes(32), big1, false)
	}
	// 5. crypto.Recover on assorted signatures
	for i := 0; i < run.N(30, 300); i++ {
		kb := keys[i%len(keys)]
		msg := r.Bytes(r.Intn(70))
		sig, _ := crypto.NewDefaultSigner(keyOf(kb)).Sign(msg)
		switch i % 6 {
		case 0:
			doRecover(sig, msg, keyOf(kb), false)
		case 1:
			s := append([]byte{}, sig...)
			s[64] += 4
			doRecover(s, msg, keyOf(kb), true)
		case 2:
			doRecover(highSTwin(sig), msg, keyOf(kb), true)
		case 3:
			doRecover(sig[:r.Intn(65)], msg, nil, false)
		case 4:
			s := r.Bytes(65)
			s[64] = byte(25 + r.Intn(12))
			doRecover(s, msg, nil, false)
		default:
			doRecover(append(append([]byte{}, sig...), 0), msg, nil, false)
		}
	}
	run.Finish()
}

func sigOf(keyb, id, payload []byte) []byte {
	_, sch := signQuiet(keyb, id, payload)
	return sch.Data()[idSize : idSize+sigSize]
}
