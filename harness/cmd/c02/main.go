// C02 harness: the content reference is the Aurora tree hash of the bytes alone.
//
// Two streams of cases:
//
//  1. "toy": the REAL feeder.NewChunkFeederWriter + hashtrie.NewHashTrieWriter at small
//     chunk size / branching / reference length, the real store stage into a recording
//     Putter, and a toy hash stage in place of the Keccak BMT stage (same toy hash is
//     defined in Coq).  These cases go to the Coq correspondence (Write return values,
//     every chunk Put, root or error class) and are also checked by the Go oracle below.
//  2. "real": builder.NewPipelineBuilder (256 KiB chunks, branching 8192, BMT/Keccak),
//     checked by the oracle only.
//
// Oracle (independent of the streaming writer and of the Coq model): a top-down
// recursive definition of the format — a file of n <= cs bytes is one chunk
// hash(le64(n) ++ bytes); a longer file is cut into pieces of B = cs*b^k bytes with k
// the largest exponent such that B < n, and hashed as hash(le64(n) ++ refs of the pieces).
// The BMT used by the oracle is a plain recursive Keccak-256 merkle tree over the
// zero-padded 256 KiB payload written here, not the repo's bmt package.
package main

import (
	"bytes"
	"context"
	"encoding/binary"
	"errors"
	"fmt"
	"strings"
	"sync"

	"github.com/gauss-project/aurorafs/pkg/boson"
	"github.com/gauss-project/aurorafs/pkg/file/pipeline"
	"github.com/gauss-project/aurorafs/pkg/file/pipeline/builder"
	"github.com/gauss-project/aurorafs/pkg/file/pipeline/feeder"
	"github.com/gauss-project/aurorafs/pkg/file/pipeline/hashtrie"
	"github.com/gauss-project/aurorafs/pkg/file/pipeline/store"
	"github.com/gauss-project/aurorafs/pkg/storage"
	"golang.org/x/crypto/sha3"
	"verifharness/hx"
)

// ---------------------------------------------------------------- toy hash (mirrors Corr.v)

func toyHash(refLen int, data []byte) []byte {
	s := uint32(2166136261)
	for _, x := range data {
		s = s*16777619 + uint32(x) + 1
	}
	out := make([]byte, refLen)
	for i := range out {
		s = s*1103515245 + 12345
		out[i] = byte(s >> 16)
	}
	return out
}

type toyStage struct {
	refLen int
	next   pipeline.ChainWriter
}

var errToyInvalid = errors.New("toy: invalid data")

func (t *toyStage) ChainWrite(p *pipeline.PipeWriteArgs) error {
	if len(p.Data) < boson.SpanSize { // the same guard as bmt.bmtWriter.ChainWrite
		return errToyInvalid
	}
	p.Ref = toyHash(t.refLen, p.Data)
	return t.next.ChainWrite(p)
}
func (t *toyStage) Sum() ([]byte, error) { return t.next.Sum() }

// recording Putter: copies every chunk (the feeder reuses its buffer)
type recPutter struct {
	mu    sync.Mutex
	datas [][]byte
	addrs [][]byte
	keep  bool
	n     int
}

func (r *recPutter) Put(_ context.Context, _ storage.ModePut, chs ...boson.Chunk) ([]bool, error) {
	r.mu.Lock()
	defer r.mu.Unlock()
	for _, c := range chs {
		r.n++
		if r.keep {
			r.datas = append(r.datas, append([]byte{}, c.Data()...))
			r.addrs = append(r.addrs, append([]byte{}, c.Address().Bytes()...))
		}
	}
	return make([]bool, len(chs)), nil
}

// ---------------------------------------------------------------- independent format oracle

type hashFn func(chunk []byte) []byte // chunk = le64(span) ++ payload

func le64(n uint64) []byte {
	b := make([]byte, 8)
	binary.LittleEndian.PutUint64(b, n)
	return b
}

func specRef(h hashFn, cs, b int, data []byte) []byte {
	n := len(data)
	if n <= cs {
		return h(append(le64(uint64(n)), data...))
	}
	B := cs
	for B*b < n {
		B *= b
	}
	payload := le64(uint64(n))
	for off := 0; off < n; off += B {
		end := off + B
		if end > n {
			end = n
		}
		payload = append(payload, specRef(h, cs, b, data[off:end])...)
	}
	return h(payload)
}

func keccak(b ...[]byte) []byte {
	h := sha3.NewLegacyKeccak256()
	for _, x := range b {
		h.Write(x)
	}
	return h.Sum(nil)
}

// plain BMT: Keccak(span ++ merkle root over the payload zero-padded to 8192*32 bytes)
func refBMT(chunk []byte) []byte {
	span, payload := chunk[:8], chunk[8:]
	buf := make([]byte, boson.ChunkSize)
	copy(buf, payload)
	level := make([][]byte, 0, boson.ChunkSize/64)
	for i := 0; i < len(buf); i += 64 {
		level = append(level, keccak(buf[i:i+64]))
	}
	for len(level) > 1 {
		nl := make([][]byte, 0, len(level)/2)
		for i := 0; i < len(level); i += 2 {
			nl = append(nl, keccak(level[i], level[i+1]))
		}
		level = nl
	}
	return keccak(span, level[0])
}

// ---------------------------------------------------------------- cases

type jcase struct {
	Kind   string  `json:"kind"` // toy | real
	CS     int     `json:"cs"`
	B      int     `json:"b"`
	RefLen int     `json:"reflen"`
	Size   int     `json:"size"`
	DSeed  uint64  `json:"dseed"` // toy: LCG seed (< 2^32) mirrored in Corr.v; real: splitmix seed
	Cuts   [][]int `json:"cuts"`  // one entry per segmentation: lengths of the successive Write calls (may contain 0)
}

// content generator of the toy stream (mirrors gen_data in Corr.v)
func lcgData(n int, seed uint32) []byte {
	out := make([]byte, n)
	x := seed
	for i := range out {
		x = x*1664525 + 1013904223
		out[i] = byte(x >> 24)
	}
	return out
}

func digStep(mul uint32, s uint32, chunk []byte) uint32 {
	s = s*31 + uint32(len(chunk)) + 7
	for _, x := range chunk {
		s = s*mul + uint32(x) + 1
	}
	return s
}
func digest(log [][]byte) (uint64, uint64, uint64) {
	s1, s2 := uint32(1), uint32(2)
	for _, c := range log {
		s1 = digStep(16777619, s1, c)
		s2 = digStep(2654435761, s2, c)
	}
	return uint64(len(log)), uint64(s1), uint64(s2)
}

func errClass(err error) uint64 {
	switch {
	case err == nil:
		return 0
	case err.Error() == "inconsistent references":
		return 1
	case err.Error() == "trie full":
		return 2
	case err == errToyInvalid:
		return 3
	}
	return 99
}

func split(data []byte, cuts []int) [][]byte {
	var segs [][]byte
	off := 0
	for _, c := range cuts {
		segs = append(segs, data[off:off+c])
		off += c
	}
	return segs
}

func genData(size int, seed uint64) []byte {
	return hx.NewRand(seed).Bytes(size)
}

// random segmentation of n bytes; style selects the bias
func genCuts(r *hx.Rand, n, cs int) []int {
	var cuts []int
	style := r.Intn(6)
	if style == 0 {
		return []int{n}
	}
	left := n
	for left > 0 {
		var c int
		switch style {
		case 1: // tiny writes
			c = 1 + r.Intn(3)
		case 2: // around the chunk size
			c = cs - 1 + r.Intn(3)
		case 3: // several chunks at once
			c = cs*(1+r.Intn(4)) + r.Intn(cs+1)
		case 4: // anything, with empty writes
			c = r.Intn(2*cs + 2)
		default:
			c = 1 + r.Intn(left)
		}
		if c > left {
			c = left
		}
		if c < 0 {
			c = 0
		}
		cuts = append(cuts, c)
		left -= c
	}
	if r.Chance(1, 4) {
		cuts = append(cuts, 0)
	}
	return cuts
}

var ctx = context.Background()

type toyResult struct {
	rets []int64
	root []byte
	errc uint64
	log  [][]byte
	adrs [][]byte
}

func runToy(cs, b, refLen int, segs [][]byte) toyResult {
	put := &recPutter{keep: true}
	short := func() pipeline.ChainWriter {
		return &toyStage{refLen: refLen, next: store.NewStoreWriter(ctx, put, storage.ModePutUpload, nil)}
	}
	tw := hashtrie.NewHashTrieWriter(cs, b, refLen, short)
	st := &toyStage{refLen: refLen, next: store.NewStoreWriter(ctx, put, storage.ModePutUpload, tw)}
	f := feeder.NewChunkFeederWriter(cs, st)
	var res toyResult
	for _, s := range segs {
		n, err := f.Write(s)
		if err != nil {
			res.errc = errClass(err)
			res.log, res.adrs = put.datas, put.addrs
			return res
		}
		res.rets = append(res.rets, int64(n))
	}
	root, err := f.Sum()
	res.errc = errClass(err)
	res.root = append([]byte{}, root...)
	res.log, res.adrs = put.datas, put.addrs
	return res
}

func pow(b, k int) int {
	p := 1
	for i := 0; i < k; i++ {
		p *= b
	}
	return p
}

func main() {
	run := hx.Start("C02", "Aurora.C02.Corr",
		"toy: real feeder+hashtrie writer at chunk size 1..9, branching 2..5, reference length 1..4 with a toy hash stage, data length swept over level boundaries (b^k chunks, +-1 byte) and random, several random write segmentations per content; real: builder pipeline (256 KiB, 8192, BMT) on boundary sizes with random segmentations; non-trivial = more than one chunk or a segmentation with at least two writes; distinct by (parameters, content, segmentation)")
	r := run.R

	doToy := func(jc jcase) {
		data := lcgData(jc.Size, uint32(jc.DSeed))
		nchunks := (len(data) + jc.CS - 1) / jc.CS
		limit := pow(jc.B, 7)
		lv := 0
		for p := 1; p < nchunks; p *= jc.B {
			lv++
		}
		var want []byte
		if nchunks <= limit {
			want = specRef(func(c []byte) []byte { return toyHash(jc.RefLen, c) }, jc.CS, jc.B, data)
		}
		var obs []string
		for _, cuts := range jc.Cuts {
			segs := split(data, cuts)
			var res toyResult
			panicked, msg := hx.Guard(func() { res = runToy(jc.CS, jc.B, jc.RefLen, segs) })
			one := jcase{Kind: "toy", CS: jc.CS, B: jc.B, RefLen: jc.RefLen, Size: jc.Size, DSeed: jc.DSeed, Cuts: [][]int{cuts}}
			if panicked {
				run.Violate(hx.Violation{Sig: "toy:panic", Detail: "writer panicked: " + msg, Case: one})
				continue
			}
			ro := ""
			if res.errc != 0 {
				ro = "(inl " + hx.CoqN(res.errc) + ")"
			} else {
				ro = "(inr " + hx.CoqBytes(res.root) + ")"
			}
			cl := make([]uint64, len(cuts))
			retsEq := len(res.rets) == len(cuts)
			for i, c := range cuts {
				cl[i] = uint64(c)
				if retsEq && res.rets[i] != int64(c) {
					retsEq = false
				}
			}
			rets := "None"
			if !retsEq {
				rets = hx.CoqSome(hx.CoqZList(res.rets))
			}
			d0, d1, d2 := digest(res.log)
			full := "None"
			if len(res.log) <= 6 {
				full = hx.CoqSome(hx.CoqBytesList(res.log))
			}
			obs = append(obs, hx.CoqApp("mkSO", coqNs(cl), rets,
				hx.CoqTuple(hx.CoqN(d0), hx.CoqN(d1), hx.CoqN(d2)), full, ro))
			run.Hist(fmt.Sprintf("toy.levels=%d", lv))
			run.Hist(fmt.Sprintf("toy.b=%d", jc.B))
			run.Hist(fmt.Sprintf("toy.writes~%d", bucket(len(cuts))))
			// oracle
			if nchunks <= limit {
				run.OracleChecked(3)
				if res.errc != 0 {
					run.Violate(hx.Violation{Sig: "toy:error-within-capacity", Detail: fmt.Sprintf("error class %d for %d chunks (capacity %d)", res.errc, nchunks, limit), Case: one})
					continue
				}
				if !bytes.Equal(res.root, want) {
					run.Violate(hx.Violation{Sig: "toy:root!=format-spec", Detail: fmt.Sprintf("root %x, format specification %x", res.root, want), Case: one, Impl: hx.Hex(res.root), Want: hx.Hex(want)})
				}
				for i, n := range res.rets {
					if int(n) != len(segs[i]) {
						run.Violate(hx.Violation{Sig: "toy:write-count", Detail: fmt.Sprintf("Write #%d of %d bytes returned %d", i, len(segs[i]), n), Case: one})
						break
					}
				}
				for i := range res.log {
					if !bytes.Equal(res.adrs[i], toyHash(jc.RefLen, res.log[i])) {
						run.Violate(hx.Violation{Sig: "toy:put-address!=hash", Detail: "chunk stored under an address that is not its hash", Case: one})
						break
					}
				}
			} else {
				run.Hist("toy.over-capacity")
			}
		}
		coq := hx.CoqApp("CContent", hx.CoqNat(jc.CS), hx.CoqNat(jc.B), hx.CoqNat(jc.RefLen), hx.CoqN(jc.DSeed), hx.CoqNat(jc.Size),
			hx.CoqList(obs, "seg_obs"))
		run.AddCase(coq, jc, fmt.Sprintf("toy|%d|%d|%d|%d|%d|%v", jc.CS, jc.B, jc.RefLen, jc.Size, jc.DSeed, jc.Cuts), nchunks > 1 || multi(jc.Cuts))
	}

	var realMemo = map[string][]byte{}
	doReal := func(jc jcase) {
		data := genData(jc.Size, jc.DSeed)
		key := fmt.Sprintf("%d|%d", jc.Size, jc.DSeed)
		for _, cuts := range jc.Cuts {
			segs := split(data, cuts)
			one := jcase{Kind: "real", CS: jc.CS, B: jc.B, RefLen: jc.RefLen, Size: jc.Size, DSeed: jc.DSeed, Cuts: [][]int{cuts}}
			put := &recPutter{keep: false}
			p := builder.NewPipelineBuilder(ctx, put, storage.ModePutUpload, false)
			var root []byte
			var err error
			short := false
			panicked, msg := hx.Guard(func() {
				for _, s := range segs {
					var n int
					n, err = p.Write(s)
					if err != nil {
						return
					}
					if n != len(s) {
						short = true
					}
				}
				root, err = p.Sum()
			})
			run.AddCase("", one, fmt.Sprintf("real|%s|%v", key, cuts), jc.Size > boson.ChunkSize || len(segs) > 1)
			run.Hist(fmt.Sprintf("real.chunks=%d", (jc.Size+boson.ChunkSize-1)/boson.ChunkSize))
			run.OracleChecked(2)
			if panicked || err != nil {
				run.Violate(hx.Violation{Sig: "real:error", Detail: fmt.Sprintf("pipeline failed: panic=%v %s err=%v", panicked, msg, err), Case: one})
				continue
			}
			if short {
				run.Violate(hx.Violation{Sig: "real:write-count", Detail: "Write returned a count different from len", Case: one})
			}
			want, ok := realMemo[key]
			if !ok {
				want = specRef(refBMT, boson.ChunkSize, boson.Branches, data)
				realMemo[key] = want
			}
			if !bytes.Equal(root, want) {
				run.Violate(hx.Violation{Sig: "real:root!=format-spec", Detail: fmt.Sprintf("size %d: root %x, format specification %x", jc.Size, root, want), Case: one, Impl: hx.Hex(root), Want: hx.Hex(want)})
			}
		}
	}

	if run.Replay != "" {
		var jc jcase
		if err := run.ReadReplay(&jc); err != nil {
			panic(err)
		}
		if jc.Kind == "realbig" {
			doRealBig(run, jc.Size/boson.ChunkSize, jc.Size%boson.ChunkSize, jc.DSeed)
		} else if jc.Kind == "real" {
			doReal(jc)
		} else {
			doToy(jc)
		}
		run.Finish()
		return
	}

	mkToy := func(rr *hx.Rand, cs, b, refLen, n, nseg int) jcase {
		jc := jcase{Kind: "toy", CS: cs, B: b, RefLen: refLen, Size: n, DSeed: rr.U64() & 0xffffffff}
		jc.Cuts = append(jc.Cuts, []int{n})
		for s := 1; s < nseg; s++ {
			jc.Cuts = append(jc.Cuts, genCuts(rr, n, cs))
		}
		return jc
	}

	// ---- corpus: fixed cases on every seed
	fixed := hx.NewRand(7)
	for _, c := range []struct{ cs, b, rl, n int }{
		{4, 2, 2, 0}, {4, 2, 2, 1}, {4, 2, 2, 4}, {4, 2, 2, 5}, {4, 2, 2, 8}, {4, 2, 2, 9}, {4, 2, 2, 12}, {4, 2, 2, 13},
		{4, 2, 2, 28}, {3, 3, 1, 27}, {3, 3, 1, 28}, {3, 3, 1, 30}, {2, 2, 4, 255}, {2, 2, 4, 256}, {2, 2, 4, 257}, {1, 2, 1, 128}, {1, 2, 1, 129},
	} {
		doToy(mkToy(fixed, c.cs, c.b, c.rl, c.n, 3))
	}
	if run.Thorough() { // capacity edge at branching 3: 3^7 chunks and one more
		doToy(mkToy(fixed, 1, 3, 2, 2187, 2))
		doToy(mkToy(fixed, 1, 3, 2, 2188, 2))
	}

	// ---- toy stream: boundary-dense lengths, several segmentations each
	contents := run.N(80, 900)
	for i := 0; i < contents; i++ {
		cs := 1 + r.Intn(9)
		b := 2 + r.Intn(4)
		refLen := 1 + r.Intn(4)
		var chunks int
		switch r.Intn(4) {
		case 0:
			chunks = r.Intn(8)
		case 1: // around a power of b
			k := 1 + r.Intn(5)
			chunks = pow(b, k) + r.Intn(3) - 1
		case 2: // multiple of a power of b plus a tail
			k := 1 + r.Intn(3)
			chunks = pow(b, k)*(1+r.Intn(b)) + r.Intn(b+1)
		default:
			chunks = r.Intn(70)
		}
		if chunks > 140 {
			chunks = 140
		}
		if chunks > 40 && cs > 3 {
			cs = 1 + r.Intn(3)
		}
		n := chunks * cs
		if chunks > 0 {
			switch r.Intn(3) {
			case 0:
				n -= r.Intn(cs) // last chunk partial
			case 1:
				n += r.Intn(2) // one byte over
			}
		}
		doToy(mkToy(r, cs, b, refLen, n, run.N(4, 8)))
	}
	// capacity edge: exactly b^7 chunks and beyond (b = 2, cs = 1 or 2)
	for _, extra := range []int{-1, 0, 1, 5} {
		cs := 1 + r.Intn(2)
		doToy(mkToy(r, cs, 2, 1+r.Intn(3), (128+extra)*cs, 3))
	}

	// ---- real pipeline
	C := boson.ChunkSize
	sizes := []int{0, 1, 31, 32, 33, 4095, 4096, 4097, C - 1, C, C + 1, 2*C - 1, 2 * C, 2*C + 1, 3*C + 17}
	if run.Thorough() {
		sizes = append(sizes, 7*C, 40*C-1, 40*C, 40*C+1, 100*C+12345)
	} else {
		sizes = append(sizes, 9*C+5)
	}
	for _, sz := range sizes {
		jc := jcase{Kind: "real", CS: C, B: boson.Branches, RefLen: boson.HashSize, Size: sz, DSeed: r.U64()}
		for s := 0; s < run.N(4, 8); s++ {
			cuts := genCuts(r, sz, C)
			if s == 0 {
				cuts = []int{sz}
			}
			if len(cuts) > 3000 { // tiny-write style on a large file: coarsen
				cuts = genCutsCoarse(r, sz, C)
			}
			jc.Cuts = append(jc.Cuts, cuts)
		}
		doReal(jc)
	}
	// ---- thorough only: a three-level tree at the real constants: 8192 full chunks + a few bytes
	// (root = node(full node of 8192 leaves, carried leaf)), streamed; hashing-only Putter
	if run.Thorough() {
		doRealBig(run, boson.Branches, 1+r.Intn(1000), r.U64())
	}
	run.Finish()
}

// doRealBig streams nChunks full chunks plus extra bytes through the real pipeline and compares the
// root with the format specification computed from independently hashed leaves.
func doRealBig(run *hx.Run, nChunks, extra int, seed uint64) {
	C := boson.ChunkSize
	put := &recPutter{keep: false}
	p := builder.NewPipelineBuilder(ctx, put, storage.ModePutUpload, false)
	var refs [][]byte
	var lens []int
	rr := hx.NewRand(seed)
	var err error
	total := 0
	panicked, msg := hx.Guard(func() {
		for i := 0; i <= nChunks; i++ {
			n := C
			if i == nChunks {
				n = extra
			}
			data := hx.NewRand(seed + uint64(i)*7919).Bytes(n)
			refs = append(refs, refBMT(append(le64(uint64(n)), data...)))
			lens = append(lens, n)
			total += n
			// two or three writes per chunk, not aligned with the chunk
			off := 0
			for off < n {
				c := 1 + rr.Intn(n-off)
				if _, err = p.Write(data[off : off+c]); err != nil {
					return
				}
				off += c
			}
		}
	})
	jc := jcase{Kind: "realbig", CS: C, B: boson.Branches, RefLen: boson.HashSize, Size: total, DSeed: seed}
	run.AddCase("", jc, fmt.Sprintf("realbig|%d|%d", total, seed), true)
	run.Hist(fmt.Sprintf("real.chunks=%d", nChunks+1))
	run.OracleChecked(1)
	if panicked || err != nil {
		run.Violate(hx.Violation{Sig: "real:error", Detail: fmt.Sprintf("pipeline failed: panic=%v %s err=%v", panicked, msg, err), Case: jc})
		return
	}
	root, err := p.Sum()
	if err != nil {
		run.Violate(hx.Violation{Sig: "real:error", Detail: "Sum: " + err.Error(), Case: jc})
		return
	}
	want := specFromLeaves(refs, lens, boson.Branches)
	if !bytes.Equal(root, want) {
		run.Violate(hx.Violation{Sig: "real:root!=format-spec", Detail: fmt.Sprintf("size %d: root %x, format specification %x", total, root, want), Case: jc, Impl: hx.Hex(root), Want: hx.Hex(want)})
	}
}

// top-down format definition over already hashed leaves
func specFromLeaves(refs [][]byte, lens []int, b int) []byte {
	if len(refs) == 1 {
		return refs[0]
	}
	n := 0
	for _, l := range lens {
		n += l
	}
	bc := 1
	for bc*b < len(refs) {
		bc *= b
	}
	payload := le64(uint64(n))
	for i := 0; i < len(refs); i += bc {
		j := i + bc
		if j > len(refs) {
			j = len(refs)
		}
		payload = append(payload, specFromLeaves(refs[i:j], lens[i:j], b)...)
	}
	return refBMT(payload)
}

// list N with one scope delimiter (short to parse)
func coqNs(vs []uint64) string {
	if len(vs) == 0 {
		return "(@nil N)"
	}
	el := make([]string, len(vs))
	for i, v := range vs {
		el[i] = fmt.Sprint(v)
	}
	return "[" + strings.Join(el, ";") + "]%N"
}

func multi(cuts [][]int) bool {
	for _, c := range cuts {
		if len(c) > 1 {
			return true
		}
	}
	return false
}

func bucket(n int) int {
	b := 1
	for b < n {
		b *= 4
	}
	return b
}

func genCutsCoarse(r *hx.Rand, n, cs int) []int {
	var cuts []int
	left := n
	for left > 0 {
		c := 1 + r.Intn(cs/2)
		if r.Chance(1, 5) {
			c = cs + r.Intn(2*cs)
		}
		if c > left {
			c = left
		}
		cuts = append(cuts, c)
		left -= c
	}
	return cuts
}
