// C39 harness: pkg/bitvector — New / NewFromBytes / Get / Set / Unset / SetBytes /
// UnsetBytes / Equals / Bytes / Len driven by operation sequences, checked against a
// []bool reference (the property's "boolean array") and recorded for the Coq model.
package main

import (
	"encoding/hex"
	"fmt"
	"strings"

	"github.com/gauss-project/aurorafs/pkg/bitvector"
	"verifharness/hx"
)

type jop struct {
	Op string `json:"op"` // get set unset setbytes unsetbytes equals bytes len roundtrip
	I  int    `json:"i,omitempty"`
	M  string `json:"m,omitempty"`
}

type jcase struct {
	Ctor string `json:"ctor"` // new | frombytes | nil
	L    int    `json:"l"`
	B    string `json:"b,omitempty"`
	Ops  []jop  `json:"ops"`
	Want string `json:"want,omitempty"` // for decode cases: the array that was encoded ("0"/"1" string)
}

var run *hx.Run

func unhex(s string) []byte { b, _ := hex.DecodeString(s); return b }

func coqOp(o jop) string {
	switch o.Op {
	case "get":
		return hx.CoqApp("OGet", hx.CoqZ(int64(o.I)))
	case "set":
		return hx.CoqApp("OSet", hx.CoqZ(int64(o.I)))
	case "unset":
		return hx.CoqApp("OUnset", hx.CoqZ(int64(o.I)))
	case "setbytes":
		return hx.CoqApp("OSetBytes", hx.CoqBytes(unhex(o.M)))
	case "unsetbytes":
		return hx.CoqApp("OUnsetBytes", hx.CoqBytes(unhex(o.M)))
	case "equals":
		return "OEquals"
	case "bytes":
		return "OBytes"
	case "len":
		return "OLen"
	case "roundtrip":
		return "ORoundtrip"
	}
	panic("unknown op " + o.Op)
}

func ceil8(l int) int { return (l + 7) / 8 }

// refBits is the independent reading of a backing slice as a boolean array:
// cell j is bit (j mod 8), counted from the least significant, of byte j/8.
func refBits(b []byte) []bool {
	a := make([]bool, 8*len(b))
	for j := range a {
		a[j] = (b[j/8]>>(uint(j)%8))&1 == 1
	}
	return a
}

func bitString(a []bool) string {
	var sb strings.Builder
	for _, c := range a {
		if c {
			sb.WriteByte('1')
		} else {
			sb.WriteByte('0')
		}
	}
	return sb.String()
}

func violate(sig, detail string, jc jcase, impl, want interface{}) {
	run.Violate(hx.Violation{Sig: sig, Detail: detail, Case: jc, Impl: impl, Want: want})
}

// exec runs one case on the real implementation, evaluates the oracle and records the Coq case.
func exec(jc jcase) {
	var bv *bitvector.BitVector
	var err error
	var backing []byte
	ctorCoq := ""
	switch jc.Ctor {
	case "new":
		ctorCoq = hx.CoqApp("KNew", hx.CoqZ(int64(jc.L)))
	case "frombytes":
		backing = unhex(jc.B)
		ctorCoq = hx.CoqApp("KFromBytes", hx.CoqBytes(backing), hx.CoqZ(int64(jc.L)))
	case "nil":
		ctorCoq = "KNil"
	}
	panicked, _ := hx.Guard(func() {
		switch jc.Ctor {
		case "new":
			bv, err = bitvector.New(jc.L)
		case "frombytes":
			bv, err = bitvector.NewFromBytes(backing, jc.L) // aliases `backing`: the harness never touches it again
		}
	})
	cres := "COk"
	if panicked {
		cres = "CPanic"
	} else if err != nil {
		cres = "CErr"
	}
	key := fmt.Sprintf("%s|%d|%s|%v", jc.Ctor, jc.L, jc.B, jc.Ops)
	run.Hist("ctor." + jc.Ctor + "." + cres)

	// ---- oracle on the constructor: every length >= 1 with enough backing gives a vector
	run.OracleChecked(1)
	valid := jc.L >= 1 && (jc.Ctor == "new" || (jc.Ctor == "frombytes" && 8*len(backing) >= jc.L))
	if jc.Ctor != "nil" {
		if valid && cres != "COk" {
			violate("ctor:fails-on-valid-length", fmt.Sprintf("%s(l=%d, |b|=%d) -> %s", jc.Ctor, jc.L, len(backing), cres), jc, cres, "COk")
		}
		if !valid && cres == "COk" {
			violate("ctor:accepts-invalid-length", fmt.Sprintf("%s(l=%d, |b|=%d) -> vector", jc.Ctor, jc.L, len(backing)), jc, cres, "error")
		}
	}
	if cres != "COk" {
		run.AddCase(hx.CoqApp("Case", ctorCoq, cres, "(@nil op)", "(@nil obs)"), jc, key, false)
		return
	}
	if jc.Ctor == "nil" {
		// only Equals is meaningful on a nil *BitVector
		obs := []string{}
		ops := []string{}
		for _, o := range jc.Ops {
			if o.Op != "equals" {
				continue
			}
			var r bool
			p, _ := hx.Guard(func() { r = bv.Equals() })
			ops = append(ops, "OEquals")
			if p {
				obs = append(obs, "VPanic")
			} else {
				obs = append(obs, hx.CoqApp("VBool", hx.CoqBool(r)))
			}
			run.OracleChecked(1)
			if p || r {
				violate("equals:nil-vector-all-set", "Equals on a nil vector did not return false", jc, r, false)
			}
		}
		run.AddCase(hx.CoqApp("Case", ctorCoq, cres, hx.CoqList(ops, "op"), hx.CoqList(obs, "obs")), jc, key, false)
		return
	}

	// ---- reference array
	var ref []bool
	if jc.Ctor == "new" {
		ref = make([]bool, 8*len(bv.Bytes()))
		run.OracleChecked(1)
		if len(bv.Bytes()) < ceil8(jc.L) {
			violate("new:backing-too-short", fmt.Sprintf("New(%d) allocated %d bytes", jc.L, len(bv.Bytes())), jc, len(bv.Bytes()), ceil8(jc.L))
		}
		for _, x := range bv.Bytes() {
			if x != 0 {
				violate("new:not-all-false", "New returned a vector with a set bit", jc, hx.Hex(bv.Bytes()), "zeros")
				break
			}
		}
	} else {
		ref = refBits(backing)
	}
	l := jc.L
	slack := len(ref)/8 - ceil8(l)
	run.Hist(fmt.Sprintf("len<=%d", ((l+63)/64)*64))
	run.Hist(fmt.Sprintf("slack=%d", slack))
	if jc.Want != "" { // decode case: the vector must read as the array that was encoded
		run.OracleChecked(1)
		got := make([]bool, l)
		p, _ := hx.Guard(func() {
			for j := 0; j < l; j++ {
				got[j] = bv.Get(j)
			}
		})
		if p || bitString(got) != jc.Want {
			violate("roundtrip:bit-lost", fmt.Sprintf("decoded %s", bitString(got)), jc, bitString(got), jc.Want)
		}
	}

	// compare every cell below len with the reference
	sweep := func(after string) {
		run.OracleChecked(1)
		p, _ := hx.Guard(func() {
			for j := 0; j < l; j++ {
				if bv.Get(j) != ref[j] {
					violate(after+":cell-differs", fmt.Sprintf("after %s cell %d = %v, boolean array has %v", after, j, bv.Get(j), ref[j]), jc, bv.Get(j), ref[j])
					return
				}
			}
		})
		if p {
			violate("panic:index-below-len", "Get panicked below len after "+after, jc, "panic", "value")
		}
	}

	var coqOps, coqObs []string
	mut, observers := 0, 0
	for _, o := range jc.Ops {
		coqOps = append(coqOps, coqOp(o))
		run.Hist("op." + o.Op)
		inLen := o.I >= 0 && o.I < l
		inBacking := o.I >= 0 && o.I < len(ref)
		switch o.Op {
		case "get":
			var r bool
			p, _ := hx.Guard(func() { r = bv.Get(o.I) })
			if p {
				coqObs = append(coqObs, "VPanic")
			} else {
				coqObs = append(coqObs, hx.CoqApp("VBool", hx.CoqBool(r)))
			}
			observers++
			if inLen {
				run.OracleChecked(1)
				if p {
					violate("panic:index-below-len", fmt.Sprintf("Get(%d) panicked, len %d", o.I, l), jc, "panic", ref[o.I])
				} else if r != ref[o.I] {
					violate("get:cell-differs", fmt.Sprintf("Get(%d) = %v, boolean array has %v", o.I, r, ref[o.I]), jc, r, ref[o.I])
				}
			}
		case "set", "unset":
			val := o.Op == "set"
			p, _ := hx.Guard(func() {
				if val {
					bv.Set(o.I)
				} else {
					bv.Unset(o.I)
				}
			})
			if p {
				coqObs = append(coqObs, "VPanic")
			} else {
				coqObs = append(coqObs, "VUnit")
			}
			mut++
			if inBacking && !p {
				ref[o.I] = val
			}
			if inLen {
				if p {
					violate("panic:index-below-len", fmt.Sprintf("%s(%d) panicked, len %d", o.Op, o.I, l), jc, "panic", "ok")
				}
				sweep(o.Op)
			}
		case "setbytes", "unsetbytes":
			val := o.Op == "setbytes"
			m := unhex(o.M)
			var e error
			p, _ := hx.Guard(func() {
				if val {
					e = bv.SetBytes(m)
				} else {
					e = bv.UnsetBytes(m)
				}
			})
			switch {
			case p:
				coqObs = append(coqObs, "VPanic")
			case e != nil:
				coqObs = append(coqObs, "VErr")
			default:
				coqObs = append(coqObs, "VUnit")
			}
			mut++
			run.OracleChecked(1)
			if len(m)*8 == len(ref) {
				if p || e != nil {
					violate(o.Op+":fails-on-matching-mask", "mask of the backing length rejected", jc, "error", "ok")
				} else {
					mb := refBits(m)
					for j := range ref {
						if mb[j] {
							ref[j] = val
						}
					}
				}
				sweep(o.Op)
			} else if !p && e == nil {
				violate(o.Op+":accepts-wrong-length-mask", "mask of another length accepted", jc, "ok", "error")
			}
		case "equals":
			var r bool
			p, _ := hx.Guard(func() { r = bv.Equals() })
			if p {
				coqObs = append(coqObs, "VPanic")
			} else {
				coqObs = append(coqObs, hx.CoqApp("VBool", hx.CoqBool(r)))
			}
			observers++
			want := true
			for j := 0; j < l; j++ {
				want = want && ref[j]
			}
			run.Hist(fmt.Sprintf("equals.want=%v", want))
			run.OracleChecked(1)
			if p || r != want {
				sig := "equals:exact-backing"
				if slack > 0 {
					sig = "equals:backing-longer-than-needed"
				}
				violate(sig, fmt.Sprintf("Equals() = %v (panic=%v) on a %d-bit vector over %d bytes whose cells are %s", r, p, l, len(ref)/8, bitString(ref[:l])), jc, r, want)
			}
		case "bytes":
			bs := append([]byte{}, bv.Bytes()...)
			coqObs = append(coqObs, hx.CoqApp("VBytes", hx.CoqBytes(bs)))
			observers++
			run.OracleChecked(1)
			if bitString(refBits(bs)) != bitString(ref) {
				violate("bytes:not-the-packed-array", "Bytes() does not encode the boolean array", jc, hx.Hex(bs), bitString(ref))
			}
		case "len":
			coqObs = append(coqObs, hx.CoqApp("VInt", hx.CoqZ(int64(bv.Len()))))
			observers++
			run.OracleChecked(1)
			if bv.Len() != l {
				violate("len:changed", "Len() differs from the constructed length", jc, bv.Len(), l)
			}
		case "roundtrip":
			enc := append([]byte{}, bv.Bytes()...)
			var nb *bitvector.BitVector
			var e error
			p, _ := hx.Guard(func() { nb, e = bitvector.NewFromBytes(enc, bv.Len()) })
			switch {
			case p:
				coqObs = append(coqObs, "VPanic")
			case e != nil:
				coqObs = append(coqObs, "VErr")
			default:
				coqObs = append(coqObs, "VUnit")
				bv = nb
			}
			mut++
			run.OracleChecked(1)
			if p || e != nil {
				violate("roundtrip:decode-error", "decoding Bytes() with Len() failed", jc, "error", "ok")
			}
			sweep("roundtrip")
		}
	}
	run.AddCase(hx.CoqApp("Case", ctorCoq, cres, hx.CoqList(coqOps, "op"), hx.CoqList(coqObs, "obs")), jc, key, mut > 0 && observers > 0)
}

// ---------------------------------------------------------------- generators

func randIndex(r *hx.Rand, l, nbits int) int {
	switch r.Intn(20) {
	case 0: // slack region (backing beyond len)
		if nbits > l {
			return l + r.Intn(nbits-l)
		}
		return l - 1
	case 1: // out of the backing: panics
		return nbits + r.Intn(16)
	case 2: // negative
		return -1 - r.Intn(20)
	case 3:
		return l - 1
	case 4:
		return 0
	case 5: // byte boundary
		return ((r.Intn(l) / 8) * 8) % l
	}
	return r.Intn(l)
}

func randMask(r *hx.Rand, n int) []byte {
	m := make([]byte, n)
	switch r.Intn(6) {
	case 0:
		for i := range m {
			m[i] = 0xff
		}
	case 1: // zeros
	case 2: // single bit
		if n > 0 {
			m[r.Intn(n)] = 1 << uint(r.Intn(8))
		}
	default:
		copy(m, r.Bytes(n))
	}
	return m
}

func randomOps(r *hx.Rand, l, nbytes, n int) []jop {
	ops := []jop{}
	for k := 0; k < n; k++ {
		switch r.Intn(16) {
		case 0, 1, 2:
			ops = append(ops, jop{Op: "set", I: randIndex(r, l, 8*nbytes)})
		case 3, 4:
			ops = append(ops, jop{Op: "unset", I: randIndex(r, l, 8*nbytes)})
		case 5, 6, 7:
			ops = append(ops, jop{Op: "get", I: randIndex(r, l, 8*nbytes)})
		case 8:
			ops = append(ops, jop{Op: "setbytes", M: hx.Hex(randMask(r, nbytes))})
		case 9:
			ops = append(ops, jop{Op: "unsetbytes", M: hx.Hex(randMask(r, nbytes))})
		case 10:
			if r.Chance(1, 3) { // wrong mask length
				d := nbytes + 1
				if nbytes > 0 && r.Bool() {
					d = nbytes - 1
				}
				ops = append(ops, jop{Op: []string{"setbytes", "unsetbytes"}[r.Intn(2)], M: hx.Hex(r.Bytes(d))})
			} else {
				ops = append(ops, jop{Op: "len"})
			}
		case 11, 12, 13:
			ops = append(ops, jop{Op: "equals"})
		case 14:
			ops = append(ops, jop{Op: "roundtrip"})
		case 15:
			ops = append(ops, jop{Op: "bytes"})
		}
	}
	return ops
}

// fillOps drives the vector to "all set" (by single Sets in random order, or by a mask),
// tests it, knocks one cell out, tests again, restores it.
func fillOps(r *hx.Rand, l, nbytes int) []jop {
	ops := []jop{}
	if r.Bool() && l <= 96 {
		perm := make([]int, l)
		for i := range perm {
			perm[i] = i
		}
		for i := l - 1; i > 0; i-- {
			j := r.Intn(i + 1)
			perm[i], perm[j] = perm[j], perm[i]
		}
		for k, i := range perm {
			ops = append(ops, jop{Op: "set", I: i})
			if k == l-2 {
				ops = append(ops, jop{Op: "equals"}) // one cell still missing
			}
		}
	} else {
		// mask that covers exactly the cells below len (slack cells untouched)
		m := make([]byte, nbytes)
		for j := 0; j < l; j++ {
			m[j/8] |= 1 << uint(j%8)
		}
		ops = append(ops, jop{Op: "setbytes", M: hx.Hex(m)})
	}
	ops = append(ops, jop{Op: "equals"})
	k := r.Intn(l)
	if r.Chance(1, 3) {
		k = l - 1
	}
	ops = append(ops, jop{Op: "unset", I: k}, jop{Op: "equals"}, jop{Op: "set", I: k}, jop{Op: "roundtrip"}, jop{Op: "equals"}, jop{Op: "bytes"})
	if 8*nbytes > l { // touching a slack cell must not change the answer
		ops = append(ops, jop{Op: "unset", I: l + r.Intn(8*nbytes-l)}, jop{Op: "equals"})
	}
	return ops
}

func main() {
	run = hx.Start("C39", "Aurora.C39.Corr",
		"vector lengths 1..512 (every length in the thorough tier; all of 1..72, the multiples of 8 and their neighbours and a random sample in the quick tier) x backing slack 0..3 bytes (New: slack 0) x operation sequences (random Set/Unset/Get/SetBytes/UnsetBytes/Equals/Bytes/Len/re-decode with boundary-biased indices incl. slack, negative and out-of-range ones; fill-to-all-set sequences; encode/decode of random arrays into longer slices); non-trivial = constructed vector with at least one mutation and one observation; distinct by (constructor, length, backing, op list)")
	r := run.R

	if run.Replay != "" {
		var jc jcase
		if err := run.ReadReplay(&jc); err != nil {
			panic(err)
		}
		exec(jc)
		run.Finish()
		return
	}

	// ---- corpus: witnesses of F-bitvector-equals and constructor corners (every seed)
	eq := []jop{{Op: "equals"}}
	for _, c := range []jcase{
		{Ctor: "frombytes", L: 9, B: "ff010000", Ops: eq}, // DESIGN.md witness: 9 bits over 4 bytes
		{Ctor: "frombytes", L: 8, B: "ff00", Ops: eq},     // no partial byte, one slack byte
		{Ctor: "frombytes", L: 9, B: "ffff00", Ops: eq},   // partial byte taken from the slack byte
		{Ctor: "frombytes", L: 9, B: "ff00ff", Ops: eq},   // cell 8 clear, slack all ones
		{Ctor: "frombytes", L: 14, B: "ff1f", Ops: eq},    // the repo's own (wrong) test vector: cell 13 clear
		{Ctor: "frombytes", L: 14, B: "ff3f", Ops: append(eq, jop{Op: "unset", I: 1}, eq[0])},
		{Ctor: "frombytes", L: 1, B: "01000000", Ops: eq},
		{Ctor: "frombytes", L: 512, B: strings.Repeat("ff", 64) + "000000", Ops: append(eq, jop{Op: "unset", I: 511}, eq[0])},
		{Ctor: "nil", Ops: eq},
		{Ctor: "new", L: 0}, {Ctor: "new", L: -1}, {Ctor: "new", L: -7}, {Ctor: "new", L: -8}, {Ctor: "new", L: -9}, {Ctor: "new", L: -16}, {Ctor: "new", L: -17},
		{Ctor: "frombytes", L: 0, B: ""}, {Ctor: "frombytes", L: 9, B: "00"}, {Ctor: "frombytes", L: -3, B: "00"}, {Ctor: "frombytes", L: 64, B: "0000000000000000", Ops: eq},
		{Ctor: "new", L: 8, Ops: []jop{{Op: "get", I: 16}, {Op: "get", I: 8}, {Op: "get", I: -1}, {Op: "set", I: -1}, {Op: "get", I: -8}, {Op: "set", I: 8}, {Op: "bytes"}}},
	} {
		exec(c)
	}

	// ---- lengths
	lengths := []int{}
	if run.Thorough() {
		for l := 1; l <= 512; l++ {
			lengths = append(lengths, l)
		}
	} else {
		seen := map[int]bool{}
		add := func(l int) {
			if l >= 1 && l <= 512 && !seen[l] {
				seen[l] = true
				lengths = append(lengths, l)
			}
		}
		for l := 1; l <= 72; l++ {
			add(l)
		}
		for l := 80; l <= 512; l += 8 {
			if r.Chance(1, 3) || l == 512 || l == 256 {
				add(l - 1)
				add(l)
				add(l + 1)
			}
		}
		for k := 0; k < 30; k++ {
			add(73 + r.Intn(440))
		}
	}
	for _, l := range lengths {
		// New: random ops, then fill
		nb := ceil8(l)
		exec(jcase{Ctor: "new", L: l, Ops: append(randomOps(r, l, nb, 6+r.Intn(8)), fillOps(r, l, nb)...)})
		// NewFromBytes with slack 0..3
		for slack := 0; slack <= 3; slack++ {
			if !run.Thorough() && l > 72 && slack != r.Intn(4) && slack != 0 {
				continue
			}
			n := nb + slack
			b := r.Bytes(n)
			switch r.Intn(4) {
			case 0: // vector part all set, slack random: Equals must say true
				for j := 0; j < l; j++ {
					b[j/8] |= 1 << uint(j%8)
				}
			case 1: // all set but one cell
				for j := 0; j < l; j++ {
					b[j/8] |= 1 << uint(j%8)
				}
				k := r.Intn(l)
				b[k/8] &^= 1 << uint(k%8)
			}
			ops := append([]jop{{Op: "equals"}}, randomOps(r, l, n, 4+r.Intn(8))...)
			if r.Bool() {
				ops = append(ops, fillOps(r, l, n)...)
			}
			exec(jcase{Ctor: "frombytes", L: l, B: hx.Hex(b), Ops: ops})
		}
		// encode / decode: build a random array with New+Set, take Bytes(), decode it from a longer slice
		if run.Thorough() || l <= 72 || r.Chance(1, 2) {
			a := make([]bool, l)
			ops := []jop{}
			for j := range a {
				a[j] = r.Chance(3, 4)
				if a[j] {
					ops = append(ops, jop{Op: "set", I: j})
				}
			}
			if r.Chance(1, 4) {
				for j := range a {
					if !a[j] {
						a[j] = true
						ops = append(ops, jop{Op: "set", I: j})
					}
				}
			}
			ops = append(ops, jop{Op: "bytes"}, jop{Op: "equals"})
			exec(jcase{Ctor: "new", L: l, Ops: ops})
			// the encoding, computed by the implementation
			var enc []byte
			if p, _ := hx.Guard(func() {
				bv, err := bitvector.New(l)
				if err != nil {
					panic(err)
				}
				for j := range a {
					if a[j] {
						bv.Set(j)
					}
				}
				enc = append(append([]byte{}, bv.Bytes()...), r.Bytes(r.Intn(4))...)
			}); p {
				continue // already reported by the exec above (ctor:fails-on-valid-length / panic:index-below-len)
			}
			get := []jop{}
			for k := 0; k < 6; k++ {
				get = append(get, jop{Op: "get", I: r.Intn(l)})
			}
			exec(jcase{Ctor: "frombytes", L: l, B: hx.Hex(enc), Ops: append(get, jop{Op: "equals"}, jop{Op: "set", I: r.Intn(l)}, jop{Op: "equals"}), Want: bitString(a)})
		}
	}
	// ---- malformed stream: constructor arguments outside the domain
	for k := 0; k < run.N(40, 400); k++ {
		n := r.Intn(6)
		l := r.Intn(8*n+12) - 4
		exec(jcase{Ctor: "frombytes", L: l, B: hx.Hex(r.Bytes(n)), Ops: []jop{{Op: "equals"}, {Op: "len"}}})
		exec(jcase{Ctor: "new", L: r.Intn(60) - 40, Ops: []jop{{Op: "equals"}, {Op: "bytes"}}})
	}
	run.Finish()
}
