// C10 harness: manifest.NewMantarayManifest (pkg/manifest/mantaray.go over
// github.com/gauss-project/manifest/mantaray) on a real loadsave (file pipeline +
// joiner over an in-memory chunk store), driven with histories of
// add / remove / lookup / hasPrefix / store / reload.
//
// Oracle (independent of the Coq model): a Go map path -> (reference, metadata)
// updated by the history; every Lookup/HasPrefix answer of the implementation is
// compared with it.  Correspondence: every history is also emitted as a Coq term
// (the (data, reference) pairs that went through loadsave.Save + the observable
// result of every operation) and re-run on the Gallina model.
package main

import (
	"bytes"
	"context"
	"encoding/hex"
	"errors"
	"fmt"
	"sort"
	"strings"
	"sync"
	"time"

	"github.com/gauss-project/aurorafs/pkg/boson"
	"github.com/gauss-project/aurorafs/pkg/file"
	"github.com/gauss-project/aurorafs/pkg/file/loadsave"
	"github.com/gauss-project/aurorafs/pkg/file/pipeline"
	"github.com/gauss-project/aurorafs/pkg/file/pipeline/builder"
	"github.com/gauss-project/aurorafs/pkg/manifest"
	"github.com/gauss-project/aurorafs/pkg/storage"
	"github.com/gauss-project/manifest/mantaray"
	"verifharness/hx"
)

// ------------------------------------------------------------------ in-memory chunk store

type memStore struct {
	mu sync.Mutex
	m  map[string][]byte
}

func (s *memStore) Put(ctx context.Context, mode storage.ModePut, chs ...boson.Chunk) ([]bool, error) {
	s.mu.Lock()
	defer s.mu.Unlock()
	ex := make([]bool, len(chs))
	for i, c := range chs {
		k := string(c.Address().Bytes())
		if _, ok := s.m[k]; ok {
			ex[i] = true
			continue
		}
		s.m[k] = append([]byte{}, c.Data()...)
	}
	return ex, nil
}

func (s *memStore) Get(ctx context.Context, mode storage.ModeGet, a boson.Address) (boson.Chunk, error) {
	s.mu.Lock()
	defer s.mu.Unlock()
	d, ok := s.m[string(a.Bytes())]
	if !ok {
		return nil, storage.ErrNotFound
	}
	return boson.NewChunk(a, d), nil
}

// recLS wraps the real load-saver and records every (data, reference) pair of Save.
type recLS struct {
	inner file.LoadSaver
	mu    sync.Mutex
	tbl   map[string][]byte
	order []string
}

func (l *recLS) Load(ctx context.Context, ref []byte) ([]byte, error) { return l.inner.Load(ctx, ref) }
func (l *recLS) Save(ctx context.Context, data []byte) ([]byte, error) {
	d := append([]byte{}, data...)
	ref, err := l.inner.Save(ctx, data)
	if err == nil {
		l.mu.Lock()
		if _, ok := l.tbl[string(d)]; !ok {
			l.tbl[string(d)] = append([]byte{}, ref...)
			l.order = append(l.order, string(d))
		}
		l.mu.Unlock()
	}
	return ref, err
}

// ------------------------------------------------------------------ cases

type jop struct {
	Op string      `json:"op"` // add remove lookup has store storecb reload
	N  int         `json:"n,omitempty"`  // addmany/lookupmany: number of sibling entries below the prefix P
	ML int         `json:"ml,omitempty"` // addmany: length of the metadata value of each entry
	S  int         `json:"s,omitempty"`  // addmany: seed of the generated metadata values
	B  string      `json:"b,omitempty"` // storecb: "accept" | "reject-all" | "reject-root" (byte budget of the StoreSizeFunc)
	P  string      `json:"p,omitempty"`
	E  string      `json:"e,omitempty"`
	M  [][2]string `json:"m,omitempty"` // sorted by key
}

type jcase struct {
	Class string `json:"class"`
	Enc   bool   `json:"enc"`
	Key   string `json:"key,omitempty"`
	Ops   []jop  `json:"ops"`
}

type val struct {
	ref []byte
	md  [][2]string
}

func mdMap(m [][2]string) map[string]string {
	if len(m) == 0 {
		return nil
	}
	r := map[string]string{}
	for _, kv := range m {
		r[kv[0]] = kv[1]
	}
	return r
}

func mdSorted(m map[string]string) [][2]string {
	r := make([][2]string, 0, len(m))
	for k, v := range m {
		r = append(r, [2]string{k, v})
	}
	sort.Slice(r, func(i, j int) bool { return r[i][0] < r[j][0] })
	return r
}

func mdEq(a, b [][2]string) bool {
	if len(a) != len(b) {
		return false
	}
	for i := range a {
		if a[i] != b[i] {
			return false
		}
	}
	return true
}

// pool of the distinct byte strings of one history; operations refer to them by index
// (ingesting literals is what costs time in Coq).
type pool struct {
	idx map[string]int
	all []string
}

func newPool() *pool { return &pool{idx: map[string]int{"": 0}, all: []string{""}} }

func (pl *pool) id(b []byte) string {
	i, ok := pl.idx[string(b)]
	if !ok {
		i = len(pl.all)
		pl.idx[string(b)] = i
		pl.all = append(pl.all, string(b))
	}
	return fmt.Sprint(i)
}

func (pl *pool) meta(m [][2]string) string {
	if len(m) == 0 {
		return "[]"
	}
	el := make([]string, len(m))
	for i, kv := range m {
		el[i] = hx.CoqPair(pl.id([]byte(kv[0])), pl.id([]byte(kv[1])))
	}
	return "[" + strings.Join(el, "; ") + "]"
}

// coqBytes renders a byte string as a term of type list N using the helpers of Corr.v.
func coqBytes(s string) string {
	b := []byte(s)
	if len(b) == 0 {
		return "(@nil N)"
	}
	same, plain := true, true
	for _, c := range b {
		if c != b[0] {
			same = false
		}
		if c < 32 || c > 126 || c == '"' {
			plain = false
		}
	}
	switch {
	case same && len(b) > 2:
		return fmt.Sprintf("(rp %d %d)", b[0], len(b))
	case plain:
		return "(strs \"" + s + "\")"
	}
	return "(hexs \"" + hex.EncodeToString(b) + "\")"
}

// cksum: the two 31-bit polynomial checksums of Corr.v
func cksum(d []byte) uint64 {
	const p31 = 2147483647
	h1, h2 := uint64(7), uint64(11)
	for _, b := range d {
		h1 = (h1*257 + uint64(b) + 1) % p31
		h2 = (h2*263 + uint64(b) + 1) % p31
	}
	return h1*2147483648 + h2
}

func unhex(s string) []byte {
	b, err := hex.DecodeString(s)
	if err != nil {
		panic(err)
	}
	return b
}

const (
	clsDisc      = "disciplined"          // inside the domain of C10_lookup_refines_partial
	clsRmPrefix  = "remove-proper-prefix" // a removed path is a proper prefix of a present path
	clsOverwrite = "overwrite-empty-metadata"
	clsMutate    = "mutate-after-store"
	clsEmptyRef  = "empty-reference"
	clsNoOracle  = "outside-domain" // empty path, odd reference sizes: correspondence only
	clsCbStore   = "store-with-callbacks" // the first successful Store goes through the StoreSizeFunc saver
	clsBig       = "large-node" // a node that serialises to about one chunk or more (oracle only, see expandOps)
	clsFailRoot  = "failed-store-at-root"  // a Store rejected at the root node (children saved), then more writes
)

// expandOps expands the descriptors "addmany" / "lookupmany" (prefix P, N sibling entries, metadata
// value length ML, seed S) into N adds / N lookups + N prefix queries. The N entries are P + one
// distinct byte + "f": N forks of ONE trie node, each carrying ML bytes of metadata, so that this
// node serialises to N * (ML + ~90) bytes — the way to get manifest node payloads of one or several
// chunks (boson.ChunkSize) through loadsave.Save/Load. Histories with such nodes are checked by the
// oracle only (not re-run on the Coq model: a 300–550 KB byte-level payload is too large for
// vm_compute within the quick budget).
func manyPath(prefix []byte, i int) string { return string(prefix) + string([]byte{byte(0x21 + i)}) + "f" }
func manyMeta(ml, seed, i int) [][2]string {
	v := make([]byte, ml)
	for j := range v {
		v[j] = byte('a' + (seed+7*i+j+j/13)%26)
	}
	return [][2]string{{"k", string(v)}}
}
func expandOps(ops []jop) []jop {
	var out []jop
	for _, o := range ops {
		switch o.Op {
		case "addmany":
			for i := 0; i < o.N; i++ {
				out = append(out, opAdd(manyPath(unhex(o.P), i), refN(byte(1+(o.S+i)%9)), manyMeta(o.ML, o.S, i)))
			}
		case "lookupmany":
			for i := 0; i < o.N; i++ {
				out = append(out, opP("lookup", manyPath(unhex(o.P), i)))
				if i%8 == 0 {
					out = append(out, opP("has", manyPath(unhex(o.P), i)[:len(unhex(o.P))+1]))
				}
			}
		default:
			out = append(out, o)
		}
	}
	return out
}

var errBudget = errors.New("size budget exceeded")

// budgetFn is the StoreSizeFunc the harness installs: one cumulative byte budget.
func budgetFn(budget int64) manifest.StoreSizeFunc {
	var mu sync.Mutex
	var total int64
	return func(n int64) error {
		mu.Lock()
		defer mu.Unlock()
		total += n
		if total > budget {
			return errBudget
		}
		return nil
	}
}

type doneOp struct {
	o      jop
	budget int64
}

// probeTotal replays the operations executed so far on a twin manifest (own store) and
// returns the number of bytes a Store would hand to the saver now. The root node is always
// saved last, so the budget total-1 rejects exactly the root, whatever the order in which
// mantaray saves the children concurrently.
func probeTotal(ctx context.Context, enc bool, done []doneOp) (total int64) {
	hx.Guard(func() {
		st := &memStore{m: map[string][]byte{}}
		ls := loadsave.New(st, func() pipeline.Interface {
			return builder.NewPipelineBuilder(ctx, st, storage.ModePutUpload, false)
		})
		m, _ := manifest.NewMantarayManifest(ls, enc)
		var last boson.Address
		have := false
		for _, d := range done {
			p := string(unhex(d.o.P))
			switch d.o.Op {
			case "add":
				_ = m.Add(ctx, p, manifest.NewEntry(boson.NewAddress(unhex(d.o.E)), mdMap(d.o.M)))
			case "remove":
				_ = m.Remove(ctx, p)
			case "lookup":
				_, _ = m.Lookup(ctx, p)
			case "has":
				_, _ = m.HasPrefix(ctx, p)
			case "store":
				if a, err := m.Store(ctx); err == nil {
					last, have = a, true
				}
			case "storecb":
				if a, err := m.Store(ctx, budgetFn(d.budget)); err == nil {
					last, have = a, true
				}
			case "reload":
				if have {
					m, _ = manifest.NewMantarayManifestReference(last, ls)
				}
			}
		}
		var mu sync.Mutex
		_, _ = m.Store(ctx, func(n int64) error { mu.Lock(); total += n; mu.Unlock(); return nil })
	})
	return total
}

// runHistory executes one history on the real implementation.
func runHistory(run *hx.Run, jc jcase) {
	ctx := context.Background()
	key := unhex(jc.Key)
	if jc.Enc {
		mantaray.SetObfuscationKeyFn(func(b []byte) (int, error) { copy(b, key); return len(b), nil })
	}
	st := &memStore{m: map[string][]byte{}}
	ls := &recLS{inner: loadsave.New(st, func() pipeline.Interface {
		return builder.NewPipelineBuilder(ctx, st, storage.ModePutUpload, false)
	}), tbl: map[string][]byte{}}
	m, err := manifest.NewMantarayManifest(ls, jc.Enc)
	if err != nil {
		panic(err)
	}
	pl := newPool()
	specm := map[string]val{} // the reference map: the property's "final mapping"
	var last boson.Address
	haveLast := false
	removes := 0
	var done []doneOp
	var coqOps []string
	nontrivial := false
	oracle := jc.Class != clsNoOracle

	// signature = clause + class of history (+ kind of deviation inside the theorem's domain)
	viol := func(clause, kind, detail string, impl, want interface{}) {
		if clause == "has" {
			clause = "hasprefix"
		}
		sig := clause + ":" + jc.Class
		if jc.Class == clsDisc {
			sig += ":" + kind
		}
		if clause == "hasprefix" && kind == "phantom-after-remove" {
			sig = "hasprefix:phantom-after-remove"
		}
		run.Violate(hx.Violation{Sig: sig, Detail: detail, Case: jc, Impl: impl, Want: want})
	}
	classOf := func(e error) uint64 {
		switch {
		case errors.Is(e, manifest.ErrNotFound) || errors.Is(e, mantaray.ErrNotFound):
			return 1
		case errors.Is(e, mantaray.ErrEmptyPath):
			return 2
		}
		return 3
	}

	for i, o := range expandOps(jc.Ops) {
		p := unhex(o.P)
		var obs, cop string
		stop := false
		var panicked bool
		var opErr error
		var curBudget int64
		finished := hx.WithTimeout(20*time.Second, func() {
			panicked, _ = hx.Guard(func() {
				switch o.Op {
				case "add":
					e := unhex(o.E)
					cop = hx.CoqApp("IAdd", pl.id(p), pl.id(e), pl.meta(o.M))
					opErr = m.Add(ctx, string(p), manifest.NewEntry(boson.NewAddress(e), mdMap(o.M)))
					specm[string(p)] = val{e, o.M}
					if opErr == nil {
						obs = "YOk"
					} else {
						obs = hx.CoqApp("YErr", hx.CoqN(classOf(opErr)))
						if oracle {
							viol("add", "error", fmt.Sprintf("op %d: Add(%q) failed: %v", i, p, opErr), opErr.Error(), "nil")
						}
					}
				case "remove":
					cop = hx.CoqApp("IRemove", pl.id(p))
					_, present := specm[string(p)]
					opErr = m.Remove(ctx, string(p))
					delete(specm, string(p))
					removes++
					if opErr == nil {
						obs = "YOk"
					} else {
						obs = hx.CoqApp("YErr", hx.CoqN(classOf(opErr)))
						if oracle && present {
							run.OracleChecked(1)
							viol("remove", "error-on-present-path", fmt.Sprintf("op %d: Remove(%q) of a present path failed: %v", i, p, opErr), opErr.Error(), "nil")
						}
					}
				case "lookup":
					cop = hx.CoqApp("ILookup", pl.id(p))
					en, err := m.Lookup(ctx, string(p))
					opErr = err
					want, present := specm[string(p)]
					if err == nil {
						ref := en.Reference().Bytes()
						md := mdSorted(en.Metadata())
						obs = hx.CoqApp("YFound", pl.id(ref), pl.meta(md))
						if oracle && len(p) > 0 {
							run.OracleChecked(1)
							switch {
							case !present:
								viol("lookup", "phantom", fmt.Sprintf("op %d: Lookup(%q) found %x but the path is not in the mapping", i, p, ref), hx.Hex(ref), "not-found")
							case !bytes.Equal(ref, want.ref):
								viol("lookup", "wrong-reference", fmt.Sprintf("op %d: Lookup(%q) = %x, last written %x", i, p, ref, want.ref), hx.Hex(ref), hx.Hex(want.ref))
							case !mdEq(md, want.md):
								viol("lookup", "wrong-metadata", fmt.Sprintf("op %d: Lookup(%q) metadata %v, last written %v", i, p, md, want.md), md, want.md)
							}
						}
					} else {
						c := classOf(err)
						obs = hx.CoqApp("YErr", hx.CoqN(c))
						if oracle && len(p) > 0 {
							run.OracleChecked(1)
							if c != 1 {
								viol("lookup", "error", fmt.Sprintf("op %d: Lookup(%q) failed: %v", i, p, err), err.Error(), "entry or not-found")
							} else if present {
								viol("lookup", "missing", fmt.Sprintf("op %d: Lookup(%q) not found, last written %x", i, p, want.ref), "not-found", hx.Hex(want.ref))
							}
						}
					}
				case "has":
					cop = hx.CoqApp("IHas", pl.id(p))
					got, err := m.HasPrefix(ctx, string(p))
					opErr = err
					if err != nil {
						obs = hx.CoqApp("YErr", hx.CoqN(classOf(err)))
						if oracle {
							viol("hasprefix", "error", fmt.Sprintf("op %d: HasPrefix(%q) failed: %v", i, p, err), err.Error(), "bool")
						}
						break
					}
					obs = hx.CoqApp("YBool", hx.CoqBool(got))
					if oracle && len(p) > 0 {
						want := false
						for q := range specm {
							if strings.HasPrefix(q, string(p)) {
								want = true
							}
						}
						run.OracleChecked(1)
						if want && !got {
							viol("hasprefix", "missing", fmt.Sprintf("op %d: HasPrefix(%q) = false but a present path has this prefix", i, p), got, want)
						}
						if !want && got {
							kind := "phantom"
							if removes > 0 {
								kind = "phantom-after-remove"
							}
							viol("hasprefix", kind, fmt.Sprintf("op %d: HasPrefix(%q) = true but no present path has this prefix", i, p), got, want)
						}
					}
				case "store":
					cop = "IStore"
					a, err := m.Store(ctx)
					opErr = err
					if err != nil {
						obs = hx.CoqApp("YErr", hx.CoqN(classOf(err)))
						stop = true // state after a failed concurrent save is not determined
						if oracle {
							run.OracleChecked(1)
							viol("store", "error", fmt.Sprintf("op %d: Store failed: %v", i, err), err.Error(), "address")
						}
						break
					}
					last, haveLast = a, true
					obs = hx.CoqApp("YRef", pl.id(a.Bytes()))
				case "storecb":
					var budget int64
					switch o.B {
					case "reject-all":
						budget = 0
					case "accept":
						budget = 1 << 40
					case "reject-root":
						if t := probeTotal(ctx, jc.Enc, done); t > 0 {
							budget = t - 1
						}
					default:
						panic("unknown budget mode " + o.B)
					}
					curBudget = budget
					cop = hx.CoqApp("IStoreCb", hx.CoqN(uint64(budget)))
					a, err := m.Store(ctx, budgetFn(budget))
					opErr = err
					if err != nil {
						// a rejected Store: the error is expected; what it must not do is change
						// what later lookups and stores observe (checked by the lookups that follow)
						obs = hx.CoqApp("YErr", hx.CoqN(classOf(err)))
						if oracle && o.B == "accept" {
							run.OracleChecked(1)
							viol("store", "error", fmt.Sprintf("op %d: Store with an accepting size callback failed: %v", i, err), err.Error(), "address")
						}
						break
					}
					last, haveLast = a, true
					obs = hx.CoqApp("YRef", pl.id(a.Bytes()))
				case "reload":
					if !haveLast {
						return
					}
					cop = "IReload"
					m, _ = manifest.NewMantarayManifestReference(last, ls)
					obs = "YOk"
					nontrivial = true
				default:
					panic("unknown op " + o.Op)
				}
			})
		})
		if !finished {
			coqOps = append(coqOps, hx.CoqPair(cop, "(YErr 5%N)"))
			viol(o.Op, "hang", fmt.Sprintf("op %d did not finish", i), "hang", "result")
			break
		}
		if panicked {
			if cop == "" {
				panic("harness panic before the operation")
			}
			coqOps = append(coqOps, hx.CoqPair(cop, "(YErr 4%N)"))
			if oracle {
				run.OracleChecked(1)
				viol(o.Op, "panic", fmt.Sprintf("op %d (%s %q) panicked", i, o.Op, p), "panic", "result")
			}
			break
		}
		if cop == "" { // reload without a stored address: skipped
			continue
		}
		_ = opErr
		coqOps = append(coqOps, hx.CoqPair(cop, obs))
		done = append(done, doneOp{o, curBudget})
		if o.Op == "storecb" {
			run.Hist("op.storecb." + o.B)
		} else {
			run.Hist("op." + o.Op)
		}
		if stop {
			break
		}
	}
	// the table realising addr
	tbl := make([]string, 0, len(ls.order))
	for _, d := range ls.order {
		tbl = append(tbl, hx.CoqPair(hx.CoqN(cksum([]byte(d))), pl.id(ls.tbl[d])))
	}
	run.HistN("saved-nodes", len(tbl))
	keyID := pl.id(key)
	pe := make([]string, len(pl.all))
	for i, s := range pl.all {
		pe[i] = coqBytes(s)
	}
	term := hx.CoqApp("Case", hx.CoqBool(jc.Enc), keyID, hx.CoqList(pe, "list N"),
		hx.CoqList(tbl, "N * nat"), hx.CoqList(coqOps, "iop * icobs"))
	if jc.Class == clsBig {
		term = "" // oracle only
		run.HistN("large-node.saved-bytes", func() int { n := 0; for _, d := range ls.order { n += len(d) }; return n }())
	}
	keyb := fmt.Sprintf("%v|%s|%v", jc.Enc, jc.Key, jc.Ops)
	run.AddCase(term, jc, keyb, nontrivial && len(coqOps) >= 4)
	run.Hist("class." + jc.Class)
}

// ------------------------------------------------------------------ generators

func opAdd(p string, e []byte, m [][2]string) jop {
	return jop{Op: "add", P: hx.Hex([]byte(p)), E: hx.Hex(e), M: m}
}
func opP(op, p string) jop { return jop{Op: op, P: hx.Hex([]byte(p))} }

func refN(b byte) []byte { return bytes.Repeat([]byte{b}, 32) }

var mdPool = [][][2]string{
	nil,
	{{"Content-Type", "text/html"}},                                  // 2+len = 31+2 > 32
	{{"k", "v"}},                                                     // short: padded to 32
	{{"Content-Type", "image/png"}, {"Filename", "1.png"}},           // > 32
	{{"a", "0123456789012345678"}},                                   // len(json)+2 == 32 exactly
	{{"Dirname", "site"}, {"website-index-document", "index.html"}}, // root entry of a directory upload
	{{"x", "0123456789012345678901234567890123456789012345678901"}},  // 62: len+2 == 64, a multiple of 32
}

// corpus: known-finding witnesses and boundary cases, run on every seed
func corpus() []jcase {
	k := hx.Hex(bytes.Repeat([]byte{0x5a}, 32))
	long40 := "0123456789012345678901234567890123456789"
	md := mdPool[2]
	return []jcase{
		// F-mantaray-remove-prefix (the DESIGN.md witness): add a; add ab; remove a; lookup ab
		{Class: clsRmPrefix, Ops: []jop{opAdd("a", refN(1), nil), opAdd("ab", refN(2), nil), opP("remove", "a"), opP("lookup", "ab"), opP("lookup", "a")}},
		// remove of a path that is not present but is a branching point
		{Class: clsRmPrefix, Ops: []jop{opAdd("ab", refN(1), nil), opAdd("ac", refN(2), nil), opP("remove", "a"), opP("lookup", "ab"), opP("lookup", "ac")}},
		// F-mantaray-metadata-kept
		{Class: clsOverwrite, Ops: []jop{opAdd("a", refN(1), md), opAdd("a", refN(2), nil), opP("lookup", "a")}},
		// F-mantaray-no-ref-invalidation: remove after store
		{Class: clsMutate, Ops: []jop{opAdd("a", refN(1), nil), opAdd("b", refN(2), nil), {Op: "store"}, opP("remove", "a"), opP("lookup", "a"), {Op: "store"}, {Op: "reload"}, opP("lookup", "a"), opP("lookup", "b")}},
		// store; lookup; add; store -> the add is not in the stored manifest
		{Class: clsMutate, Ops: []jop{opAdd("a", refN(1), nil), {Op: "store"}, opP("lookup", "a"), opAdd("b", refN(2), nil), opP("lookup", "b"), {Op: "store"}, {Op: "reload"}, opP("lookup", "b"), opP("lookup", "a")}},
		// the same seen through HasPrefix
		{Class: clsMutate, Ops: []jop{opAdd("a", refN(1), nil), {Op: "store"}, opP("lookup", "a"), opAdd("b", refN(2), nil), {Op: "store"}, {Op: "reload"}, opP("has", "b")}},
		// store; overwrite; lookup below; store fails
		{Class: clsMutate, Ops: []jop{opAdd("a", refN(1), nil), opAdd("ab", refN(3), nil), {Op: "store"}, opAdd("a", refN(2), nil), opP("lookup", "a"), opP("lookup", "ab"), {Op: "store"}}},
		// store; overwrite; add below -> assignment to nil map
		{Class: clsMutate, Ops: []jop{opAdd("a", refN(1), nil), {Op: "store"}, opAdd("a", refN(2), nil), opAdd("ab", refN(3), nil)}},
		// reload; add; store; reload works here
		{Class: clsMutate, Ops: []jop{opAdd("a", refN(1), nil), opAdd("b/c", refN(2), md), {Op: "store"}, {Op: "reload"}, opAdd("b/d", refN(3), nil), {Op: "store"}, {Op: "reload"}, opP("lookup", "b/d"), opP("lookup", "b/c"), opP("lookup", "a")}},
		// empty reference comes back as 32 zero bytes
		{Class: clsEmptyRef, Ops: []jop{opAdd("a", refN(1), nil), opAdd("/", nil, mdPool[5]), opP("lookup", "/"), {Op: "store"}, opP("lookup", "/"), {Op: "reload"}, opP("lookup", "/"), opP("lookup", "a")}},
		// only empty references: lookup after store panics in UnmarshalBinary
		{Class: clsEmptyRef, Ops: []jop{opAdd("a", nil, md), opAdd("ab", nil, md), {Op: "store"}, opP("lookup", "a")}},
		// the same defects seen through HasPrefix / Remove
		{Class: clsRmPrefix, Ops: []jop{opAdd("a", refN(1), nil), opAdd("ab", refN(2), nil), opP("remove", "a"), opP("has", "ab"), opP("remove", "ab")}},
		{Class: clsEmptyRef, Ops: []jop{opAdd("a", nil, md), opAdd("ab", nil, md), {Op: "store"}, opP("has", "a")}},
		{Class: clsMutate, Ops: []jop{opAdd("a", refN(1), nil), opAdd("ab", refN(3), nil), {Op: "store"}, opAdd("a", refN(2), nil), opP("remove", "ab")}},
		// seeded/C10-2: a Store rejected by the size callback at the root (the three leaves are saved),
		// lookups, one new path and one overwrite, a plain Store, reload
		{Class: clsFailRoot, Ops: []jop{
			opAdd("a.txt", refN(1), [][2]string{{"Filename", "a.txt"}}), opAdd("b.txt", refN(2), [][2]string{{"Filename", "b.txt"}}), opAdd("c.txt", refN(3), [][2]string{{"Filename", "c.txt"}}),
			{Op: "storecb", B: "reject-root"}, opP("lookup", "a.txt"), opP("lookup", "b.txt"), opP("lookup", "c.txt"),
			opAdd("d.txt", refN(4), [][2]string{{"Filename", "d.txt"}}), opAdd("b.txt", refN(9), [][2]string{{"Content-Type", "text/plain"}, {"Filename", "b.txt"}}),
			{Op: "store"}, {Op: "reload"}, opP("lookup", "a.txt"), opP("lookup", "b.txt"), opP("lookup", "c.txt"), opP("lookup", "d.txt"), opP("has", "d.")}},
		// a Store rejected at the first node (nothing saved), then an add below an existing entry
		{Class: clsDisc, Ops: []jop{opAdd("a", refN(1), nil), {Op: "storecb", B: "reject-all"}, opAdd("ab", refN(2), md), opP("lookup", "ab"),
			{Op: "storecb", B: "reject-all"}, {Op: "store"}, {Op: "storecb", B: "reject-all"}, {Op: "reload"}, opP("lookup", "ab"), opP("lookup", "a"), {Op: "storecb", B: "accept"}}},
		// the first successful Store goes through accepting callbacks; rejected at the root twice before
		{Class: clsFailRoot, Enc: true, Key: k, Ops: []jop{opAdd("x/1", refN(1), md), opAdd("y", refN(2), nil), {Op: "storecb", B: "reject-root"}, opAdd("z", refN(3), nil),
			{Op: "storecb", B: "reject-root"}, opP("remove", "y"), {Op: "storecb", B: "accept"}, {Op: "reload"}, opP("lookup", "x/1"), opP("lookup", "y"), opP("lookup", "z")}},
		// seeded/C10-3: node payloads around the chunk size (262144 bytes): the root with 51 / 52 / 63 /
		// 102 / 104 sibling entries of 5000 bytes of metadata each = just under one chunk, just above,
		// between one and two, just under two, above two chunks; and the same for an inner node
		{Class: clsBig, Ops: []jop{{Op: "addmany", N: 51, ML: 5000, S: 1}, opAdd("zz/a", refN(1), md), {Op: "store"}, {Op: "reload"}, {Op: "lookupmany", N: 51}, opP("lookup", "zz/a"), opP("lookup", "zz")}},
		{Class: clsBig, Ops: []jop{{Op: "addmany", N: 52, ML: 5000, S: 2}, {Op: "store"}, {Op: "reload"}, {Op: "lookupmany", N: 52}}},
		{Class: clsBig, Ops: []jop{{Op: "addmany", N: 63, ML: 5000, S: 3}, opAdd("zz/a", refN(1), md), opP("remove", "zz/a"), {Op: "store"}, opP("lookup", "!f"), {Op: "reload"}, {Op: "lookupmany", N: 63}, opP("lookup", "zz/a")}},
		{Class: clsBig, Enc: true, Key: k, Ops: []jop{{Op: "addmany", N: 102, ML: 5000, S: 4}, {Op: "store"}, {Op: "reload"}, {Op: "lookupmany", N: 102}}},
		{Class: clsBig, Ops: []jop{{Op: "addmany", N: 104, ML: 5000, S: 5}, {Op: "store"}, {Op: "reload"}, {Op: "lookupmany", N: 104}}},
		{Class: clsBig, Ops: []jop{opAdd("a", refN(1), nil), {Op: "addmany", P: hx.Hex([]byte("dir/")), N: 63, ML: 5000, S: 6}, opAdd("b", refN(2), md), {Op: "store"}, {Op: "reload"}, opP("lookup", "a"), {Op: "lookupmany", P: hx.Hex([]byte("dir/")), N: 63}, opP("lookup", "b"), opP("has", "dir")}},
		// hasPrefix after removes
		{Class: clsDisc, Ops: []jop{opAdd("ab", refN(1), nil), opAdd("ac", refN(2), nil), opP("remove", "ab"), opP("remove", "ac"), opP("has", "a"), opP("lookup", "ab"), {Op: "store"}, {Op: "reload"}, opP("has", "a"), opP("lookup", "ac")}},
		{Class: clsDisc, Ops: []jop{opAdd(long40, refN(1), nil), opP("remove", long40), opP("has", "0"), opP("lookup", long40)}},
		// empty path (outside the domain): value at the root is lost on reload
		{Class: clsNoOracle, Ops: []jop{opAdd("", refN(1), md), opAdd("x", refN(2), md), opP("lookup", ""), {Op: "store"}, opP("lookup", ""), {Op: "reload"}, opP("lookup", ""), opP("lookup", "x")}},
		// reference sizes
		{Class: clsNoOracle, Ops: []jop{opAdd("a", bytes.Repeat([]byte{7}, 20), nil), opAdd("b", refN(2), nil), opAdd("c", bytes.Repeat([]byte{7}, 257), nil), opP("lookup", "a"), {Op: "store"}, {Op: "reload"}, opP("lookup", "a")}},
		// boundaries of the 30-byte prefix limit, obfuscation key
		{Class: clsDisc, Enc: true, Key: k, Ops: []jop{
			opAdd(long40[:30], refN(1), mdPool[1]), opAdd(long40[:31], refN(2), mdPool[4]), opAdd(long40+long40[:21], refN(3), mdPool[6]), opAdd(long40[:29], refN(4), nil),
			opP("lookup", long40[:30]), {Op: "store"}, {Op: "reload"}, opP("lookup", long40[:30]), opP("lookup", long40[:31]), opP("lookup", long40+long40[:21]), opP("lookup", long40[:29]), opP("lookup", long40[:28]),
			opP("has", long40[:35]), opP("has", long40+"0"), opP("has", long40+"1")}},
		// path separators at index 0 and later, high bytes
		{Class: clsDisc, Ops: []jop{
			opAdd("/", refN(9), mdPool[5]), opAdd("/x", refN(1), nil), opAdd("img/1.png", refN(2), mdPool[3]), opAdd("img/2.png", refN(3), mdPool[3]), opAdd("\xff\x00", refN(4), nil), opAdd("\xff", refN(5), md),
			{Op: "store"}, {Op: "reload"}, opP("lookup", "/"), opP("lookup", "/x"), opP("lookup", "img/1.png"), opP("lookup", "img/2.png"), opP("lookup", "img/"), opP("lookup", "\xff\x00"), opP("lookup", "\xff"), opP("has", "img"), opP("has", "im0")}},
	}
}

type gen struct {
	r *hx.Rand
}

func (g *gen) pool() []string {
	r := g.r
	var base []string
	switch r.Intn(4) {
	case 0: // short strings over a tiny alphabet
		for i := 0; i < 3+r.Intn(4); i++ {
			n := 1 + r.Intn(4)
			b := make([]byte, n)
			for j := range b {
				b[j] = "abc"[r.Intn(3)]
			}
			base = append(base, string(b))
		}
	case 1: // directory-like
		all := []string{"/", "index.html", "img/1.png", "img/2.png", "img/icons/a.ico", "css/a.css", "css/b.css", "img", "img/", "i", "robots.txt", "/x", "a/b/c/d", "a/b/c", "a/b/x"}
		for i := 0; i < 3+r.Intn(5); i++ {
			base = append(base, all[r.Intn(len(all))])
		}
	case 2: // long segments around the 30-byte limit
		stem := strings.Repeat("0123456789", 7)
		for i := 0; i < 3+r.Intn(3); i++ {
			n := r.Pick([]int{28, 29, 30, 31, 32, 59, 60, 61, 62, 35, 45})
			s := stem[:n]
			if r.Chance(1, 2) {
				s += string("xy/z"[r.Intn(4)])
			}
			if r.Chance(1, 3) {
				s = s[:r.Intn(len(s))+1] + "q" + s[:r.Intn(20)]
			}
			base = append(base, s)
		}
	default: // raw bytes incl. 0x00, 0xff, '/' first
		for i := 0; i < 3+r.Intn(3); i++ {
			n := 1 + r.Intn(3)
			b := make([]byte, n)
			for j := range b {
				b[j] = []byte{0, 0xff, '/', 0x80, 'a', 7}[r.Intn(6)]
			}
			base = append(base, string(b))
		}
	}
	// deliberate prefix relations
	if r.Chance(2, 3) {
		s := base[r.Intn(len(base))]
		base = append(base, s+string("a/b"[r.Intn(3)]))
		if len(s) > 1 {
			base = append(base, s[:1+r.Intn(len(s)-1)])
		}
	}
	// distinct
	seen := map[string]bool{}
	var out []string
	for _, s := range base {
		if !seen[s] && s != "" {
			seen[s] = true
			out = append(out, s)
		}
	}
	return out
}

// history builds one random history of the given class.
func (g *gen) history(class string) jcase {
	r := g.r
	jc := jcase{Class: class}
	if r.Chance(1, 4) {
		jc.Enc = true
		jc.Key = hx.Hex(r.Bytes(32))
	}
	pool := g.pool()
	present := map[string][][2]string{} // path -> metadata currently written
	refs := [][]byte{refN(1), refN(2), refN(3), r.Bytes(32)}
	pick := func() string { return pool[r.Intn(len(pool))] }
	extends := func(p string) bool { // some present path properly extends p
		for q := range present {
			if len(q) > len(p) && strings.HasPrefix(q, p) {
				return true
			}
		}
		return false
	}
	query := func() jop {
		p := pick()
		switch r.Intn(6) {
		case 0:
			p = p[:1+r.Intn(len(p))] // a prefix
		case 1:
			p = p + string("a/"[r.Intn(2)]) // an extension
		}
		if r.Chance(2, 3) {
			return opP("lookup", p)
		}
		return opP("has", p)
	}
	add := func(p string, forceMD int) {
		var md [][2]string
		switch {
		case forceMD >= 0:
			md = mdPool[forceMD]
		default:
			md = mdPool[r.Intn(len(mdPool))]
			if old, ok := present[p]; ok && len(old) > 0 && len(md) == 0 {
				md = mdPool[1+r.Intn(len(mdPool)-1)] // D4: never non-empty -> empty
			}
		}
		e := refs[r.Intn(len(refs))]
		jc.Ops = append(jc.Ops, opAdd(p, e, md))
		if len(md) > 0 {
			present[p] = md
		} else if _, ok := present[p]; !ok {
			present[p] = nil
		}
	}
	// build phase
	nb := 3 + r.Intn(8)
	special := false
	for i := 0; i < nb; i++ {
		switch x := r.Intn(10); {
		case x < 6:
			add(pick(), -1)
		case x < 8:
			p := pick()
			if r.Chance(1, 4) {
				p += "z" // absent path
			}
			if !extends(p) {
				jc.Ops = append(jc.Ops, opP("remove", p))
				delete(present, p)
			}
		default:
			jc.Ops = append(jc.Ops, query())
		}
		if (class == clsDisc || class == clsCbStore) && r.Chance(1, 10) {
			jc.Ops = append(jc.Ops, jop{Op: "storecb", B: "reject-all"}) // a rejected Store in the build phase
		}
		if !special && i >= 1 {
			switch class {
			case clsRmPrefix:
				for _, p := range pool {
					for k := 1; k <= len(p) && !special; k++ {
						if extends(p[:k]) && r.Chance(1, 2) {
							jc.Ops = append(jc.Ops, opP("remove", p[:k]))
							for q := range present {
								if strings.HasPrefix(q, p[:k]) {
									delete(present, q) // what the implementation does; the oracle map is kept separately in runHistory
								}
							}
							special = true
						}
					}
				}
			case clsOverwrite:
				for p, md := range present {
					if len(md) > 0 && !special {
						add(p, 0)
						special = true
					}
				}
			case clsEmptyRef:
				jc.Ops = append(jc.Ops, opAdd(pick(), nil, mdPool[r.Intn(len(mdPool))]))
				special = true
			}
		}
	}
	// store / read phase
	rounds := 1 + r.Intn(2)
	for k := 0; k < rounds; k++ {
		switch {
		case k == 0 && class == clsCbStore:
			jc.Ops = append(jc.Ops, jop{Op: "storecb", B: "accept"})
		case k > 0 && r.Chance(1, 2):
			// after the first Store the root reference is cached: no callback may run
			jc.Ops = append(jc.Ops, jop{Op: "storecb", B: []string{"accept", "reject-all", "reject-root"}[r.Intn(3)]})
		default:
			jc.Ops = append(jc.Ops, jop{Op: "store"})
		}
		for i := r.Intn(3); i > 0; i-- {
			jc.Ops = append(jc.Ops, query())
		}
		if r.Chance(3, 4) {
			jc.Ops = append(jc.Ops, jop{Op: "reload"})
		}
		if class == clsMutate {
			for i := 1 + r.Intn(3); i > 0; i-- {
				if r.Chance(1, 3) {
					jc.Ops = append(jc.Ops, opP("remove", pick()))
				} else {
					add(pick(), -1)
				}
				if r.Chance(1, 3) {
					jc.Ops = append(jc.Ops, query())
				}
			}
			jc.Ops = append(jc.Ops, jop{Op: "store"})
			if r.Chance(1, 2) {
				jc.Ops = append(jc.Ops, jop{Op: "reload"})
			}
		}
		// look every pool path up, and a few prefixes
		for _, p := range pool {
			jc.Ops = append(jc.Ops, opP("lookup", p))
		}
		for i := 0; i < 2; i++ {
			p := pick()
			jc.Ops = append(jc.Ops, opP("has", p[:1+r.Intn(len(p))]))
		}
	}
	return jc
}

// historyFailRoot: flat path set (distinct first bytes, at most 30 bytes: every entry is a leaf
// below the root), a Store rejected exactly at the root (all leaves saved, the root not), then more
// writes, a successful Store, reload. Kept clear of the known defects of the dependency: an
// overwrite is preceded by a lookup of that path (a lazily loaded node must be loaded before it
// is overwritten), new paths start with a fresh byte.
func (g *gen) historyFailRoot() jcase {
	r := g.r
	jc := jcase{Class: clsFailRoot}
	if r.Chance(1, 4) {
		jc.Enc = true
		jc.Key = hx.Hex(r.Bytes(32))
	}
	firsts := []byte("abcdefgh/0\xff\x00")
	for i := len(firsts) - 1; i > 0; i-- {
		j := r.Intn(i + 1)
		firsts[i], firsts[j] = firsts[j], firsts[i]
	}
	sufs := []string{"", ".txt", "/x", "01234567890123456789", "/i/j", "b"}
	n := 5 + r.Intn(4)
	pool := make([]string, n)
	for i := range pool {
		pool[i] = string(firsts[i]) + sufs[r.Intn(len(sufs))]
	}
	present := map[string][][2]string{}
	refs := [][]byte{refN(1), refN(2), refN(3), r.Bytes(32)}
	add := func(p string) {
		md := mdPool[r.Intn(len(mdPool))]
		if old, ok := present[p]; ok && len(old) > 0 && len(md) == 0 {
			md = mdPool[1+r.Intn(len(mdPool)-1)]
		}
		jc.Ops = append(jc.Ops, opAdd(p, refs[r.Intn(len(refs))], md))
		if len(md) > 0 {
			present[p] = md
		} else if _, ok := present[p]; !ok {
			present[p] = nil
		}
	}
	for i := 0; i < 2+r.Intn(3); i++ {
		add(pool[i])
	}
	if r.Chance(1, 3) {
		add(pool[0]) // overwrite in the build phase
	}
	for round := 0; round < 1+r.Intn(2); round++ {
		jc.Ops = append(jc.Ops, jop{Op: "storecb", B: "reject-root"})
		for i := 1 + r.Intn(5); i > 0; i-- {
			p := pool[r.Intn(len(pool))]
			_, here := present[p]
			switch x := r.Intn(8); {
			case x < 2:
				jc.Ops = append(jc.Ops, opP("lookup", p))
			case x == 2:
				jc.Ops = append(jc.Ops, opP("has", p[:1+r.Intn(len(p))]))
			case x == 3 && here:
				jc.Ops = append(jc.Ops, opP("remove", p))
				delete(present, p)
			case here:
				jc.Ops = append(jc.Ops, opP("lookup", p)) // load the node before overwriting it
				add(p)
			default:
				add(p)
			}
		}
		if r.Chance(1, 4) {
			jc.Ops = append(jc.Ops, jop{Op: "storecb", B: "reject-all"})
		}
	}
	if r.Chance(1, 3) {
		jc.Ops = append(jc.Ops, jop{Op: "storecb", B: "accept"})
	} else {
		jc.Ops = append(jc.Ops, jop{Op: "store"})
	}
	if r.Chance(3, 4) {
		jc.Ops = append(jc.Ops, jop{Op: "reload"})
	}
	for _, p := range pool {
		jc.Ops = append(jc.Ops, opP("lookup", p))
	}
	p := pool[r.Intn(len(pool))]
	jc.Ops = append(jc.Ops, opP("has", p[:1+r.Intn(len(p))]))
	return jc
}

// historyBig: one trie node (the root or the node below a directory prefix) with many sibling
// entries carrying large metadata, so that its payload is about 0.8 .. 2.3 chunks; plus a few small
// entries, a leaf removal, Store, reload (sometimes twice), lookups of everything.
func (g *gen) historyBig() jcase {
	r := g.r
	jc := jcase{Class: clsBig}
	if r.Chance(1, 4) {
		jc.Enc = true
		jc.Key = hx.Hex(r.Bytes(32))
	}
	prefix := ""
	if r.Chance(1, 2) {
		prefix = []string{"d/", "dir/sub/", "0123456789012345678901234567/"}[r.Intn(3)]
	}
	ml := 3000 + r.Intn(4000)
	// payload ~ n * (ml + 90): aim at 0.8 .. 2.3 chunks, biased to the boundaries
	target := []int{210000, 255000, 262000, 263000, 270000, 330000, 400000, 515000, 523000, 526000, 600000}[r.Intn(11)]
	n := target / (ml + 90)
	if n > 200 {
		n = 200
	}
	many := jop{Op: "addmany", P: hx.Hex([]byte(prefix)), N: n, ML: ml, S: r.Intn(1000)}
	if r.Chance(1, 2) {
		jc.Ops = append(jc.Ops, opAdd("~a", refN(1), mdPool[r.Intn(len(mdPool))]))
	}
	jc.Ops = append(jc.Ops, many)
	if r.Chance(1, 2) {
		jc.Ops = append(jc.Ops, opAdd("~b/c", refN(2), nil), opP("remove", "~b/c"))
	}
	if r.Chance(1, 3) { // remove one of the many (a leaf)
		jc.Ops = append(jc.Ops, opP("remove", manyPath([]byte(prefix), r.Intn(n))))
	}
	jc.Ops = append(jc.Ops, jop{Op: "store"})
	if r.Chance(1, 2) {
		jc.Ops = append(jc.Ops, opP("lookup", manyPath([]byte(prefix), r.Intn(n))))
	}
	jc.Ops = append(jc.Ops, jop{Op: "reload"}, jop{Op: "lookupmany", P: many.P, N: n}, opP("lookup", "~a"), opP("lookup", "~b/c"))
	if prefix != "" {
		jc.Ops = append(jc.Ops, opP("has", prefix), opP("lookup", prefix))
	}
	if r.Chance(1, 3) {
		jc.Ops = append(jc.Ops, jop{Op: "store"}, jop{Op: "reload"}, opP("lookup", manyPath([]byte(prefix), r.Intn(n))))
	}
	return jc
}

func main() {
	run := hx.Start("C10", "Aurora.C10.Corr",
		"histories of add/remove/lookup/hasPrefix/store/reload on manifest.NewMantarayManifest over loadsave(pipeline+joiner, in-memory chunk store); path pools with shared prefixes, nested directories, 28..62-byte segments, raw bytes; classes: disciplined (domain of the partial theorem, incl. Stores rejected by a size callback), store-with-callbacks, failed-store-at-root (flat path set, Store rejected at the root, more writes, Store), and one excluded feature per history; non-trivial = history with a reload and >= 4 operations; distinct by (key mode, operation list)")
	if run.Replay != "" {
		var jc jcase
		if err := run.ReadReplay(&jc); err != nil {
			panic(err)
		}
		runHistory(run, jc)
		run.Finish()
		return
	}
	for _, jc := range corpus() {
		runHistory(run, jc)
	}
	g := &gen{r: run.R}
	n := run.N(180, 2500)
	for i := 0; i < n; i++ {
		class := clsDisc
		switch x := run.R.Intn(20); {
		case x == 0:
			class = clsRmPrefix
		case x == 1:
			class = clsOverwrite
		case x == 2 || x == 3:
			class = clsMutate
		case x == 4:
			class = clsEmptyRef
		case x == 5:
			class = clsCbStore
		case x == 6 || x == 7 || x == 8:
			runHistory(run, g.historyFailRoot())
			continue
		}
		if run.R.Chance(1, 90) {
			runHistory(run, g.historyBig())
		}
		runHistory(run, g.history(class))
	}
	run.Finish()
}
