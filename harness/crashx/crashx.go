// Package crashx is the fault-injecting shed storage driver of C14.
//
// Driver wraps the repository's own goleveldb driver (pkg/shed/leveldb, on
// goleveldb's in-memory storage when the path is empty, on files otherwise)
// and is registered through the exported registry as
// shed.Register("verifcrash", crashx.Driver{}).  Every driver-level write —
// a direct Put, a direct Delete, a batch Commit — is one ATOMIC WRITE GROUP.
// The wrapper counts the groups; after Arm(k) the first k groups reach the
// key-value store and every later one is refused (nothing of it is applied):
// that is a process that stopped abruptly right after its k-th storage write.
// Reads are never refused (the dying operation may go on reading; nothing it
// does afterwards is persisted).
//
// Reopening: an in-memory store is reopened on THE SAME goleveldb database
// (the wrapper does not close it; Reuse hands it to the next Open), an on-disk
// store is really closed and opened again from its directory.  goleveldb's
// own atomicity of a write batch and its recovery are trusted, not tested.
package crashx

import (
	"errors"
	"sync"

	"github.com/gauss-project/aurorafs/pkg/shed"
	"github.com/gauss-project/aurorafs/pkg/shed/driver"
	sldb "github.com/gauss-project/aurorafs/pkg/shed/leveldb"
)

// ErrCrashed is what a refused write returns.
var ErrCrashed = errors.New("crashx: process stopped (write dropped)")

// W is one key-value write of a group (Del: deletion).
type W struct {
	Del bool
	Key []byte
	Val []byte
}

// Group is one atomic write group as the driver saw it.
type Group struct {
	Kind   string // "put" | "delete" | "commit"
	Writes []W
}

// Core is one underlying database with its fault state. It outlives the
// wrappers handed to shed (one per Open).
type Core struct {
	mu      sync.Mutex
	inner   driver.BatchDB
	Path    string
	Config  string
	count   int // groups applied since the last Arm/Reset
	limit   int // -1: no fault armed
	crashed bool
	refused int
	Log     []Group // groups applied since the last Arm/Reset
	closed  bool
}

var (
	gmu     sync.Mutex
	pending *Core // handed to the next Open (in-memory reopen)
	last    *Core // core of the most recent Open
)

// Driver is the shed driver.
type Driver struct{}

var regOnce sync.Once

// Register registers the driver as "verifcrash" and — so that the shared
// localstore harness library (lsx), which opens its stores with the driver
// name "leveldb", runs on it unchanged — also under the name "leveldb" when
// that name is still free. Call it before lsx.Register.
func Register() {
	regOnce.Do(func() {
		have := map[string]bool{}
		for _, d := range shed.Drivers() {
			have[d] = true
		}
		if !have["verifcrash"] {
			shed.Register("verifcrash", Driver{})
		}
		if !have["leveldb"] {
			shed.Register("leveldb", Driver{})
		}
	})
}

// Reuse makes the next Open wrap the database of c instead of opening a new one.
func Reuse(c *Core) { gmu.Lock(); pending = c; gmu.Unlock() }

// Last returns the core of the most recent Open.
func Last() *Core { gmu.Lock(); defer gmu.Unlock(); return last }

// Open implements driver.Driver.
func (Driver) Open(path, options string) (driver.DB, error) {
	gmu.Lock()
	c := pending
	pending = nil
	gmu.Unlock()
	if c == nil {
		in, err := sldb.Driver{}.Open(path, options)
		if err != nil {
			return nil, err
		}
		bi, ok := in.(driver.BatchDB)
		if !ok {
			return nil, errors.New("crashx: inner driver has no batches")
		}
		c = &Core{inner: bi, Path: path, Config: options, limit: -1}
	} else {
		c.mu.Lock()
		c.limit, c.crashed, c.count, c.Log, c.refused = -1, false, 0, nil, 0
		c.mu.Unlock()
	}
	gmu.Lock()
	last = c
	gmu.Unlock()
	return &DB{c: c}, nil
}

// Arm lets k more write groups through and refuses everything after them.
// k < 0 disarms. The group counter and the log restart.
func (c *Core) Arm(k int) {
	c.mu.Lock()
	c.limit, c.count, c.crashed, c.Log, c.refused = k, 0, false, nil, 0
	c.mu.Unlock()
}

// Count is the number of groups applied since the last Arm.
func (c *Core) Count() int { c.mu.Lock(); defer c.mu.Unlock(); return c.count }

// Crashed reports whether a write was refused since the last Arm.
func (c *Core) Crashed() bool { c.mu.Lock(); defer c.mu.Unlock(); return c.crashed }

// Refused is the number of refused groups since the last Arm.
func (c *Core) Refused() int { c.mu.Lock(); defer c.mu.Unlock(); return c.refused }

// Persistent: the database lives in a directory (closing a wrapper closes it).
func (c *Core) Persistent() bool { return c.Path != "" }

// Destroy closes the underlying database of an in-memory core.
func (c *Core) Destroy() {
	c.mu.Lock()
	defer c.mu.Unlock()
	if !c.closed {
		c.closed = true
		_ = c.inner.Close()
	}
}

// admit decides the fate of one group; the caller applies it when true.
func (c *Core) admit(g Group) bool {
	if c.crashed || (c.limit >= 0 && c.count >= c.limit) {
		c.crashed = true
		c.refused++
		return false
	}
	c.count++
	c.Log = append(c.Log, g)
	return true
}

// DB is the wrapper handed to shed.
type DB struct{ c *Core }

func cp(b []byte) []byte { return append([]byte{}, b...) }

func (d *DB) Put(key driver.Key, value driver.Value) error {
	d.c.mu.Lock()
	defer d.c.mu.Unlock()
	if !d.c.admit(Group{Kind: "put", Writes: []W{{Key: cp(key.Data), Val: cp(value.Data)}}}) {
		return ErrCrashed
	}
	return d.c.inner.Put(key, value)
}

func (d *DB) Delete(key driver.Key) error {
	d.c.mu.Lock()
	defer d.c.mu.Unlock()
	if !d.c.admit(Group{Kind: "delete", Writes: []W{{Del: true, Key: cp(key.Data)}}}) {
		return ErrCrashed
	}
	return d.c.inner.Delete(key)
}

func (d *DB) Get(key driver.Key) ([]byte, error)   { return d.c.inner.Get(key) }
func (d *DB) Has(key driver.Key) (bool, error)     { return d.c.inner.Has(key) }
func (d *DB) Search(q driver.Query) driver.Cursor  { return d.c.inner.Search(q) }
func (d *DB) GetSnapshot() (driver.Snapshot, error) { return d.c.inner.GetSnapshot() }

// schema calls go to the inner driver (they happen while a store is opened,
// never inside a store operation; they are not crash points)
func (d *DB) DefaultFieldKey() []byte { return d.c.inner.DefaultFieldKey() }
func (d *DB) DefaultIndexKey() []byte { return d.c.inner.DefaultIndexKey() }
func (d *DB) InitSchema() error       { return d.c.inner.InitSchema() }
func (d *DB) GetSchemaSpec() (driver.SchemaSpec, error) {
	return d.c.inner.GetSchemaSpec()
}
func (d *DB) CreateField(s driver.FieldSpec) ([]byte, error) { return d.c.inner.CreateField(s) }
func (d *DB) CreateIndex(s driver.IndexSpec) ([]byte, error) { return d.c.inner.CreateIndex(s) }
func (d *DB) RenameIndex(o, n string) (bool, error)          { return d.c.inner.RenameIndex(o, n) }

// Close closes an on-disk database; an in-memory one stays open for Reuse
// (Core.Destroy closes it).
func (d *DB) Close() error {
	if d.c.Persistent() {
		d.c.mu.Lock()
		defer d.c.mu.Unlock()
		if d.c.closed {
			return nil
		}
		d.c.closed = true
		return d.c.inner.Close()
	}
	return nil
}

// NewBatch: writes are collected in a batch of the inner driver; Commit is
// the atomic group.
func (d *DB) NewBatch() driver.Batching {
	return &batch{c: d.c, in: d.c.inner.NewBatch()}
}

type batch struct {
	c  *Core
	in driver.Batching
	ws []W
}

func (b *batch) Put(key driver.Key, value driver.Value) error {
	b.ws = append(b.ws, W{Key: cp(key.Data), Val: cp(value.Data)})
	return b.in.Put(key, value)
}
func (b *batch) Delete(key driver.Key) error {
	b.ws = append(b.ws, W{Del: true, Key: cp(key.Data)})
	return b.in.Delete(key)
}
func (b *batch) Commit() error {
	b.c.mu.Lock()
	defer b.c.mu.Unlock()
	if !b.c.admit(Group{Kind: "commit", Writes: b.ws}) {
		return ErrCrashed
	}
	return b.in.Commit()
}
