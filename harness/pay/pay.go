// Package pay holds what the C30/C31 harnesses share: stubs for the chain
// client, the cash-out service, the cheque protocol and the p2p service
// (the repo's own mocks for them do not build), deterministic keys, and the
// construction of the REAL cheque store + traffic service on an in-memory
// leveldb state store.
package pay

import (
	"context"
	"crypto/ecdsa"
	"errors"
	"fmt"
	"io/ioutil"
	"math/big"
	"sync"

	"github.com/ethereum/go-ethereum/common"
	"github.com/ethereum/go-ethereum/core/types"
	"github.com/gauss-project/aurorafs/pkg/boson"
	"github.com/gauss-project/aurorafs/pkg/crypto"
	"github.com/gauss-project/aurorafs/pkg/logging"
	"github.com/gauss-project/aurorafs/pkg/p2p"
	"github.com/gauss-project/aurorafs/pkg/settlement/traffic"
	chequePkg "github.com/gauss-project/aurorafs/pkg/settlement/traffic/cheque"
	"github.com/gauss-project/aurorafs/pkg/statestore/leveldb"
	"github.com/gauss-project/aurorafs/pkg/storage"
	"github.com/gauss-project/aurorafs/pkg/subscribe"
)

const ChainID = int64(7)

// ---------------------------------------------------------------- chain stub

var (
	ErrStub    = errors.New("stub: chain unavailable")
	ErrDeliver = errors.New("stub: delivery failed")
	ErrSign    = errors.New("stub: signer failed")
	ErrCash    = errors.New("stub: cash-out failed")
)

// Chain is a stub of chain.Traffic. Every returned *big.Int is a fresh copy
// (as a real client decoding an RPC answer would produce).
type Chain struct {
	mu          sync.Mutex
	Bal         map[common.Address]*big.Int    // BalanceOf
	Trans       map[[2]common.Address]*big.Int // TransAmount(beneficiary, recipient)
	TransFail   map[[2]common.Address]bool
	Retrieved   []common.Address
	Transferred []common.Address
	ListFail    bool
	BalFail     map[common.Address]bool
	PaidOut     *big.Int
	PaidOutFail bool
	BalCalls    map[common.Address]int         // number of BalanceOf calls per account
	LastBal     map[common.Address]*big.Int    // last value BalanceOf answered successfully
	LastTrans   map[[2]common.Address]*big.Int // last value TransAmount answered successfully
	TransFailed map[[2]common.Address]bool     // the most recent TransAmount call for the pair failed
}

func NewChain() *Chain {
	return &Chain{Bal: map[common.Address]*big.Int{}, Trans: map[[2]common.Address]*big.Int{}, TransFail: map[[2]common.Address]bool{},
		PaidOut: big.NewInt(0), BalCalls: map[common.Address]int{}, BalFail: map[common.Address]bool{},
		LastBal: map[common.Address]*big.Int{}, LastTrans: map[[2]common.Address]*big.Int{}, TransFailed: map[[2]common.Address]bool{}}
}

func cp(x *big.Int) *big.Int {
	if x == nil {
		return big.NewInt(0)
	}
	return new(big.Int).Set(x)
}

func (c *Chain) TransferredAddress(common.Address) ([]common.Address, error) {
	c.mu.Lock()
	defer c.mu.Unlock()
	if c.ListFail {
		return nil, ErrStub
	}
	return append([]common.Address{}, c.Transferred...), nil
}
func (c *Chain) RetrievedAddress(common.Address) ([]common.Address, error) {
	c.mu.Lock()
	defer c.mu.Unlock()
	if c.ListFail {
		return nil, ErrStub
	}
	return append([]common.Address{}, c.Retrieved...), nil
}
func (c *Chain) BalanceOf(a common.Address) (*big.Int, error) {
	c.mu.Lock()
	defer c.mu.Unlock()
	c.BalCalls[a]++
	if c.BalFail[a] {
		return nil, ErrStub
	}
	c.LastBal[a] = cp(c.Bal[a])
	return cp(c.Bal[a]), nil
}
func (c *Chain) RetrievedTotal(common.Address) (*big.Int, error) { return big.NewInt(0), nil }
func (c *Chain) TransferredTotal(common.Address) (*big.Int, error) {
	c.mu.Lock()
	defer c.mu.Unlock()
	if c.PaidOutFail {
		return nil, ErrStub
	}
	return cp(c.PaidOut), nil
}
func (c *Chain) TransAmount(beneficiary, recipient common.Address) (*big.Int, error) {
	c.mu.Lock()
	defer c.mu.Unlock()
	k := [2]common.Address{beneficiary, recipient}
	if c.TransFail[k] {
		c.TransFailed[k] = true
		return nil, ErrStub
	}
	c.TransFailed[k] = false
	c.LastTrans[k] = cp(c.Trans[k])
	return cp(c.Trans[k]), nil
}
func (c *Chain) CashChequeBeneficiary(ctx context.Context, peer boson.Address, beneficiary, recipient common.Address, cumulativePayout *big.Int, signature []byte) (*types.Transaction, error) {
	return nil, errors.New("stub: not used")
}
func (c *Chain) Set(f func()) { c.mu.Lock(); f(); c.mu.Unlock() }
func (c *Chain) BalCallsOf(a common.Address) int {
	c.mu.Lock()
	defer c.mu.Unlock()
	return c.BalCalls[a]
}

// ---------------------------------------------------------------- cash-out stub

type Cashout struct {
	mu      sync.Mutex
	Waits   int // number of WaitForReceipt calls
	CashErr bool
	Status  uint64 // receipt status handed to the receipt loop
	WaitErr bool
	n       uint64
}

func (c *Cashout) CashCheque(ctx context.Context, peer boson.Address, beneficiary, recipient common.Address) (common.Hash, error) {
	c.mu.Lock()
	defer c.mu.Unlock()
	if c.CashErr {
		return common.Hash{}, ErrCash
	}
	c.n++
	return common.BigToHash(new(big.Int).SetUint64(c.n)), nil
}
func (c *Cashout) Set(f func()) { c.mu.Lock(); f(); c.mu.Unlock() }
func (c *Cashout) WaitForReceipt(ctx context.Context, h common.Hash) (uint64, error) {
	c.mu.Lock()
	defer c.mu.Unlock()
	c.Waits++
	if c.WaitErr {
		return 0, ErrStub
	}
	return c.Status, nil
}

// ---------------------------------------------------------------- protocol stub

type Emitted struct {
	Peer      boson.Address
	Recipient common.Address
	Issuer    common.Address
	Payout    *big.Int // copy taken at the time of the call
	Sig       []byte
	Delivered bool
}

type Protocol struct {
	mu   sync.Mutex
	Fail bool
	Log  []Emitted
}

func (p *Protocol) EmitCheque(ctx context.Context, peer boson.Address, c *chequePkg.SignedCheque) error {
	p.mu.Lock()
	defer p.mu.Unlock()
	p.Log = append(p.Log, Emitted{Peer: peer, Recipient: c.Recipient, Issuer: c.Beneficiary, Payout: cp(c.CumulativePayout),
		Sig: append([]byte{}, c.Signature...), Delivered: !p.Fail})
	if p.Fail {
		return ErrDeliver
	}
	return nil
}

// ---------------------------------------------------------------- p2p stub

type P2P struct {
	p2p.Service // nil: only Disconnect is reachable from the traffic service
	Disconnects []boson.Address
}

func (p *P2P) Disconnect(overlay boson.Address, reason string) error {
	p.Disconnects = append(p.Disconnects, overlay)
	return nil
}

// ---------------------------------------------------------------- signer with switchable failure

type Signer struct {
	Inner chequePkg.ChequeSigner
	Fail  bool
}

func (s *Signer) Sign(c *chequePkg.Cheque) ([]byte, error) {
	if s.Fail {
		return nil, ErrSign
	}
	return s.Inner.Sign(c)
}

// ---------------------------------------------------------------- keys

// Key i (0-based) is the fixed scalar i+1 repeated pattern; deterministic across runs.
func Key(i int) *ecdsa.PrivateKey {
	b := make([]byte, 32)
	for j := range b {
		b[j] = byte(0x11*(i+1) + j)
	}
	b[0] = 0x01
	return crypto.Secp256k1PrivateKeyFromBytes(b)
}

func AddrOf(k *ecdsa.PrivateKey) common.Address {
	a, err := crypto.NewDefaultSigner(k).EthereumAddress()
	if err != nil {
		panic(err)
	}
	return a
}

func ChequeSigner(k *ecdsa.PrivateKey) chequePkg.ChequeSigner {
	return chequePkg.NewChequeSigner(crypto.NewDefaultSigner(k), ChainID)
}

// ---------------------------------------------------------------- environment

type Notified struct {
	Peer   boson.Address
	Amount *big.Int
}

type Env struct {
	Logger   logging.Logger
	Store    storage.StateStorer
	SelfKey  *ecdsa.PrivateKey
	Self     common.Address
	Chain    *Chain
	Cash     *Cashout
	Proto    *Protocol
	P2P      *P2P
	Signer   *Signer
	CS       chequePkg.ChequeStore
	Book     traffic.Addressbook
	Svc      *traffic.Service
	Notifies []Notified
	nmu      sync.Mutex
}

// NewEnv builds the real cheque store, address book and traffic service for
// the node whose chain key is selfKey, over a fresh in-memory state store.
func NewEnv(selfKey *ecdsa.PrivateKey) *Env { return NewEnvWith(selfKey, nil) }

// NewEnvWith is NewEnv with the state store passed through wrap (e.g. a gate
// that controls the order of store accesses) before anything uses it.
func NewEnvWith(selfKey *ecdsa.PrivateKey, wrap func(storage.StateStorer) storage.StateStorer) *Env {
	lg := logging.New(ioutil.Discard, 0)
	st, err := leveldb.NewInMemoryStateStore(lg)
	if err != nil {
		panic(err)
	}
	if wrap != nil {
		st = wrap(st)
	}
	e := &Env{Logger: lg, Store: st, SelfKey: selfKey, Self: AddrOf(selfKey), Chain: NewChain(), Cash: &Cashout{Status: 1},
		Proto: &Protocol{}, P2P: &P2P{}}
	e.Signer = &Signer{Inner: ChequeSigner(selfKey)}
	e.Boot()
	return e
}

// Boot (re)creates cheque store, address book and service over the SAME state
// store: the model of a process restart. Init is not called.
func (e *Env) Boot() {
	e.CS = chequePkg.NewChequeStore(e.Store, e.Self, chequePkg.RecoverCheque, ChainID)
	e.Book = traffic.NewAddressBook(e.Store)
	e.Svc = traffic.New(e.Logger, e.Self, e.Store, e.Chain, e.CS, e.Cash, e.P2P, e.Book, e.Signer, e.Proto, ChainID, subscribe.NewSubPub())
	e.Svc.SetNotifyPaymentFunc(func(peer boson.Address, amount *big.Int) error {
		e.nmu.Lock()
		e.Notifies = append(e.Notifies, Notified{peer, cp(amount)})
		e.nmu.Unlock()
		return nil
	})
}

// ---------------------------------------------------------------- Coq emitters for big values

func CoqZBig(x *big.Int) string {
	if x.Sign() < 0 {
		return fmt.Sprintf("(%s)%%Z", x.String())
	}
	return fmt.Sprintf("%s%%Z", x.String())
}

func CoqNBig(x *big.Int) string { return fmt.Sprintf("%s%%N", x.String()) }

// Enc is an injective encoding of chain addresses and overlays as small
// numbers for the Coq cases (160/256-bit literals cost ~3 ms each to parse):
// the addresses of the harness universe get their index + 1, every other
// address met in a case (e.g. recovered from a forged signature) gets
// 100, 101, ... in order of first appearance. The model only ever compares
// addresses for equality, so any injective encoding is faithful.
type Enc struct {
	addr map[common.Address]uint64
	peer map[string]uint64
	next uint64
}

func NewEnc(universe []common.Address, peers []boson.Address) *Enc {
	e := &Enc{addr: map[common.Address]uint64{}, peer: map[string]uint64{}, next: 100}
	for i, a := range universe {
		e.addr[a] = uint64(i + 1)
	}
	for i, p := range peers {
		e.peer[p.String()] = uint64(i + 1)
	}
	return e
}

func (e *Enc) Addr(a common.Address) string {
	v, ok := e.addr[a]
	if !ok {
		v = e.next
		e.next++
		e.addr[a] = v
	}
	return fmt.Sprintf("%d%%N", v)
}

func (e *Enc) Overlay(p boson.Address) string {
	v, ok := e.peer[p.String()]
	if !ok {
		v = e.next
		e.next++
		e.peer[p.String()] = v
	}
	return fmt.Sprintf("%d%%N", v)
}
